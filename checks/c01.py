"""C01: str / ustr objects are faithful character-sequence values under any history (StrObj.tla)."""
import re, json, random
from vlib import build, objcheck
from vlib.core import tok, untok, log
from vlib.graph import Script, step_line
from vlib.replay import run_scripts

PROPERTY = "C01"
LEVEL = "model_checking"
LEVEL_TEXT = ("TLC explores StrObj.tla exhaustively in small scopes (two slots, every public str method as an action, all texts over a "
              "3-4 symbol alphabet up to length 4-6, indices and counts of either sign) checking the reference laws (searches in range / "
              "not-found = length, refused => unchanged, substr/splice/cmp/trim laws, slot independence); EVERY transition TLC generates is "
              "then executed on the str and on the ustr class (ASan build of the current tree) with the text of both slots, the return value "
              "and the representation invariants (NUL exactly at len, size > len, allocation >= size) compared after every step - from the "
              "shortest history, again after every constructor, again from new()+append_char - plus random walks and TLC trace validation "
              "of recorded histories with texts of 1..20000 characters through the stream/descriptor constructors (file, pipe, pipe fed in "
              "pieces, interrupted and short reads).")
LEVEL_NOTE = ("Bounded scope for the exhaustive part; beyond it sampled histories only. Memory safety is 'no ASan report on everything "
              "executed'. sprintf only through 4 format shapes; to_num/to_float only on digit texts (no floating point in TLA+); negative "
              "splice counts only where the as-built and the substr convention agree (DESIGN 8a E). Trusted: TLC, the projection in "
              "harness/str_replay.c, ASan.")
TECHNIQUE = "TLA+ spec + TLC exhaustive transition cover replayed on the implementation + TLC trace validation"
DESIGN_REF = "DESIGN.md section 6 C01, 8a Strings"
CLASSES = ["str", "ustr"]
INIT = {"a": {"live": False, "s": []}, "b": {"live": False, "s": []}}
MODULE = "MC_StrObj.tla"


# ---------------------------------------------------------------------------------------------------------------------
# finding keys: class.operation [where in the argument/state space] failure-kind/detail
def _lencls(n):
    return "len=0" if n == 0 else ("len=1" if n == 1 else "len>1")


def argclass(e):
    op = e["op"]
    sl = "b" if op.startswith("b_") else "a"
    base = op[2:] if sl == "b" else op
    pre = e["pre"][sl]
    s = pre["s"]
    n = len(s)
    parts = []
    if not pre["live"]:
        parts.append("absent")
    else:
        parts.append(_lencls(n))
    oth = e["pre"]["a" if sl == "b" else "b"]
    args = e["args"]
    if base in ("append", "prepend", "splice", "find", "cmp", "casecmp", "ncmp", "ncasecmp"):
        parts.append("other=NULL" if not oth["live"] else "other:" + _lencls(len(oth["s"])))
    if base.startswith("splice") or base.startswith("substr"):
        i, c = args[0], args[1]
        k = i + n if i < 0 else i
        if k < 0:
            r = "idx<0"
        elif k >= n:
            r = "idx=len" if k == n else "idx>len"
        elif k == 0:
            r = "idx=0"
        elif k == n - 1:
            r = "idx=len-1"
        else:
            r = "idx-mid"
        parts.append(("neg:" if i < 0 else "") + r)
        if 0 <= k < n:
            rest = n - k
            parts.append("cnt<0" if c < 0 else ("cnt=0" if c == 0 else ("cnt<rest" if c < rest else ("cnt=rest" if c == rest else "cnt>rest"))))
    for x in args:
        if isinstance(x, list):
            parts.append("arg" + _lencls(len(x)))
            break
    if base in ("index", "rindex") and pre["live"]:
        parts.append("present" if args[0] in s else "absent-char")
    if "_from_f" in base:
        parts.append("transport=%s" % args[-1])
    return ",".join(parts)


def keyfn(variant, e, f):
    d = ""
    if f.kind == "inv":
        d = re.sub(r"-?\d+", "N", f.got)
    elif f.kind in ("crash", "hang", "exit"):
        d = f.sig
    op = e["op"] if e else f.op
    return "%s.%s [%s] %s%s" % (variant, op, argclass(e) if e else "-", f.kind, ("/" + d) if d else "")


def harness(ctx):
    libdir, cflags = build.build_lib(ctx.repo)
    return build.build_harness("str_replay", ["str_replay.c"], libdir, cflags, ldflags=["-Wl,--wrap=read"])


# ---------------------------------------------------------------------------------------------------------------------
# extra cover passes: the same transitions again from other histories (other representations of the same text)
def _run_pass(ctx, g, exe, cls, scripts, tag, env=None, keysuffix=""):
    """scripts: list of Script (prefix + targets).  Runs them; a hard failure inside a chain re-queues the rest of the chain.
    Every failing step is charged to the edge executed at that step."""
    nscripts = nsteps = 0
    sid = max([s.sid for s in scripts] + [0])
    todo = scripts
    rounds = 0
    seen = set()
    nfail = 0
    while todo and rounds < 50:
        rounds += 1
        bysid = {s.sid: s for s in todo}
        fails, _, ns, nt = run_scripts(exe, [cls], [s.text(g) for s in todo], ctx.rundir, tag="%s-%s" % (cls, tag), env=env)
        nscripts += ns
        nsteps += nt
        again = []
        for f in fails:
            s = bysid.get(f.sid)
            if s is None:
                continue
            ix = s.edge_indexes()
            st = min(f.step, len(ix) - 1)
            e = g.edict(ix[st])
            nfail += 1
            key = keyfn(cls, e, f) + keysuffix
            if key not in seen:
                seen.add(key)
                ctx.report(key, "%s (%s pass): %s at step %d (%s) exp=%s got=%s %s" % (cls, tag, f.kind, st, step_line(e), f.exp, f.got, f.sig),
                           {"variant": cls, "harness_args": [cls], "script": s.describe(g, st), "failure": repr(f), "detail": f.detail,
                            "script_text": s.text(g), "env": env or {}})
            hard = f.kind in ("crash", "hang", "exit", "state", "inv")
            npre = len(s.prefix)
            if hard and st >= npre and st < len(ix) - 1:
                sid += 1
                again.append(Script(sid, list(s.prefix), s.targets[st - npre + 1:]))
        todo = again
    return nscripts, nsteps, nfail


def extra_passes(ctx, g, lp, exe, cls, label):
    init = tok(INIT)
    sid = [0]

    def mk(prefix, out):
        res = []
        node_loops = [i for i in out if g.is_loop(i)]
        moves = [i for i in out if not g.is_loop(i)]
        for c in range(0, len(node_loops), 400):
            sid[0] += 1
            res.append(Script(sid[0], list(prefix), node_loops[c:c + 400]))
        for i in moves:
            sid[0] += 1
            res.append(Script(sid[0], list(prefix), [i]))
        return res

    # pass 1: after EVERY constructor edge, every transition of the state it produces
    scripts = []
    nctor = 0
    for ci in g.out[init]:
        qk = g.post_key(ci)
        if ci not in lp.verified:
            continue
        nctor += 1
        scripts += mk([ci], g.out.get(qk, []))
    a1 = _run_pass(ctx, g, exe, cls, scripts, "after-each-constructor")
    # pass 2: from new() + append_char chain, every transition of every single-slot state over the alphabet
    idx = {}
    for i in range(g.n_edges()):
        head = g.line(i).split(" = ", 1)[0]            # "op args"
        if (head == "new " or head.startswith("append_char ")) and i in lp.verified:
            idx[(g.pre_key(i), head)] = i
    scripts = []
    nstates = 0
    for qk in list(g.nodes):
        st = untok(qk)
        if not st["a"]["live"] or st["b"]["live"] or not g.out.get(qk):
            continue
        cur = init
        path = []
        ok = True
        for head in ["new "] + ["append_char %d" % c for c in st["a"]["s"]]:
            i = idx.get((cur, head))
            if i is None:
                ok = False
                break
            path.append(i)
            cur = g.post_key(i)
        if not ok or cur != qk:
            continue
        nstates += 1
        scripts += mk(path, g.out[qk])
    a2 = _run_pass(ctx, g, exe, cls, scripts, "from-new-append_char")
    ctx.cov.setdefault("extra_passes", {})[label] = {
        "after_each_constructor": {"constructor_edges": nctor, "scripts": a1[0], "steps": a1[1], "failures": a1[2]},
        "from_new_plus_append_char": {"states": nstates, "scripts": a2[0], "steps": a2[1], "failures": a2[2]}}
    ctx.add("traces_validated_against_impl", a1[0] + a2[0])
    ctx.add("evaluations", a1[1] + a2[1])


def state_passes(ctx, g, lp, exe, cls, label):
    """What an earlier call leaves behind for the next one (tools/round5_note.md class 1), in direction (A):
    (1) the whole transition cover again with errno preset to ERANGE, and again to EINTR, before EVERY call ("left behind by an
        earlier call of the program"): every return value and text must be what the specification says, whatever errno was;
    (2) refused-first pairs: in every state, one representative of every refused call (return FALSE / ok=F / -1 / E) is followed
        by every other transition of that state - all self-loops interleaved (l x1 l x2 ...) and a seeded sample of the moves."""
    import zlib
    sid = [0]

    def chains(prefix, out):
        res = []
        node_loops = [i for i in out if g.is_loop(i)]
        moves = [i for i in out if not g.is_loop(i)]
        for c in range(0, len(node_loops), 400):
            sid[0] += 1
            res.append(Script(sid[0], list(prefix), node_loops[c:c + 400]))
        for i in moves:
            sid[0] += 1
            res.append(Script(sid[0], list(prefix), [i]))
        return res

    cov = {}
    base = []
    for qk, path in lp.path.items():
        if all(i in lp.verified for i in path):
            base += chains(path, [i for i in g.out.get(qk, []) if i in lp.verified])
    for en, name in ((34, "ERANGE"), (4, "EINTR")):
        a = _run_pass(ctx, g, exe, cls, base, "errno-" + name, env={"C01_ERRNO": str(en)}, keysuffix=" errno=" + name)
        cov["cover_with_errno_" + name] = {"scripts": a[0], "steps": a[1], "failures": a[2]}
        ctx.add("traces_validated_against_impl", a[0])
        ctx.add("evaluations", a[1])
    # (2) refused-first pairs
    cap = 30000 if ctx.tier == "quick" else 80000
    scripts, cands = [], []
    nrep = 0
    for qk, path in lp.path.items():
        outs = [i for i in g.out.get(qk, []) if i in lp.verified]
        loops = [i for i in outs if g.is_loop(i)]
        moves = [i for i in outs if not g.is_loop(i)]
        reps = {}
        for i in loops:
            head = g.line(i).split(" ", 1)
            op = head[0]
            ret = g.line(i).split(" = ", 1)[1].split(" ", 1)[0]
            if ret in ("F", "-1", "*") or ret.startswith("{ok=F"):
                reps.setdefault(op, i)
        for op in sorted(reps):
            l = reps[op]
            nrep += 1
            inter = []
            xs = loops
            if ctx.tier != "quick" and len(xs) > 60:       # thorough scopes: a seeded sample of the followers
                xs = sorted(xs, key=lambda x: zlib.crc32(("%d|%s|%s" % (ctx.seed, g.line(l), g.line(x))).encode()))[:60]
            for x in xs:
                inter += [l, x]
            for c in range(0, len(inter), 400):
                sid[0] += 1
                scripts.append(Script(sid[0], list(path), inter[c:c + 400]))
            for m in moves:
                cands.append((path, l, m))
    total = len(cands)
    if total > cap:
        cands.sort(key=lambda c: zlib.crc32(("%d|%s|%s" % (ctx.seed, g.line(c[1]), g.line(c[2]))).encode()))
        cands = cands[:cap]
    for path, l, m in cands:
        sid[0] += 1
        scripts.append(Script(sid[0], list(path), [l, m]))
    a = _run_pass(ctx, g, exe, cls, scripts, "refused-first", keysuffix=" after-refused")
    cov["refused_first_pairs"] = {"representatives": nrep, "move_pairs": len(cands), "move_pair_candidates": total,
                                  "scripts": a[0], "steps": a[1], "failures": a[2]}
    ctx.add("traces_validated_against_impl", a[0])
    ctx.add("evaluations", a[1])
    ctx.cov.setdefault("state_passes", {})[label] = cov


# ---------------------------------------------------------------------------------------------------------------------
# direction (B): long recorded histories validated by TLC
SIZES = [1, 4095, 4096, 4097, 8191, 8192, 8193, 20000]
CAP = 26000            # no operation is generated that could make a text longer than this
SMALL = [[], [97], [32], [104, 111], [32, 66], [120, 121, 122], [97, 66, 32], [9, 32], [113, 120, 106]]


def gen_history(rnd, nops, k):
    """A random program over the str API around large texts.  The mirror of the lengths is only used to pick interesting
    arguments; it is NOT the oracle (TLC evaluating StrObjTrace is)."""
    L = {"a": None, "b": None}          # mirror of the lengths (None = absent)
    prog = []

    def big_ctor(sl, re_):
        n = rnd.choice(SIZES) if prog else SIZES[k % len(SIZES)]
        if rnd.random() < 0.5:
            nl = rnd.choice([0, 0, n, max(1, n - 1), max(1, n // 2), min(n, 4096), min(n, 4097)])
            tr = rnd.choice([0, 1, 2])
            prog.append((sl, ("re" if re_ else "new") + "_from_fp_gen", [n, nl, tr]))
            L[sl] = n if nl == 0 else nl - 1
        else:
            nl = rnd.choice([0, 0, 0, max(1, n // 3)])
            tr = rnd.choice([0, 1, 2, 3])
            prog.append((sl, ("re" if re_ else "new") + "_from_fd_gen", [n, nl, tr]))
            L[sl] = n

    big_ctor("a", False)
    while len(prog) < nops:
        sl = "a" if (L["b"] is None or rnd.random() < 0.7) else "b"
        if L[sl] is None:
            if rnd.random() < 0.6:
                big_ctor(sl, False)
            else:
                t = rnd.choice(SMALL)
                prog.append((sl, "new_from_ptr", [t]))
                L[sl] = len(t)
            continue
        n = L[sl]
        ot = "b" if sl == "a" else "a"
        idxs = [0, 1, -1, n - 1, n, -n, -n - 1, n // 2, 4095, 4096, 4097, -4096, n - 4096, n - 4095, rnd.randint(-n - 2, n + 2)]
        i = rnd.choice(idxs)
        r = rnd.random()
        t = rnd.choice(SMALL)
        c = rnd.choice([97, 32, 66, 122, 9, 200])
        if r < 0.10:
            op = rnd.choice([("append_char", [c]), ("prepend_char", [c]), ("append_from_ptr", [t]), ("prepend_from_ptr", [t])])
            L[sl] = n + (1 if "char" in op[0] else len(t))
        elif r < 0.20:
            cnt = rnd.choice([0, 1, 2, 5, 4096, 4095, max(0, n - 1), n, n + 1, rnd.randint(0, n + 1)])
            if rnd.random() < 0.15:
                i, cnt = 0, -rnd.randint(1, 5)       # negative counts only where both conventions agree (idx 0)
            which = rnd.choice(["splice_from_ptr", "splice_from_ptr", "splice", "splice_from_ptr_null"])
            args = [i, cnt] + ([t] if which == "splice_from_ptr" else [])
            op = (which, args)
            add = len(t) if which == "splice_from_ptr" else ((L[ot] or 0) if which == "splice" else 0)
            if n + add > CAP:
                continue
            L[sl] = n + add                               # upper bound (the mirror never under-estimates a length)
        elif r < 0.27:
            op = (rnd.choice(["trim", "reverse", "upcase", "downcase", "reverse"]), [])
        elif r < 0.29:
            op = rnd.choice([("clear", [c]), ("sprintf_s", [t]), ("sprintf_d", [rnd.randint(-99, 99999)]), ("sprintf_lit", [t]),
                             ("sprintf_sd", [t, rnd.randint(-5, 500)]), ("done", [])])
            L[sl] = n if op[0] == "clear" else (0 if op[0] == "done" else 12)      # upper bounds
        elif r < 0.34:
            big_ctor(sl, True)
            continue
        elif r < 0.40:
            if L[ot] is None:
                op = ("dup", [])
                L[ot] = n
            else:
                op = rnd.choice([("append", []), ("prepend", []), ("find", []), ("cmp", []), ("casecmp", []),
                                 ("ncmp", [rnd.choice([0, 1, 4096, 4097, n, n + 1])]), ("ncasecmp", [rnd.choice([1, 4095, n])])])
                if op[0] in ("append", "prepend"):
                    if n + L[ot] > CAP:
                        continue
                    L[sl] = n + L[ot]
        elif r < 0.43:
            if L[ot] is not None and rnd.random() < 0.5:
                prog.append((ot, "del", []))
                L[ot] = None
                continue
            op = rnd.choice([("append_self", []), ("prepend_self", []), ("find_self", []), ("cmp_self", []), ("splice_self", [i, 1])])
            if op[0] in ("append_self", "prepend_self"):
                if n * 2 > CAP:
                    continue
                L[sl] = n * 2
            elif op[0] == "splice_self":
                if n * 2 > CAP:
                    continue
                L[sl] = n * 2      # upper bound
        elif r < 0.60:
            cnt = rnd.choice([0, 1, 2, 7, -1, -7, 4096, -4096, n, n + 5, rnd.randint(-n - 1, n + 1)])
            if cnt == 0 or abs(cnt) > 64:
                if rnd.random() < 0.8:
                    cnt = rnd.choice([1, 3, 9, 33])      # keep most logged pieces short
            op = (rnd.choice(["substr", "substr_to_ptr"]), [i, cnt])
        elif r < 0.80:
            op = rnd.choice([("index", [c]), ("rindex", [c]), ("find_from_ptr", [t]), ("find_from_ptr", [[rnd.randint(97, 122), rnd.randint(97, 122)]]),
                             ("len", []), ("index", [rnd.randint(97, 122)]), ("rindex", [rnd.randint(97, 122)])])
        else:
            op = rnd.choice([("cmp_with_ptr", [t]), ("casecmp_with_ptr", [t]), ("ncmp_with_ptr", [t, rnd.choice([0, 1, 2, 5])]),
                             ("ncasecmp_with_ptr", [t, rnd.choice([0, 1, 3])]), ("cmp_with_ptr_null", []), ("len", [])])
        prog.append((sl, op[0], op[1]))
    return prog


# ---------------------------------------------------------------------------------------------------------------------
# deterministic families of direction (B) (tools/round3_note.md): size sweeps across thresholds, long outputs, strings with
# large spare capacity, the full byte range, stale errno.  All of them are recorded on the real classes with the per-call
# heap account on (C01_OWN_HEAP) and validated by TLC against StrObjTrace like the random histories.
POW2 = [8, 16, 32, 64, 128, 256, 512, 1024, 2048, 4096, 8192]
CHUNKISH = [4096 - 32, 4096 - 16, 4096 - 8, 8192 - 32, 8192 - 16, 8192 - 8]      # chunk sizes less an allocator overhead


def gch(k):
    """k-th (1-based) character of the generated contents (GenContent of StrObjTrace.tla, gen_content of the harness)."""
    return 97 + ((k * 7 + k // 61) % 26)


def fam_growth(tier):
    """Grow a string by single steps of every growing operation through EVERY length up to 8200 (the harness checks the
    representation after each call inside a burst); the text is observed by TLC just before, at and after each threshold."""
    land = sorted(set([16, 128, 1024, 4096, 8192] + CHUNKISH if tier == "quick" else POW2 + CHUNKISH + [127, 255]))
    out = []
    for op, unit, arg in (("append_char", 1, [120]), ("prepend_char", 1, [120]), ("append_from_ptr", 1, [[121]]),
                          ("prepend_from_ptr", 1, [[121]]), ("append", 1, []), ("prepend", 1, []), ("append_from_ptr", 3, [[97, 66, 200]]),
                          ("prepend_from_ptr", 7, [[49, 50, 51, 52, 53, 54, 55]])):
        h = [("a", "new", [])]
        if op in ("append", "prepend"):
            h.append(("b", "new_from_ptr", [[122]]))
        cur = 0
        for b in land:
            for target in (b - 1, b, b + 1):
                k = (target - cur) // unit
                if k <= 0:
                    continue
                h.append(("a", op + "_n", [k] + arg))
                cur += k * unit
                h.append(("a", "len", []))
        h.append(("a", "dup" if op not in ("append", "prepend") else "len", []))
        out.append(("growth:" + op, h))
    return out


def fam_sweep(tier):
    """Every operation of the model once at sizes n-1, n, n+1 around each threshold, position classes first/last/absent,
    long sprintf outputs into a string that already owns a buffer and into a fresh one."""
    if tier == "quick":
        sizes = [15, 16, 17, 1023, 1024, 1025, 4079, 4080, 4081, 4095, 4096, 4097, 8192]
    else:
        sizes = sorted(set([x for n in (16, 64, 256, 1024, 4096, 8192, 4096 - 16, 8192 - 16) for x in (n - 1, n, n + 1)] + [8, 32, 128, 512, 2048, 20480]))
    out = []
    for L in sizes:
        h = [("a", "new_from_fd_gen", [L, 0, 0]), ("a", "len", []),
             ("a", "index", [gch(1)]), ("a", "index", [35]), ("a", "rindex", [gch(L)]), ("a", "rindex", [35]),
             ("a", "find_from_ptr", [[gch(L - 1), gch(L)]]), ("a", "find_from_ptr", [[35]]), ("a", "find_from_ptr", [[gch(1), gch(2), gch(3)]]),
             ("a", "substr", [-1, 1]), ("a", "substr", [0, 0]), ("a", "substr_to_ptr", [L - 2, 5]), ("a", "substr", [L, 1]),
             ("a", "substr_to_ptr", [-L, L + 3]), ("a", "cmp_with_ptr", [[gch(1)]]), ("a", "ncmp_with_ptr", [[gch(1), gch(2)], 2]),
             ("a", "dup", []), ("a", "cmp", []), ("a", "ncmp", [L]), ("a", "find", []),
             ("b", "append_char", [33]), ("a", "cmp", []), ("a", "ncmp", [L]), ("a", "ncmp", [L + 1]), ("a", "casecmp", []), ("a", "ncasecmp", [L + 1]),
             ("a", "find", []), ("b", "find", []), ("b", "upcase", []), ("a", "casecmp", []), ("a", "cmp", []),
             ("b", "clear", [122]), ("b", "prepend_char", [33]), ("b", "splice_from_ptr", [0, 1, []]), ("b", "del", []),
             ("a", "append_char", [33]), ("a", "prepend_char", [33]), ("a", "splice_from_ptr", [L // 2, 1, [120, 121]]),
             ("a", "splice_from_ptr", [-1, 1, []]), ("a", "splice_from_ptr", [0, L, [65]]), ("a", "re_from_fd_gen", [L, 0, 1]),
             ("a", "upcase", []), ("a", "downcase", []), ("a", "reverse", []),
             ("a", "prepend_from_ptr", [[32, 32]]), ("a", "append_from_ptr", [[32, 9]]), ("a", "trim", []),
             ("a", "dup", []), ("b", "reverse", []), ("a", "append", []), ("a", "re_from_fp_gen", [L + 1, L + 1, 0]), ("a", "prepend", []), ("b", "del", []),
             ("a", "clear", [113]),
             ("a", "sprintf_s_gen", [L]), ("a", "sprintf_s_gen", [L + 1]), ("a", "sprintf_sd", [[97], 5]), ("a", "sprintf_s_gen", [L - 1]),
             ("a", "done", []), ("a", "sprintf_s_gen", [L]), ("a", "sprintf_lit", [[]]), ("a", "sprintf_s_gen", [L]), ("a", "del", [])]
        out.append(("sweep", h))
    return out


def fam_slack(tier):
    """Strings with large spare capacity (new_from_buff of a short text in a big buffer, slack accumulated by appending objects
    that carry slack): dup, then the in-place mutators that trust `size`, on the copy and on the original."""
    out = []
    pairs = [(5, 5000), (100, 9000), (2, 2 + 4095), (2, 2 + 4096), (2, 2 + 4097), (2, 2 + 4098), (3, 64), (1, 1 + 1024)]
    if tier != "quick":
        pairs += [(7, 7 + n + d) for n in POW2 for d in (-1, 0, 1)] + [(4000, 20000)]
    for m, size in pairs:
        h = [("a", "new_from_buff_gen", [m, size]), ("a", "dup", []),
             ("b", "append_char_n", [60, 120]), ("b", "prepend_char_n", [3, 33]), ("b", "clear", [122]), ("b", "splice_from_ptr", [0, 1, [97, 98, 99, 100]]),
             ("b", "append_from_ptr", [[65]]), ("b", "del", []),
             ("a", "append_char_n", [60, 120]), ("a", "dup", []), ("b", "prepend_char", [33]), ("b", "clear", [113]), ("a", "clear", [119]),
             ("b", "del", []), ("a", "splice_from_ptr", [0, 2, []]), ("a", "dup", []), ("b", "append_char_n", [10, 66]), ("a", "del", []),
             ("b", "dup", []), ("a", "prepend_char_n", [10, 66]), ("a", "clear", [67])]
        out.append(("slack", h))
    # slack accumulated by append(object with slack): size grows by other->size - 1 per call
    for k in (30, 60):
        h = [("a", "new_from_ptr", [[97]]), ("b", "new_from_buff_gen", [3, 200]), ("a", "append_n", [k]), ("b", "del", []), ("a", "dup", []),
             ("b", "append_char_n", [100, 120]), ("b", "clear", [122]), ("b", "prepend_char", [33]), ("b", "del", []),
             ("b", "new_from_buff_gen", [2, 300]), ("a", "prepend_n", [k]), ("b", "del", []), ("a", "dup", []), ("b", "prepend_char_n", [50, 33]),
             ("b", "clear", [121])]
        out.append(("slack", h))
    return out


def fam_values(tier):
    """Every byte value 1..255 as first, inner and last character of the text and as argument of every operation that takes
    a character or a text."""
    out = []
    for lo in range(1, 256, 32):
        h = [("a", "new", [])]
        for c in range(lo, min(lo + 32, 256)):
            t = [c, 97, c, 66, c]
            h += [("a", "re_from_ptr", [t]), ("a", "index", [c]), ("a", "rindex", [c]), ("a", "index", [97]), ("a", "find_from_ptr", [[c, 66]]),
                  ("a", "cmp_with_ptr", [[c]]), ("a", "cmp_with_ptr", [[c, 97, c, 66, c]]), ("a", "casecmp_with_ptr", [[c, 65, c, 98, c]]),
                  ("a", "ncmp_with_ptr", [[c, 97, 1], 2]), ("a", "ncasecmp_with_ptr", [[c, 65, 1], 2]),
                  ("a", "upcase", []), ("a", "downcase", []), ("a", "reverse", []), ("a", "trim", []), ("a", "substr", [0, 1]), ("a", "substr_to_ptr", [-1, 1]),
                  ("a", "re_from_buff", [[c, 0, c], 3]), ("a", "append_char", [c]), ("a", "prepend_char", [c]), ("a", "clear", [c]),
                  ("a", "splice_from_ptr", [1, 1, [c]]), ("a", "sprintf_s", [[c, 32, c]]), ("a", "re_from_fd", [[c, 98, c], 0]),
                  ("a", "re_from_fp", [[c, 98, c, 10, c], 1]), ("a", "append_from_ptr", [[c]]), ("a", "prepend_from_ptr", [[c]]), ("a", "trim", []),
                  ("a", "len", [])]
            if c != 37:
                h.append(("a", "sprintf_lit", [[c, 97]]))
        out.append(("values", h))
    return out


# extreme numeric arguments (tools/round4_note.md class 1): every integer parameter of every operation, crossed with small non-zero
# values of the other integer parameters and three object sizes.  The call receives the exact 64-bit value; the specification
# receives its class (StrObjTrace.tla: XV) - any |value| >= 2^30 is "huge" for texts shorter than 2^28.
EXTREME = [2**31 - 1, 2**31 - 4, 2**31, 2**32 - 1, 2**32, 2**32 + 2, 3 * 2**32 + 1, 2**40, 2**62, 2**63 - 1, 2**63 - 2, 2**63 - 5,
           -(2**31), -(2**31) - 1, -(2**32) - 2, -(2**40), -(2**63), -(2**63) + 1]


def xarg(v):
    small = abs(v) < 2**30
    return {"dec": str(v), "v": v if small else 0, "w": 0 if small else (1 if v > 0 else -1)}


def limbs(k):
    m = abs(k)
    return [k < 0, m // 10**18, (m // 10**9) % 10**9, m % 10**9]


def fam_extreme(tier):
    out = []
    for L in (1, 9, 4100):
        shared = [gch(k) for k in range(1, min(L, 7))]              # a prefix of the text, then a different character
        other = shared + [90]
        h = [("a", "new_from_fd_gen", [L, 0, 0]), ("b", "new_from_ptr", [other])]
        smalls = sorted(set([1, 2, -1, L - 1, -L] if L > 1 else [1, -1, 2]) - {0})
        pairs = [(e, o) for e in EXTREME for o in smalls] + [(o, e) for e in EXTREME for o in smalls] + \
                [(e1, e2) for e1 in (2**63 - 1, -(2**63), 2**32 + 1) for e2 in (2**63 - 1, -(2**63), 2**32 + 1, 2**31)]
        for op, extra in (("substr_x", []), ("substr_to_ptr_x", []), ("splice_from_ptr_x", [[120, 121]]), ("splice_x", []),
                          ("splice_from_ptr_null_x", []), ("splice_self_x", [])):
            for i, c in pairs:
                if L > 100 and op.startswith("substr") and abs(i) < 2**30 and not (L - 8 <= (i if i >= 0 else i + L) < L):
                    continue                                            # long pieces of the long text are not worth logging
                h.append(("a", op, [xarg(i), xarg(c)] + extra))
            h.append(("a", "len", []))
        ns = [e for e in EXTREME if e >= 0] + list(range(0, 9)) + [2**32 + k for k in range(0, 8)] + [5 * 2**32 + 3, 2**33, 2**48 + 1]
        for kind in ("ncmp", "ncasecmp"):
            for n in ns:
                h += [("a", kind + "_with_ptr_x", [other, xarg(n)]), ("a", kind + "_x", [xarg(n)]), ("b", kind + "_x", [xarg(n)]),
                      ("a", kind + "_self_x", [xarg(n)]), ("a", kind + "_with_ptr_null_x", [xarg(n)]),
                      ("a", kind + "_with_ptr_x", [[UP(c) for c in other] if kind == "ncasecmp" else shared, xarg(n)])]
        out.append(("extreme", h))
    nums = [2**63 - 1, -(2**63), -(2**63) + 1, 2**31, 2**32, -(2**31) - 1, 10**9, 10**9 - 1, -(10**9), 10**18, 10**18 - 1, 10**18 + 1,
            1000000001000000001, 2**62, 4 * 10**18, -1, 0, 7]
    ints = [2**31 - 1, -(2**31), -(2**31) + 1, 10**9, -(10**9), 2 * 10**9, 999999999, 65536]
    h = [("a", "new_from_num_x", limbs(nums[0]))]
    for k in nums[1:]:
        h += [("a", "re_from_num_x", limbs(k)), ("a", "len", [])]
    for k in ints:
        h += [("a", "sprintf_d_x", limbs(k)), ("a", "len", [])]
    for k in nums[:6]:
        h += [("b", "new_from_num_x", limbs(k)), ("a", "cmp", []), ("b", "del", [])]
    out.append(("extreme", h))
    return out


def UP(c):
    return c - 32 if 97 <= c <= 122 else c


BIGDIGITS = [57] * 22            # a decimal (and hexadecimal) numeral far beyond size_t: to_num overflows, strtoul leaves errno = ERANGE
# what refused / failed calls leave behind (tools/round5_note.md class 1): this block is inserted behind the first constructor of
# EVERY deterministic family - calls the specification refuses or answers with its fail-soft value, and a conversion that overflows
PRELUDE = [("a", "substr", [99999, 1]), ("a", "splice_from_ptr", [-99999, 0, []]), ("a", "append", []), ("a", "prepend", []), ("a", "find", []),
           ("a", "cmp", []), ("a", "ncmp_with_ptr_null", [1]), ("b", "new_from_ptr", [BIGDIGITS]), ("b", "to_num", [10]), ("b", "to_num", [16]),
           ("b", "substr_to_ptr", [22, 1]), ("b", "del", [])]


def fam_numbers(tier):
    """The number conversions on every kind of valid text, before and after conversions that overflow (on the same object, on the
    other object), each followed by every kind of action."""
    d = lambda t: [ord(c) for c in t]
    every = [("a", "len", []), ("a", "index", [50]), ("a", "rindex", [49]), ("a", "find_from_ptr", [d("2")]), ("a", "substr", [0, 1]),
             ("a", "substr_to_ptr", [-1, 1]), ("a", "cmp_with_ptr", [d("12")]), ("a", "casecmp_with_ptr", [d("12")]), ("a", "ncmp_with_ptr", [d("13"), 1]),
             ("a", "find_self", []), ("a", "cmp_self", []), ("a", "find_from_ptr_own", [1]), ("a", "cmp_with_ptr_own", [0]),
             ("a", "to_num", [10]), ("a", "to_num", [16]), ("a", "to_float", [])]
    h = [("a", "new_from_ptr", [d("12")])] + every
    h += [("b", "new_from_ptr", [BIGDIGITS]), ("b", "to_num", [10])] + every + [("b", "to_num", [16])] + every
    h += [("b", "len", []), ("a", "cmp", []), ("a", "find", []), ("b", "find", []), ("b", "to_num", [10]), ("a", "to_num", [10]), ("b", "del", [])]
    for t in ("0", "7", "999999999", "000000012", "4294967", "1a", "7fffff", "FFFFFFF", "AbCd", ""):
        h += [("a", "re_from_ptr", [d(t)])]
        if all(c in "0123456789" for c in t):
            h += [("a", "to_num", [10]), ("a", "to_float", [])]
        if len(t) <= 7:
            h += [("a", "to_num", [16])]
        h += [("a", "dup", []), ("b", "re_from_ptr", [BIGDIGITS]), ("b", "to_num", [16])] + ([("a", "to_num", [16])] if len(t) <= 7 else []) + [("b", "del", [])]
    # the overflow on the object itself, then a valid text in the same object through every constructor
    for ctor, args in (("re_from_ptr", [d("42")]), ("re_from_num", [42]), ("re_from_buff", [d("42") + [0, 55], 4]), ("re_from_fd", [d("42"), 0]),
                       ("re_from_fp", [d("42") + [10, 55], 1]), ("re_from_num_x", limbs(999999999))):
        h += [("a", "re_from_ptr", [BIGDIGITS]), ("a", "to_num", [10]), ("a", ctor, args), ("a", "to_num", [10]), ("a", "to_float", [])]
        if ctor != "re_from_num_x":            # 9 hexadecimal digits are outside the conversions the model defines (32-bit TLC integers)
            h += [("a", "to_num", [16])]
    for m in (("append_char", [51]), ("prepend_char", [49]), ("splice_from_ptr", [0, 1, d("9")]), ("sprintf_d", [123]), ("sprintf_s", [d("77")]),
              ("reverse", []), ("trim", []), ("clear", [56]), ("append_self", []), ("done", [])):
        h += [("a", "re_from_ptr", [BIGDIGITS]), ("a", "to_num", [16]), ("a", "re_from_ptr", [d("21")]), ("a", m[0], m[1]), ("a", "to_num", [10]), ("a", "to_float", [])]
    return [("numbers", h)]


def fam_empty(tier):
    """The empty text in both of its representations (no buffer / a buffer holding only the terminator), reached in every way, as the
    receiver and as the object argument of every operation (tools/round5_note.md class 2), and the source-inside-receiver shapes."""
    ways = [[("b", "new", [])], [("b", "new_from_ptr", [[]])], [("b", "new_from_ptr_null", [])], [("b", "new_from_buff", [[], 0])],
            [("b", "new_from_buff", [[0, 97], 2])], [("b", "new_from_buff_null", [3])], [("b", "new_from_buff_null", [0])], [("b", "new_from_fd", [[], 0])],
            [("b", "new_from_fd", [[], 3])], [("b", "new_from_fp", [[], 0])], [("b", "new_from_fp", [[10, 97], 1])],
            [("b", "new_from_ptr", [[32, 9]]), ("b", "trim", [])], [("b", "new_from_ptr", [[97]]), ("b", "done", [])],
            [("b", "new_from_ptr", [[97, 98]]), ("b", "splice_from_ptr", [0, 2, []])], [("b", "new_from_ptr", [[97]]), ("b", "sprintf_lit", [[]])],
            [("b", "new_from_ptr", [[97]]), ("b", "sprintf_s", [[]])], [("b", "new_from_ptr", [[97]]), ("b", "re", [])],
            [("b", "new_from_buff_gen", [1, 5000]), ("b", "splice_from_ptr", [0, 1, []])], [("b", "new_from_num", [5]), ("b", "re_from_ptr", [[]])]]
    queries = [("b", "len", []), ("b", "find", []), ("b", "cmp", []), ("b", "casecmp", []), ("b", "ncmp", [2]), ("b", "ncasecmp", [0]),
               ("b", "index", [97]), ("b", "rindex", [97]), ("b", "find_from_ptr", [[]]), ("b", "find_from_ptr", [[97]]), ("b", "substr", [0, 1]),
               ("b", "substr_to_ptr", [-1, 0]), ("b", "to_num", [10]), ("b", "to_num", [16]), ("b", "to_float", []), ("b", "cmp_with_ptr", [[]]),
               ("b", "cmp_with_ptr", [[97]]), ("b", "casecmp_with_ptr", [[]]), ("b", "ncmp_with_ptr", [[97], 0]), ("b", "cmp_self", []),
               ("b", "ncasecmp_self", [1]), ("b", "find_self", []), ("b", "find_from_ptr_own", [0]), ("b", "cmp_with_ptr_own", [0]),
               ("b", "cmp_with_ptr_null", [])]
    keep = [("b", "trim", []), ("b", "reverse", []), ("b", "upcase", []), ("b", "downcase", []), ("b", "clear", [120]),
            ("b", "splice_from_ptr", [0, 0, [97]]), ("b", "splice", [0, 0]), ("b", "splice_self", [0, 0]), ("b", "append_self", []), ("b", "prepend_self", []),
            ("b", "append_from_ptr", [[]]), ("b", "prepend_from_ptr", [[]]), ("b", "sprintf_lit", [[]])]
    out = []
    for actor in ([("a", "new_from_ptr", [[97, 66, 32]])], [("a", "new", [])], [("a", "new_from_ptr", [[]])], [("a", "new_from_buff", [[0], 1])]):
        h = list(actor)
        for way in ways:
            h += way
            h += [("a", "append", []), ("a", "prepend", []), ("a", "splice", [0, 0]), ("a", "splice", [-1, 1]), ("a", "find", []), ("a", "cmp", []),
                  ("a", "casecmp", []), ("a", "ncmp", [1]), ("a", "ncasecmp", [0])]
            h += queries + keep + queries[:6]
            h += [("b", "append", []), ("b", "done", []), ("b", "prepend", []), ("b", "del", []), ("a", "dup", []), ("b", "append_char", [120]), ("b", "del", []),
                  ("a", "re" + actor[0][1][3:], actor[0][2])]
        out.append(("empty", h))
    return out


def families(tier):
    fams = fam_growth(tier) + fam_sweep(tier) + fam_slack(tier) + fam_values(tier) + fam_extreme(tier) + fam_numbers(tier) + fam_empty(tier)
    return [(l, h[:1] + PRELUDE + h[1:]) for l, h in fams]


def opname(sl, bop):
    return bop if sl == "a" else "b_" + bop


def history_text(k, h):
    return "S %d\n%s\nE\n" % (k + 1, "\n".join("%s %s = ? ?" % (opname(sl, bop), " ".join(tok(x) for x in args)) for sl, bop, args in h))


def record(ctx, exe, cls, hist, texts, errno_preset=0, raw=False, debug_level=0):
    """Runs the histories on one class in record mode (per-call heap account on).  Returns (events, index, fails): the NDJSON
    events for StrObjTrace (executions separated by reset events) and, per event, (script id, step).  raw=True: only the
    recorded lines (for the purity comparison under a stale errno)."""
    env = {"VH_NO_HEAP": "1", "VH_WATCHDOG": "120", "C01_OWN_HEAP": "1"}
    if errno_preset:
        env["C01_ERRNO"] = str(errno_preset)
    if debug_level:
        env["C01_DEBUG_LEVEL"] = str(debug_level)      # the runtime debug level is a process-wide switch: results must not depend on it
    fails, recs, ns, nt = run_scripts(exe, [cls], texts, ctx.rundir, jobs=4, tag="rec-%s-%d" % (cls, errno_preset), env=env)
    if raw:
        return sorted(recs), fails
    bad = set(f.sid for f in fails)
    by = {}
    for sid, step, ret, state in recs:
        by.setdefault(sid, []).append((step, ret, state))
    events, index = [], []
    for sid in sorted(by):
        if sid in bad:
            continue
        events.append({"op": "reset", "sl": "a", "bop": "reset", "args": [], "ret": True, "same": False, "post": INIT})
        index.append((sid, -1))
        for step, ret, state in sorted(by[sid]):
            sl, bop, args = hist[sid - 1][step]
            ev = {"op": opname(sl, bop), "sl": sl, "bop": bop, "args": args, "ret": untok(ret), "same": state == "="}
            if state != "=":
                ev["post"] = untok(state)
            events.append(ev)
            index.append((sid, step))
    return events, index, fails


def _fail_key(cls, label, hist, f):
    sl, bop, args = hist[f.sid - 1][f.step] if f.step < len(hist[f.sid - 1]) else ("a", f.op, [])
    d = re.sub(r"-?\d+", "N", f.got) if f.kind in ("inv", "heap") else f.sig
    return sl, bop, args, "trace[%s] %s.%s %s%s" % (label.split(":")[0], cls, bop, f.kind, ("/" + d) if d else "")


def trace_validation(ctx, exe):
    from vlib import trace
    rnd = random.Random(ctx.seed)
    nexec, nops = (8, 50) if ctx.tier == "quick" else (16, 160)
    labelled = [("random", gen_history(rnd, nops if k % 4 else max(50, nops // 2), k)) for k in range(nexec)] + families(ctx.tier)
    labels = [l for l, h in labelled]
    hist = [h for l, h in labelled]
    texts = [history_text(k, h) for k, h in enumerate(hist)]
    nfam = len(hist) - nexec
    total = 0
    maxlen = 0
    purity = 0
    for cls in CLASSES:
        events, index, fails = record(ctx, exe, cls, hist, texts)
        for f in fails:
            sl, bop, args, key = _fail_key(cls, labels[f.sid - 1], hist, f)
            ctx.report(key, "%s: recorded run (%s) failed at step %d (%s %s): %r" % (cls, labels[f.sid - 1], f.step, opname(sl, bop), json.dumps(args)[:80], f),
                       {"variant": cls, "harness_args": [cls], "script_text": texts[f.sid - 1], "failure": repr(f), "detail": f.detail,
                        "trace_family": labels[f.sid - 1]})
        if not events:
            continue
        for ev in events:
            if "post" in ev:
                maxlen = max(maxlen, len(ev["post"]["a"]["s"]), len(ev["post"]["b"]["s"]))
        ok, pos, path = trace.validate(ctx, "StrObjTrace.tla", "StrObjTrace.cfg", events, tag=cls, timeout=1500)
        total += pos
        if not ok:
            sid, step = index[pos] if pos < len(index) else (None, None)
            evb = events[pos] if pos < len(events) else None
            brief = dict(evb or {})
            brief.pop("post", None)
            ctx.report("trace-rejected[%s] %s.%s" % (labels[sid - 1].split(":")[0] if sid else "?", cls, evb["bop"] if evb else "?"),
                       "%s: TLC rejects the recorded execution (%s) at event %d (script %s step %s): %s" % (
                           cls, labels[sid - 1] if sid else "?", pos, sid, step, json.dumps(brief)[:300]),
                       {"variant": cls, "harness_args": [cls], "script_text": texts[sid - 1] if sid else "", "event_index": pos,
                        "event": {k: (v if k != "post" else "(omitted)") for k, v in (evb or {}).items()}})
        else:
            ctx.sample({"variant": cls, "trace_events": len(events), "longest_text": maxlen,
                        "first_events": [json.dumps({k: v for k, v in e.items() if k != "post"})[:140] for e in events[1:4]]})
        # purity under stale state: the deterministic families recorded again with errno preset to EINTR / ERANGE before
        # every call must give exactly the same recording (no TLC needed: the first recording is the validated one)
        ftexts = texts[nexec:]
        base, bfails = record(ctx, exe, cls, hist[nexec:], ftexts, raw=True)
        for en, name, dl in ((4, "EINTR,debug_level=1", 1), (34, "ERANGE,debug_level=5", 5)) if not bfails else ():
            again, afails = record(ctx, exe, cls, hist[nexec:], ftexts, errno_preset=en, raw=True, debug_level=dl)
            purity += len(again)
            for f in afails:
                sl, bop, args, key = _fail_key(cls, labels[f.sid - 1], hist, f)      # script ids are global (history_text)
                ctx.report(key + " errno=" + name, "%s: run with errno preset to %s fails at step %d (%s): %r" % (cls, name, f.step, opname(sl, bop), f),
                           {"variant": cls, "harness_args": [cls], "script_text": texts[f.sid - 1], "failure": repr(f), "detail": f.detail,
                            "trace_family": labels[f.sid - 1], "errno": en, "debug_level": dl})
            if not afails and again != base:
                k = next((i for i in range(min(len(again), len(base))) if again[i] != base[i]), 0)
                sid, step = base[k][0], base[k][1]
                sl, bop, args = hist[sid - 1][step]
                ctx.report("impure[%s] %s.%s errno=%s" % (labels[sid - 1].split(":")[0], cls, bop, name),
                           "%s: %s gives a different result when errno is %s before the call: %s vs %s" % (
                               cls, opname(sl, bop), name, str(base[k][2:])[:120], str(again[k][2:])[:120]),
                           {"variant": cls, "harness_args": [cls], "script_text": texts[sid - 1], "trace_family": labels[sid - 1], "errno": en, "debug_level": dl})
    ctx.add("trace_events_validated", total)
    ctx.add("traces_validated_against_impl", len(hist) * len(CLASSES))
    ctx.cov["trace_longest_text"] = maxlen
    ctx.cov["trace_families"] = {"random": nexec, "deterministic": nfam, "by_family": {l: sum(1 for x in labels if x.split(":")[0] == l)
                                                                                   for l in ("growth", "sweep", "slack", "values", "extreme", "numbers", "empty")},
                                 "stale_errno_purity_records": purity}


def heap_families(ctx):
    """For C06 (every allocation is released exactly once): the deterministic families of direction (B) - size sweeps, long
    sprintf outputs into strings that already own a buffer, dup/append of strings with large spare capacity, re-initialisation -
    executed on str and ustr with the per-call heap account of harness/str_replay.c (everything allocated since the script began
    must be owned by a live string after every call, and nothing may be left at the end).  No value oracle here (C01 has it)."""
    exe = harness(ctx)
    labelled = families(ctx.tier)
    hist = [h for l, h in labelled]
    texts = [history_text(k, h) for k, h in enumerate(hist)]
    steps = 0
    for cls in CLASSES:
        recs, fails = record(ctx, exe, cls, hist, texts, raw=True)
        steps += len(recs)
        for f in fails:
            sl, bop, args, key = _fail_key(cls, labelled[f.sid - 1][0], hist, f)
            ctx.report(key, "%s: heap-accounted run (%s) failed at step %d (%s %s): %r" % (cls, labelled[f.sid - 1][0], f.step, opname(sl, bop), json.dumps(args)[:80], f),
                       {"variant": cls, "harness_args": [cls], "script_text": texts[f.sid - 1], "failure": repr(f), "detail": f.detail,
                        "trace_family": labelled[f.sid - 1][0], "check": "c01"})
    ctx.cov["str_heap_families"] = {"scripts": len(hist) * len(CLASSES), "steps": steps}
    ctx.add("traces_validated_against_impl", len(hist) * len(CLASSES))
    ctx.add("evaluations", steps)


def run(ctx):
    exe = harness(ctx)
    cfgs = ["StrObj_quick.cfg"] if ctx.tier == "quick" else ["StrObj_thorough.cfg", "StrObj_thorough2.cfg"]
    walks = (200, 40) if ctx.tier == "quick" else (3000, 60)
    pairs = 60000 if ctx.tier == "quick" else 300000      # 2-step cover (hidden capacity / stale bytes depend on the history)
    for cfg in cfgs:
        g, res = objcheck.tlc_graph(ctx, MODULE, cfg, workers=4, timeout=3000)
        for cls in CLASSES:
            lp = objcheck.replay_cover(ctx, g, [tok(INIT)], exe, cls, [cls], keyfn, walks=walks, pairs=pairs)
            label = "%s:%s" % (cls, cfg)
            ctx.cov["replay"][label] = ctx.cov["replay"].pop(cls)
            extra_passes(ctx, g, lp, exe, cls, label)
            if not ctx.violations:
                state_passes(ctx, g, lp, exe, cls, label)
        del g
    trace_validation(ctx, exe)
    ctx.cov["exhaustive"] = True
    ctx.cov["rule"] = ("every transition TLC generates for StrObj in the bounded scope is executed once per class (str, ustr) as the last step "
                       "of a script whose prefix consists of already verified transitions; texts of both slots, return value and "
                       "representation invariants are compared after every step; the transitions are executed again after every "
                       "constructor and from new()+append_char; plus random walks; plus TLC validation of recorded long-text histories")
    ctx.assumptions += ["characters are bytes 1..255 (no NUL inside a text)", "C locale", "ASan build of the current tree (clang -O1)",
                        "to_num / to_float only on digit texts; negative splice counts only where both conventions of DESIGN 8a agree"]


def replay(ctx, path):
    d = json.load(open(path))
    rp = d.get("replay") or {}
    exe = harness(ctx)
    if "trace_family" in rp and "event_index" not in rp:
        # a recorded run that failed in the harness (ASan, representation, per-call heap account): run it again the same way
        recs, fails = record(ctx, exe, rp["variant"], None, [rp["script_text"]], errno_preset=rp.get("errno", 0), raw=True, debug_level=rp.get("debug_level", 0))
        for f in fails:
            print("REPRODUCED", f)
            if f.detail:
                print(f.detail)
        if not fails:
            print("not reproduced: the recorded run passes (%d steps)" % len(recs))
        return 1 if fails else 0
    if "event_index" not in rp:
        return objcheck.replay_file(exe, [], path, ctx.rundir, env=rp.get("env") or None)
    # a recorded execution that TLC rejected: record it again on the current tree and validate it again
    from vlib import trace
    cls = rp["variant"]
    h = []
    for ln in rp["script_text"].splitlines()[1:-1]:
        w = ln.split(" = ")[0].split(" ")
        sl = "b" if w[0].startswith("b_") else "a"
        args = [untok(x) for x in w[1:] if x != ""]
        for x in args:
            if isinstance(x, dict) and "dec" in x:
                x["dec"] = str(x["dec"])
        h.append((sl, w[0][2:] if sl == "b" else w[0], args))
    events, index, fails = record(ctx, exe, cls, [h], [history_text(0, h)])
    for f in fails:
        print("REPRODUCED (run fails before validation)", f)
        if f.detail:
            print(f.detail)
    if fails:
        return 1
    ok, pos, _ = trace.validate(ctx, "StrObjTrace.tla", "StrObjTrace.cfg", events, tag="replay")
    if ok:
        print("not reproduced: TLC accepts the re-recorded execution (%d events)" % len(events))
        return 0
    ev = dict(events[pos])
    ev.pop("post", None)
    print("REPRODUCED: TLC rejects the re-recorded execution at event %d: %s" % (pos, json.dumps(ev)[:400]))
    return 1
