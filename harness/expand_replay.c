/* C10: replays Expand.tla edges on spifconf_shell_expand() and records executions for ExpandTrace.tla.
 *
 * usage: expand_replay <pattern:aa|55> <keys> <scriptfile> [first]
 *   pattern  fill byte of this pass for the stack below the call and for the caller's buffer behind the
 *            terminator when an input can only be run once (it contains %put); the python side also
 *            toggles ASAN_OPTIONS=malloc_fill_byte per pass
 *   keys     universe of store keys used for the projection, e.g. [[97],[98]]   ([] = none)
 * step:  expand <env> <input> = <ret> <state>
 *        register <name> <kind> = <n> <state>      lifecycle: spifconf_register_builtin(name, function of kind 0|1|2)
 *   env    [[name],[value],[name],[value],...]  the complete environment of this call; the names @N and @V set the
 *                                               program name / version instead (defaults ap / 1.2); @K adds a key to
 *                                               the store projection for the rest of the script
 *   input  [c,c,...]                            the text (no NUL inside)
 *   ret    {claimed=T|F,outs=[[..],..],trunc=T|F,why=..}    or ?  (record)
 *   state  the store as [[[key],[value]],...] ascending by key, or UNKNOWN
 *
 * What one step does (DESIGN.md section 6 C10 "Bind"):
 *  - variant BUF: the text sits at the start of a CONFIG_BUFF-sized heap block (the callers' contract), the
 *    rest of the block is filled with a non-NUL pattern; run with the stack pre-filled with 0xAA and again with
 *    0x55 (128 kB below the call), every result must be acceptable to the specification;
 *  - variant EXACT (when every acceptable result is no longer than the input): the text sits in a block of
 *    exactly strlen+1 bytes so that ASan's redzone starts right behind the terminator;
 *  - an input containing %put is executed ONCE per pass (it changes the store): BUF in pass aa, EXACT (if
 *    applicable) in pass 55;
 *  - results the specification does not claim (claimed=F) must still be NUL-terminated, inside the block, and the
 *    same in every run (purity); "U <hash(input,env)> <hash(result)>" goes to $XR_ULOG so that the two passes
 *    (different malloc fill) can be compared;
 *  - the store is projected through %get(key) for every key of the universe.
 * A script whose inputs contain %put runs in a forked child (the store cannot be emptied through the public
 * interface); the child also checks that the heap grew by exactly the store's footprint.
 */
#include "common.h"
#include <sys/wait.h>
#include <sys/mman.h>

extern char **environ;

#define XR_STACK (128 * 1024)
#define XR_MAXL 64

typedef struct { unsigned char *p; size_t n; } bl_t;

static int xr_pat = 0xAA;
static bl_t xr_keys[XR_MAXL]; static int xr_nkeys;
static bl_t xr_xkeys[XR_MAXL]; static int xr_nxkeys;      /* keys added to the universe by the running script (@K) */
static int xr_nreg;                                         /* application built-ins registered by the running script */
static FILE *xr_ulog;
static char xr_msg[256];
static vh_sb xr_laststate;
static size_t xr_footprint;      /* bytes the store should occupy according to the last projection */
static long xr_growth;           /* heap growth observed across all library calls of the running script */

/* parses "[[1,2],[3],[]]" into byte lists (malloc'ed, NUL-terminated copies); returns count or -1 */
static int parse_bls(const char *t, bl_t *out, int max, const char **endp) {
    int n = 0; const char *p = t;
    if (*p != '[') return -1;
    p++;
    while (*p && *p != ']') {
        size_t cap = 64, k = 0; unsigned char *b;
        if (*p != '[') return -1;
        p++;
        b = (unsigned char *) malloc(cap);
        while (*p && *p != ']') {
            char *e; long v = strtol(p, &e, 10);
            if (e == p) { free(b); return -1; }
            if (k + 2 > cap) { cap *= 2; b = (unsigned char *) realloc(b, cap); }
            b[k++] = (unsigned char) v; p = e;
            if (*p == ',') p++;
        }
        if (*p != ']') { free(b); return -1; }
        p++;
        b[k] = 0;
        if (n < max) { out[n].p = b; out[n].n = k; n++; } else free(b);
        if (*p == ',') p++;
    }
    if (*p == ']') p++;
    if (endp) *endp = p;
    return n;
}
static void free_bls(bl_t *a, int n) { int i; for (i = 0; i < n; i++) free(a[i].p); }
static int parse_bytes(const char *t, bl_t *out) {
    size_t cap = 256, k = 0; const char *p = t; unsigned char *b;
    if (*p != '[') return -1;
    p++;
    b = (unsigned char *) malloc(cap);
    while (*p && *p != ']') {
        char *e; long v = strtol(p, &e, 10);
        if (e == p) { free(b); return -1; }
        if (k + 2 > cap) { cap *= 2; b = (unsigned char *) realloc(b, cap); }
        b[k++] = (unsigned char) v; p = e;
        if (*p == ',') p++;
    }
    b[k] = 0; out->p = b; out->n = k;
    return 0;
}

static unsigned long fnv(unsigned long h, const unsigned char *p, size_t n) {
    size_t i; for (i = 0; i < n; i++) { h ^= p[i]; h *= 1099511628211UL; } return h;
}

static __attribute__((noinline)) void dirty_stack(int pat) {
    volatile unsigned char b[XR_STACK];
    memset((void *) b, pat, sizeof(b));
    __asm__ volatile("" : : "r"(b) : "memory");
}
static __attribute__((noinline)) spif_charptr_t call_expand(spif_charptr_t s, int pat) {
    dirty_stack(pat);
    errno = (pat == 0xAA) ? ERANGE : EINTR;      /* stale errno of an earlier call must not matter either */
    return spifconf_shell_expand(s);
}

static unsigned char *xr_block(void) {
    static unsigned char *blk;
    if (!blk) blk = (unsigned char *) malloc(CONFIG_BUFF);
    return blk;
}

/* one run; returns malloc'ed copy of the result (len in *rn), NULL pointer result -> *isnull = 1.
 * problem (static string) or NULL */
static const char *run_once(const bl_t *in, int exact, int pat, bl_t *res, int *isnull) {
    size_t size = exact ? in->n + 1 : (size_t) CONFIG_BUFF;
    /* the CONFIG_BUFF block is allocated once and reused (20 kB blocks through ASan's quarantine are slow) */
    unsigned char *blk = exact ? (unsigned char *) malloc(size) : xr_block(), *end; spif_charptr_t r;
    const char *bad = NULL;
    if (!exact) memset(blk, pat, size);
    memcpy(blk, in->p, in->n); blk[in->n] = 0;
    { size_t hb = vh_heap(); r = call_expand((spif_charptr_t) blk, pat); xr_growth += (long) vh_heap() - (long) hb; }
    *isnull = 0; res->p = NULL; res->n = 0;
    if (r == NULL) { *isnull = 1; }
    else if ((unsigned char *) r != blk) bad = "result-pointer-is-not-the-buffer";
    end = (unsigned char *) memchr(blk, 0, size);
    if (!end) bad = "result-not-NUL-terminated-inside-the-buffer";
    else if (!bad) {
        res->n = (size_t) (end - blk);
        res->p = (unsigned char *) malloc(res->n + 1);
        memcpy(res->p, blk, res->n + 1);
        if (res->n > (size_t) CONFIG_BUFF - 1) bad = "result-longer-than-the-limit";
    }
    if (exact) free(blk);
    return bad;
}

static void set_environment(const char *tok, unsigned long *h) {
    static bl_t e[XR_MAXL]; int n, i, gotn = 0, gotv = 0;
    clearenv();
    n = parse_bls(tok, e, XR_MAXL, NULL);
    for (i = 0; i + 1 < n; i += 2) {
        /* "@N" / "@V": not environment variables but the program name / version (libast_set_program_name/version),
         * the other piece of process state the built-ins read */
        if (e[i].n == 2 && e[i].p[0] == '@' && (e[i].p[1] == 'N' || e[i].p[1] == 'V')) {
            if (e[i].p[1] == 'N') { libast_set_program_name((char *) e[i + 1].p); gotn = 1; }
            else { libast_set_program_version((char *) e[i + 1].p); gotv = 1; }
        } else if (e[i].n == 2 && e[i].p[0] == '@' && e[i].p[1] == 'K') {
            /* "@K": one more key of the store projection, for the rest of the script */
            int k, have = 0;
            for (k = 0; k < xr_nxkeys; k++) if (xr_xkeys[k].n == e[i + 1].n && !memcmp(xr_xkeys[k].p, e[i + 1].p, e[i + 1].n)) have = 1;
            if (!have && xr_nxkeys < XR_MAXL) {
                xr_xkeys[xr_nxkeys].n = e[i + 1].n;
                xr_xkeys[xr_nxkeys].p = (unsigned char *) malloc(e[i + 1].n + 1);
                memcpy(xr_xkeys[xr_nxkeys].p, e[i + 1].p, e[i + 1].n + 1);
                xr_nxkeys++;
            }
        } else
        setenv((char *) e[i].p, (char *) e[i + 1].p, 1);
        *h = fnv(fnv(*h, e[i].p, e[i].n + 1), e[i + 1].p, e[i + 1].n + 1);
    }
    if (n > 0) free_bls(e, n);
    if (!gotn) libast_set_program_name("ap");
    if (!gotv) libast_set_program_version("1.2");
}

static int has_random(const unsigned char *p, size_t n) {
    size_t i;
    for (i = 0; i + 6 < n; i++)
        if (p[i] == '%' && !strncasecmp((const char *) p + i + 1, "random", 6)) return 1;
    return 0;
}
static int has_put(const unsigned char *p, size_t n) {
    size_t i;
    for (i = 0; i + 3 < n; i++)
        if (p[i] == '%' && tolower(p[i + 1]) == 'p' && tolower(p[i + 2]) == 'u' && tolower(p[i + 3]) == 't') return 1;
    return 0;
}

/* strcmp order (unsigned bytes), the order in which the store is kept */
static int key_cmp(const void *a, const void *b) {
    const bl_t *x = (const bl_t *) a, *y = (const bl_t *) b;
    size_t m = x->n < y->n ? x->n : y->n; int c = memcmp(x->p, y->p, m);
    return c ? c : (x->n < y->n ? -1 : x->n > y->n);
}
/* projection of the store: %get(key) for every key of the universe (command line + @K of this script), ascending */
static size_t project_store(vh_sb *state) {
    int i, first = 1, nk = 0; size_t foot = 0; bl_t all[2 * XR_MAXL];
    for (i = 0; i < xr_nkeys; i++) all[nk++] = xr_keys[i];
    for (i = 0; i < xr_nxkeys; i++) {
        int k, have = 0;
        for (k = 0; k < xr_nkeys; k++) if (xr_keys[k].n == xr_xkeys[i].n && !memcmp(xr_keys[k].p, xr_xkeys[i].p, xr_keys[k].n)) have = 1;
        if (!have) all[nk++] = xr_xkeys[i];
    }
    qsort(all, (size_t) nk, sizeof(all[0]), key_cmp);
    sb_putc(state, '[');
    for (i = 0; i < nk; i++) {
        unsigned char *blk = xr_block(); spif_charptr_t r; size_t n;
        memset(blk, 0x5A, 64 + all[i].n);
        memcpy(blk, "%get(", 5); memcpy(blk + 5, all[i].p, all[i].n); memcpy(blk + 5 + all[i].n, ")", 2);
        { size_t hb = vh_heap(); r = spifconf_shell_expand((spif_charptr_t) blk); xr_growth += (long) vh_heap() - (long) hb; }
        if (r && (n = strlen((char *) blk)) > 0) {
            if (!first) sb_putc(state, ',');
            first = 0;
            sb_putc(state, '['); sb_bytes(state, all[i].p, all[i].n); sb_putc(state, ',');
            sb_bytes(state, blk, n); sb_putc(state, ']');
            foot += 3 * sizeof(void *) + all[i].n + 1 + n + 1;      /* spifconf_var_t + key + value */
        }
    }
    sb_putc(state, ']');
    return foot;
}

/* the application's built-ins (Expand.tla AppBuiltin): 0 copy of the argument, 1 NULL, 2 the constant "R" */
static spif_charptr_t app_echo(spif_charptr_t p) { return p ? (spif_charptr_t) strdup((char *) p) : NULL; }
static spif_charptr_t app_null(spif_charptr_t p) { (void) p; return NULL; }
static spif_charptr_t app_const(spif_charptr_t p) { (void) p; return (spif_charptr_t) strdup("R"); }

static int accepted(const bl_t *outs, int nouts, int trunc, const bl_t *res, int isnull) {
    int i;
    if (isnull) return 0;
    for (i = 0; i < nouts; i++) {
        if (res->n == outs[i].n && !memcmp(res->p, outs[i].p, res->n)) return 1;
        /* E: when the ideal result exceeds the limit the cut may be at the limit or one character before it */
        if (trunc && res->n + 1 == outs[i].n && !memcmp(res->p, outs[i].p, res->n)) return 1;
    }
    return 0;
}

static void vh_begin(void) {
    sb_reset(&xr_laststate); xr_footprint = 0; xr_growth = 0;
    while (xr_nxkeys > 0) free(xr_xkeys[--xr_nxkeys].p);
    if (xr_nreg > 0) {            /* a fresh function table for every script */
        spifconf_free_subsystem();
        spifconf_init_subsystem();
        xr_nreg = 0;
    }
}
static void vh_end(void) { }

static const char *vh_step(const vh_step_t *st, vh_sb *ret, vh_sb *state) {
    bl_t in = {0, 0}, outs[XR_MAXL], res[3] = {{0, 0}, {0, 0}, {0, 0}};
    int nouts = 0, claimed = 0, trunc = 0, record, value_ok, rnd, i, nruns = 0, isnull[3] = {0, 0, 0}, put, exact_ok = 0;
    const char *bad = NULL, *badv = "", *p; unsigned long hin = 1469598103934665603UL;
    const char *vname[3] = {"", "", ""};
    long g0 = xr_growth; int in_copy_has_pct = 1;

    if (!strcmp(st->op, "register") && st->nargs == 2) {
        /* lifecycle step: register <name> <kind>; returns the number of application built-ins registered so far */
        bl_t nm; int kind = atoi(st->args[1]);
        if (parse_bytes(st->args[0], &nm)) return "bad-name-token";
        spifconf_register_builtin((char *) nm.p, kind == 0 ? app_echo : kind == 1 ? app_null : app_const);
        free(nm.p);
        xr_nreg++;
        sb_int(ret, xr_nreg);
        if (st->exp_state[0] != '?' && !strcmp(st->exp_state, "UNKNOWN")) sb_puts(state, "UNKNOWN");
        else { xr_footprint = project_store(state); sb_reset(&xr_laststate); sb_puts(&xr_laststate, state->p); }
        return NULL;
    }
    if (strcmp(st->op, "expand") || st->nargs != 2) return "bad-step";
    set_environment(st->args[0], &hin);
    if (parse_bytes(st->args[1], &in)) return "bad-input-token";
    if (in.n > (size_t) CONFIG_BUFF - 1) { fprintf(stderr, "input of %lu characters breaks the callers' contract\n", (unsigned long) in.n); exit(2); }
    hin = fnv(hin, in.p, in.n);
    record = (st->exp_ret[0] == '?');
    if (!record) {
        p = strstr(st->exp_ret, "claimed="); claimed = p && p[8] == 'T';
        p = strstr(st->exp_ret, "trunc="); trunc = p && p[6] == 'T';
        p = strstr(st->exp_ret, "outs=");
        if (p) nouts = parse_bls(p + 5, outs, XR_MAXL, NULL);
        if (nouts < 0) { free(in.p); return "bad-outs-token"; }
        if (claimed && !trunc && nouts > 0) {
            exact_ok = 1;
            for (i = 0; i < nouts; i++) if (outs[i].n > in.n) exact_ok = 0;
        }
    }
    put = has_put(in.p, in.n);
    rnd = has_random(in.p, in.n);
    if (put) {
        int ex = (xr_pat == 0x55 && exact_ok);
        vname[0] = ex ? "exact" : "buf";
        bad = run_once(&in, ex, xr_pat, &res[0], &isnull[0]); nruns = 1;
        if (bad) badv = vname[0];
    } else {
        vname[0] = "buf-aa"; vname[1] = "buf-55"; vname[2] = "exact";
        bad = run_once(&in, 0, 0xAA, &res[0], &isnull[0]); nruns = 1;
        if (bad) badv = vname[0];
        if (!bad) { bad = run_once(&in, 0, 0x55, &res[1], &isnull[1]); nruns = 2; if (bad) badv = vname[1]; }
        if (!bad && exact_ok) { bad = run_once(&in, 1, xr_pat, &res[2], &isnull[2]); nruns = 3; if (bad) badv = vname[2]; }
    }
    if (bad) {
        snprintf(xr_msg, sizeof(xr_msg), "%s/%s", bad, badv);
        bad = xr_msg;
    } else if (record) {
        int same = 1;
        for (i = 1; i < nruns && !rnd; i++)
            if (isnull[i] != isnull[0] || res[i].n != res[0].n || (res[0].n && memcmp(res[i].p, res[0].p, res[0].n))) same = 0;
        if (!same) sb_puts(ret, "IMPURE");
        else if (isnull[0]) sb_puts(ret, "NULL");
        else sb_bytes(ret, res[0].p, res[0].n);
    } else if (claimed) {
        int ok = 1;
        for (i = 0; i < nruns && ok; i++)
            if (!accepted(outs, nouts, trunc, &res[i], isnull[i])) {
                ok = 0;
                sb_printf(ret, "{variant=%s,got=", vname[i]);
                if (isnull[i]) sb_puts(ret, "NULL"); else sb_bytes(ret, res[i].p, res[i].n);
                sb_putc(ret, '}');
            }
        if (ok) sb_puts(ret, st->exp_ret);
    } else {
        int same = 1;
        for (i = 1; i < nruns && !rnd; i++)
            if (isnull[i] != isnull[0] || res[i].n != res[0].n || (res[0].n && memcmp(res[i].p, res[0].p, res[0].n))) {
                same = 0;
                sb_printf(ret, "{impure=%s,got=", vname[i]);
                if (isnull[i]) sb_puts(ret, "NULL"); else sb_bytes(ret, res[i].p, res[i].n);
                sb_puts(ret, ",first=");
                if (isnull[0]) sb_puts(ret, "NULL"); else sb_bytes(ret, res[0].p, res[0].n);
                sb_putc(ret, '}');
                break;
            }
        if (same) {
            sb_puts(ret, st->exp_ret);
            if (xr_ulog && !rnd) fprintf(xr_ulog, "U %016lx %016lx\n", hin, isnull[0] ? 0UL : fnv(7, res[0].p, res[0].n));
        }
    }
    for (i = 0; i < 3; i++) free(res[i].p);
    if (nouts > 0) free_bls(outs, nouts);
    in_copy_has_pct = memchr(in.p, '%', in.n) != NULL;
    free(in.p);
    if (bad) return bad;
    value_ok = record || !strcmp(ret->p, st->exp_ret);
    if (!record && !strcmp(st->exp_state, "UNKNOWN")) sb_puts(state, "UNKNOWN");
    else if (!in_copy_has_pct && xr_laststate.n) {
        /* no '%' in the text: no built-in can have run (the only way to one is the '%' case of the scanner), so the
         * projection of the previous step still stands; the heap must not have grown at all */
        sb_puts(state, xr_laststate.p);
        if (vh_check_heap && value_ok && xr_growth - g0 != 0) {
            snprintf(xr_msg, sizeof(xr_msg), "heap-growth=%ld-store-growth=0", xr_growth - g0);
            return xr_msg;
        }
    } else {
        size_t f0 = xr_footprint;
        xr_footprint = project_store(state);
        sb_reset(&xr_laststate); sb_puts(&xr_laststate, state->p);
        if (record && put) return NULL;      /* recording: whether the store's growth is claimed is for the trace spec to say */
        /* C06 inside C10's calls: the heap may only have grown by what was added to the store in this step */
        if (vh_check_heap && value_ok && xr_growth - g0 != (long) xr_footprint - (long) f0) {
            snprintf(xr_msg, sizeof(xr_msg), "heap-growth=%ld-store-growth=%ld", xr_growth - g0, (long) xr_footprint - (long) f0);
            return xr_msg;
        }
    }
    return NULL;
}

/* ---- main loop: vh_main of common.h plus fork containment for scripts that change the store ---------------- */
typedef struct { volatile int step; volatile long nsteps; } xr_shared_t;

static int script_needs_fork(vh_step_t *steps, int n) {
    int i;
    for (i = 0; i < n; i++) {
        bl_t in;
        if (steps[i].nargs != 2 || parse_bytes(steps[i].args[1], &in)) continue;
        if (has_put(in.p, in.n)) { free(in.p); return 1; }
        free(in.p);
    }
    return 0;
}

/* runs the steps; returns 1 if abandoned */
static int run_steps(vh_step_t *steps, int n, vh_sb *ret, vh_sb *state, long *nsteps, xr_shared_t *sh) {
    int i;
    for (i = 0; i < n; i++) {
        const char *inv; int record;
        vh_cur_step = i; vh_cur_op = steps[i].op;
        if (sh) sh->step = i;
        sb_reset(ret); sb_reset(state);
        inv = vh_step(&steps[i], ret, state);
        (*nsteps)++;
        if (sh) sh->nsteps = *nsteps;
        record = (steps[i].exp_ret[0] == '?' && steps[i].exp_ret[1] == 0);
        if (inv) { printf("X %ld %d inv %s exp=- got=%s\n", vh_cur_sid, i, steps[i].op, inv); return 1; }
        if (record) { printf("R %ld %d %s %s\n", vh_cur_sid, i, ret->p, state->p); continue; }
        if (strcmp(state->p, steps[i].exp_state)) {
            printf("X %ld %d state %s exp=%s got=%s ret=%s\n", vh_cur_sid, i, steps[i].op, steps[i].exp_state, state->p, ret->p);
            return 1;
        }
        if (strcmp(ret->p, steps[i].exp_ret)) {
            printf("X %ld %d ret %s exp=%s got=%s\n", vh_cur_sid, i, steps[i].op, steps[i].exp_ret, ret->p);
            if (strstr(steps[i].exp_ret, "claimed=T") == NULL) return 1;     /* unclaimed: the store is unknown from here */
        }
    }
    return 0;
}

static void xr_child_alarm(int sig) { (void) sig; _exit(3); }
static void xr_child_abrt(int sig) { (void) sig; _exit(4); }
static int xr_is_child = 0;
static void xr_child_atexit(void) { if (xr_is_child) _exit(5); }
static void xr_child_death(void) { fflush(stdout); }

int main(int argc, char **argv) {
    size_t len; char *buf, *p; long nscripts = 0, nsteps = 0, ordinal = 0, first = 0;
    vh_sb ret = {0, 0, 0}, state = {0, 0, 0};
    static vh_step_t steps[4096];
    xr_shared_t *sh;
    int fileidx = 3;

    setvbuf(stdout, NULL, _IOLBF, 0);
    if (argc < 4) { fprintf(stderr, "usage: %s <aa|55> <keys> <scriptfile> [first]\n", argv[0]); return 2; }
    xr_pat = !strcmp(argv[1], "55") ? 0x55 : 0xAA;
    xr_nkeys = parse_bls(argv[2], xr_keys, XR_MAXL, NULL);
    if (xr_nkeys < 0) { fprintf(stderr, "bad key universe %s\n", argv[2]); return 2; }
    if (fileidx + 1 < argc) first = atol(argv[fileidx + 1]);
    if (getenv("VH_NO_HEAP")) vh_check_heap = 0;
    if (getenv("VH_WATCHDOG")) vh_watchdog_s = atoi(getenv("VH_WATCHDOG"));
    if (getenv("XR_ULOG")) { xr_ulog = fopen(getenv("XR_ULOG"), "a"); if (xr_ulog) setvbuf(xr_ulog, NULL, _IOLBF, 0); }
    sh = (xr_shared_t *) mmap(NULL, 4096, PROT_READ | PROT_WRITE, MAP_SHARED | MAP_ANONYMOUS, -1, 0);
    if (sh == MAP_FAILED) { perror("mmap"); return 2; }
#ifdef VH_ASAN
    __sanitizer_set_death_callback(vh_death);
#endif
    signal(SIGALRM, vh_alarm);
    signal(SIGABRT, vh_abrt);
    atexit(vh_atexit);
    atexit(xr_child_atexit);        /* registered last, runs first */
    buf = vh_readfile(argv[fileidx], &len);
    sb_need(&ret, 1 << 16); sb_need(&state, 1 << 16); sb_need(&xr_laststate, 64);
    printf("HELLO %s\n", argv[0]);

    libast_set_program_name("ap");
    libast_set_program_version("1.2");
    spifconf_init_subsystem();

    p = buf;
    while (*p) {
        char *nl = strchr(p, '\n'); int n = 0, abandoned = 0;
        if (nl) *nl = 0;
        if (p[0] != 'S' || p[1] != ' ') { p = nl ? nl + 1 : p + strlen(p); continue; }
        vh_cur_sid = atol(p + 2);
        p = nl ? nl + 1 : p + strlen(p);
        if (ordinal++ < first) {
            while (*p) {
                nl = strchr(p, '\n');
                if (nl) *nl = 0;
                if (p[0] == 'E' && p[1] == 0) { p = nl ? nl + 1 : p + strlen(p); break; }
                p = nl ? nl + 1 : p + strlen(p);
            }
            continue;
        }
        while (*p) {
            nl = strchr(p, '\n');
            if (nl) *nl = 0;
            if (p[0] == 'E' && p[1] == 0) { p = nl ? nl + 1 : p + strlen(p); break; }
            if (n < 4096 && vh_parse_step(p, &steps[n]) == 0) n++;
            p = nl ? nl + 1 : p + strlen(p);
        }
        nscripts++;
        vh_cur_step = -1; vh_cur_op = "begin";
        if (script_needs_fork(steps, n)) {
            pid_t pid; int status = 0;
            fflush(stdout); if (xr_ulog) fflush(xr_ulog);
            sh->step = -1; sh->nsteps = 0;
            pid = fork();
            if (pid < 0) { perror("fork"); return 2; }
            if (pid == 0) {
                long cs = 0;
                xr_is_child = 1;
                vh_in_script = 0;                 /* the parent writes the death record */
#ifdef VH_ASAN
                __sanitizer_set_death_callback(xr_child_death);
#endif
                signal(SIGALRM, xr_child_alarm);
                signal(SIGABRT, xr_child_abrt);
                alarm((unsigned) vh_watchdog_s);
                vh_begin();
                abandoned = run_steps(steps, n, &ret, &state, &cs, sh);
                vh_end();
                fflush(stdout); if (xr_ulog) fflush(xr_ulog);
                _exit(0);
            }
            while (waitpid(pid, &status, 0) < 0 && errno == EINTR) { }
            nsteps += sh->nsteps;
            if (!(WIFEXITED(status) && WEXITSTATUS(status) == 0)) {
                int code = WIFEXITED(status) ? WEXITSTATUS(status) : -1;
                vh_cur_step = sh->step; vh_cur_op = "expand";
                vh_emit_raw(code == 3 ? 'H' : code == 5 ? 'Q' : 'C');
                _exit(code == 3 ? 3 : 4);
            }
            continue;
        }
        vh_in_script = 1;
        alarm((unsigned) vh_watchdog_s);
        vh_begin();
        abandoned = run_steps(steps, n, &ret, &state, &nsteps, NULL);
        vh_cur_step = n; vh_cur_op = "end";
        vh_end();
        alarm(0);
        vh_in_script = 0;
    }
    printf("DONE %ld %ld\n", nscripts, nsteps);
    vh_in_script = 0;
    if (xr_ulog) fclose(xr_ulog);
    free(buf);
    return 0;
}
