------------------------------ MODULE MC_Ownership ------------------------------
EXTENDS Ownership
ObsEmit(op, args, ret, post) ==
    PrintT(ToJson([pre |-> Pre, op |-> op, args |-> args, ret |-> ret, post |-> post]))
================================================================================
