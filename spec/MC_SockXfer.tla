------------------------------ MODULE MC_SockXfer ------------------------------
EXTENDS SockXfer
LensAll   == {1, 62, 4095, 4096, 4097, 8192, 16385, 20000}
LensSmall == {1, 62, 4097}
ModesAll  == {"eof", "nbio"}
ObsEmit(r) == PrintT(ToJson(r))
ObsNone(r) == TRUE
================================================================================
