-------------------------------- MODULE StrObj --------------------------------
(* C01: the string objects of libast (classes str and ustr) as ONE ideal character-sequence value. *)
(*                                                                                                *)
(* State: two slots A and B.  A slot is absent (never constructed / deleted) or holds a text, a   *)
(* finite sequence of characters (small integers = byte codes, never 0).  There is deliberately  *)
(* no capacity variable: capacity is representation, checked by the harness as an invariant       *)
(* (s[len]=0, strlen=len, size>len, allocation>=size), not part of the value.                     *)
(* Every action is one public call (or "done + init_from_X" for re-initialisation) on slot `sl`;  *)
(* object arguments are always "the other slot" (NULL when that slot is absent) or the slot itself.*)
(* Operation names of slot B carry the prefix "b_".                                               *)
(*                                                                                                *)
(* Rule kinds (DESIGN.md 3 / 8a):  S stated, I ideal, C as-built convention (strict),            *)
(* E either (return value not compared / case left out where two conventions differ), X excluded. *)
EXTENDS Integers, Sequences, TLC, Json

CONSTANTS
    U,                     \* record of argument universes (defined in MC_StrObj / StrObjTrace), see Next
    Obs(_, _, _, _, _)     \* observation hook (op, args, ret, retEither, post)

VARIABLES a, al, b, bl     \* text and liveness of slot A, slot B (text = <<>> while absent)
vars == <<a, al, b, bl>>

SlotView(x, xl) == [live |-> xl, s |-> IF xl THEN x ELSE <<>>]
St(x, xl, y, yl) == [a |-> SlotView(x, xl), b |-> SlotView(y, yl)]
Pre == St(a, al, b, bl)

Step(op, args, ret, either, x, xl, y, yl) ==
    /\ a' = x /\ al' = xl /\ b' = y /\ bl' = yl
    /\ Obs(op, args, ret, either, St(x, xl, y, yl))

------------------------------------------------------------------------------------------
(* reference operators on ideal character sequences *)
MinOf(S) == CHOOSE x \in S : \A y \in S : x <= y
MaxOf(S) == CHOOSE x \in S : \A y \in S : x >= y
Sgn(n)   == IF n < 0 THEN -1 ELSE IF n > 0 THEN 1 ELSE 0

IsSpace(c) == c \in {9, 10, 11, 12, 13, 32}                       \* C-locale isspace
LowerC(c)  == IF c >= 65 /\ c <= 90 THEN c + 32 ELSE c            \* C-locale tolower
UpperC(c)  == IF c >= 97 /\ c <= 122 THEN c - 32 ELSE c           \* C-locale toupper
LowerT(s)  == [k \in 1 .. Len(s) |-> LowerC(s[k])]
UpperT(s)  == [k \in 1 .. Len(s) |-> UpperC(s[k])]
FillT(s, c) == [k \in 1 .. Len(s) |-> c]                           \* C: clear keeps the length
Rev(s)     == [k \in 1 .. Len(s) |-> s[Len(s) + 1 - k]]
Pfx(s, n)  == SubSeq(s, 1, IF n < Len(s) THEN n ELSE Len(s))
TrimT(s)   == LET ks == {k \in 1 .. Len(s) : ~IsSpace(s[k])} IN                \* I: all-blank -> empty
              IF ks = {} THEN <<>> ELSE SubSeq(s, MinOf(ks), MaxOf(ks))

\* searches (0-based results, Len(s) = not found: S)
FirstPos(s, c) == LET ks == {k \in 1 .. Len(s) : s[k] = c} IN IF ks = {} THEN Len(s) ELSE MinOf(ks) - 1
LastPos(s, c)  == LET ks == {k \in 1 .. Len(s) : s[k] = c} IN IF ks = {} THEN Len(s) ELSE MaxOf(ks) - 1
OccursAt(s, t, p) == p + Len(t) <= Len(s) /\ SubSeq(s, p + 1, p + Len(t)) = t
FindPos(s, t)  == LET ps == {p \in 0 .. Len(s) : OccursAt(s, t, p)} IN IF ps = {} THEN Len(s) ELSE MinOf(ps)

\* comparison: sign of the unsigned-byte lexicographic order (C)
CmpSeq(x, y) ==
    LET n == IF Len(x) < Len(y) THEN Len(x) ELSE Len(y)
        d == {k \in 1 .. n : x[k] # y[k]}
    IN IF d = {} THEN Sgn(Len(x) - Len(y))
       ELSE IF x[MinOf(d)] < y[MinOf(d)] THEN -1 ELSE 1
CmpKind(kind, x, y, n) ==
    CASE kind = "cmp"      -> CmpSeq(x, y)
      [] kind = "casecmp"  -> CmpSeq(LowerT(x), LowerT(y))
      [] kind = "ncmp"     -> CmpSeq(Pfx(x, n), Pfx(y, n))
      [] kind = "ncasecmp" -> CmpSeq(LowerT(Pfx(x, n)), LowerT(Pfx(y, n)))
CmpKinds == {"cmp", "casecmp", "ncmp", "ncasecmp"}
KindArgs(kind, n) == IF kind \in {"ncmp", "ncasecmp"} THEN <<n>> ELSE <<>>

\* numbers
IsDec(c) == c >= 48 /\ c <= 57
IsHex(c) == IsDec(c) \/ (c >= 97 /\ c <= 102) \/ (c >= 65 /\ c <= 70)
DigitVal(c) == IF IsDec(c) THEN c - 48 ELSE IF c >= 97 THEN c - 87 ELSE c - 55
RECURSIVE NumVal(_, _)
NumVal(s, base) == IF s = <<>> THEN 0 ELSE NumVal(SubSeq(s, 1, Len(s) - 1), base) * base + DigitVal(s[Len(s)])
RECURSIVE DecDigits(_)
DecDigits(n) == IF n < 10 THEN <<48 + n>> ELSE DecDigits(n \div 10) \o <<48 + (n % 10)>>
NumText(k) == IF k < 0 THEN <<45>> \o DecDigits(0 - k) ELSE DecDigits(k)     \* "%ld" / "%d"
\* X: to_num only on digit texts of the base (and the empty text -> 0); short enough for TLC's 32-bit integers
NumDefined(s, base) == /\ base \in {10, 16}
                       /\ Len(s) <= (IF base = 10 THEN 9 ELSE 7)
                       /\ \A k \in 1 .. Len(s) : IF base = 10 THEN IsDec(s[k]) ELSE IsHex(s[k])
\* X: to_float only on integral decimal texts (optionally signed) and the empty text -> 0
FloatDefined(s) == IF s = <<>> THEN TRUE
                   ELSE /\ Len(s) <= 9 /\ \A k \in 2 .. Len(s) : IsDec(s[k])
                        /\ (IF s[1] = 45 THEN Len(s) > 1 ELSE IsDec(s[1]))
FloatVal(s) == IF s = <<>> THEN 0
               ELSE IF s[1] = 45 THEN 0 - NumVal(SubSeq(s, 2, Len(s)), 10) ELSE NumVal(s, 10)

\* index normalisation (S): negative counts from the end; the result must address a character
NormIdx(s, i) == IF i < 0 THEN i + Len(s) ELSE i
IdxOK(s, i)   == NormIdx(s, i) >= 0 /\ NormIdx(s, i) < Len(s)
Refused       == [ok |-> FALSE, s |-> <<>>]

\* substr (C): cnt <= 0 means "up to |cnt| before the end"; over-long cnt is clamped
SubstrRes(s, i, c) ==
    LET n == NormIdx(s, i) IN
    IF ~IdxOK(s, i) THEN Refused
    ELSE LET c1 == IF c <= 0 THEN Len(s) - n + c ELSE c IN
         IF c1 < 0 THEN Refused
         ELSE [ok |-> TRUE, s |-> SubSeq(s, n + 1, n + (IF c1 > Len(s) - n THEN Len(s) - n ELSE c1))]

\* splice (S): 0 <= cnt <= len - idx, otherwise refused.  Negative cnt (E): as built it means idx+len+cnt, the
\* substr convention would be len-idx+cnt; the case is in the universe only where both give the same outcome.
SpliceEff(s, n, c1) == IF c1 < 0 \/ c1 > Len(s) - n THEN -1 ELSE c1
SpliceCntDefined(s, i, c) ==
    LET n == NormIdx(s, i) IN
    c >= 0 \/ ~IdxOK(s, i) \/ SpliceEff(s, n, n + Len(s) + c) = SpliceEff(s, n, Len(s) - n + c)
SpliceRes(s, i, c, t) ==
    LET n == NormIdx(s, i) IN
    IF ~IdxOK(s, i) THEN [ok |-> FALSE, s |-> s]
    ELSE LET c1 == SpliceEff(s, n, IF c < 0 THEN Len(s) - n + c ELSE c) IN
         IF c1 < 0 THEN [ok |-> FALSE, s |-> s]
         ELSE [ok |-> TRUE, s |-> SubSeq(s, 1, n) \o t \o SubSeq(s, n + c1 + 1, Len(s))]

\* counted-buffer constructor (C): characters of the n-byte buffer up to the first NUL
BuffText(bytes, n) == LET m == Pfx(bytes, n)
                          z == {k \in 1 .. Len(m) : m[k] = 0}
                      IN IF z = {} THEN m ELSE SubSeq(m, 1, MinOf(z) - 1)
\* stream constructor (I): the first line without its newline, of any length
LineText(content) == LET z == {k \in 1 .. Len(content) : content[k] = 10}
                     IN IF z = {} THEN content ELSE SubSeq(content, 1, MinOf(z) - 1)

------------------------------------------------------------------------------------------
(* slots *)
Slots    == {"a", "b"}
Txt(sl)  == IF sl = "a" THEN a ELSE b
Live(sl) == IF sl = "a" THEN al ELSE bl
Oth(sl)  == IF sl = "a" THEN "b" ELSE "a"
Nm(sl, op) == IF sl = "a" THEN op ELSE "b_" \o op
\* the object argument of a call on slot sl: the other slot's text; HasOther = FALSE means NULL is passed
HasOther(sl) == Live(Oth(sl))
Other(sl)    == Txt(Oth(sl))

\* slot sl becomes (x, xl); the other slot is untouched
Set(sl, op, args, ret, either, x, xl) ==
    IF sl = "a" THEN Step(Nm(sl, op), args, ret, either, x, xl, b, bl)
                ELSE Step(Nm(sl, op), args, ret, either, a, al, x, xl)
Fits(x) == Len(x) <= U.maxlen                                   \* model bound only
Mut(sl, op, args, ret, x)   == Live(sl) /\ Fits(x) /\ Set(sl, op, args, ret, FALSE, x, TRUE)
MutE(sl, op, args, ret, e, x) == Live(sl) /\ Fits(x) /\ Set(sl, op, args, ret, e, x, TRUE)
Qry(sl, op, args, ret)      == Live(sl) /\ Set(sl, op, args, ret, FALSE, Txt(sl), TRUE)

------------------------------------------------------------------------------------------
(* constructors: slot absent -> live.  The "re" forms are done() followed by init_from_X() on a live object. *)
Ctor(sl, re, op, args, x) ==
    /\ (IF re THEN Live(sl) ELSE ~Live(sl)) /\ Fits(x)
    /\ Set(sl, (IF re THEN "re" ELSE "new") \o op, args, TRUE, FALSE, x, TRUE)

OpNew(sl, re)               == /\ sl \in Slots /\ Ctor(sl, re, "", <<>>, <<>>)
OpNewFromPtr(sl, re, t)     == /\ sl \in Slots /\ Ctor(sl, re, "_from_ptr", <<t>>, t)
OpNewFromPtrNull(sl, re)    == /\ sl \in Slots /\ Ctor(sl, re, "_from_ptr_null", <<>>, <<>>)                  \* C: NULL -> empty
OpNewFromBuff(sl, re, bytes, n) == /\ n >= 0 /\ n <= Len(bytes)                            \* X: n < 0
                                   /\ Ctor(sl, re, "_from_buff", <<bytes, n>>, BuffText(bytes, n))
OpNewFromBuffNull(sl, re, n) == /\ n >= 0 /\ Ctor(sl, re, "_from_buff_null", <<n>>, <<>>)     \* C: NULL buffer -> empty
OpNewFromNum(sl, re, k)     == /\ sl \in Slots /\ Ctor(sl, re, "_from_num", <<k>>, NumText(k))
\* tr = transport: how the harness delivers the content (regular file, pipe, pipe fed in pieces, interrupted reads);
\* the value must not depend on it (I)
OpNewFromFp(sl, re, content, tr) == /\ sl \in Slots /\ Ctor(sl, re, "_from_fp", <<content, tr>>, LineText(content))
OpNewFromFd(sl, re, content, tr) == /\ sl \in Slots /\ Ctor(sl, re, "_from_fd", <<content, tr>>, content)

\* a text longer than the model bound, offered only so that the overflowing conversions are reachable in the bounded model
OpNewFromPtrBig(sl, re, t) == /\ sl \in Slots /\ (IF re THEN Live(sl) ELSE ~Live(sl))
                              /\ Set(sl, (IF re THEN "re" ELSE "new") \o "_from_ptr", <<t>>, TRUE, FALSE, t, TRUE)

OpDone(sl) == /\ Live(sl) /\ Mut(sl, "done", <<>>, TRUE, <<>>)                  \* leaves the empty, reusable object
OpDel(sl)  == /\ Live(sl) /\ Set(sl, "del", <<>>, TRUE, FALSE, <<>>, FALSE)
\* dup: the other (absent) slot becomes an independent copy
OpDup(sl)  == /\ Live(sl) /\ ~Live(Oth(sl))
              /\ IF sl = "a" THEN Step("dup", <<>>, TRUE, FALSE, a, al, a, TRUE)
                             ELSE Step("b_dup", <<>>, TRUE, FALSE, b, TRUE, b, bl)

------------------------------------------------------------------------------------------
(* mutators *)
OpAppendPtr(sl, t)   == /\ Live(sl) /\ Mut(sl, "append_from_ptr", <<t>>, TRUE, Txt(sl) \o t)
OpPrependPtr(sl, t)  == /\ Live(sl) /\ Mut(sl, "prepend_from_ptr", <<t>>, TRUE, t \o Txt(sl))
OpAppendChar(sl, c)  == /\ Live(sl) /\ Mut(sl, "append_char", <<c>>, TRUE, Append(Txt(sl), c))
OpPrependChar(sl, c) == /\ Live(sl) /\ Mut(sl, "prepend_char", <<c>>, TRUE, <<c>> \o Txt(sl))
\* object argument = the other slot; NULL (other slot absent) is refused (C16) and leaves the value alone
OpAppendObj(sl)  == /\ Live(sl)
                    /\ Mut(sl, "append", <<>>, HasOther(sl), IF HasOther(sl) THEN Txt(sl) \o Other(sl) ELSE Txt(sl))
OpPrependObj(sl) == /\ Live(sl)
                    /\ Mut(sl, "prepend", <<>>, HasOther(sl), IF HasOther(sl) THEN Other(sl) \o Txt(sl) ELSE Txt(sl))
\* the object itself as argument
OpAppendSelf(sl)  == /\ Live(sl) /\ Mut(sl, "append_self", <<>>, TRUE, Txt(sl) \o Txt(sl))
OpPrependSelf(sl) == /\ Live(sl) /\ Mut(sl, "prepend_self", <<>>, TRUE, Txt(sl) \o Txt(sl))

OpSplicePtr(sl, i, c, t) ==
    LET r == SpliceRes(Txt(sl), i, c, t) IN
    /\ Live(sl) /\ SpliceCntDefined(Txt(sl), i, c) = TRUE      \* (= TRUE: evaluate as a value, do not split the action)
    /\ Mut(sl, "splice_from_ptr", <<i, c, t>>, r.ok, r.s)
OpSplicePtrNull(sl, i, c) ==                                       \* C: NULL text splices in nothing
    LET r == SpliceRes(Txt(sl), i, c, <<>>) IN
    /\ Live(sl) /\ SpliceCntDefined(Txt(sl), i, c) = TRUE      \* (= TRUE: evaluate as a value, do not split the action)
    /\ Mut(sl, "splice_from_ptr_null", <<i, c>>, r.ok, r.s)
OpSpliceObj(sl, i, c) ==                                           \* C: NULL object splices in nothing
    LET r == SpliceRes(Txt(sl), i, c, IF HasOther(sl) THEN Other(sl) ELSE <<>>) IN
    /\ Live(sl) /\ SpliceCntDefined(Txt(sl), i, c) = TRUE      \* (= TRUE: evaluate as a value, do not split the action)
    /\ Mut(sl, "splice", <<i, c>>, r.ok, r.s)
OpSpliceSelf(sl, i, c) ==
    LET r == SpliceRes(Txt(sl), i, c, Txt(sl)) IN
    /\ Live(sl) /\ SpliceCntDefined(Txt(sl), i, c) = TRUE      \* (= TRUE: evaluate as a value, do not split the action)
    /\ Mut(sl, "splice_self", <<i, c>>, r.ok, r.s)

\* I: defined on the empty text; there the return value is E
OpTrim(sl)     == /\ Live(sl) /\ Mut(sl, "trim", <<>>, TRUE, TrimT(Txt(sl)))
OpReverse(sl)  == /\ Live(sl) /\ MutE(sl, "reverse", <<>>, TRUE, Txt(sl) = <<>>, Rev(Txt(sl)))
OpUpcase(sl)   == /\ Live(sl) /\ MutE(sl, "upcase", <<>>, TRUE, Txt(sl) = <<>>, UpperT(Txt(sl)))
OpDowncase(sl) == /\ Live(sl) /\ MutE(sl, "downcase", <<>>, TRUE, Txt(sl) = <<>>, LowerT(Txt(sl)))
OpClear(sl, c) == /\ Live(sl) /\ MutE(sl, "clear", <<c>>, TRUE, Txt(sl) = <<>>, FillT(Txt(sl), c))
\* sprintf replaces the text by the formatted result; kinds: "lit" fmt = literal text t (no %), "s" fmt "%s" with t,
\* "d" fmt "%d" with k, "sd" fmt "%s=%d".  Return value for an empty result is E.
OpSprintfLit(sl, t) == /\ Live(sl) /\ MutE(sl, "sprintf_lit", <<t>>, TRUE, t = <<>>, t)
OpSprintfS(sl, t)   == /\ Live(sl) /\ MutE(sl, "sprintf_s", <<t>>, TRUE, t = <<>>, t)
OpSprintfD(sl, k)   == /\ Live(sl) /\ Mut(sl, "sprintf_d", <<k>>, TRUE, NumText(k))
OpSprintfSD(sl, t, k) == /\ Live(sl) /\ Mut(sl, "sprintf_sd", <<t, k>>, TRUE, t \o <<61>> \o NumText(k))

------------------------------------------------------------------------------------------
(* queries *)
OpLen(sl)          == /\ Live(sl) /\ Qry(sl, "len", <<>>, Len(Txt(sl)))
OpIndex(sl, c)     == /\ Live(sl) /\ Qry(sl, "index", <<c>>, FirstPos(Txt(sl), c))
OpRindex(sl, c)    == /\ Live(sl) /\ Qry(sl, "rindex", <<c>>, LastPos(Txt(sl), c))
OpFindPtr(sl, t)   == /\ Live(sl) /\ Qry(sl, "find_from_ptr", <<t>>, FindPos(Txt(sl), t))
OpFindObj(sl)      == /\ Live(sl) /\ Qry(sl, "find", <<>>, IF HasOther(sl) THEN FindPos(Txt(sl), Other(sl)) ELSE -1)   \* C16: NULL -> -1
OpFindSelf(sl)     == /\ Live(sl) /\ Qry(sl, "find_self", <<>>, 0)
OpSubstr(sl, i, c)      == /\ Live(sl) /\ Qry(sl, "substr", <<i, c>>, SubstrRes(Txt(sl), i, c))
OpSubstrToPtr(sl, i, c) == /\ Live(sl) /\ Qry(sl, "substr_to_ptr", <<i, c>>, SubstrRes(Txt(sl), i, c))
NOK(kind, n) == (kind \in {"ncmp", "ncasecmp"} \/ n = 0) = TRUE      \* the plain kinds take no count: offered once (n = 0)
OpCmpPtr(sl, kind, t, n) == /\ Live(sl) /\ NOK(kind, n) /\ Qry(sl, kind \o "_with_ptr", <<t>> \o KindArgs(kind, n), CmpKind(kind, Txt(sl), t, n))
OpCmpObj(sl, kind, n)    == /\ Live(sl) /\ NOK(kind, n) /\ Qry(sl, kind, KindArgs(kind, n),
                                IF HasOther(sl) THEN CmpKind(kind, Txt(sl), Other(sl), n) ELSE 1)      \* S: NULL -> GREATER
OpCmpSelf(sl, kind, n)   == /\ Live(sl) /\ NOK(kind, n) /\ Qry(sl, kind \o "_self", KindArgs(kind, n), 0)
OpCmpPtrNull(sl, kind, n) == /\ Live(sl) /\ NOK(kind, n) /\ Qry(sl, kind \o "_with_ptr_null", KindArgs(kind, n), 1)
OpToNum(sl, base)  == /\ Live(sl) /\ NumDefined(Txt(sl), base) /\ Qry(sl, "to_num", <<base>>, NumVal(Txt(sl), base))
\* a digit text far beyond the range of size_t: the returned value is E (strtoul saturates), the text is unchanged - and, like
\* every refused or failed call, it must leave nothing behind that a later call trusts (errno)
NumOver(s, base) == /\ base \in {10, 16} /\ Len(s) >= (IF base = 10 THEN 20 ELSE 17)
                    /\ \A k \in 1 .. Len(s) : IF base = 10 THEN IsDec(s[k]) ELSE IsHex(s[k])
                    /\ s[1] # 48
OpToNumOver(sl, base) == /\ Live(sl) /\ NumOver(Txt(sl), base) /\ Set(sl, "to_num", <<base>>, 0, TRUE, Txt(sl), TRUE)
OpToFloat(sl)      == /\ Live(sl) /\ FloatDefined(Txt(sl)) /\ Qry(sl, "to_float", <<>>, FloatVal(Txt(sl)))

------------------------------------------------------------------------------------------
Init == a = <<>> /\ al = FALSE /\ b = <<>> /\ bl = FALSE

\* Argument universes.  Slot A with B absent gets the full universes (U.x); everything else (slot B, and slot A
\* while a copy is alive) gets the reduced ones (U.xr): those states exist to exercise object arguments, dup and
\* the independence of the two slots; the object-argument operations get their own (medium) index sets U.xo there
\* (their index logic is covered with the full sets while the object argument is NULL).
Full(sl) == sl = "a" /\ ~bl
Chars(sl)  == IF Full(sl) THEN U.chars ELSE U.charsr
IdxS(sl)   == IF Full(sl) THEN U.idx ELSE U.idxr
CntS(sl)   == IF Full(sl) THEN U.cnt ELSE U.cntr
NS(sl)     == IF Full(sl) THEN U.n ELSE U.nr
Ptrs(sl)   == IF Full(sl) THEN U.ptrs ELSE U.ptrsr
CmpT(sl)   == IF Full(sl) THEN U.cmps ELSE U.cmpsr
SplT(sl)   == IF Full(sl) THEN U.spls ELSE U.splsr
NumsS(sl)  == IF Full(sl) THEN U.nums ELSE U.numsr
IdxO(sl)   == IF Full(sl) THEN U.idx ELSE IF sl = "a" THEN U.idxo ELSE U.idxr       \* object-argument splice / ncmp
CntO(sl)   == IF Full(sl) THEN U.cnt ELSE IF sl = "a" THEN U.cnto ELSE U.cntr
NO(sl)     == IF Full(sl) THEN U.n ELSE IF sl = "a" THEN U.no ELSE U.nr

\* the rarer constructors are offered for re-initialisation only with the full universes
Rare(sl, re, S) == IF Full(sl) \/ ~re THEN S ELSE {}
Construct(sl, re) ==
    \/ OpNew(sl, re) \/ OpNewFromPtrNull(sl, re)
    \/ \E t \in Ptrs(sl) : OpNewFromPtr(sl, re, t)
    \/ \E k \in NumsS(sl) : OpNewFromNum(sl, re, k)
    \/ \E t \in Rare(sl, re, IF Full(sl) THEN U.bigs ELSE {}) : OpNewFromPtrBig(sl, re, t)
    \/ \E p \in Rare(sl, re, U.buffs) : OpNewFromBuff(sl, re, p[1], p[2])
    \/ \E n \in Rare(sl, re, U.nullbuffs) : OpNewFromBuffNull(sl, re, n)
    \/ \E c \in Rare(sl, re, U.fps), tr \in U.fptr : OpNewFromFp(sl, re, c, tr)
    \/ \E c \in Rare(sl, re, U.fds), tr \in U.fdtr : OpNewFromFd(sl, re, c, tr)

NextSlot(sl) ==
    \/ Construct(sl, FALSE) \/ Construct(sl, TRUE)
    \/ OpDone(sl) \/ OpDel(sl) \/ OpDup(sl)
    \/ \E t \in Ptrs(sl) : OpAppendPtr(sl, t) \/ OpPrependPtr(sl, t) \/ OpFindPtr(sl, t) \/ OpSprintfS(sl, t)
    \/ \E c \in Chars(sl) : OpAppendChar(sl, c) \/ OpPrependChar(sl, c) \/ OpClear(sl, c) \/ OpIndex(sl, c) \/ OpRindex(sl, c)
    \/ OpAppendObj(sl) \/ OpPrependObj(sl) \/ OpAppendSelf(sl) \/ OpPrependSelf(sl)
    \/ \E i \in IdxS(sl), c \in CntS(sl) :
          \/ \E t \in SplT(sl) : OpSplicePtr(sl, i, c, t)
          \/ OpSubstr(sl, i, c) \/ OpSubstrToPtr(sl, i, c)
    \/ \E i \in IdxO(sl), c \in CntO(sl) : OpSpliceObj(sl, i, c)
    \/ \E i \in U.idxr, c \in U.cntr : OpSpliceSelf(sl, i, c) \/ OpSplicePtrNull(sl, i, c)
    \/ OpTrim(sl) \/ OpReverse(sl) \/ OpUpcase(sl) \/ OpDowncase(sl)
    \/ \E t \in U.lits : OpSprintfLit(sl, t)
    \/ \E k \in NumsS(sl) : OpSprintfD(sl, k) \/ (\E t \in U.ptrsr : OpSprintfSD(sl, t, k))
    \/ OpLen(sl) \/ OpFindObj(sl) \/ OpFindSelf(sl)
    \/ \E kind \in CmpKinds :
          \/ \E t \in CmpT(sl), n \in NS(sl) : OpCmpPtr(sl, kind, t, n)
          \/ \E n \in NO(sl) : OpCmpObj(sl, kind, n)
          \/ \E n \in U.nr : OpCmpSelf(sl, kind, n) \/ OpCmpPtrNull(sl, kind, n)
    \/ \E base \in {10, 16} : OpToNum(sl, base) \/ OpToNumOver(sl, base)
    \/ OpToFloat(sl)

Next == \E sl \in Slots : NextSlot(sl)
Spec == Init /\ [][Next]_vars

------------------------------------------------------------------------------------------
(* properties of the reference itself, checked by TLC on every reachable text *)
CharOK(c) == c \in 1 .. 255
TextOK(s) == s \in Seq(1 .. 255)
TypeOK == /\ al \in BOOLEAN /\ bl \in BOOLEAN
          /\ TextOK(a) /\ TextOK(b)
          /\ (~al => a = <<>>) /\ (~bl => b = <<>>)

LiveTexts == (IF al THEN {a} ELSE {}) \cup (IF bl THEN {b} ELSE {})

\* S: every search answers inside 0..Len, Len exactly when there is no occurrence, otherwise the first / last one
QueriesInRange == \A s \in LiveTexts :
    /\ \A c \in U.chars :
          LET f == FirstPos(s, c) l == LastPos(s, c) IN
          /\ f \in 0 .. Len(s) /\ l \in 0 .. Len(s)
          /\ (f = Len(s)) <=> (\A k \in 1 .. Len(s) : s[k] # c)
          /\ (l = Len(s)) <=> (f = Len(s))
          /\ f < Len(s) => (s[f + 1] = c /\ s[l + 1] = c /\ f <= l
                            /\ \A k \in 1 .. Len(s) : s[k] = c => (f + 1 <= k /\ k <= l + 1))
    /\ \A t \in U.ptrs :
          LET p == FindPos(s, t) IN
          /\ p \in 0 .. Len(s)
          /\ (p < Len(s) \/ (t = <<>> /\ s = <<>>)) <=> (\E q \in 0 .. Len(s) : OccursAt(s, t, q))
          /\ (\E q \in 0 .. Len(s) : OccursAt(s, t, q)) => (OccursAt(s, t, p) /\ \A q \in 0 .. (p - 1) : ~OccursAt(s, t, q))

\* S: positions outside the text are refused; an accepted substr is the piece of the text at the normalised position
SubstrLaw == \A s \in LiveTexts : \A i \in U.idx, c \in U.cnt :
    LET r == SubstrRes(s, i, c) n == NormIdx(s, i) IN
    /\ (~IdxOK(s, i)) => ~r.ok
    /\ r.ok => /\ Len(r.s) <= Len(s) - n
               /\ \A k \in 1 .. Len(r.s) : r.s[k] = s[n + k]
               /\ (c > 0 => Len(r.s) = (IF c < Len(s) - n THEN c ELSE Len(s) - n))
               /\ (c <= 0 => Len(r.s) = Len(s) - n + c)

\* S: refused => unchanged; accepted => exactly cnt characters at idx are replaced by t
SpliceLaw == \A s \in LiveTexts : \A i \in U.idx, c \in U.cnt, t \in U.spls :
    LET r == SpliceRes(s, i, c, t) n == NormIdx(s, i) IN
    /\ (~r.ok) => r.s = s
    /\ (~IdxOK(s, i) \/ (c >= 0 /\ c > Len(s) - n)) => ~r.ok
    /\ (r.ok /\ c >= 0) => /\ Len(r.s) = Len(s) - c + Len(t)
                           /\ \A k \in 1 .. n : r.s[k] = s[k]
                           /\ \A k \in 1 .. Len(t) : r.s[n + k] = t[k]
                           /\ \A k \in (n + c + 1) .. Len(s) : r.s[k - c + Len(t)] = s[k]

\* the order is an order: reflexive, antisymmetric, prefix-limited variants agree with the full one when n covers both
CmpLaw == \A s \in LiveTexts : \A t \in U.cmps \cup LiveTexts :
    /\ CmpSeq(s, s) = 0
    /\ CmpSeq(s, t) = 0 - CmpSeq(t, s)
    /\ (CmpSeq(s, t) = 0) <=> (s = t)
    /\ CmpKind("casecmp", s, UpperT(s), 0) = 0
    /\ CmpKind("ncmp", s, t, Len(s) + Len(t) + 1) = CmpSeq(s, t)
    /\ CmpKind("ncmp", s, t, 0) = 0
    /\ \A u \in U.cmps : (CmpSeq(s, t) <= 0 /\ CmpSeq(t, u) <= 0) => CmpSeq(s, u) <= 0

\* trimming removes exactly the blank margins, reversal is an involution, case mapping and clear keep the length
ShapeLaw == \A s \in LiveTexts :
    LET t == TrimT(s) IN
    /\ TrimT(t) = t
    /\ t # <<>> => (~IsSpace(t[1]) /\ ~IsSpace(t[Len(t)]))
    /\ \E p \in 0 .. Len(s) : /\ OccursAt(s, t, p)
                              /\ \A k \in 1 .. Len(s) : (k <= p \/ k > p + Len(t)) => IsSpace(s[k])
    /\ Rev(Rev(s)) = s /\ Len(Rev(s)) = Len(s)
    /\ Len(UpperT(s)) = Len(s) /\ Len(LowerT(s)) = Len(s)
    /\ LowerT(UpperT(LowerT(s))) = LowerT(s)

\* I: the empty text is a full citizen - every reference operator is defined on it
EmptyLaw == (<<>> \in LiveTexts) =>
    /\ TrimT(<<>>) = <<>> /\ Rev(<<>>) = <<>> /\ UpperT(<<>>) = <<>> /\ LowerT(<<>>) = <<>>
    /\ \A c \in U.chars : FirstPos(<<>>, c) = 0 /\ LastPos(<<>>, c) = 0 /\ FillT(<<>>, c) = <<>>
    /\ \A t \in U.ptrs : FindPos(<<>>, t) = 0
    /\ \A i \in U.idx, c \in U.cnt : ~SubstrRes(<<>>, i, c).ok /\ ~SpliceRes(<<>>, i, c, <<97>>).ok
    /\ NumVal(<<>>, 10) = 0 /\ FloatVal(<<>>) = 0 /\ CmpSeq(<<>>, <<>>) = 0

\* number rendering and parsing are inverse on the numbers offered
NumLaw == \A k \in U.nums : (k >= 0 => NumVal(NumText(k), 10) = k) /\ FloatVal(NumText(k)) = k

\* action property: a call touches at most one slot (dup: only the new copy); the other slot is independent of it
SlotIndependence == [][ (a' = a /\ al' = al) \/ (b' = b /\ bl' = bl) ]_vars
================================================================================
