SPECIFICATION Spec
CONSTANTS
  CopyAlphabet <- CopyAlpha
  MaxSize = 8
  MaxSrc = 5
  TextAlphabet <- TextAlpha8
  MaxText = 6
  Ints <- IntsThorough
  Obs <- ObsEmit
INVARIANTS CopyLaws SubstrLaws InPlaceLaws AliasLaws
CHECK_DEADLOCK FALSE
