"""C01: str / ustr objects are faithful character-sequence values under any history (StrObj.tla)."""
import re, json, random
from vlib import build, objcheck
from vlib.core import tok, untok, log
from vlib.graph import Script, step_line
from vlib.replay import run_scripts

PROPERTY = "C01"
LEVEL = "model_checking"
LEVEL_TEXT = ("TLC explores StrObj.tla exhaustively in small scopes (two slots, every public str method as an action, all texts over a "
              "3-4 symbol alphabet up to length 4-6, indices and counts of either sign) checking the reference laws (searches in range / "
              "not-found = length, refused => unchanged, substr/splice/cmp/trim laws, slot independence); EVERY transition TLC generates is "
              "then executed on the str and on the ustr class (ASan build of the current tree) with the text of both slots, the return value "
              "and the representation invariants (NUL exactly at len, size > len, allocation >= size) compared after every step - from the "
              "shortest history, again after every constructor, again from new()+append_char - plus random walks and TLC trace validation "
              "of recorded histories with texts of 1..20000 characters through the stream/descriptor constructors (file, pipe, pipe fed in "
              "pieces, interrupted and short reads).")
LEVEL_NOTE = ("Bounded scope for the exhaustive part; beyond it sampled histories only. Memory safety is 'no ASan report on everything "
              "executed'. sprintf only through 4 format shapes; to_num/to_float only on digit texts (no floating point in TLA+); negative "
              "splice counts only where the as-built and the substr convention agree (DESIGN 8a E). Trusted: TLC, the projection in "
              "harness/str_replay.c, ASan.")
TECHNIQUE = "TLA+ spec + TLC exhaustive transition cover replayed on the implementation + TLC trace validation"
DESIGN_REF = "DESIGN.md section 6 C01, 8a Strings"
CLASSES = ["str", "ustr"]
INIT = {"a": {"live": False, "s": []}, "b": {"live": False, "s": []}}
MODULE = "MC_StrObj.tla"


# ---------------------------------------------------------------------------------------------------------------------
# finding keys: class.operation [where in the argument/state space] failure-kind/detail
def _lencls(n):
    return "len=0" if n == 0 else ("len=1" if n == 1 else "len>1")


def argclass(e):
    op = e["op"]
    sl = "b" if op.startswith("b_") else "a"
    base = op[2:] if sl == "b" else op
    pre = e["pre"][sl]
    s = pre["s"]
    n = len(s)
    parts = []
    if not pre["live"]:
        parts.append("absent")
    else:
        parts.append(_lencls(n))
    oth = e["pre"]["a" if sl == "b" else "b"]
    args = e["args"]
    if base in ("append", "prepend", "splice", "find", "cmp", "casecmp", "ncmp", "ncasecmp"):
        parts.append("other=NULL" if not oth["live"] else "other:" + _lencls(len(oth["s"])))
    if base.startswith("splice") or base.startswith("substr"):
        i, c = args[0], args[1]
        k = i + n if i < 0 else i
        if k < 0:
            r = "idx<0"
        elif k >= n:
            r = "idx=len" if k == n else "idx>len"
        elif k == 0:
            r = "idx=0"
        elif k == n - 1:
            r = "idx=len-1"
        else:
            r = "idx-mid"
        parts.append(("neg:" if i < 0 else "") + r)
        if 0 <= k < n:
            rest = n - k
            parts.append("cnt<0" if c < 0 else ("cnt=0" if c == 0 else ("cnt<rest" if c < rest else ("cnt=rest" if c == rest else "cnt>rest"))))
    for x in args:
        if isinstance(x, list):
            parts.append("arg" + _lencls(len(x)))
            break
    if base in ("index", "rindex") and pre["live"]:
        parts.append("present" if args[0] in s else "absent-char")
    if "_from_f" in base:
        parts.append("transport=%s" % args[-1])
    return ",".join(parts)


def keyfn(variant, e, f):
    d = ""
    if f.kind == "inv":
        d = re.sub(r"-?\d+", "N", f.got)
    elif f.kind in ("crash", "hang", "exit"):
        d = f.sig
    op = e["op"] if e else f.op
    return "%s.%s [%s] %s%s" % (variant, op, argclass(e) if e else "-", f.kind, ("/" + d) if d else "")


def harness(ctx):
    libdir, cflags = build.build_lib(ctx.repo)
    return build.build_harness("str_replay", ["str_replay.c"], libdir, cflags, ldflags=["-Wl,--wrap=read"])


# ---------------------------------------------------------------------------------------------------------------------
# extra cover passes: the same transitions again from other histories (other representations of the same text)
def _run_pass(ctx, g, exe, cls, scripts, tag):
    """scripts: list of Script (prefix + targets).  Runs them; a hard failure inside a chain re-queues the rest of the chain.
    Every failing step is charged to the edge executed at that step."""
    nscripts = nsteps = 0
    sid = max([s.sid for s in scripts] + [0])
    todo = scripts
    rounds = 0
    seen = set()
    nfail = 0
    while todo and rounds < 50:
        rounds += 1
        bysid = {s.sid: s for s in todo}
        fails, _, ns, nt = run_scripts(exe, [cls], [s.text(g) for s in todo], ctx.rundir, tag="%s-%s" % (cls, tag))
        nscripts += ns
        nsteps += nt
        again = []
        for f in fails:
            s = bysid.get(f.sid)
            if s is None:
                continue
            ix = s.edge_indexes()
            st = min(f.step, len(ix) - 1)
            e = g.edict(ix[st])
            nfail += 1
            key = keyfn(cls, e, f)
            if key not in seen:
                seen.add(key)
                ctx.report(key, "%s (%s pass): %s at step %d (%s) exp=%s got=%s %s" % (cls, tag, f.kind, st, step_line(e), f.exp, f.got, f.sig),
                           {"variant": cls, "harness_args": [cls], "script": s.describe(g, st), "failure": repr(f), "detail": f.detail,
                            "script_text": s.text(g)})
            hard = f.kind in ("crash", "hang", "exit", "state", "inv")
            npre = len(s.prefix)
            if hard and st >= npre and st < len(ix) - 1:
                sid += 1
                again.append(Script(sid, list(s.prefix), s.targets[st - npre + 1:]))
        todo = again
    return nscripts, nsteps, nfail


def extra_passes(ctx, g, lp, exe, cls, label):
    init = tok(INIT)
    sid = [0]

    def mk(prefix, out):
        res = []
        node_loops = [i for i in out if g.is_loop(i)]
        moves = [i for i in out if not g.is_loop(i)]
        for c in range(0, len(node_loops), 400):
            sid[0] += 1
            res.append(Script(sid[0], list(prefix), node_loops[c:c + 400]))
        for i in moves:
            sid[0] += 1
            res.append(Script(sid[0], list(prefix), [i]))
        return res

    # pass 1: after EVERY constructor edge, every transition of the state it produces
    scripts = []
    nctor = 0
    for ci in g.out[init]:
        qk = g.post_key(ci)
        if ci not in lp.verified:
            continue
        nctor += 1
        scripts += mk([ci], g.out.get(qk, []))
    a1 = _run_pass(ctx, g, exe, cls, scripts, "after-each-constructor")
    # pass 2: from new() + append_char chain, every transition of every single-slot state over the alphabet
    idx = {}
    for i in range(g.n_edges()):
        head = g.line(i).split(" = ", 1)[0]            # "op args"
        if (head == "new " or head.startswith("append_char ")) and i in lp.verified:
            idx[(g.pre_key(i), head)] = i
    scripts = []
    nstates = 0
    for qk in list(g.nodes):
        st = untok(qk)
        if not st["a"]["live"] or st["b"]["live"] or not g.out.get(qk):
            continue
        cur = init
        path = []
        ok = True
        for head in ["new "] + ["append_char %d" % c for c in st["a"]["s"]]:
            i = idx.get((cur, head))
            if i is None:
                ok = False
                break
            path.append(i)
            cur = g.post_key(i)
        if not ok or cur != qk:
            continue
        nstates += 1
        scripts += mk(path, g.out[qk])
    a2 = _run_pass(ctx, g, exe, cls, scripts, "from-new-append_char")
    ctx.cov.setdefault("extra_passes", {})[label] = {
        "after_each_constructor": {"constructor_edges": nctor, "scripts": a1[0], "steps": a1[1], "failures": a1[2]},
        "from_new_plus_append_char": {"states": nstates, "scripts": a2[0], "steps": a2[1], "failures": a2[2]}}
    ctx.add("traces_validated_against_impl", a1[0] + a2[0])
    ctx.add("evaluations", a1[1] + a2[1])


# ---------------------------------------------------------------------------------------------------------------------
# direction (B): long recorded histories validated by TLC
SIZES = [1, 4095, 4096, 4097, 8191, 8192, 8193, 20000]
CAP = 26000            # no operation is generated that could make a text longer than this
SMALL = [[], [97], [32], [104, 111], [32, 66], [120, 121, 122], [97, 66, 32], [9, 32], [113, 120, 106]]


def gen_history(rnd, nops, k):
    """A random program over the str API around large texts.  The mirror of the lengths is only used to pick interesting
    arguments; it is NOT the oracle (TLC evaluating StrObjTrace is)."""
    L = {"a": None, "b": None}          # mirror of the lengths (None = absent)
    prog = []

    def big_ctor(sl, re_):
        n = rnd.choice(SIZES) if prog else SIZES[k % len(SIZES)]
        if rnd.random() < 0.5:
            nl = rnd.choice([0, 0, n, max(1, n - 1), max(1, n // 2), min(n, 4096), min(n, 4097)])
            tr = rnd.choice([0, 1, 2])
            prog.append((sl, ("re" if re_ else "new") + "_from_fp_gen", [n, nl, tr]))
            L[sl] = n if nl == 0 else nl - 1
        else:
            nl = rnd.choice([0, 0, 0, max(1, n // 3)])
            tr = rnd.choice([0, 1, 2, 3])
            prog.append((sl, ("re" if re_ else "new") + "_from_fd_gen", [n, nl, tr]))
            L[sl] = n

    big_ctor("a", False)
    while len(prog) < nops:
        sl = "a" if (L["b"] is None or rnd.random() < 0.7) else "b"
        if L[sl] is None:
            if rnd.random() < 0.6:
                big_ctor(sl, False)
            else:
                t = rnd.choice(SMALL)
                prog.append((sl, "new_from_ptr", [t]))
                L[sl] = len(t)
            continue
        n = L[sl]
        ot = "b" if sl == "a" else "a"
        idxs = [0, 1, -1, n - 1, n, -n, -n - 1, n // 2, 4095, 4096, 4097, -4096, n - 4096, n - 4095, rnd.randint(-n - 2, n + 2)]
        i = rnd.choice(idxs)
        r = rnd.random()
        t = rnd.choice(SMALL)
        c = rnd.choice([97, 32, 66, 122, 9, 200])
        if r < 0.10:
            op = rnd.choice([("append_char", [c]), ("prepend_char", [c]), ("append_from_ptr", [t]), ("prepend_from_ptr", [t])])
            L[sl] = n + (1 if "char" in op[0] else len(t))
        elif r < 0.20:
            cnt = rnd.choice([0, 1, 2, 5, 4096, 4095, max(0, n - 1), n, n + 1, rnd.randint(0, n + 1)])
            if rnd.random() < 0.15:
                i, cnt = 0, -rnd.randint(1, 5)       # negative counts only where both conventions agree (idx 0)
            which = rnd.choice(["splice_from_ptr", "splice_from_ptr", "splice", "splice_from_ptr_null"])
            args = [i, cnt] + ([t] if which == "splice_from_ptr" else [])
            op = (which, args)
            add = len(t) if which == "splice_from_ptr" else ((L[ot] or 0) if which == "splice" else 0)
            if n + add > CAP:
                continue
            L[sl] = n + add                               # upper bound (the mirror never under-estimates a length)
        elif r < 0.27:
            op = (rnd.choice(["trim", "reverse", "upcase", "downcase", "reverse"]), [])
        elif r < 0.29:
            op = rnd.choice([("clear", [c]), ("sprintf_s", [t]), ("sprintf_d", [rnd.randint(-99, 99999)]), ("sprintf_lit", [t]),
                             ("sprintf_sd", [t, rnd.randint(-5, 500)]), ("done", [])])
            L[sl] = n if op[0] == "clear" else (0 if op[0] == "done" else 12)      # upper bounds
        elif r < 0.34:
            big_ctor(sl, True)
            continue
        elif r < 0.40:
            if L[ot] is None:
                op = ("dup", [])
                L[ot] = n
            else:
                op = rnd.choice([("append", []), ("prepend", []), ("find", []), ("cmp", []), ("casecmp", []),
                                 ("ncmp", [rnd.choice([0, 1, 4096, 4097, n, n + 1])]), ("ncasecmp", [rnd.choice([1, 4095, n])])])
                if op[0] in ("append", "prepend"):
                    if n + L[ot] > CAP:
                        continue
                    L[sl] = n + L[ot]
        elif r < 0.43:
            if L[ot] is not None and rnd.random() < 0.5:
                prog.append((ot, "del", []))
                L[ot] = None
                continue
            op = rnd.choice([("append_self", []), ("prepend_self", []), ("find_self", []), ("cmp_self", []), ("splice_self", [i, 1])])
            if op[0] in ("append_self", "prepend_self"):
                if n * 2 > CAP:
                    continue
                L[sl] = n * 2
            elif op[0] == "splice_self":
                if n * 2 > CAP:
                    continue
                L[sl] = n * 2      # upper bound
        elif r < 0.60:
            cnt = rnd.choice([0, 1, 2, 7, -1, -7, 4096, -4096, n, n + 5, rnd.randint(-n - 1, n + 1)])
            if cnt == 0 or abs(cnt) > 64:
                if rnd.random() < 0.8:
                    cnt = rnd.choice([1, 3, 9, 33])      # keep most logged pieces short
            op = (rnd.choice(["substr", "substr_to_ptr"]), [i, cnt])
        elif r < 0.80:
            op = rnd.choice([("index", [c]), ("rindex", [c]), ("find_from_ptr", [t]), ("find_from_ptr", [[rnd.randint(97, 122), rnd.randint(97, 122)]]),
                             ("len", []), ("index", [rnd.randint(97, 122)]), ("rindex", [rnd.randint(97, 122)])])
        else:
            op = rnd.choice([("cmp_with_ptr", [t]), ("casecmp_with_ptr", [t]), ("ncmp_with_ptr", [t, rnd.choice([0, 1, 2, 5])]),
                             ("ncasecmp_with_ptr", [t, rnd.choice([0, 1, 3])]), ("cmp_with_ptr_null", []), ("len", [])])
        prog.append((sl, op[0], op[1]))
    return prog


def opname(sl, bop):
    return bop if sl == "a" else "b_" + bop


def history_text(k, h):
    return "S %d\n%s\nE\n" % (k + 1, "\n".join("%s %s = ? ?" % (opname(sl, bop), " ".join(tok(x) for x in args)) for sl, bop, args in h))


def record(ctx, exe, cls, hist, texts):
    """Runs the histories on one class in record mode.  Returns (events, index, fails): the NDJSON events for StrObjTrace
    (executions separated by reset events) and, per event, (script id, step)."""
    fails, recs, ns, nt = run_scripts(exe, [cls], texts, ctx.rundir, jobs=4, tag="rec-" + cls, env={"VH_NO_HEAP": "1", "VH_WATCHDOG": "120"})
    bad = set(f.sid for f in fails)
    by = {}
    for sid, step, ret, state in recs:
        by.setdefault(sid, []).append((step, ret, state))
    events, index = [], []
    for sid in sorted(by):
        if sid in bad:
            continue
        events.append({"op": "reset", "sl": "a", "bop": "reset", "args": [], "ret": True, "same": False, "post": INIT})
        index.append((sid, -1))
        for step, ret, state in sorted(by[sid]):
            sl, bop, args = hist[sid - 1][step]
            ev = {"op": opname(sl, bop), "sl": sl, "bop": bop, "args": args, "ret": untok(ret), "same": state == "="}
            if state != "=":
                ev["post"] = untok(state)
            events.append(ev)
            index.append((sid, step))
    return events, index, fails


def trace_validation(ctx, exe):
    from vlib import trace
    rnd = random.Random(ctx.seed)
    nexec, nops = (8, 50) if ctx.tier == "quick" else (24, 160)
    hist = [gen_history(rnd, nops if k % 4 else max(50, nops // 2), k) for k in range(nexec)]
    texts = [history_text(k, h) for k, h in enumerate(hist)]
    total = 0
    maxlen = 0
    for cls in CLASSES:
        events, index, fails = record(ctx, exe, cls, hist, texts)
        for f in fails:
            sl, bop, args = hist[f.sid - 1][f.step] if f.step < len(hist[f.sid - 1]) else ("a", f.op, [])
            d = re.sub(r"-?\d+", "N", f.got) if f.kind == "inv" else f.sig
            ctx.report("trace %s.%s %s%s" % (cls, bop, f.kind, ("/" + d) if d else ""),
                       "%s: recorded long-text run failed at step %d (%s %s): %r" % (cls, f.step, opname(sl, bop), json.dumps(args)[:80], f),
                       {"variant": cls, "harness_args": [cls], "script_text": texts[f.sid - 1], "failure": repr(f), "detail": f.detail})
        if not events:
            continue
        for ev in events:
            if "post" in ev:
                maxlen = max(maxlen, len(ev["post"]["a"]["s"]), len(ev["post"]["b"]["s"]))
        ok, pos, path = trace.validate(ctx, "StrObjTrace.tla", "StrObjTrace.cfg", events, tag=cls, timeout=1500)
        total += pos
        if not ok:
            sid, step = index[pos] if pos < len(index) else (None, None)
            evb = events[pos] if pos < len(events) else None
            brief = dict(evb or {})
            brief.pop("post", None)
            ctx.report("trace-rejected %s.%s" % (cls, evb["bop"] if evb else "?"),
                       "%s: TLC rejects the recorded execution at event %d (script %s step %s): %s" % (cls, pos, sid, step, json.dumps(brief)[:300]),
                       {"variant": cls, "harness_args": [cls], "script_text": texts[sid - 1] if sid else "", "event_index": pos,
                        "event": {k: (v if k != "post" else "(omitted)") for k, v in (evb or {}).items()}})
        else:
            ctx.sample({"variant": cls, "trace_events": len(events), "longest_text": maxlen,
                        "first_events": [json.dumps({k: v for k, v in e.items() if k != "post"})[:140] for e in events[1:4]]})
    ctx.add("trace_events_validated", total)
    ctx.add("traces_validated_against_impl", nexec * len(CLASSES))
    ctx.cov["trace_longest_text"] = maxlen


def run(ctx):
    exe = harness(ctx)
    cfgs = ["StrObj_quick.cfg"] if ctx.tier == "quick" else ["StrObj_thorough.cfg", "StrObj_thorough2.cfg"]
    walks = (200, 40) if ctx.tier == "quick" else (3000, 60)
    pairs = 60000 if ctx.tier == "quick" else 600000      # 2-step cover (hidden capacity / stale bytes depend on the history)
    for cfg in cfgs:
        g, res = objcheck.tlc_graph(ctx, MODULE, cfg, workers=4, timeout=3000)
        for cls in CLASSES:
            lp = objcheck.replay_cover(ctx, g, [tok(INIT)], exe, cls, [cls], keyfn, walks=walks, pairs=pairs)
            label = "%s:%s" % (cls, cfg)
            ctx.cov["replay"][label] = ctx.cov["replay"].pop(cls)
            extra_passes(ctx, g, lp, exe, cls, label)
        del g
    trace_validation(ctx, exe)
    ctx.cov["exhaustive"] = True
    ctx.cov["rule"] = ("every transition TLC generates for StrObj in the bounded scope is executed once per class (str, ustr) as the last step "
                       "of a script whose prefix consists of already verified transitions; texts of both slots, return value and "
                       "representation invariants are compared after every step; the transitions are executed again after every "
                       "constructor and from new()+append_char; plus random walks; plus TLC validation of recorded long-text histories")
    ctx.assumptions += ["characters are bytes 1..255 (no NUL inside a text)", "C locale", "ASan build of the current tree (clang -O1)",
                        "to_num / to_float only on digit texts; negative splice counts only where both conventions of DESIGN 8a agree"]


def replay(ctx, path):
    d = json.load(open(path))
    rp = d.get("replay") or {}
    exe = harness(ctx)
    if "event_index" not in rp:
        return objcheck.replay_file(exe, [], path, ctx.rundir)
    # a recorded execution that TLC rejected: record it again on the current tree and validate it again
    from vlib import trace
    cls = rp["variant"]
    h = []
    for ln in rp["script_text"].splitlines()[1:-1]:
        w = ln.split(" = ")[0].split(" ")
        sl = "b" if w[0].startswith("b_") else "a"
        h.append((sl, w[0][2:] if sl == "b" else w[0], [untok(x) for x in w[1:] if x != ""]))
    events, index, fails = record(ctx, exe, cls, [h], [history_text(0, h)])
    for f in fails:
        print("REPRODUCED (run fails before validation)", f)
        if f.detail:
            print(f.detail)
    if fails:
        return 1
    ok, pos, _ = trace.validate(ctx, "StrObjTrace.tla", "StrObjTrace.cfg", events, tag="replay")
    if ok:
        print("not reproduced: TLC accepts the re-recorded execution (%d events)" % len(events))
        return 0
    ev = dict(events[pos])
    ev.pop("post", None)
    print("REPRODUCED: TLC rejects the re-recorded execution at event %d: %s" % (pos, json.dumps(ev)[:400]))
    return 1
