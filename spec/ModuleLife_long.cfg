SPECIFICATION Spec
CONSTANTS
  Variants = {1}
  Paths = {11, 12, 13, 14, 15}
  Names = {1}
  Slots = {1}
  LoadFaults = {"none", "dlopen"}
  UnloadFaults = {"none"}
  RunFaults = {}
  SymFaults = {"none"}
  Levels = {}
  Indents = {0}
  Cap = 2
  AsBuilt = FALSE
  Bounded = TRUE
  TrackMain = FALSE
  Obs <- ObsEmit
INVARIANTS TypeOK RefsMatchHolders QuiescenceClosed MainMatches NoStaleUse LoaderSane
PROPERTIES OwnHooksOnly HookPairsWithRefs RefusedChangesNothing
VIEW View
CHECK_DEADLOCK FALSE
