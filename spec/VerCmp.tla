--------------------------------- MODULE VerCmp ---------------------------------
(* C17: spiftool_version_compare as a pure function of its two arguments: run-by-run comparison by         *)
(* character class (alpha / digit / other).  Texts are sequences of character codes.                       *)
(* Rule kinds (DESIGN.md 3): S = stated by the property, I = ideal (the code diverges: finding),            *)
(* C = as-built convention where the statement is silent, E = either outcome accepted, X = not claimed.     *)
(*                                                                                                         *)
(* S  numeric runs compare numerically (any number of digits)                                              *)
(* S  the pre-release words order snap < pre < alpha < beta < rc among themselves                          *)
(* C  any other word ranks above those five; two other words compare as lower-case texts                   *)
(* C  runs of other characters compare as texts; the whole comparison ignores letter case                  *)
(* I  when the two texts continue with runs of different classes the result is the comparison of the       *)
(*    remaining texts (a function of the arguments only - the code compared stale scratch buffers)         *)
(* S  when one text ends first: the other one ranks BELOW it if it continues with snap / pre / alpha /     *)
(*    beta, ABOVE it otherwise (a further numeric component, rc, any other word)                           *)
(* E  ... if it continues with a longer word that merely begins with snap / pre / alpha / beta             *)
(*    (prefix, alphabet, snapshot): the statement ranks "any other suffix" above, the code ranks these     *)
(*    below; neither outcome is demanded, antisymmetry and determinism still are                           *)
(* X  a value is claimed only when no run is longer than MaxClaimedRun characters; safety, determinism,    *)
(*    antisymmetry and reflexivity are claimed for every length                                            *)
EXTENDS Integers, Sequences, FiniteSets, TLC, Json

CONSTANTS RawSyms,          \* sequence of symbols (each a text) the raw universe is built from
          RawMax,           \* raw universe: all concatenations of at most RawMax symbols
          NumVals,          \* sequence of numbers (as digit texts, no leading zeros) for well-formed versions
          MaxNums,          \* 1 .. MaxNums dot-separated numeric components
          SuffixWords,      \* sequence of suffix words
          SuffixNums,       \* sequence of numbers that may follow the word (the empty text = none)
          TransMax,         \* transitivity information: over the raw universe up to this many symbols
          MaxClaimedRun,
          Obs(_, _, _, _)

VARIABLES mode,             \* "raw" | "wf" | "info"
          row,              \* index of the left argument in the universe of this mode
          done
vars == <<mode, row, done>>

\* S: every operation specified here is a pure function of its arguments.  The library's run-time debug level is a
\* process-wide switch (>= 1: a failed ASSERT exits the process; >= 3 and >= 5: trace statements); it is a DIMENSION of every
\* case - each emitted case is executed at every level of DebugLevels and must yield the same result, buffers and return
\* values, and never terminate the process - and not a parameter of any result.
DebugLevels == <<0, 1, 3, 5>>
IsAlphaCh(c) == c \in 65 .. 90 \/ c \in 97 .. 122
IsDigitCh(c) == c \in 48 .. 57
ClassOf(c)   == IF IsAlphaCh(c) THEN 1 ELSE IF IsDigitCh(c) THEN 2 ELSE 3
LowerCh(c)   == IF c \in 65 .. 90 THEN c + 32 ELSE c
LowerAll(t)  == [k \in 1 .. Len(t) |-> LowerCh(t[k])]
Sign(n)      == IF n < 0 THEN -1 ELSE IF n > 0 THEN 1 ELSE 0
MinOf(a, b)  == IF a < b THEN a ELSE b

\* first position >= i that does not continue the run of class c (Len+1 at the end); linear for TLC
RunEnd(t, i, c) == CHOOSE j \in i .. (Len(t) + 1) :
                      /\ (j = Len(t) + 1 \/ ClassOf(t[j]) # c)
                      /\ \A k \in i .. (j - 1) : ClassOf(t[k]) = c
\* strcmp(): sign of the bytewise lexicographic comparison
FirstDiff(u, v) == CHOOSE k \in 1 .. (MinOf(Len(u), Len(v)) + 1) :
                      /\ (k = MinOf(Len(u), Len(v)) + 1 \/ u[k] # v[k])
                      /\ \A m \in 1 .. (k - 1) : u[m] = v[m]
LexCmp(u, v) == LET k == FirstDiff(u, v) IN
                IF k <= Len(u) /\ k <= Len(v) THEN Sign(u[k] - v[k]) ELSE Sign(Len(u) - Len(v))
\* S: numeric comparison of two digit runs of any length
StripZeros(u) == LET k == CHOOSE k \in 1 .. (Len(u) + 1) : (k = Len(u) + 1 \/ u[k] # 48) /\ \A m \in 1 .. (k - 1) : u[m] = 48
                 IN SubSeq(u, k, Len(u))
NumCmp(u, v) == LET a == StripZeros(u) b == StripZeros(v) IN
                IF Len(a) # Len(b) THEN Sign(Len(a) - Len(b)) ELSE LexCmp(a, b)

W_snap == <<115, 110, 97, 112>>   W_pre == <<112, 114, 101>>   W_alpha == <<97, 108, 112, 104, 97>>
W_beta == <<98, 101, 116, 97>>    W_rc == <<114, 99>>
Rank(w) == IF w = W_snap THEN 1 ELSE IF w = W_pre THEN 2 ELSE IF w = W_alpha THEN 3
           ELSE IF w = W_beta THEN 4 ELSE IF w = W_rc THEN 5 ELSE 6
IsPrefixOf(p, t) == Len(p) <= Len(t) /\ SubSeq(t, 1, Len(p)) = p
BelowWords == {W_snap, W_pre, W_alpha, W_beta}

\* deciding rules (reported with every result; they also name the finding keys)
R_EQUAL == 1  R_WORDRANK == 2  R_WORDTEXT == 3  R_NUMBER == 4  R_PUNCT == 5  R_MIXED == 6
R_TAILBELOW == 7  R_TAILABOVE == 8  R_TAILEITHER == 9

\* the text that is left of t (from position i) when the other text has ended: which way does it rank the longer text?
TailOf(t, i, sgn) ==        \* sgn = +1 when t is the left argument
    LET w == SubSeq(t, i, RunEnd(t, i, 1) - 1) IN
    IF w \in BelowWords THEN [v |-> -sgn, rule |-> R_TAILBELOW]                                     \* S
    ELSE IF \E b \in BelowWords : IsPrefixOf(b, w) THEN [v |-> 0, rule |-> R_TAILEITHER]            \* E
    ELSE [v |-> sgn, rule |-> R_TAILABOVE]                                                          \* S

RECURSIVE CmpFrom(_, _, _, _)
CmpFrom(a, b, i, j) ==      \* a, b lower-case
    IF i > Len(a) /\ j > Len(b) THEN [v |-> 0, rule |-> R_EQUAL]
    ELSE IF j > Len(b) THEN TailOf(a, i, 1)
    ELSE IF i > Len(a) THEN TailOf(b, j, -1)
    ELSE LET ca == ClassOf(a[i]) cb == ClassOf(b[j]) IN
         IF ca # cb THEN [v |-> LexCmp(SubSeq(a, i, Len(a)), SubSeq(b, j, Len(b))), rule |-> R_MIXED]      \* I
         ELSE LET ea == RunEnd(a, i, ca) eb == RunEnd(b, j, cb)
                  ra == SubSeq(a, i, ea - 1) rb == SubSeq(b, j, eb - 1)
                  r == IF ca = 1 THEN (IF Rank(ra) # Rank(rb) THEN [v |-> Sign(Rank(ra) - Rank(rb)), rule |-> R_WORDRANK]
                                       ELSE IF Rank(ra) = 6 THEN [v |-> LexCmp(ra, rb), rule |-> R_WORDTEXT]
                                       ELSE [v |-> 0, rule |-> R_WORDRANK])
                       ELSE IF ca = 2 THEN [v |-> NumCmp(ra, rb), rule |-> R_NUMBER]
                       ELSE [v |-> LexCmp(ra, rb), rule |-> R_PUNCT]
              IN IF r.v # 0 THEN r ELSE CmpFrom(a, b, ea, eb)

Lowered(t)    == IF \E k \in 1 .. Len(t) : t[k] \in 65 .. 90 THEN LowerAll(t) ELSE t
VerCmpR(a, b) == CmpFrom(Lowered(a), Lowered(b), 1, 1)       \* C: letter case is ignored
VerCmp(a, b)  == VerCmpR(a, b).v

\* longest run of one class in t (X: values are claimed only up to MaxClaimedRun)
RECURSIVE LongestRunFrom(_, _)
LongestRunFrom(t, i) == IF i > Len(t) THEN 0
                        ELSE LET e == RunEnd(t, i, ClassOf(t[i])) m == LongestRunFrom(t, e) IN IF e - i > m THEN e - i ELSE m
Claimed(a, b) == LongestRunFrom(a, 1) <= MaxClaimedRun /\ LongestRunFrom(b, 1) <= MaxClaimedRun
\* what the implementation is asked: 10 * rule + (value + 1); the value is not claimed for rule 0 (X: a run longer
\* than MaxClaimedRun) and for rule 9 (E: R_TAILEITHER)
Code(a, b) == LET r == VerCmpR(a, b) IN
              IF ~Claimed(a, b) THEN 1 ELSE 10 * r.rule + (r.v + 1)

------------------------------------------------------------------------------------------
(* universes *)
RECURSIVE ConcatsOfExactly(_, _)
ConcatsOfExactly(syms, n) ==        \* sequence of all concatenations of exactly n symbols
    IF n = 0 THEN << <<>> >>
    ELSE LET p == ConcatsOfExactly(syms, n - 1) ns == Len(syms) IN
         [k \in 1 .. (Len(p) * ns) |-> p[((k - 1) \div ns) + 1] \o syms[((k - 1) % ns) + 1]]
RECURSIVE ConcatsUpTo(_, _)
ConcatsUpTo(syms, n) == IF n = 0 THEN ConcatsOfExactly(syms, 0) ELSE ConcatsUpTo(syms, n - 1) \o ConcatsOfExactly(syms, n)
URaw == ConcatsUpTo(RawSyms, RawMax)

\* well-formed versions: dot-separated numbers, optionally a word, optionally a number behind the word
DOT == <<46>>
RECURSIVE NumLists(_)
NumLists(n) ==                      \* sequence of all lists of exactly n numbers
    IF n = 0 THEN << <<>> >>
    ELSE LET p == NumLists(n - 1) nv == Len(NumVals) IN
         [k \in 1 .. (Len(p) * nv) |-> Append(p[((k - 1) \div nv) + 1], NumVals[((k - 1) % nv) + 1])]
RECURSIVE NumListsUpTo(_)
NumListsUpTo(n) == IF n = 1 THEN NumLists(1) ELSE NumListsUpTo(n - 1) \o NumLists(n)
Suffixes == << [word |-> <<>>, wnum |-> <<>>] >> \o
            [k \in 1 .. (Len(SuffixWords) * Len(SuffixNums)) |->
                [word |-> SuffixWords[((k - 1) \div Len(SuffixNums)) + 1], wnum |-> SuffixNums[((k - 1) % Len(SuffixNums)) + 1]]]
RECURSIVE Dotted(_, _)
Dotted(nums, k) == IF k > Len(nums) THEN <<>> ELSE (IF k > 1 THEN DOT ELSE <<>>) \o nums[k] \o Dotted(nums, k + 1)
UWf == LET nl == NumListsUpTo(MaxNums) ns == Len(Suffixes) IN
       [k \in 1 .. (Len(nl) * ns) |->
           LET nums == nl[((k - 1) \div ns) + 1] sf == Suffixes[((k - 1) % ns) + 1] IN
           [nums |-> nums, word |-> sf.word, wnum |-> sf.wnum, text |-> Dotted(nums, 1) \o sf.word \o sf.wnum]]
UWfText == [k \in 1 .. Len(UWf) |-> UWf[k].text]

------------------------------------------------------------------------------------------
(* the model: one state per left argument; one evaluation step computes its whole row *)
Init == /\ done = FALSE
        /\ \/ mode = "raw" /\ row \in 1 .. Len(URaw)
           \/ mode = "wf" /\ row \in 1 .. Len(UWf)
           \/ mode = "info" /\ row = 1

EvalRawRow == /\ ~done /\ mode = "raw" /\ done' = TRUE /\ UNCHANGED <<mode, row>>
              /\ Obs("row", <<"raw", row, URaw[row]>>, [j \in 1 .. Len(URaw) |-> Code(URaw[row], URaw[j])], TRUE)
EvalWfRow  == /\ ~done /\ mode = "wf" /\ done' = TRUE /\ UNCHANGED <<mode, row>>
              /\ Obs("row", <<"wf", row, UWfText[row]>>, [j \in 1 .. Len(UWf) |-> Code(UWfText[row], UWfText[j])], TRUE)

\* information only (the statement does not claim transitivity): is the reference transitive on the small raw universe?
UT == ConcatsUpTo(RawSyms, TransMax)
TM == [p \in (1 .. Len(UT)) \X (1 .. Len(UT)) |-> VerCmp(UT[p[1]], UT[p[2]])]
NonTransitive == {t \in (1 .. Len(UT)) \X (1 .. Len(UT)) \X (1 .. Len(UT)) :
                     TM[<<t[1], t[2]>>] = -1 /\ TM[<<t[2], t[3]>>] = -1 /\ TM[<<t[1], t[3]>>] # -1}
EvalTransitivityInfo ==
    /\ ~done /\ mode = "info" /\ done' = TRUE /\ UNCHANGED <<mode, row>>
    /\ LET n == Cardinality(NonTransitive) IN
       Obs("info", <<"transitivity", Len(UT), n>>,
           IF n = 0 THEN <<>> ELSE LET t == CHOOSE t \in NonTransitive : TRUE IN <<UT[t[1]], UT[t[2]], UT[t[3]]>>, TRUE)

Next == EvalRawRow \/ EvalWfRow \/ EvalTransitivityInfo
Spec == Init /\ [][Next]_vars

------------------------------------------------------------------------------------------
(* laws of the reference *)
\* S: compare(a, a) = equal
Reflexive == (~done /\ mode = "raw") => VerCmp(URaw[row], URaw[row]) = 0
\* S: compare(a, b) = -compare(b, a), with the same deciding rule in both directions (each unordered pair once)
Antisymmetric ==
    (~done /\ mode \in {"raw", "wf"}) =>
        LET U == IF mode = "raw" THEN URaw ELSE UWfText IN
        \A j \in row .. Len(U) : LET x == VerCmpR(U[row], U[j]) y == VerCmpR(U[j], U[row]) IN x.v = -y.v /\ x.rule = y.rule
\* S: the stated ordering clauses, on every pair of well-formed versions
FirstNumDiff(p, q) == CHOOSE k \in 1 .. (MinOf(Len(p), Len(q)) + 1) :
                         (k = MinOf(Len(p), Len(q)) + 1 \/ p[k] # q[k]) /\ \A m \in 1 .. (k - 1) : p[m] = q[m]
PreRelease == {W_snap, W_pre, W_alpha, W_beta, W_rc}
StatedOrder ==
    (~done /\ mode = "wf") =>
        LET A == UWf[row] IN
        /\ VerCmp(A.text, A.text) = 0
        /\ \A j \in 1 .. Len(UWf) :
              LET B == UWf[j]  c == VerCmp(A.text, B.text)  k == FirstNumDiff(A.nums, B.nums) IN
              \* numeric components are ordered numerically: the first differing component decides
              /\ (k <= Len(A.nums) /\ k <= Len(B.nums)) => c = NumCmp(A.nums[k], B.nums[k]) /\ c # 0
              \* a version ranks below a longer one that merely adds further numeric components
              /\ (k > Len(A.nums) /\ k <= Len(B.nums) /\ A.word = <<>> /\ B.word = <<>>) => c = -1
              /\ (A.nums = B.nums) =>
                    \* snap / pre / alpha / beta suffix below the bare version, any other suffix above it
                    /\ (A.word # <<>> /\ B.word = <<>>) =>
                          /\ (A.word \in BelowWords => c = -1)
                          /\ ((\A w \in BelowWords : ~IsPrefixOf(w, A.word)) => c = 1)
                    \* the pre-release words among themselves
                    /\ (A.word \in PreRelease /\ B.word \in PreRelease /\ A.word # B.word) => c = Sign(Rank(A.word) - Rank(B.word))
                    \* the number behind the same word is a numeric component too
                    /\ (A.word # <<>> /\ A.word = B.word /\ A.wnum # <<>> /\ B.wnum # <<>>) => c = NumCmp(A.wnum, B.wnum)
                    /\ (A.word = B.word /\ A.wnum = B.wnum) => c = 0
================================================================================
