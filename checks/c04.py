"""C04: every vector implementation is the same sorted multiset (VecBag.tla)."""
import re, json
from vlib import build, objcheck
from vlib.core import tok

PROPERTY = "C04"
LEVEL = "model_checking"
LEVEL_TEXT = ("TLC explores VecBag.tla exhaustively in a small scope (all insert/remove/find histories over 3-5 element values with "
              "duplicates, size <= 4-6, probes below the minimum and above the maximum, a live copy and an iterator) checking the "
              "multiset laws (Sorted, BagConservation, FindIffPresent, slot independence); EVERY transition TLC generates is then "
              "executed on each of the three vector classes (ASan build of the current tree) with a full read-back (iterator, "
              "to_array, find/contains of every value and of both out-of-range probes), the link/allocation/order invariants of the "
              "public structs and the heap balance compared after every step, plus random walks and TLC trace validation of long "
              "recorded histories on vectors of up to 300 elements.")
LEVEL_NOTE = ("Bounded scope for the exhaustive part (thorough: copy and original differ in at most two occurrences while both "
              "live); beyond it sampled histories only. Trusted: TLC, the harness projection (harness/vector_replay.c), ASan. "
              "Elements are spif_str objects compared by value (equal elements are interchangeable); NULL elements are outside the "
              "argument universe (DESIGN.md 8a).")
TECHNIQUE = "TLA+ spec + TLC exhaustive transition cover replayed on the implementation + TLC trace validation"
DESIGN_REF = "DESIGN.md section 6 C04"
CLASSES = ["array", "linked_list", "dlinked_list"]
INIT = {"a": [], "b": {"live": False, "s": []}, "it": -1}
SCOPE = {"quick": 3, "thorough": 5}      # NE of the cfg files
BIG_NE = 40                              # NE of direction B (VecBagTrace.cfg)
BIG_LEN = 300


def argclass(e):
    """Coarse but specific description of where in the argument/state space an edge lies."""
    op = e["op"]
    onb = op.startswith("b_")
    s = e["pre"]["b"]["s"] if onb else e["pre"]["a"]
    n = len(s)
    parts = ["size=0" if n == 0 else ("size=1" if n == 1 else "size>1")]
    if e["pre"]["b"]["live"] and not onb:
        parts.append("copy-live")
    if op in ("insert", "remove", "find", "contains", "b_insert", "b_remove", "b_find"):
        v = e["args"][0]
        if v in s:
            c = s.count(v)
            pos = "only" if n == c else ("minimum" if v == s[0] else ("maximum" if v == s[-1] else "inner"))
            if c > 1:
                pos += "-duplicated"
        elif not s:
            pos = "absent"
        elif v < s[0]:
            pos = "absent-below-min"
        elif v > s[-1]:
            pos = "absent-above-max"
        else:
            pos = "absent-between"
        parts.append("elem:" + pos)
    return ",".join(parts)


def keyfn(variant, e, f):
    d = ""
    if f.kind == "inv":
        d = re.sub(r"\d+", "N", f.got)
    elif f.kind in ("crash", "hang", "exit"):
        d = f.sig
    op = e["op"] if e else f.op
    return "%s.%s [%s] %s%s" % (variant, op, argclass(e) if e else "-", f.kind, ("/" + d) if d else "")


def harness(ctx):
    libdir, cflags = build.build_lib(ctx.repo)
    return build.build_harness("vector_replay", ["vector_replay.c"], libdir, cflags)


def gen_history(rnd, nops, ne, maxlen):
    """A random program over the vector API.  The mirror below only steers the choice of arguments and keeps the caller's
    discipline; it is NOT the oracle - TLC evaluating VecBagTrace is."""
    have = []           # rough mirror of A
    bhave = None
    it = False
    lines = []
    grow = rnd.random() < 0.7
    target = rnd.choice([maxlen, maxlen, maxlen // 2, 30, 3])
    lo, hi = rnd.choice([(1, ne), (1, ne), (1, 3), (ne // 2, ne)])    # narrow ranges give many duplicates
    while len(lines) < nops:
        r = rnd.random()
        e = rnd.randint(lo, hi)
        p = rnd.choice([0, ne + 1, e, e, rnd.randint(0, ne + 1)] + ([min(have), max(have), min(have) - 1, max(have) + 1] if have else []))
        p = max(0, min(ne + 1, p))
        if it:
            c = rnd.choice(["iter_next", "iter_next", "iter_next", "iter_has_next", "iter_del", "find %d" % p, "count"])
            if c == "iter_del":
                it = False
            lines.append(c)
            continue
        if grow and len(have) < target and r < 0.85:
            c = "insert %d" % e
            have.append(e)
        elif r < 0.30 and len(have) < maxlen:
            c = "insert %d" % e
            have.append(e)
        elif r < 0.55:
            c = "remove %d" % p
            if p in have:
                have.remove(p)
            if len(have) < target // 2:
                grow = rnd.random() < 0.5
        elif r < 0.56:
            c = "done"
            have = []
        elif r < 0.80:
            c = rnd.choice(["find %d" % p, "find %d" % p, "contains %d" % p, "count", "to_array"])
        elif r < 0.84:
            if bhave is None:
                c = "iter_new"
                it = True
            else:
                c = "b_find %d" % p
        elif r < 0.92:
            if bhave is None:
                c = "dup"
                bhave = list(have)
            else:
                c = rnd.choice(["b_del", "adopt", "b_insert %d" % e, "b_remove %d" % p, "b_remove %d" % (max(bhave) if bhave else 0),
                                "b_remove %d" % (min(bhave) if bhave else 0)])
                if c == "b_del":
                    bhave = None
                elif c == "adopt":
                    have, bhave = bhave, None
                elif c.startswith("b_insert"):
                    if len(bhave) >= maxlen:
                        c = "b_find %d" % p
                    else:
                        bhave.append(e)
                elif c.startswith("b_remove"):
                    q = int(c.split()[1])
                    if q in bhave:
                        bhave.remove(q)
        else:
            c = "count"
        lines.append(c)
    return lines


def trace_validation(ctx, exe, corrupt=None):
    """Direction (B): long random histories on vectors of up to 300 elements recorded on each class, validated by TLC."""
    import random, time
    from vlib import x_c03
    rnd = random.Random(ctx.seed)
    nexec, nops = (6, 600) if ctx.tier == "quick" else (40, 1000)
    hist = [gen_history(rnd, nops, BIG_NE, BIG_LEN) for k in range(nexec)]
    total = 0
    maxsize = 0
    t0 = time.time()
    for cls in CLASSES:
        n, mx, ok = x_c03.record_validate(ctx, exe, cls, [cls, str(BIG_NE)], hist, INIT, "VecBagTrace.tla", "VecBagTrace.cfg", corrupt=corrupt)
        total += n
        maxsize = max(maxsize, mx)
    ctx.add("trace_events_validated", total)
    ctx.add("traces_validated_against_impl", nexec * len(CLASSES))
    ctx.cov["trace_max_vector_size"] = maxsize
    ctx.cov["trace_wall_s"] = round(time.time() - t0, 1)


def run(ctx):
    exe = harness(ctx)
    cfg = "VecBag_quick.cfg" if ctx.tier == "quick" else "VecBag_thorough.cfg"
    ne = SCOPE[ctx.tier]
    g, res = objcheck.tlc_graph(ctx, "MC_VecBag.tla", cfg, workers=4)
    walks = (300, 40) if ctx.tier == "quick" else (4000, 60)
    for cls in CLASSES:
        objcheck.replay_cover(ctx, g, [tok(INIT)], exe, cls, [cls, str(ne)], keyfn, walks=walks, jobs=4,
                              pairs=(40000 if ctx.tier == "quick" else 400000))
    trace_validation(ctx, exe)
    ctx.cov["exhaustive"] = True
    ctx.cov["rule"] = ("every transition TLC generates for VecBag in the bounded scope is executed once per class as the last step of a "
                       "script whose prefix consists of already verified transitions; state (full read-back), return value, "
                       "representation invariants and heap balance are compared after every step; plus random walks over verified "
                       "transitions and TLC-validated recorded histories on vectors of up to 300 elements")
    ctx.assumptions += ["elements are spif_str objects; order and equality are spif_str_comp on fixed-width decimal texts",
                        "ASan build of the current tree (clang -O1)"]


def replay(ctx, path):
    rp = json.load(open(path)).get("replay") or {}
    if "history" in rp:          # a rejected recorded execution: record it again and let TLC judge it again
        from vlib import x_c03
        return x_c03.replay_trace(ctx, harness(ctx), rp)
    return objcheck.replay_file(harness(ctx), [], path, ctx.rundir)
