SPECIFICATION Spec
CONSTANTS
  Lens <- LensPath
  Modes <- ModesAll
  KW = 1
  KR = 1
  WPats <- NoPats
  RPats <- NoPats
  PathLens <- PathSweep
  SunPathMax = 107
  QueueCap = 250
  Chunk = 4096
  SendMech = "repaired"
  RecvMech = "repaired"
  Obs <- ObsEmit
INVARIANTS TypeOK PairEstablished CursorInsideBuffer SizeNeverShrinksBelowData CursorTracksData EofEndsLoop SendCompleteMeansAll ReceivedEqualsSent CallBudget
CHECK_DEADLOCK TRUE
