SPECIFICATION Spec
CONSTANTS
  Elems = {1, 2}
  MaxLen = 4
  Idx <- IdxThorough
  Obs <- ObsEmit
INVARIANTS TypeOK InsertAtLaw ReverseLaw IterLaw
PROPERTY MutatorsOnly
CHECK_DEADLOCK FALSE
