SPECIFICATION Spec
CONSTANTS
  Parts <- NoParts
  Texts <- Short5
  Lookups <- LookupsThorough
  WithBuild = FALSE
  Obs <- ObsEmit
INVARIANTS TypeOK UnparsedIsFixpoint
CHECK_DEADLOCK FALSE
