-------------------------------- MODULE Ownership --------------------------------
(* C06: who owns what.  The program creates objects (handles), gives them to a container, gets      *)
(* them handed back, makes copies, listings, arrays and iterators, and deletes things in ANY order. *)
(* The specification keeps the ownership ledger the property states; the harness executes the same  *)
(* program on the real classes, touches every object the ledger says the program still owns (ASan   *)
(* sees a use-after-free if the library freed it), deletes exactly what the ledger says the program *)
(* owns at the end, and requires the heap to be back where it started.                              *)
(*                                                                                                  *)
(* Kind "seq": list / vector classes - append/insert TRANSFER the object to the container, remove   *)
(*   hands the very same object back, find/get lend it, dup makes the copy own fresh copies.        *)
(* Kind "map": set(k, v) COPIES: the caller keeps its key and value objects and may change or       *)
(*   delete them at once; remove hands back a pair the caller must delete; get lends; the listings  *)
(*   (keys, values, pairs) are new lists of copies owned by the caller.  The values the program     *)
(*   stores may be composite objects (url, pair, list: a harness variant), and it may hand the map   *)
(*   back what the map itself returned, or a component of it.                                        *)
EXTENDS Integers, Sequences, FiniteSets, TLC, Json
CONSTANTS H,              \* handles: small positive integers
          Val,            \* [H -> value]: the text of each object; several handles may carry EQUAL values - the
                          \* library addresses elements by value (remove/find take the first equal element), ownership
                          \* is by identity, and the two must not be confused
          Kind,           \* "seq" or "map"
          Sorted,         \* seq kind: TRUE = vector classes (kept in ascending order), FALSE = list classes (append)
          Obs(_, _, _, _)

VARIABLES own,     \* [H -> {"none", "prog", "cont", "freed"}]   the ledger for program-created objects
          cont,    \* "live" / "deleted": the container
          order,   \* seq kind: the handles the container owns, in container order
          keys,    \* map: set of key values currently in the map  (seq kind: {})
          copy,    \* "none" / "live": a dup of the container (it owns its own copies)
          held     \* [pairs, lists, arrays, iters]: counts of library-made objects the program must delete
vars == <<own, cont, order, keys, copy, held>>

\* the container's content is observed as VALUES (which of two equal objects sits where is the implementation's
\* business); who owns which object is observed per handle, by identity
ValSeq(q) == [i \in 1 .. Len(q) |-> Val[q[i]]]
St(o, c, q, k, d, h) == [own |-> o, cont |-> c, order |-> ValSeq(q), keys |-> k, copy |-> d, held |-> h]
Pre == St(own, cont, order, keys, copy, held)
StepQ(op, args, ret, o, c, q, k, d, h) ==
    /\ own' = o /\ cont' = c /\ order' = q /\ keys' = k /\ copy' = d /\ held' = h
    /\ Obs(op, args, ret, St(o, c, q, k, d, h))
Step(op, args, ret, o, c, k, d, h) == StepQ(op, args, ret, o, c, order, k, d, h)
\* remove(value): the FIRST element equal in value leaves the container (C: first equal).  If that is not the object the
\* program called h, the two equal-valued handles swap labels - they are indistinguishable by value - so that afterwards
\* h names the object that came back and the other label names the one still inside.
FirstEq(q, v) == CHOOSE i \in 1 .. Len(q) : Val[q[i]] = v /\ \A j \in 1 .. (i - 1) : Val[q[j]] # v
Without(q, h) == LET i == FirstEq(q, Val[h])
                     f == q[i]
                     rest == SubSeq(q, 1, i - 1) \o SubSeq(q, i + 1, Len(q))
                 IN [k \in 1 .. Len(rest) |-> IF rest[k] = h THEN f ELSE rest[k]]
RECURSIVE InsSorted(_, _)
InsSorted(q, h) == IF q = <<>> THEN <<h>> ELSE IF Val[h] <= Val[Head(q)] THEN <<h>> \o q ELSE <<Head(q)>> \o InsSorted(Tail(q), h)
Put(q, h) == IF Sorted THEN InsSorted(q, h) ELSE Append(q, h)
Seq_ == Kind = "seq"
Map_ == Kind = "map"
Live == cont = "live"
Bump(f) == [held EXCEPT ![f] = @ + 1]
Drop(f) == [held EXCEPT ![f] = @ - 1]
Cap == 2          \* model bound on each kind of held object

OpCreate(h) == /\ own[h] = "none" /\ Step("create", <<h>>, TRUE, [own EXCEPT ![h] = "prog"], cont, keys, copy, held)
\* the program uses an object it owns (reads and changes its text): must be valid whatever the library did meanwhile
OpTouch(h)  == /\ own[h] = "prog" /\ Step("touch", <<h>>, TRUE, own, cont, keys, copy, held)
OpDelete(h) == /\ own[h] = "prog" /\ Step("delete", <<h>>, TRUE, [own EXCEPT ![h] = "freed"], cont, keys, copy, held)

(* seq kind *)
OpGive(h)   == /\ Seq_ /\ Live /\ own[h] = "prog"
               /\ StepQ("give", <<h>>, TRUE, [own EXCEPT ![h] = "cont"], cont, Put(order, h), keys, copy, held)
\* remove(value of h): ONE object equal to the probe comes back - that very object leaves the container and is the
\* caller's again (the harness relabels equal-valued handles so that h names the object that actually came back)
OpTakeBack(h) == /\ Seq_ /\ Live /\ own[h] = "cont"
                 /\ StepQ("take_back", <<h>>, Val[h], [own EXCEPT ![h] = "prog"], cont, Without(order, h), keys, copy, held)
\* insert_at at a position that normalises below zero is refused: the object stays the caller's
OpGiveRefused(h) == /\ Seq_ /\ ~Sorted /\ Live /\ own[h] = "prog"
                    /\ Step("give_refused", <<h>>, FALSE, own, cont, keys, copy, held)
OpTakeFirst == /\ Seq_ /\ Live /\ order # <<>>              \* remove_at(0) / removal of the smallest: the first one
               /\ StepQ("take_first", <<Head(order)>>, Val[Head(order)], [own EXCEPT ![Head(order)] = "prog"], cont, Tail(order), keys, copy, held)
OpLend(h)   == /\ Seq_ /\ Live /\ own[h] = "cont"            \* find(h): borrowed, nothing changes hands
               /\ Step("lend", <<h>>, Val[h], own, cont, keys, copy, held)
OpToArray   == /\ Seq_ /\ Live /\ held.arrays < Cap
               /\ Step("to_array", <<>>, ValSeq(order), own, cont, keys, copy, Bump("arrays"))
OpFreeArray == /\ held.arrays > 0 /\ Step("free_array", <<>>, TRUE, own, cont, keys, copy, Drop("arrays"))

(* map kind: h doubles as key value and as value value; the caller's objects never change hands *)
OpSet(k, v) == /\ Map_ /\ Live /\ own[k] = "prog" /\ own[v] = "prog"
               /\ Step("set", <<k, v>>, Val[k] \in keys, own, cont, keys \cup {Val[k]}, copy, held)
OpMapGet(k) == /\ Map_ /\ Live /\ own[k] = "prog"
               /\ Step("map_get", <<k>>, Val[k] \in keys, own, cont, keys, copy, held)
OpMapRemove(k) == /\ Map_ /\ Live /\ own[k] = "prog" /\ held.pairs < Cap
                  /\ IF Val[k] \in keys THEN Step("map_remove", <<k>>, TRUE, own, cont, keys \ {Val[k]}, copy, Bump("pairs"))
                                        ELSE Step("map_remove", <<k>>, FALSE, own, cont, keys, copy, held)
OpDelPair   == /\ held.pairs > 0 /\ Step("del_pair", <<>>, TRUE, own, cont, keys, copy, Drop("pairs"))
\* listings go into a destination list: none (the library makes one), or one the program supplies in any of the states
\* an empty list can be in - fresh, the copy of an empty list, emptied again, after done() - or already holding an element
Dest == {"null", "fresh", "dup_empty", "emptied", "done", "holding"}
OpListing(w, d) == /\ Map_ /\ Live /\ held.lists < Cap       \* w in keys / values / pairs
                   /\ Step("listing", <<w, d>>, Cardinality(keys) + (IF d = "holding" THEN 1 ELSE 0), own, cont, keys, copy, Bump("lists"))
\* aliasing: the value handed to set() is the very object the map returned for that key (set_same), or a COMPONENT of
\* it (set_part: the host of a stored url, the value of a stored pair, the first element of a stored list) - the map copies
\* what it is handed before it lets go of what it held
OpSetSame(k) == /\ Map_ /\ Live /\ own[k] = "prog" /\ Val[k] \in keys
                /\ Step("set_same", <<k>>, TRUE, own, cont, keys, copy, held)
OpSetPart(k) == /\ Map_ /\ Live /\ own[k] = "prog" /\ Val[k] \in keys
                /\ Step("set_part", <<k>>, TRUE, own, cont, keys, copy, held)
OpDelListing == /\ held.lists > 0 /\ Step("del_listing", <<>>, TRUE, own, cont, keys, copy, Drop("lists"))

\* the program hands a container NULL where an object is expected (append / prepend / insert / insert_at on a list, insert on a
\* vector - on an empty scratch container of the class under test and on one holding an element).
\* Whether the call is accepted or refused is not stated here (E: C16 / C02-C04 speak about that); what IS stated is the
\* ledger: nothing the program owns changes hands, and once the scratch container is deleted nothing is left behind.
\* (Only the EMPTY scratch container is probed: on a non-empty linked or doubly linked container the sorted insert of NULL
\* dereferences it in the unmodified library - NULL elements are outside the argument universe of every listed property.)
NullCalls == {"append", "prepend", "insert", "insert_at"}      \* (set(key, NULL) on a map is outside every listed property: not probed)
OpNullProbe(w, f) == /\ Live /\ Seq_ /\ Step("null_probe", <<w, f>>, TRUE, own, cont, keys, copy, held)

(* both kinds *)
OpIterNew   == /\ Live /\ held.iters < 1 /\ Step("iter_new", <<>>, TRUE, own, cont, keys, copy, Bump("iters"))
OpIterDel   == /\ held.iters > 0 /\ Step("iter_del", <<>>, TRUE, own, cont, keys, copy, Drop("iters"))
OpDup       == /\ Live /\ copy = "none" /\ Step("dup", <<>>, TRUE, own, cont, keys, "live", held)
OpDelCopy   == /\ copy = "live" /\ Step("del_copy", <<>>, TRUE, own, cont, keys, "none", held)
\* the container frees what it still owns - and nothing it has handed back, nothing the caller kept
Released    == [h \in H |-> IF own[h] = "cont" THEN "freed" ELSE own[h]]
OpDone      == /\ Live /\ held.iters = 0 /\ StepQ("done", <<>>, TRUE, Released, cont, <<>>, {}, copy, held)
OpDelCont   == /\ Live /\ held.iters = 0 /\ StepQ("del_cont", <<>>, TRUE, Released, "deleted", <<>>, {}, copy, held)
OpRenew     == /\ cont = "deleted" /\ Step("renew", <<>>, TRUE, own, "live", {}, copy, held)

Init == /\ own = [h \in H |-> "none"] /\ cont = "live" /\ order = <<>> /\ keys = {} /\ copy = "none"
        /\ held = [pairs |-> 0, lists |-> 0, arrays |-> 0, iters |-> 0]
Next == \/ \E h \in H : OpCreate(h) \/ OpTouch(h) \/ OpDelete(h) \/ OpGive(h) \/ OpGiveRefused(h) \/ OpTakeBack(h) \/ OpLend(h)
                        \/ OpMapGet(h) \/ OpMapRemove(h) \/ OpSetSame(h) \/ OpSetPart(h)
        \/ \E k, v \in H : OpSet(k, v)
        \/ \E w \in {"keys", "values", "pairs"}, d \in Dest : OpListing(w, d)
        \/ (\E w \in NullCalls : OpNullProbe(w, "empty"))
        \/ OpTakeFirst \/ OpToArray \/ OpFreeArray \/ OpDelPair \/ OpDelListing
        \/ OpIterNew \/ OpIterDel \/ OpDup \/ OpDelCopy \/ OpDone \/ OpDelCont \/ OpRenew
Spec == Init /\ [][Next]_vars

TypeOK == /\ own \in [H -> {"none", "prog", "cont", "freed"}] /\ cont \in {"live", "deleted"}
          /\ keys \subseteq {Val[h] : h \in H} /\ copy \in {"none", "live"}
          /\ {order[i] : i \in 1 .. Len(order)} = {h \in H : own[h] = "cont"} /\ Len(order) = Cardinality({h \in H : own[h] = "cont"})
          /\ held \in [pairs : 0 .. Cap, lists : 0 .. Cap, arrays : 0 .. Cap, iters : 0 .. 1]
\* a freed object never comes back and is never owned again (nothing is released twice)
FreedIsFinal   == [][\A h \in H : own[h] = "freed" => own'[h] = "freed"]_vars
\* the container never frees an object it has handed back or that the caller kept
ContFreesOnlyItsOwn == [][\A h \in H : (own[h] = "prog" /\ own'[h] = "freed") => (cont' = cont /\ keys' = keys)]_vars
\* nothing is owned by a deleted container
DeletedOwnsNothing == cont = "deleted" => (\A h \in H : own[h] # "cont") /\ keys = {}
\* what the program has to delete at quiescence (the harness's end-of-script obligation)
ProgramOwes == {h \in H : own[h] = "prog"}
================================================================================
