"""X02 (extension) local work-around for shared code (vlib/replay.py is not edited):

replay._run_one raises Broken when a harness process dies without a death record.  A stack overflow of several kilobytes
(what a show routine does when a bound is dropped) smashes the caller frames BEFORE AddressSanitizer's interceptor checks the
range, so ASan crashes while unwinding ("nested bug in the same thread, aborting") and neither its death callback nor the
SIGABRT handler of harness/common.h runs: the run would end as "machinery broken" (exit 2) although a memory-safety violation
was observed.  This copy of the runner gives the harness a side file (env VH_LAST) into which harness/show_replay.c writes
"<sid> <step> <op>" before every show step; a death without a record is then charged to that script as a crash.
"""
import os, re, subprocess
from concurrent.futures import ThreadPoolExecutor
from .core import NCPU, Broken
from .replay import ASAN_OPTS, StepFail, asan_signature, _asan_brief


def _run_one(exe, args, script_texts, rundir, tag, env, timeout):
    tag = re.sub(r"[^A-Za-z0-9_.-]", "_", tag)
    path = os.path.join(rundir, "scripts-%s.txt" % tag)
    side = os.path.join(rundir, "last-%s.txt" % tag)
    with open(path, "w") as f:
        for t in script_texts:
            f.write(t)
    first = 0
    fails, records = [], []
    tot_scripts = tot_steps = 0
    e = dict(os.environ)
    e["ASAN_OPTIONS"] = ASAN_OPTS
    e["LC_ALL"] = "C"
    e.update(env or {})
    e["VH_LAST"] = side
    n = len(script_texts)
    while first < n:
        errp = os.path.join(rundir, "stderr-%s.txt" % tag)
        open(side, "w").close()
        with open(errp, "wb") as ef:
            try:
                r = subprocess.run([exe] + list(args) + [path, str(first)], stdout=subprocess.PIPE, stderr=ef, env=e, timeout=timeout, cwd=rundir)
                out = r.stdout.decode("latin-1")
                rc = r.returncode
            except subprocess.TimeoutExpired as te:
                out = (te.stdout or b"").decode("latin-1")
                rc = -9
        done = False
        died = None
        for line in out.splitlines():
            c = line[:1]
            if c == "X":
                p = line.split(" ", 5)
                rest = p[5] if len(p) > 5 else ""
                m = re.match(r"exp=(\S*) got=(\S*)(?: ret=(\S*))?", rest)
                fails.append(StepFail(int(p[1]), int(p[2]), p[3], p[4], m.group(1) if m else "", m.group(2) if m else rest,
                                      detail=(m.group(3) or "") if m else ""))
            elif c == "R":
                p = line.split(" ", 4)
                records.append((int(p[1]), int(p[2]), p[3], p[4] if len(p) > 4 else ""))
            elif c in "CHQ" and line[1:2] == " ":
                p = line.split(" ")
                died = (c, int(p[1]), int(p[2]), p[3] if len(p) > 3 else "")
            elif line.startswith("DONE "):
                p = line.split()
                tot_scripts += int(p[1])
                tot_steps += int(p[2])
                done = True
        if done and died is None:
            break
        err = open(errp, "rb").read().decode("latin-1")
        if died is None:
            last = open(side).read().split()
            if len(last) >= 3 and rc != 0:
                died = ("C", int(last[0]), int(last[1]), last[2])         # the step the harness had announced when it died
            else:
                raise Broken("harness %s died without a death record (rc=%s); stderr tail:\n%s" % (exe, rc, err[-2000:]))
        kind = {"C": "crash", "H": "hang", "Q": "exit"}[died[0]]
        sig = asan_signature(err) if kind == "crash" else (kind, "")
        if kind == "exit" and "atal" in err:
            sig = ("fatal-exit", "")
        fails.append(StepFail(died[1], died[2], kind, died[3], sig="%s@%s" % sig, detail=err[-1500:] if kind != "crash" else _asan_brief(err)))
        sid_line = "S %d\n" % died[1]
        idx = None
        for k in range(first, n):
            if script_texts[k].startswith(sid_line):
                idx = k
                break
        if idx is None:
            raise Broken("cannot locate dead script %s" % (died,))
        tot_scripts += idx - first + 1
        first = idx + 1
    for p in (path, side):
        try:
            os.unlink(p)
        except OSError:
            pass
    return fails, records, tot_scripts, tot_steps


def run_scripts(exe, args, script_texts, rundir, jobs=None, env=None, timeout=3600, tag="r"):
    """Same contract as vlib.replay.run_scripts."""
    if not script_texts:
        return [], [], 0, 0
    jobs = max(1, min(jobs or NCPU, (len(script_texts) + 49) // 50))
    parts = [script_texts[i::jobs] for i in range(jobs)]
    fails, records = [], []
    ns = nt = 0
    with ThreadPoolExecutor(jobs) as ex:
        futs = [ex.submit(_run_one, exe, args, parts[i], rundir, "%s-%d-%d" % (tag, os.getpid(), i), env, timeout) for i in range(jobs)]
        for f in futs:
            a, b, c, d = f.result()
            fails += a
            records += b
            ns += c
            nt += d
    return fails, records, ns, nt
