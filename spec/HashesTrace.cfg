SPECIFICATION TraceSpec
CONSTANTS
  Keys = {}
  Seeds = {}
  Obs <- ObsTrace
INVARIANTS JenkinsSame
POSTCONDITION TraceAccepted
CHECK_DEADLOCK FALSE
