SPECIFICATION Spec
INVARIANTS Terminates Reflexive Antisymmetric Transitive NullLeast IsReference PairVsKey
CHECK_DEADLOCK FALSE
