SPECIFICATION Spec
CONSTANTS
  CapMod = 256
  ClearOnGrow = TRUE
  ResetVarsOnFree = TRUE
  MaxCtx = 255
  MaxBi = 255
  MaxVars = 2
  Progs = {1, 2}
  GrowSteps = 1
  Texts <- NoTexts
  Outcomes <- OutcomesMC
  Obs <- ObsNone
INVARIANTS IndexBelowCapacity BuiltinSentinel AfterFreeNoResidue FileStackRestored
CONSTRAINT Bounded EnvQuiet
CHECK_DEADLOCK FALSE
