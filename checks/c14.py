"""C14: URL objects decompose and recompose every well-formed URL exactly (UrlObj.tla)."""
import os, re, json, random, time
from vlib import build, objcheck
from vlib.core import tok, untok, Broken, log
from vlib.graph import Graph
from vlib.tlc import run_tlc

PROPERTY = "C14"
LEVEL = "model_checking"
LEVEL_TEXT = ("TLC checks the laws of the reference Parse/Unparse of UrlObj.tla over a universe of component tuples (each of the seven "
              "parts absent or one of 2-5 short texts, delimiters inside parts included): Unambiguous(c) => Parse(Assemble(c)) = c with "
              "and without '//', exactness of the ambiguity condition, Parse(Unparse(c)) = Canon(c), Unparse.Parse.Unparse = Unparse, the "
              "default-port rule for every lookup outcome; TLC computes the ambiguous assemblies. TLC then explores the object model "
              "(parse of every assembled text / of every string <= 4-5 over {a : / @ ?} under every lookup outcome, new()+setters, "
              "unparse, dup, re-parse, delete, adopt the copy) and EVERY generated transition is executed on real spif_url_t objects "
              "(ASan build of the current tree, getprotobyname/getservbyname interposed at link time) comparing the text, the seven "
              "accessors, string invariants, storage independence of copies and heap balance; seeded random byte strings are recorded "
              "and validated by TLC against UrlObjTrace.")
LEVEL_NOTE = ("Bounded universes for the exhaustive part; beyond them seeded random byte strings only (bytes 1..255, length <= 48). "
              "Memory safety is 'no ASan report on everything explored'. The lookup outcome 'service found but its protocol entry is "
              "missing' is run for safety only (no functional claim). Trusted: TLC, the harness projection (harness/url_replay.c), ASan.")
TECHNIQUE = "TLA+ spec + TLC law checking + exhaustive transition cover replayed on the implementation + TLC trace validation"
DESIGN_REF = "DESIGN.md section 6 C14"

FIELDS = ["proto", "user", "passwd", "host", "port", "path", "query"]
NOOBJ = {"c": [[], [], [], [], [], [], []], "live": False, "t": []}
INIT = {"a": NOOBJ, "b": NOOBJ}
OPS_BUILD = {"parse", "new", "set", "unparse", "dup", "reparse", "b_del", "del", "adopt"}
OPS_SHORT = OPS_BUILD - {"new", "set"}
os.environ.setdefault("JAVA_TOOL_OPTIONS", "-XX:ParallelGCThreads=4")


def harness(ctx):
    libdir, cflags = build.build_lib(ctx.repo)
    return build.build_harness("url_replay", ["url_replay.c"], libdir, cflags,
                               ldflags=["-Wl,--wrap=getprotobyname,--wrap=getservbyname"])


def txt(codes):
    return "".join(chr(c) if 32 < c < 127 else "\\x%02x" % c for c in codes)


def slot_diff(exp, got):
    """Which observable part of which slot differs (for specific finding keys)."""
    try:
        e, g = untok(exp), untok(got)
    except Exception:
        return "?"
    out = []
    for s in ("a", "b"):
        if e[s]["live"] != g[s]["live"]:
            out.append(s + ".live")
            continue
        if e[s]["t"] != g[s]["t"]:
            out.append(s + ".text")
        for i, f in enumerate(FIELDS):
            if e[s]["c"][i] != g[s]["c"][i]:
                out.append("%s.%s%s" % (s, f, "" if (e[s]["c"][i] and g[s]["c"][i]) else (":spurious" if g[s]["c"][i] else ":missing")))
    return "+".join(out[:3]) or "?"


def argclass(e):
    op = e["op"]
    pre = e["pre"]["a"]
    if op in ("parse", "reparse"):
        post = e["post"]["a" if op == "parse" else "b"]
        lk = e["args"][-1][0]
        c = post["c"]
        return "proto=%d,lk=%s" % (1 if c[0] else 0, lk)
    if op == "dup":
        return "text=%s" % ("none" if not pre["t"] else "set")
    if op == "set":
        return e["args"][0] + ("=NULL" if not e["args"][1] else "")
    return "-"


def keyfn(variant, e, f):
    d = ""
    if f.kind == "inv":
        d = re.sub(r"\d+", "N", f.got)
    elif f.kind == "state":
        d = slot_diff(f.exp, f.got) if not (e and e["op"] == "dup") else "copy-differs-from-original"
    elif f.kind in ("crash", "hang", "exit"):
        d = f.sig
    op = e["op"] if e else f.op
    return "%s.%s [%s] %s%s" % (variant, op, argclass(e) if e else "-", f.kind, ("/" + d) if d else "")


def graph_run(ctx, module, cfg, expect_ops, timeout=3000):
    """TLC run with edge emission.  -coverage makes TLC 3x slower on this spec, so the vacuity guard is computed from the
    emitted transitions themselves: every action of the model must have produced at least one edge."""
    g = Graph()
    per_op = {}

    def on_edge(e):
        per_op[e["op"]] = per_op.get(e["op"], 0) + 1
        g.add(e)
    res = run_tlc(module, cfg, ctx.rundir, on_edge=on_edge, timeout=timeout, workers=4, heap="6g", coverage=False)
    ctx.add("states", res.distinct)
    ctx.add("transitions", res.generated)
    ctx.add("edges_emitted", res.edges)
    ctx.cov.setdefault("tlc_runs", []).append({
        "module": module, "cfg": cfg, "distinct_states": res.distinct, "states_generated": res.generated, "depth": res.depth,
        "edges_emitted": res.edges, "distinct_edges": g.n_edges(), "wall_s": round(res.wall, 1),
        "actions_taken": dict(sorted(per_op.items()))})
    if not res.ok:
        ctx.report("spec:%s" % cfg, "TLC reports a violated property of the specification itself: %s" % (res.violation or "")[:600],
                   {"tlc": res.violation, "cfg": cfg})
    missing = sorted(set(expect_ops) - set(per_op))
    if missing:
        raise Broken("vacuity: actions never taken in %s/%s: %s" % (module, cfg, missing))
    if res.edges == 0:
        raise Broken("no edges emitted by %s/%s" % (module, cfg))
    return g, res


def laws(ctx):
    """Design-level part: the reference laws over the tuple universe; collects the ambiguous assemblies TLC computes."""
    cfg = "UrlObj_laws_quick.cfg" if ctx.tier == "quick" else "UrlObj_laws_thorough.cfg"
    amb, non = [], []

    def on_rec(d):
        (amb if "amb" in d else non).append(d)
    res = run_tlc("MC_UrlLaws.tla", cfg, ctx.rundir, on_edge=on_rec, timeout=1500, workers=4, heap="4g", coverage=False)
    if not res.ok:
        ctx.report("spec:%s" % cfg, "TLC refutes a law of the reference Parse/Unparse: %s" % (res.violation or "")[:800],
                   {"tlc": res.violation, "cfg": cfg})
    if res.distinct == 0:
        raise Broken("law run explored nothing (%s)" % cfg)
    ctx.add("states", res.distinct)
    ctx.add("transitions", res.generated)
    ctx.cov.setdefault("tlc_runs", []).append({
        "module": "MC_UrlLaws.tla", "cfg": cfg, "tuples_checked": res.distinct, "wall_s": round(res.wall, 1),
        "laws": ["LawAssembleParse", "LawUnambExact", "LawUnparseParse", "LawIdempotent", "LawDefaultPort"],
        "ambiguous_assemblies_computed": len(amb), "non_idempotent_tuples_computed": len(non)})
    if not amb:
        raise Broken("law run reported no ambiguous assembly: the universe does not exercise the ambiguity condition")
    rnd = random.Random(ctx.seed)
    for d in rnd.sample(amb, min(3, len(amb))):
        ctx.sample({"ambiguous_text": txt(d["text"]), "assembled_from": {f: txt(v[0]) for f, v in d["amb"].items() if v},
                    "reads_as": {f: txt(v[0]) for f, v in d["reads"].items() if v}})


def gen_random_scripts(rnd, n):
    """Seeded random byte strings (bytes 1..255, biased towards the delimiters) with a fixed call sequence."""
    lks = [["ip", 0], ["no", 0], ["tcp", 80], ["udp", 8080], ["tcp", 65535], ["udp", 7], ["svx", 99]]
    words = ["http", "tcp", "a", "x1", "unix", "ftp"]
    out = []
    for k in range(n):
        ln = rnd.choice([0, 1, 2, 3, 5, 8, 13, 21, 34, 48]) if rnd.random() < 0.3 else rnd.randint(0, 24)
        t = []
        r0 = rnd.random()
        if r0 < 0.35:
            t += [ord(c) for c in rnd.choice(words)] + [58]
            if rnd.random() < 0.6:
                t += [47, 47]
        while len(t) < ln:
            r = rnd.random()
            if r < 0.38:
                t.append(rnd.choice([58, 47, 64, 63]))
            elif r < 0.80:
                t.append(rnd.choice([97, 98, 122, 65, 48, 57, 46, 45]))
            else:
                t.append(rnd.randint(1, 255))
        lk, lk2 = rnd.choice(lks), rnd.choice(lks)
        if lk[0] == "svx" or lk2[0] == "svx":
            lk2 = lk = ["svx", 99]
        steps = [("parse", [t, lk]), ("dup", []), ("b_del", []), ("unparse", []), ("reparse", [lk2]), ("adopt", []),
                 ("unparse", []), ("dup", []), ("del", []), ("adopt", []), ("del", [])]
        out.append((k + 1, lk[0] == "svx", steps))
    return out


SCHEMES = ("http https ftp ftps sftp ssh telnet telnets tel data datametrics file filenet news newsfeed nntp nntps mailto mail urn "
           "about javascript java imap imaps imap3 pop2 pop3 pop3s smtp smtps ldap ldaps gopher irc ircs rtsp sip sips ws wss tftp nfs "
           "git svn rsync dict finger whois snmp snmptrap ntp domain time daytime echo discard chargen x11 unix raw tcp udp icmp ip "
           "kerberos klogin kshell login shell exec printer talk ntalk route uucp bootps bootpc tacacs auth sunrpc netbios bgp").split()


def vocabulary():
    """Protocol words from a large vocabulary: real scheme / service names, every proper prefix and a few extensions of each (so that
    words extend and prefix each other), case variants, and every letter / digit alone and as the distinguishing last character."""
    words = []
    seen = set()

    def add(w):
        if w and w not in seen:
            seen.add(w)
            words.append(w)
    for w in SCHEMES:
        add(w)
        for k in range(1, len(w)):
            add(w[:k])
        for suf in ("s", "x", "2", "net", "0"):
            add(w + suf)
        add(w.upper())
        add(w.capitalize())
        add(w[:-1] + w[-1].upper())
    for c in "abcdefghijklmnopqrstuvwxyzABCDEFGHIJKLMNOPQRSTUVWXYZ0123456789":
        add(c)
        add("q" + c)
        add(c + "q")
    return words


def gen_vocab_scripts(first_sid, limit=None, rnd=None):
    """Every vocabulary word as the protocol of a URL without a port under the forced 'service found' outcome (and one other
    outcome in rotation), and with an explicit port."""
    words = vocabulary()
    if limit and len(words) > limit:
        words = rnd.sample(words, limit)
    others = [["udp", 8080], ["ip", 0], ["no", 0], ["tcp", 65535]]
    shapes = ["%s://joe@bbs.org/", "%s:h", "%s://h/p?q", "%s:/p"]
    out = []
    sid = first_sid
    for i, w in enumerate(words):
        for j, (lk, shape) in enumerate((( ["tcp", 1 + (i * 7) % 65000], shapes[i % 4]), (others[i % 4], shapes[(i + 1) % 4]),
                                         (["tcp", 23], "%s://h:81/"))):
            if j == 2 and i % 5:
                continue
            t = [ord(c) for c in shape % w]
            steps = [("parse", [t, lk]), ("unparse", []), ("reparse", [lk]), ("b_del", []), ("del", [])]
            out.append((sid, False, steps))
            sid += 1
    return out, len(words)


def gen_byte_scripts(first_sid, stride=1):
    """Every byte value 1..255 in every syntactic position class of a URL: first / inner / last character of each of the seven
    components (first = right after each delimiter)."""
    comps = [("ab", ":"), ("//", ""), ("u1", ":"), ("pw", "@"), ("h1", ":"), ("81", ""), ("/p1", "?"), ("q1", "")]
    names = ["proto", "-", "user", "passwd", "host", "port", "path", "query"]
    out = []
    sid = first_sid
    n = 0
    for ci, (c, sep) in enumerate(comps):
        if names[ci] == "-":
            continue
        for pos in ("first", "inner", "last"):
            for b in range(1, 256):
                n += 1
                if n % stride:
                    continue
                body = c[1:] if names[ci] == "path" else c
                lead = "/" if names[ci] == "path" else ""
                if pos == "first":
                    nb = [b] + [ord(x) for x in body]
                elif pos == "inner":
                    nb = [ord(body[0]), b] + [ord(x) for x in body[1:]]
                else:
                    nb = [ord(x) for x in body] + [b]
                for variant in (0, 1):            # 0: full URL with port; 1: no port, so that the lookup is consulted
                    if variant == 1 and names[ci] not in ("proto", "host", "user"):
                        continue
                    t = []
                    for cj, (c2, sep2) in enumerate(comps):
                        if variant == 1 and names[cj] == "port":
                            t = t[:-1]            # drop the ':' in front of the port
                            continue
                        t += ([ord(x) for x in lead] + nb) if cj == ci else [ord(x) for x in c2]
                        t += [ord(x) for x in sep2]
                    lk = ["tcp", 8000 + b] if variant else ["udp", 9]
                    out.append((sid, False, [("parse", [t, lk]), ("unparse", []), ("reparse", [lk]), ("b_del", []), ("del", [])]))
                    sid += 1
    return out


def trace_validation(ctx, exe):
    """Direction (B) / robustness: random byte strings through spif_url_new_from_ptr & co under ASan, every recorded call
    validated by TLC evaluating the same actions."""
    from vlib import trace
    from vlib.replay import run_scripts
    rnd = random.Random(ctx.seed)
    n = 1500 if ctx.tier == "quick" else 10000
    scripts = gen_random_scripts(rnd, n)
    # value families (deterministic): a large protocol vocabulary, and every byte value in every position class
    voc, nwords = gen_vocab_scripts(len(scripts) + 1)
    scripts += voc
    byt = gen_byte_scripts(len(scripts) + 1, stride=1 if ctx.tier != "quick" else 2)
    scripts += byt
    ctx.add("vocabulary_words", nwords)
    ctx.add("vocabulary_scripts", len(voc))
    ctx.add("byte_position_scripts", len(byt))
    texts = {}
    for sid, safety_only, steps in scripts:
        texts[sid] = "S %d\n%s\nE\n" % (sid, "\n".join("%s %s = ? ?" % (op, " ".join(tok(a) for a in args)) for op, args in steps))
    fails, recs, ns, nt = run_scripts(exe, [], [texts[s[0]] for s in scripts], ctx.rundir, jobs=4, tag="rnd")
    ctx.add("evaluations", nt)
    bad = set()
    for f in fails:
        bad.add(f.sid)
        steps = scripts[f.sid - 1][2]
        op, args = steps[min(f.step, len(steps) - 1)]
        d = re.sub(r"\d+", "N", f.got) if f.kind == "inv" else f.sig
        lk = steps[0][1][1][0]
        ctx.report("random url.%s [lk=%s] %s%s" % (f.op, lk, f.kind, ("/" + d) if d else ""),
                   "random byte string %r: %r" % (txt(steps[0][1][0]), f),
                   {"harness_args": [], "script_text": texts[f.sid], "failure": repr(f), "detail": f.detail})
    by = {}
    for sid, step, ret, state in recs:
        by.setdefault(sid, []).append((step, ret, state))
    events, index = [], []
    nsafety = 0
    for sid, safety_only, steps in scripts:
        if sid in bad or sid not in by:
            continue
        if safety_only:
            nsafety += 1
            continue
        events.append({"op": "reset", "args": [], "ret": True, "post": INIT})
        index.append((sid, -1))
        for step, ret, state in sorted(by[sid]):
            op, args = steps[step]
            events.append({"op": op, "args": args, "ret": untok(ret), "post": untok(state)})
            index.append((sid, step))
    ctx.add("random_strings", n)
    ctx.add("random_strings_safety_only", nsafety)
    if not events:
        return
    # TLC validates in chunks so that a rejection costs one chunk, not the run
    chunk = 40000
    total = 0
    bounds = []
    c0 = 0
    while c0 < len(events):
        c1 = min(len(events), c0 + chunk)
        while c1 < len(events) and events[c1]["op"] != "reset":       # chunks start at a reset
            c1 += 1
        bounds.append((c0, c1))
        c0 = c1
    for c0, c1 in bounds:
        ev = events[c0:c1]
        ok, pos, path = trace.validate(ctx, "UrlObjTrace.tla", "UrlObjTrace.cfg", ev, tag="rnd%d" % c0, heap="6g")
        total += pos
        if not ok:
            sid, step = index[c0 + pos] if c0 + pos < len(index) else (None, None)
            evb = ev[pos] if pos < len(ev) else None
            first = scripts[sid - 1][2][0][1] if sid else None
            ctx.report("trace-rejected url.%s [lk=%s]" % (evb["op"] if evb else "?", first[1][0] if first else "?"),
                       "TLC rejects the recorded execution at event %d (%s) of the script for text %r" % (
                           pos, json.dumps(evb)[:400], txt(first[0]) if first else "?"),
                       {"harness_args": [], "script_text": texts[sid] if sid else "", "event": evb, "event_index": pos})
    ctx.add("trace_events_validated", total)
    ctx.add("traces_validated_against_impl", len([1 for e in events if e["op"] == "reset"]))
    ctx.sample({"random_trace_events": len(events), "first": [json.dumps(e)[:160] for e in events[1:3]]})


def run(ctx):
    exe = harness(ctx)
    laws(ctx)
    q = ctx.tier == "quick"
    g, res = graph_run(ctx, "MC_UrlObj.tla", "UrlObj_quick.cfg" if q else "UrlObj_thorough.cfg", OPS_BUILD)
    objcheck.replay_cover(ctx, g, [tok(INIT)], exe, "url", [], keyfn, walks=(300, 30) if q else (3000, 40), jobs=4)
    del g
    g2, res2 = graph_run(ctx, "MC_UrlObj.tla", "UrlObj_short_quick.cfg" if q else "UrlObj_short_thorough.cfg", OPS_SHORT)
    objcheck.replay_cover(ctx, g2, [tok(INIT)], exe, "url-short", [], keyfn, walks=(100, 30) if q else (1000, 40), jobs=4)
    del g2
    trace_validation(ctx, exe)
    ctx.cov["exhaustive"] = True
    ctx.cov["rule"] = ("every transition TLC generates for UrlObj in the bounded universes (assembled texts of all well-formed tuples with and "
                       "without '//', all strings up to length 4/5 over {a : / @ ?}, every lookup outcome where the default-port rule "
                       "consults the environment, every tuple built through the setters) is executed once as the last step of a script "
                       "whose prefix consists of already verified transitions; text, accessors and invariants compared after every "
                       "step; heap balance per script; plus random walks and TLC-validated random byte strings")
    ctx.assumptions += ["lookup outcomes are forced by link-time interposition of getprotobyname/getservbyname (pure functions of the "
                        "installed outcome)", "ASan build of the current tree (clang -O1)", "texts contain no NUL byte"]


def replay(ctx, path):
    d = json.load(open(path))
    if not str(d.get("key", "")).startswith("trace-rejected"):
        return objcheck.replay_file(harness(ctx), [], path, ctx.rundir)
    # a recorded execution TLC rejected: record the same script again and let TLC judge it again
    from vlib import trace
    from vlib.replay import run_scripts
    txt_ = d["replay"]["script_text"]
    steps = []
    for line in txt_.splitlines()[1:-1]:
        w = line.split(" = ")[0].split(" ")
        steps.append((w[0], [untok(a) for a in w[1:] if a != ""]))
    fails, recs, ns, nt = run_scripts(harness(ctx), [], [txt_], ctx.rundir, jobs=1, tag="replay")
    for f in fails:
        print("REPRODUCED (the script fails before validation)", f)
    if fails:
        return 1
    events = [{"op": "reset", "args": [], "ret": True, "post": INIT}]
    for sid, step, ret, state in sorted(recs, key=lambda r: r[1]):
        events.append({"op": steps[step][0], "args": steps[step][1], "ret": untok(ret), "post": untok(state)})
    ok, pos, _ = trace.validate(ctx, "UrlObjTrace.tla", "UrlObjTrace.cfg", events, tag="replay")
    if ok:
        print("not reproduced: TLC accepts the recorded execution (%d events)" % len(events))
        return 0
    print("REPRODUCED: TLC rejects the recorded execution at event %d: %s" % (pos, json.dumps(events[pos])[:600]))
    return 1
