SPECIFICATION Spec
CONSTANTS
  U <- UThorough2
  Obs <- ObsEmit
CONSTRAINT ConstraintThorough2
INVARIANTS TypeOK QueriesInRange SubstrLaw SpliceLaw CmpLaw ShapeLaw EmptyLaw NumLaw
PROPERTY SlotIndependence
CHECK_DEADLOCK FALSE
