------------------------------ MODULE ThreadSync ------------------------------
(* Extension X03 (beyond the 20 listed properties, DESIGN.md section 10): the protocol offered by  *)
(* the threading wrappers of src/pthreads.c - classes pthreads, pthreads_mutex,                    *)
(* pthreads_condition behind the interfaces thread_if.h, mutex_if.h, condition_if.h.               *)
(*                                                                                                  *)
(* One action per wrapper call (plus the client's own steps on the scalar it protects), every       *)
(* action atomic, the scheduler = TLC interleaving them.  What is modelled is what the class        *)
(* layout and the interface promise (IDEAL):                                                        *)
(*   mutex      lock (blocks until free, TRUE) / lock_nowait (TRUE and taken, or FALSE on EBUSY)    *)
(*              / unlock (by the owner, TRUE).                                                      *)
(*   condition  IS-A mutex (SPIF_DECL_PARENT_TYPE(pthreads_mutex)) plus a pthread_cond_t: the       *)
(*              mutex a condition waits with is ITS OWN embedded one, so the client brackets the    *)
(*              predicate with lock/unlock of the condition object itself.  wait releases that      *)
(*              mutex and blocks, re-acquires it before returning; it does NOT re-check any         *)
(*              predicate (the client loops); POSIX allows returns without a signal (Spurious).     *)
(*              wait_timed is wait that may also return FALSE after a time-out.  signal moves one   *)
(*              waiter, broadcast all.                                                              *)
(*   thread     new -> run (pthread_create; refused (FALSE) unless never started) -> exit of the    *)
(*              thread function -> [detach | wait_for = join: returns only after the thread         *)
(*              function finished]; kill(sig 0) = liveness probe.                                   *)
(* Impl selects the wrapper behaviour; everything except "ideal" exists so that TLC shows the       *)
(* properties are not vacuous and so that the as-built mechanism is judged at design level:         *)
(*   "ideal"     the protocol above                                                                 *)
(*   "stub"      AS BUILT at the pinned commit: lock, lock_nowait, unlock, wait, wait_timed,         *)
(*               signal, broadcast have EMPTY bodies, wait_for only has its two ASSERTs: no effect, *)
(*               no return statement (the value the caller sees is whatever the register holds)     *)
(*   "trybusy"   lock_nowait answers TRUE on EBUSY          (seeded wrapper mutation)               *)
(*   "waitkeep"  wait does not hand its mutex to pthread_cond_wait (keeps it locked)                *)
(*   "signoop"   signal is a no-op                                                                  *)
(*   "bcastone"  broadcast wakes one waiter only                                                    *)
(*   "unlocknoop" unlock returns TRUE without unlocking                                             *)
(* The specification is never bent to "stub": trace validation and replay always use "ideal".       *)
EXTENDS Integers, Sequences, FiniteSets, TLC, Json

CONSTANTS Thr,        \* thread ids; 0 is the initial thread, the others are started through run
          Lk,         \* lockable objects (mutexes and conditions), small integers
          Cnd,        \* the conditions among them
          Impl,
          Spurious,   \* BOOLEAN: wait may return although nobody signalled (POSIX)
          Obs(_, _, _, _)

NONE == 0 - 1

VARIABLES own,    \* own[o]  = thread that holds lockable o, NONE if free
          wt,     \* wt[c]   = threads blocked inside wait/wait_timed on c (mutex released)
          rdy,    \* rdy[c]  = threads woken by signal/broadcast that have not yet re-acquired the mutex
          tmo,    \* tmo[c]  = threads whose timed wait expired, not yet re-acquired
          tw,     \* threads whose current wait is a timed one
          ts,     \* ts[t]   = "new" | "run" | "fin" | "joined"
          det,    \* detached threads
          cnt,    \* the scalar the clients protect (shared counter / number of queued items)
          tmp,    \* tmp[t]  = the value t read for its read-modify-write
          res     \* res[t]  = worker t published its result (written before exit, read after join)
lvars == <<own, wt, rdy, tmo, tw, ts, det, cnt, tmp, res>>

View == [own |-> own, wt |-> wt, rdy |-> rdy, tmo |-> tmo, ts |-> ts, cnt |-> cnt]
Out == [cnt |-> cnt']

Blocked(t) == \E c \in Cnd : t \in wt[c] \/ t \in rdy[c] \/ t \in tmo[c]
Ready(t) == (ts[t] = "run" /\ ~Blocked(t)) = TRUE
Stub == Impl = "stub"
B2I(b) == IF b THEN 1 ELSE 0

Init == /\ own = [o \in Lk |-> NONE]
        /\ wt = [c \in Cnd |-> {}] /\ rdy = [c \in Cnd |-> {}] /\ tmo = [c \in Cnd |-> {}] /\ tw = {}
        /\ ts = [t \in Thr |-> IF t = 0 THEN "run" ELSE "new"]
        /\ det = {} /\ cnt = 0 /\ tmp = [t \in Thr |-> 0] /\ res = [t \in Thr |-> FALSE]

----------------------------------------------------------------------------------
(* mutex                                                                          *)
OpLock(t, o, r) ==
    /\ Ready(t)
    /\ IF Stub THEN UNCHANGED own
       ELSE /\ own[o] = NONE                 \* blocks while held (also by t itself: self-deadlock)
            /\ r = TRUE
            /\ own' = [own EXCEPT ![o] = t]
    /\ UNCHANGED <<wt, rdy, tmo, tw, ts, det, cnt, tmp, res>>
    /\ Obs("lock", <<t, o>>, r, Out)

OpTry(t, o, r) ==
    /\ Ready(t)
    /\ IF Stub THEN UNCHANGED own
       ELSE IF own[o] = NONE THEN r = TRUE /\ own' = [own EXCEPT ![o] = t]
       ELSE /\ r = (Impl = "trybusy")        \* IDEAL: FALSE on EBUSY
            /\ UNCHANGED own
    /\ UNCHANGED <<wt, rdy, tmo, tw, ts, det, cnt, tmp, res>>
    /\ Obs("try", <<t, o>>, r, Out)

\* unlock by the owner.  Unlocking a mutex one does not hold is undefined for a default pthread mutex:
\* excluded from the universe (X), no client of the model does it.
OpUnlock(t, o, r) ==
    /\ Ready(t)
    /\ IF Stub THEN UNCHANGED own
       ELSE /\ own[o] = t
            /\ r = TRUE
            /\ own' = IF Impl = "unlocknoop" THEN own ELSE [own EXCEPT ![o] = NONE]
    /\ UNCHANGED <<wt, rdy, tmo, tw, ts, det, cnt, tmp, res>>
    /\ Obs("unlock", <<t, o>>, r, Out)

----------------------------------------------------------------------------------
(* condition: a wait is two instants - the call (mutex released, thread blocked) and the return *)
OpWaitBegin(t, c, timed) ==
    /\ Ready(t)
    /\ c \in Cnd
    /\ IF Stub THEN UNCHANGED <<own, wt, tw>>
       ELSE /\ own[c] = t
            /\ own' = IF Impl = "waitkeep" THEN own ELSE [own EXCEPT ![c] = NONE]
            /\ wt' = [wt EXCEPT ![c] = @ \cup {t}]
            /\ tw' = IF timed THEN tw \cup {t} ELSE tw
    /\ UNCHANGED <<rdy, tmo, ts, det, cnt, tmp, res>>
    /\ Obs(IF timed THEN "twait_begin" ELSE "wait_begin", <<t, c>>, TRUE, Out)

\* return of wait / wait_timed with TRUE: woken (by signal, broadcast or spuriously), mutex re-acquired
OpWaitEnd(t, c, r) ==
    /\ c \in Cnd
    /\ ts[t] = "run"
    /\ IF Stub THEN Ready(t) /\ UNCHANGED <<own, wt, rdy, tw>>
       ELSE /\ t \in rdy[c]
            /\ (own[c] = NONE \/ (Impl = "waitkeep" /\ own[c] = t)) = TRUE
            /\ r = TRUE
            /\ own' = [own EXCEPT ![c] = t]
            /\ rdy' = [rdy EXCEPT ![c] = @ \ {t}]
            /\ tw' = tw \ {t}
            /\ UNCHANGED wt
    /\ UNCHANGED <<tmo, ts, det, cnt, tmp, res>>
    /\ Obs(IF t \in tw THEN "twait_end" ELSE "wait_end", <<t, c>>, r, Out)

\* a wake-up nobody asked for (POSIX allows it; an instant nobody can log, no fairness attached)
OpSpurious(t, c) ==
    /\ c \in Cnd
    /\ Spurious /\ ~Stub
    /\ t \in wt[c]
    /\ wt' = [wt EXCEPT ![c] = @ \ {t}]
    /\ rdy' = [rdy EXCEPT ![c] = @ \cup {t}]
    /\ UNCHANGED <<own, tmo, tw, ts, det, cnt, tmp, res>>
    /\ Obs("tau_spurious", <<t, c>>, TRUE, Out)

\* the time-out of a timed wait fires (an instant nobody can log: the thread is asleep in the kernel)
OpTimeout(t, c) ==
    /\ c \in Cnd
    /\ ~Stub
    /\ t \in wt[c] /\ t \in tw
    /\ wt' = [wt EXCEPT ![c] = @ \ {t}]
    /\ tmo' = [tmo EXCEPT ![c] = @ \cup {t}]
    /\ UNCHANGED <<own, rdy, tw, ts, det, cnt, tmp, res>>
    /\ Obs("tau_timeout", <<t, c>>, TRUE, Out)

\* return of wait_timed with FALSE: timed out, mutex re-acquired
OpWaitEndTmo(t, c, r) ==
    /\ c \in Cnd
    /\ ~Stub
    /\ t \in tmo[c]
    /\ (own[c] = NONE \/ (Impl = "waitkeep" /\ own[c] = t)) = TRUE
    /\ r = FALSE
    /\ own' = [own EXCEPT ![c] = t]
    /\ tmo' = [tmo EXCEPT ![c] = @ \ {t}]
    /\ tw' = tw \ {t}
    /\ UNCHANGED <<wt, rdy, ts, det, cnt, tmp, res>>
    /\ Obs("twait_end", <<t, c>>, r, Out)

\* signal: one waiter (if any) becomes runnable - which one is the implementation's choice
OpSignal(t, c, r) ==
    /\ Ready(t)
    /\ c \in Cnd
    /\ IF Stub \/ Impl = "signoop" \/ wt[c] = {} THEN UNCHANGED <<wt, rdy>>
       ELSE \E w \in wt[c] : /\ wt' = [wt EXCEPT ![c] = @ \ {w}]
                             /\ rdy' = [rdy EXCEPT ![c] = @ \cup {w}]
    /\ (Stub \/ r = TRUE) = TRUE
    /\ UNCHANGED <<own, tmo, tw, ts, det, cnt, tmp, res>>
    /\ Obs("signal", <<t, c>>, r, Out)

OpBroadcast(t, c, r) ==
    /\ Ready(t)
    /\ c \in Cnd
    /\ IF Stub \/ wt[c] = {} THEN UNCHANGED <<wt, rdy>>
       ELSE IF Impl = "bcastone"
            THEN \E w \in wt[c] : /\ wt' = [wt EXCEPT ![c] = @ \ {w}]
                                  /\ rdy' = [rdy EXCEPT ![c] = @ \cup {w}]
            ELSE /\ wt' = [wt EXCEPT ![c] = {}]
                 /\ rdy' = [rdy EXCEPT ![c] = @ \cup wt[c]]
    /\ (Stub \/ r = TRUE) = TRUE
    /\ UNCHANGED <<own, tmo, tw, ts, det, cnt, tmp, res>>
    /\ Obs("bcast", <<t, c>>, r, Out)

----------------------------------------------------------------------------------
(* thread lifecycle (run, detach and kill are implemented at the pinned commit; wait_for is not) *)
\* run: pthread_create unless the object was started before (REQUIRE handle == 0 -> FALSE)
OpRun(t, w, r) ==
    /\ Ready(t)
    /\ w # 0
    /\ r = (ts[w] = "new")
    /\ ts' = IF r THEN [ts EXCEPT ![w] = "run"] ELSE ts
    /\ UNCHANGED <<own, wt, rdy, tmo, tw, det, cnt, tmp, res>>
    /\ Obs("run", <<t, w>>, r, Out)

\* first and last step of a started thread's function
OpBegin(t) ==
    /\ Ready(t)
    /\ t # 0
    /\ UNCHANGED lvars
    /\ Obs("begin", <<t, t>>, TRUE, Out)

OpExit(t) ==
    /\ Ready(t)
    /\ t # 0
    /\ \A o \in Lk : own[o] # t           \* a thread function that returns holding a mutex: excluded (X)
    /\ ts' = [ts EXCEPT ![t] = "fin"]
    /\ UNCHANGED <<own, wt, rdy, tmo, tw, det, cnt, tmp, res>>
    /\ Obs("exit", <<t, t>>, TRUE, Out)

\* wait_for(self, other) = join: returns only after other's function finished.  Joining a detached or
\* already joined thread is undefined in POSIX: excluded (X).
OpJoin(t, w, r) ==
    /\ Ready(t)
    /\ w # 0 /\ w # t
    /\ IF Stub THEN ts[w] \in {"run", "fin"} /\ UNCHANGED ts
       ELSE /\ ts[w] = "fin" /\ w \notin det
            /\ r = TRUE
            /\ ts' = [ts EXCEPT ![w] = "joined"]
    /\ UNCHANGED <<own, wt, rdy, tmo, tw, det, cnt, tmp, res>>
    /\ Obs("join", <<t, w>>, r, Out)

\* detach: FALSE for a never-started object (REQUIRE handle), TRUE otherwise (EINVAL = already detached
\* is answered TRUE by the code: AS-BUILT CONVENTION)
OpDetach(t, w, r) ==
    /\ Ready(t)
    /\ w # 0
    /\ ts[w] \in {"new", "run", "fin"}
    /\ r = (ts[w] # "new")
    /\ det' = IF r THEN det \cup {w} ELSE det
    /\ UNCHANGED <<own, wt, rdy, tmo, tw, ts, cnt, tmp, res>>
    /\ Obs("detach", <<t, w>>, r, Out)

\* kill(sig 0): TRUE for a live thread, FALSE for a never-started object; after the thread function
\* finished the answer depends on the C library version: excluded (X)
OpKill0(t, w, r) ==
    /\ Ready(t)
    /\ w # 0
    /\ ts[w] \in {"new", "run"}
    /\ r = (ts[w] = "run")
    /\ UNCHANGED lvars
    /\ Obs("kill0", <<t, w>>, r, Out)

----------------------------------------------------------------------------------
(* the clients' own steps on the state they protect (not wrapper calls; deliberately as weak as C: *)
(* a read-modify-write is two steps, so that missing mutual exclusion shows as a lost update)      *)
OpRd(t) ==
    /\ Ready(t)
    /\ tmp' = [tmp EXCEPT ![t] = cnt]
    /\ UNCHANGED <<own, wt, rdy, tmo, tw, ts, det, cnt, res>>
    /\ Obs("rd", <<t, 0>>, TRUE, Out)
OpWr(t) ==
    /\ Ready(t)
    /\ cnt' = tmp[t] + 1
    /\ UNCHANGED <<own, wt, rdy, tmo, tw, ts, det, tmp, res>>
    /\ Obs("wr", <<t, 0>>, TRUE, Out)
OpPut(t) ==
    /\ Ready(t)
    /\ cnt' = cnt + 1
    /\ UNCHANGED <<own, wt, rdy, tmo, tw, ts, det, tmp, res>>
    /\ Obs("put", <<t, 0>>, TRUE, Out)
OpTake(t) ==
    /\ Ready(t)
    /\ cnt' = cnt - 1
    /\ UNCHANGED <<own, wt, rdy, tmo, tw, ts, det, tmp, res>>
    /\ Obs("take", <<t, 0>>, TRUE, Out)
\* the predicate of the consumer loop: "is there an item"
OpChk(t, r) ==
    /\ Ready(t)
    /\ r = (cnt > 0)
    /\ UNCHANGED lvars
    /\ Obs("chk", <<t, 0>>, r, Out)
OpSetRes(t) ==
    /\ Ready(t)
    /\ res' = [res EXCEPT ![t] = TRUE]
    /\ UNCHANGED <<own, wt, rdy, tmo, tw, ts, det, cnt, tmp>>
    /\ Obs("setres", <<t, t>>, TRUE, Out)
OpChkRes(t, w, r) ==
    /\ Ready(t)
    /\ r = res[w]
    /\ UNCHANGED lvars
    /\ Obs("chkres", <<t, w>>, r, Out)

----------------------------------------------------------------------------------
(* protocol-level invariants (hold for every client)                              *)
TypeOK == /\ own \in [Lk -> Thr \cup {NONE}]
          /\ wt \in [Cnd -> SUBSET Thr] /\ rdy \in [Cnd -> SUBSET Thr] /\ tmo \in [Cnd -> SUBSET Thr]
          /\ tw \subseteq Thr /\ det \subseteq Thr
          /\ ts \in [Thr -> {"new", "run", "fin", "joined"}]
\* a blocked thread is in exactly one queue of one condition and holds nothing of it
QueuesDisjoint == \A c \in Cnd : /\ wt[c] \cap rdy[c] = {} /\ wt[c] \cap tmo[c] = {} /\ rdy[c] \cap tmo[c] = {}
WaiterReleased == (Impl = "ideal") => \A c \in Cnd : \A t \in wt[c] \cup rdy[c] \cup tmo[c] : own[c] # t
OnlyLiveOwn == (Impl = "ideal") => \A o \in Lk : own[o] # NONE => ts[own[o]] = "run"
================================================================================
