"""C18: the built-in hashes equal their published definitions (Hashes.tla as executable reference)."""
import json, random
from vlib import build, objcheck, trace
from vlib.core import tok, Broken, log
from vlib.tlc import run_tlc
from vlib.replay import run_scripts

PROPERTY = "C18"
LEVEL = "exploration"
LEVEL_TEXT = ("Hashes.tla transcribes the PUBLISHED definitions (lookup2.c mix/hash/hash2/hash3, the rotating and one-at-a-time hashes "
              "of Jenkins' article, FNV-1/FNV-1a) over 32-bit arithmetic on two 16-bit limbs; TLC reproduces the published FNV and "
              "one-at-a-time test values, checks the reference-level laws (byte-wise = little-endian word-wise lookup2, hash2 = hash up to "
              "the length term, mix reversible, FNV shift-add = multiply) on every case, and emits (function, key, seed, expected) "
              "vectors for ALL key lengths 0..40 over structured and seeded pseudo-random contents and 5-7 seeds. Every vector is "
              "evaluated on the ASan build of the current tree at all 8 alignments, key ending at / starting behind a redzone, after an "
              "adversarial prelude (same address other content, errno, run-time debug level) and, for the empty key, as (NULL, 0) "
              "(44-46 calls per vector incl. calls BY NAME on a rewritten buffer; the whole set twice: harness call sites at -O1 and -O2). Values recorded from the library on long keys - a size sweep n-1..n+12 around every "
              "threshold n in 64..12288 for every function - are validated by TLC (HashesTrace.tla). Keys of 2^31..2^32-1 bytes "
              "(MAP_NORESERVE mapping with non-zero islands) are compared with the fold of native copies of the spec's step operators, "
              "which TLC binds to the spec (OpSteps vectors, FoldLaw).")
LEVEL_NOTE = ("Equality with the definitions is established on the vectors, not for all keys. lookup2 has no published test vector that "
              "could be used as an anchor: its transcription is cross-checked structurally (three variants agree, mix has the published "
              "inverse) while FNV and one-at-a-time are anchored on published values. Trusted: TLC, the limb arithmetic (anchored against "
              "TLC integers), harness/hash_replay.c, ASan; little-endian host.")
TECHNIQUE = "TLA+ executable reference + TLC-generated vectors replayed on the implementation + TLC trace validation of recorded values"
DESIGN_REF = "DESIGN.md section 6 C18"

OPS = ["jenkins", "jenkinsLE", "jenkins32", "rotating", "one_at_a_time", "fnv"]
ACTIONS = ["OpJenkins", "OpJenkinsLE", "OpJenkins32", "OpRotating", "OpRotatingPublished", "OpOneAtATime", "OpFnv", "OpSteps"]
CALLS_PER_VECTOR = 44          # library calls made by harness/hash_replay.c for one vector (it asserts the same number) ...
CALLS_EXTRA_EMPTY = 2          # ... plus the (NULL, 0, seed) placement of the empty key at run-time debug level 0 and 5
SWEEP_N = [64, 128, 256, 512, 1024, 2048, 4096, 6144, 8192, 12288]      # size thresholds swept in direction (B)


def ncalls(vectors):
    return sum(CALLS_PER_VECTOR + (CALLS_EXTRA_EMPTY if nunits(e) == 0 else 0) for e in vectors if e["op"] != "steps")


def harness(ctx, opt=None):
    """The replay harness; opt="-O2": the same source with its call sites optimised harder (the library itself stays -O1/ASan)."""
    libdir, cflags = build.build_lib(ctx.repo)
    if opt:
        return build.build_harness("hash_replay" + opt.replace("-", "_"), ["hash_replay.c"], libdir, cflags, extra=[opt])
    return build.build_harness("hash_replay", ["hash_replay.c"], libdir, cflags)


def tlc_env(ctx):
    return {"C18_SEED": str(ctx.seed % 2147483647)}


def nunits(e):
    return len(e["args"]["key"])


def argclass(op, nkey, seed):
    """Where in the argument space a vector lies (nkey = bytes, or words for jenkins32)."""
    if op in ("jenkins", "jenkinsLE"):
        c = "blocks=%s,tail=%d" % (min(nkey // 12, 2) if nkey // 12 < 2 else "2+", nkey % 12)
    elif op == "jenkins32":
        c = "blocks=%s,tail=%d" % (min(nkey // 3, 2) if nkey // 3 < 2 else "2+", nkey % 3)
    else:
        c = "len=0" if nkey == 0 else ("len=1" if nkey == 1 else "len>1")
    return c + (",seed=0" if seed == [0, 0] else ",seed!=0")


def fail_key(e, f):
    d = ""
    if f.kind == "state":
        d = f.got.split(",got=")[0]
    elif f.kind == "inv":
        d = f.got
    elif f.kind in ("crash", "hang", "exit"):
        d = f.sig
    return "%s [%s] %s%s" % (e["op"], argclass(e["op"], nunits(e), e["args"]["seed"]), f.kind, ("/" + d) if d else "")


def script_text(sid, e, record=False):
    exp = "? ?" if record else "%s same" % tok(e["ret"])
    return "S %d\n%s %s %s = %s\nE\n" % (sid, e["op"], tok(e["args"]["key"]), tok(e["args"]["seed"]), exp)


def hexv(v):
    return "0x%04x%04x" % (v[0], v[1])


def tlc_vectors(ctx, cfg):
    """TLC: anchors (ASSUME), reference-level laws (INVARIANTS), one emitted vector per generated transition."""
    vecs = []
    res = run_tlc("MC_Hashes.tla", cfg, ctx.rundir, on_edge=vecs.append, workers=4, timeout=1500, env=tlc_env(ctx),
                  coverage=False)      # -coverage makes TLC's constant-level evaluation of this module pathologically slow (see notes)
    per_op = {}
    for e in vecs:
        per_op[e["act"]] = per_op.get(e["act"], 0) + 1
    ctx.add("states", res.distinct)
    ctx.add("transitions", res.generated)
    ctx.add("vectors_emitted", res.edges)
    ctx.cov.setdefault("tlc_runs", []).append({
        "module": "MC_Hashes.tla", "cfg": cfg, "distinct_states": res.distinct, "states_generated": res.generated, "depth": res.depth,
        "vectors_emitted": res.edges, "wall_s": round(res.wall, 1),
        "actions_taken_counted_from_emitted_vectors": {k: per_op.get(k, 0) for k in ACTIONS},
        "laws_checked_on_every_case": ["TypeOK", "JenkinsSame", "Jenkins32Law", "MixReversible", "FnvShiftAdd", "FoldLaw", "RangeOK"],
        "anchors": ["AnchorFnv (6 published FNV-1/FNV-1a values)", "AnchorOneAtATime (2 published values)",
                    "AnchorArith (limb arithmetic vs TLC integers)", "EndianMatters"]})
    if not res.ok:
        v = res.violation or ""
        if "ssumption" in v or "Invariant" not in v and "invariant" not in v:
            raise Broken("the reference itself is not trustworthy / TLC failed on %s: %s" % (cfg, v[:1500]))
        ctx.report("spec:%s" % cfg, "TLC reports a violated law of the reference definitions: %s" % v[:800], {"tlc": v, "tlc_cfg": cfg})
    missing = [k for k in ACTIONS if not per_op.get(k)]
    if missing:
        raise Broken("vacuity: no vector emitted for %s" % missing)
    if res.edges != len(vecs) or res.edges == 0:
        raise Broken("emitted vectors lost: %d printed, %d parsed" % (res.edges, len(vecs)))
    return vecs


def replay_vectors(ctx, exe, vecs, opt=None):
    """Direction (A): every vector on the real functions, all alignments/placements, under ASan.  opt: the harness binary whose
    call sites are compiled at that optimisation level (second pass)."""
    pre = ("callers%s " % opt) if opt else ""
    # the same (op, key, seed) is generated once per distinct state; keep the set
    seen = {}
    for e in vecs:
        k = (e["op"], tok(e["args"]["key"]), tok(e["args"]["seed"]))
        if k in seen and seen[k]["ret"] != e["ret"]:
            raise Broken("TLC emitted two values for one vector %r" % (k,))
        seen[k] = e
    uniq = [seen[k] for k in sorted(seen)]
    texts = [script_text(i + 1, e) for i, e in enumerate(uniq)]
    fails, _, ns, nt = run_scripts(exe, [], texts, ctx.rundir, jobs=4, tag="vec" + (opt or ""))
    # one vector = one single-step script; ns counts every script that was started (a crashed one included),
    # the harness' own step count (nt) is lost for a process that dies, so it is only checked on a clean run
    if ns != len(uniq) or (not fails and nt != len(uniq)):
        raise Broken("replayed %d scripts / %d steps, expected %d" % (ns, nt, len(uniq)))
    nt = ns
    nrep = 0
    for f in fails:
        e = uniq[f.sid - 1]
        key = pre + fail_key(e, f)
        what = "%s%s(key=%s (%d units), seed=%s): %s exp=%s got=%s %s" % (
            pre, e["op"], tok(e["args"]["key"])[:120], nunits(e), hexv(e["args"]["seed"]), f.kind, f.exp, f.got, f.sig)
        if ctx.report(key, what, {"harness_args": [], "harness_opt": opt, "script_text": texts[f.sid - 1], "vector": e, "failure": repr(f),
                                  "detail": f.detail}):
            nrep += 1
        if len(ctx.violations) > 60:
            ctx.notes.append("stopped reporting after 60 distinct violation keys")
            break
    nontriv = sum(1 for e in uniq if nunits(e) > 0 and e["op"] != "steps")
    nstepvec = sum(1 for e in uniq if e["op"] == "steps")
    nt -= nstepvec
    ctx.add("evaluations", nt)
    ctx.add("impl_calls", ncalls(uniq))
    if opt:
        ctx.cov["vectors_replayed_with_call_sites_at" + opt] = {"vectors": nt, "failed_steps": len(fails)}
        return uniq
    ctx.add("native_step_vectors_bound_to_TLC", nstepvec)      # c18_ref.h operators == Hashes.tla operators (no library call)
    ctx.add("distinct_nontrivial", nontriv)
    ctx.cov["vectors"] = {"distinct": len(uniq), "failed_steps": len(fails),
                          "per_function": {op: sum(1 for e in uniq if e["op"] == op) for op in OPS},
                          "key_lengths": "%d..%d bytes" % (min(nunits(e) for e in uniq if e["op"] != "jenkins32"),
                                                           max(nunits(e) for e in uniq if e["op"] != "jenkins32")),
                          "seeds": sorted({hexv(e["args"]["seed"]) for e in uniq if e["act"] != "OpRotatingPublished"}),
                          "rotating_with_published_start_value_len": sum(1 for e in uniq if e["act"] == "OpRotatingPublished")}
    for op in OPS:
        ex = [e for e in uniq if e["op"] == op and nunits(e) in (13, 5)]
        if ex:
            e = ex[len(ex) // 2]
            ctx.sample({"function": op, "key": tok(e["args"]["key"]), "seed": hexv(e["args"]["seed"]), "expected_by_TLC": hexv(e["ret"]),
                        "impl": "equal at 8 alignments x placements (%d calls)" % CALLS_PER_VECTOR})
    return uniq


def long_keys(ctx):
    """Inputs for direction (B): long keys around the 12-byte / 3-word block boundaries and a few multi-kilobyte ones."""
    rnd = random.Random(ctx.seed)
    per = 6 if ctx.tier == "quick" else 40
    cases = []
    for op in OPS:
        for i in range(per):
            n = rnd.choice([41, 47, 48, 49, 59, 60, 61, 95, 96, 97, 255, 256, 257, rnd.randint(41, 400), rnd.randint(400, 1500)])
            if i == 0:
                n = 4099 if ctx.tier == "quick" else 8193
            if op == "jenkins32":
                n -= n % 4
            style = rnd.random()
            if style < 0.15:
                kb = [0xFF] * n
            elif style < 0.3:
                kb = [(j * 7) & 0xFF for j in range(n)]
            else:
                kb = [rnd.randrange(256) for _ in range(n)]
            seed = rnd.choice([[0, 0], [0, 1], [65535, 65535], [rnd.randrange(65536), rnd.randrange(65536)]])
            cases.append({"op": op, "args": {"key": kb, "seed": seed}})
    # size-sweep family: every function at n-1 .. n+12 bytes around every threshold n (the harness evaluates each at all 8
    # alignments and placements); 12 consecutive lengths cover every tail of the 12-byte block and every word remainder
    sweep = SWEEP_N if ctx.tier == "quick" else SWEEP_N + [16384, 3 * 6144, 24576]
    nsweep = 0
    for op in OPS:
        for n0 in sweep:
            lens = sorted({(n - n % 4) if op == "jenkins32" else n for n in range(n0 - 1, n0 + 13)} | ({n0 - 4} if op == "jenkins32" else set()))
            for n in lens:
                kb = [rnd.randrange(256) for _ in range(n)]
                seed = [0, 0] if (n + len(op)) % 3 == 0 else [rnd.randrange(65536), rnd.randrange(65536)]
                cases.append({"op": op, "args": {"key": kb, "seed": seed}})
                nsweep += 1
    ctx.cov["size_sweep"] = {"thresholds": sweep, "lengths_per_threshold": "n-1 .. n+12", "events": nsweep,
                             "alignments_and_placements_per_event": CALLS_PER_VECTOR}
    return cases


def to_harness(e):
    """jenkins32 takes the word array: [[hi,lo],..] of the little-endian memory image."""
    if e["op"] != "jenkins32":
        return e
    kb = e["args"]["key"]
    ws = [[kb[i + 3] * 256 + kb[i + 2], kb[i + 1] * 256 + kb[i]] for i in range(0, len(kb), 4)]
    return {"op": e["op"], "args": {"key": ws, "seed": e["args"]["seed"]}, "ret": e.get("ret")}


def record_and_validate(ctx, exe, corrupt=None):
    """Direction (B): record the library's values on long keys, let TLC accept or reject them."""
    cases = long_keys(ctx)
    texts = [script_text(i + 1, to_harness(c), record=True) for i, c in enumerate(cases)]
    fails, recs, ns, nt = run_scripts(exe, [], texts, ctx.rundir, jobs=4, tag="rec")
    bad = set()
    for f in fails:
        bad.add(f.sid)
        c = cases[f.sid - 1]
        ctx.report("long-key " + fail_key(to_harness(c), f), "recording %s on a %d-byte key failed: %r" % (c["op"], len(c["args"]["key"]), f),
                   {"harness_args": [], "script_text": texts[f.sid - 1], "failure": repr(f), "detail": f.detail})
    events, index = [], []
    nref_diff = {}      # the native fold of c18_ref.h differs from the library's value: right only if TLC rejects that value
    for sid, step, ret, state in sorted(recs):
        if sid in bad:
            continue
        c = cases[sid - 1]
        if ";nref=" in state:
            state, nr = state.split(";nref=")
            nref_diff[sid] = nr
        if state != "same":
            ctx.report("long-key %s [%s] state/%s" % (c["op"], argclass(c["op"], len(to_harness(c)["args"]["key"]), c["args"]["seed"]),
                                                      state.split(",got=")[0]),
                       "%s on a %d-byte key depends on placement: %s" % (c["op"], len(c["args"]["key"]), state),
                       {"harness_args": [], "script_text": texts[sid - 1]})
            continue
        from vlib.core import untok
        events.append({"op": c["op"], "args": c["args"], "ret": untok(ret)})
        index.append(sid)
    if not events:
        raise Broken("no recorded events")
    if corrupt is not None:
        corrupt(events)
    # several TLC processes in parallel, events dealt out by size so that the chunks cost about the same; a rejected event
    # is reported and the rest of its chunk is validated in a further run (events are independent of each other)
    order = sorted(range(len(events)), key=lambda i: -len(events[i]["args"]["key"]))
    nchunks = 4 if len(events) >= 40 else 1
    chunks = [order[c::nchunks] for c in range(nchunks)]

    def work(c):
        idx, out, rounds = chunks[c], [], 0
        while idx and rounds < 12:
            rounds += 1
            ok_, pos_, _ = trace.validate(ctx, "HashesTrace.tla", "HashesTrace.cfg", [events[i] for i in idx], tag="c18-%d-%d" % (c, rounds),
                                          timeout=1500)
            if ok_:
                out.append((len(idx), None))
                break
            out.append((pos_, idx[pos_] if pos_ < len(idx) else None))
            idx = idx[pos_ + 1:]
        return out
    from concurrent.futures import ThreadPoolExecutor
    with ThreadPoolExecutor(nchunks) as ex:
        results = list(ex.map(work, range(nchunks)))
    ok = True
    accepted = 0
    for out in results:
        for n_ok, bad_i in out:
            accepted += n_ok
            if bad_i is None:
                continue
            ok = False
            e, sid = events[bad_i], index[bad_i]
            ctx.report("trace-rejected %s [%s]" % (e["op"], argclass(e["op"], len(to_harness(e)["args"]["key"]), e["args"]["seed"])),
                       "TLC rejects the value recorded from the library: %s(%d-byte key, seed %s) returned %s" % (
                           e["op"], len(e["args"]["key"]), hexv(e["args"]["seed"]), hexv(e["ret"])),
                       {"harness_args": [], "script_text": texts[sid - 1], "event_index": bad_i,
                        "event": {"op": e["op"], "seed": e["args"]["seed"], "ret": e["ret"], "key_len": len(e["args"]["key"])}})
    rejected_sids = {index[bad_i] for out in results for _, bad_i in out if bad_i is not None}
    for sid in nref_diff:
        if sid in index and sid not in rejected_sids:
            raise Broken("native fold of c18_ref.h (%s) disagrees with a value TLC accepted (%s, %d-byte key)" % (
                nref_diff[sid], cases[sid - 1]["op"], len(cases[sid - 1]["args"]["key"])))
    ctx.add("trace_events_validated", accepted)
    ctx.add("traces_validated_against_impl", nchunks)
    ctx.add("evaluations", accepted)
    ctx.add("distinct_nontrivial", len({(e["op"], tok(e["args"]["key"]), tok(e["args"]["seed"])) for e in events}) if ok else 0)
    ctx.add("impl_calls", ncalls([to_harness(e) for e in events]))
    ctx.sample({"trace_events": len(events), "accepted_by_TLC": accepted, "max_key_bytes": max(len(e["args"]["key"]) for e in events),
                "first": [{"op": e["op"], "key_len": len(e["args"]["key"]), "seed": hexv(e["args"]["seed"]), "recorded": hexv(e["ret"])}
                          for e in events[:3]]})
    return ok


def limbs(n):
    return [n >> 16, n & 0xFFFF]


HUGE_BYTES = [("2^31-1", 2 ** 31 - 1), ("2^31", 2 ** 31), ("2^31+3", 2 ** 31 + 3), ("2^32-1", 2 ** 32 - 1)]
HUGE_WORDS = [("2^30-1", 2 ** 30 - 1), ("2^30", 2 ** 30), ("2^30+5", 2 ** 30 + 5)]


def huge_family(ctx, exe):
    """Extreme lengths that need real memory (direction B with the TLC-bound native folds as the reference): every function on a
    lazily zeroed MAP_NORESERVE key with non-zero islands.  thorough: every length of HUGE_* x alignments 0..3; quick: each
    function just above 2^31 bytes (2^30 words) at one misaligned address (+ alignment 0 for jenkinsLE / jenkins32)."""
    rnd = random.Random(ctx.seed + 18)
    cases = []
    for i, op in enumerate(OPS):
        table = HUGE_WORDS if op == "jenkins32" else HUGE_BYTES
        if ctx.tier == "quick":
            # one misaligned address each; alignment 0 too where the published definition itself distinguishes aligned keys
            # (hash3's aligned path, hash2's ub4 array)
            sel = [(table[-1] if op == "jenkins32" else table[2], a) for a in ((0, 1 + i % 3) if op in ("jenkinsLE", "jenkins32") else (1 + i % 3,))]
        else:
            sel = [(t, a) for t in table for a in range(4)]
        for (label, n), a in sel:
            seed = [0, 0] if (a + i) % 4 == 0 else [rnd.randrange(65536), rnd.randrange(65536)]
            cases.append({"op": op, "label": label, "len": n, "align": a, "seed": seed})
    texts = ["S %d\nhuge %s %s %d %s = * ok\nE\n" % (k + 1, c["op"], tok(limbs(c["len"])), c["align"], tok(c["seed"]))
             for k, c in enumerate(cases)]
    from concurrent.futures import ThreadPoolExecutor

    def one(k):
        return run_scripts(exe, [], [texts[k]], ctx.rundir, jobs=1, env={"VH_WATCHDOG": "1500"}, timeout=1800, tag="huge%d" % k)
    import time
    t0 = time.time()
    with ThreadPoolExecutor(4) as ex:
        res = list(ex.map(one, range(len(cases))))
    done = 0
    gib = 0.0
    for k, (fails, _, ns, nt) in enumerate(res):
        c = cases[k]
        if ns != 1:
            raise Broken("huge case %r was not run" % (c,))
        for f in fails:
            d = f.got.split("=")[0] if f.kind == "state" else (f.sig if f.kind in ("crash", "hang", "exit") else f.got)
            ctx.report("huge %s [len=%s,align=%s,%s] %s/%s" % (c["op"], c["label"], "0" if c["align"] == 0 else "1-3",
                                                              "seed=0" if c["seed"] == [0, 0] else "seed!=0", f.kind, d),
                       "%s on a %s-%s key at alignment %d, seed %s: library value %s, fold of the reference step operators %s %s" % (
                           c["op"], c["label"], "word" if c["op"] == "jenkins32" else "byte", c["align"], hexv(c["seed"]), f.detail or "?",
                           f.got, f.sig),
                       {"harness_args": [], "script_text": texts[k], "case": c, "failure": repr(f), "detail": f.detail})
        if not fails:
            done += 1
        gib += c["len"] * (4 if c["op"] == "jenkins32" else 1) / 2.0 ** 30
    ctx.add("evaluations", len(cases))
    ctx.add("distinct_nontrivial", len({(c["op"], c["len"], c["align"], tok(c["seed"])) for c in cases}))
    ctx.add("impl_calls", len(cases))
    ctx.cov["extreme_lengths"] = {"cases": len(cases), "agree_with_reference_fold": done, "GiB_hashed_by_the_library": round(gib, 1),
                                  "lengths": sorted({c["label"] for c in cases}), "alignments": sorted({c["align"] for c in cases}),
                                  "wall_s": round(time.time() - t0, 1),
                                  "reference": "fold of c18_ref.h step operators, bound to Hashes.tla by OpSteps vectors + FoldLaw + comparison "
                                               "with TLC on every ordinary vector"}
    ctx.sample({"extreme_length_case": {k: cases[0][k] for k in ("op", "label", "len", "align")}, "seed": hexv(cases[0]["seed"])})


def run(ctx):
    exe = harness(ctx)
    import subprocess
    n = subprocess.run([exe, "--calls-per-vector"], capture_output=True, text=True, timeout=60).stdout.split()
    if n != [str(CALLS_PER_VECTOR), str(CALLS_EXTRA_EMPTY)]:
        raise Broken("harness makes %s calls per vector, check expects %d (+%d)" % (n, CALLS_PER_VECTOR, CALLS_EXTRA_EMPTY))
    cfg = "Hashes_quick.cfg" if ctx.tier == "quick" else "Hashes_thorough.cfg"
    vecs = tlc_vectors(ctx, cfg)
    replay_vectors(ctx, exe, vecs)
    # the header is part of the contract: the same vectors with the harness' call sites (calls BY NAME on a rewritten buffer,
    # placement B) compiled at -O2; the library objects are the same
    replay_vectors(ctx, harness(ctx, "-O2"), vecs, opt="-O2")
    record_and_validate(ctx, exe)
    huge_family(ctx, exe)
    ctx.cov["exhaustive"] = False
    ctx.cov["rule"] = ("cases = TLC's states of MC_Hashes: every key length 0..40 x {all-zero, all-0xFF, counting up, counting down, "
                       "single-bit keys (first, last and every BitStep-th bit), NRand pseudo-random keys generated in TLA+ from the run "
                       "seed} + every byte value 0..255 at the first/middle/12th/last position of keys of the lengths ByteLens, x seeds {0, 1, 0xFFFFFFFF, 0x80000000, pseudo-random}; one vector per (function, key, seed) with the "
                       "expected value computed by TLC from the published definition; each vector is executed on the library at 8 "
                       "alignments x placements E/E2/M/P (+ NULL for the empty key) (impl_calls) and must return the expected value everywhere. "
                       "evaluations = vectors executed + recorded long-key values (random lengths + the size sweep) accepted by TLC; a case is distinct by (function, key bytes, "
                       "seed) and non-trivial when the key is non-empty (counted from the set).")
    ctx.assumptions += ["little-endian host (the harness refuses to run otherwise)",
                        "the reference is the published definition with the library's documented parameter choices: lookup2's arbitrary "
                        "initial a=b is 0xf721b64d instead of the golden ratio; rotating/one-at-a-time start from the seed (0 -> 0xf721b64d) "
                        "instead of len / 0; FNV is FNV-1a with hval = seed (0 -> offset basis 0x811c9dc5)",
                        "jenkins32 is called with misaligned word pointers too (works on x86; no UBSan oracle)",
                        "ASan build of the current tree (clang -O1)"]


def replay(ctx, path):
    d = json.load(open(path))
    rp = d.get("replay") or {}
    if rp.get("tlc_cfg"):
        res = run_tlc("MC_Hashes.tla", rp["tlc_cfg"], ctx.rundir, workers=4, timeout=1500, env=tlc_env(ctx), coverage=False)
        print("TLC:", "no error" if res.ok else res.violation)
        return 0 if res.ok else 1
    return objcheck.replay_file(harness(ctx, rp.get("harness_opt")), [], path, ctx.rundir, env={"VH_WATCHDOG": "1500"})
