-------------------------------- MODULE OptParse --------------------------------
(* C08: the IDEAL reading of a command line by the libast option parser, written as a step      *)
(* machine over the argument vector: one action per spelling, cursor (i, l) = (word, letter).   *)
(*                                                                                              *)
(* A behaviour = one program run: Init picks an option table, an argument vector and a HISTORY of *)
(* spifopt_parse() calls over that same argv/argc - each call with the settings the program set  *)
(* before it (PREPARSE: a pre-parse pass; REMOVE_ARGS: a normal pass ends with the compaction of  *)
(* argv, modelled at mechanism level and compared with the reference filter).  Targets, the bad   *)
(* count and a compacted argv carry over from call to call.  When a behaviour is finished the     *)
(* expected results of every call (targets, argv, bad count, settings flags) are handed to Emit - *)
(* MC_OptParse prints them as one JSON line, the harness executes the same run on the real parser.*)
(*                                                                                              *)
(* Rule kinds (DESIGN.md 3 / 8a): S stated, C as-built convention (strict), E AllowEither,      *)
(* X excluded from the argument universe (behaviour ends "not strict": only safety is checked). *)
(* Texts are sequences of character codes; words of argv are indexes into the token alphabet.   *)
EXTENDS Integers, Sequences, FiniteSets, TLC

CONSTANTS Tables,     \* sequence of option tables; table = sequence of option records
                      \*   [sh: code|0, lg: text, kind: "bool"|"int"|"str"|"args"|"abst"|"cnt", pp: BOOLEAN, bit: Nat, dep: BOOLEAN, arr: BOOLEAN]
                      \*   pp / dep / arr = the modifier bits PREPARSE / DEPRECATED / ARRAY; the tables carry every subset of them
          TokText,    \* token alphabet: sequence of words (texts)
          TokSets,    \* per table: set of token indexes argv is built from
          MaxArgs,    \* bound on the number of words after the program name (model bound only)
          Flags0,     \* per table: initial content of the shared boolean word (set of bit numbers 0..63: the bits no
                      \* option owns are pre-set to a pattern, all ones in one table, alternating in the other)
          Int0,       \* initial value of every integer target
          TableSet,   \* the tables (indexes) Init chooses from
          Histories,  \* the call histories Init chooses from: sequences of settings, one per spifopt_parse() call on the
                      \* same argv/argc; settings = subset of {"PRE", "REM"} set by the program before that call
          Argvs(_),   \* the argument vectors Init chooses from, per table (ArgvsBounded, or a sampled set of longer ones)
          Emit(_)     \* observation hook, called once per finished behaviour

VARIABLES tb,       \* index of the option table in TBL
          calls,    \* the history: settings of call 1, 2, ...; never changes
          ci,       \* index of the call in progress
          argv0,    \* the words after the program name as the program was started (token indexes); never changes
          argv,     \* the words the call in progress reads: argv0 until a removing pass has compacted the vector
          phase,    \* "pre" | "main" | "compact" | "done"
          i, l,     \* cursor: word index (1-based), letter index inside a short bundle (0 = at the start of the word)
          flags,    \* TARGET: the boolean word (set of bit numbers)
          tv,       \* TARGETS of the non-boolean options: sequence (by option index) of [n, has, s, ws]
          mark,     \* per word: "keep" | "gone" | "any"   (E: either)
          badLo, badHi, badOpen,   \* bad-option count: lo <= count <= hi, or lo <= count if badOpen
          strict,   \* FALSE once the command line left the argument universe (X)
          re,       \* some string / list target was assigned more than once (the earlier value is the program's to free)
          snap,     \* results of the calls finished so far
          cr, out   \* compaction: read cursor, positions written so far

vars == <<tb, calls, ci, argv0, argv, phase, i, l, flags, tv, mark, badLo, badHi, badOpen, strict, re, snap, cr, out>>

\* TLC evaluates a constant that the cfg substitutes (`TokText <- ...`) again at every use; a constant-level definition
\* is evaluated once.  The module therefore reads the alphabet and the tables through these two names only.
TT  == TokText
TBL == Tables

st == calls[ci]             \* the settings of the call in progress

DASH == 45
EQ   == 61
SP   == 32
DQ   == 34
SQ   == 39

---------------------------------------------------------------------------------------------
(* texts *)
Tb       == TBL[tb]
NOpt     == Len(Tb)
NArgs    == Len(argv)
Txt(k)   == TT[argv[k]]
W        == Txt(i)
Rest(w, p) == SubSeq(w, p, Len(w))                       \* characters p.. of w
StartsDash(w) == Len(w) >= 1 /\ w[1] = DASH
IsLongWord(w) == Len(w) >= 3 /\ w[1] = DASH /\ w[2] = DASH
IsShortWord(w) == Len(w) >= 2 /\ w[1] = DASH /\ w[2] # DASH
IsLone(w) == w = <<DASH>> \/ w = <<DASH, DASH>>

BoolTrue  == { <<49>>, <<111, 110>>, <<116, 114, 117, 101>>, <<121, 101, 115>> }        \* 1 on true yes
BoolFalse == { <<48>>, <<111, 102, 102>>, <<102, 97, 108, 115, 101>>, <<110, 111>> }    \* 0 off false no
\* C: boolean words and long option names are matched without regard to case (strcasecmp / strncasecmp as built)
Lower(w) == [k \in 1 .. Len(w) |-> IF w[k] \in 65 .. 90 THEN w[k] + 32 ELSE w[k]]
IsTrueWord(w) == Lower(w) \in BoolTrue
IsBoolWord(w) == Lower(w) \in BoolTrue \cup BoolFalse

IsDecimal(w) == /\ Len(w) >= 1 /\ \A k \in 1 .. Len(w) : w[k] \in 48 .. 57          \* X otherwise
                /\ (Len(w) = 1 \/ w[1] # 48) /\ Len(w) <= 6
RECURSIVE DecVal(_)
DecVal(w) == IF w = <<>> THEN 0 ELSE 10 * DecVal(SubSeq(w, 1, Len(w) - 1)) + (w[Len(w)] - 48)

\* long option word "--name" or "--name=value"
EqPos(w)    == IF \E k \in 3 .. Len(w) : w[k] = EQ
               THEN CHOOSE k \in 3 .. Len(w) : w[k] = EQ /\ \A q \in 3 .. (k - 1) : w[q] # EQ ELSE 0
HasEq(w)    == EqPos(w) # 0
LongName(w) == IF HasEq(w) THEN SubSeq(w, 3, EqPos(w) - 1) ELSE Rest(w, 3)
LongVal(w)  == Rest(w, EqPos(w) + 1)

\* table lookup: the first entry that matches (C: table order)
FindShortIn(T, c) == IF \E j \in 1 .. Len(T) : T[j].sh = c
                     THEN CHOOSE j \in 1 .. Len(T) : T[j].sh = c /\ \A q \in 1 .. (j - 1) : T[q].sh # c ELSE 0
\* S: the typed name must equal the table name IN FULL (a table name that is a prefix of the typed name, or the other way
\* round, is not a match); first matching entry in table order
SameName(a, b) == Lower(a) = Lower(b)
FindLongIn(T, nm) == IF \E j \in 1 .. Len(T) : SameName(T[j].lg, nm)
                     THEN CHOOSE j \in 1 .. Len(T) : SameName(T[j].lg, nm) /\ \A q \in 1 .. (j - 1) : ~SameName(T[q].lg, nm)
                     ELSE 0
FindShort(c) == FindShortIn(Tb, c)
FindLong(nm) == FindLongIn(Tb, nm)
\* a word that spells a known option (an abstract option does not take such a word as its value: S)
IsKnownOptionWord(w) == \/ IsLongWord(w) /\ FindLong(LongName(w)) # 0
                        \/ IsShortWord(w) /\ FindShort(w[2]) # 0

\* quote-aware word split of an "--args=VALUE" value (C12's grammar, the part used here): words are separated by
\* blanks; a word that begins with a quote character extends to the next occurrence of that character, quotes dropped
RECURSIVE SplitWords(_)
SplitWords(t) ==
    IF t = <<>> THEN <<>>
    ELSE IF t[1] = SP THEN SplitWords(Rest(t, 2))
    ELSE LET q   == t[1] \in {DQ, SQ}
             d   == IF q THEN t[1] ELSE SP
             b   == IF q THEN 2 ELSE 1
             e   == IF \E k \in b .. Len(t) : t[k] = d
                    THEN CHOOSE k \in b .. Len(t) : t[k] = d /\ \A z \in b .. (k - 1) : t[z] # d
                    ELSE Len(t) + 1
         IN <<SubSeq(t, b, e - 1)>> \o SplitWords(Rest(t, e + 1))

---------------------------------------------------------------------------------------------
(* Tabulation.  The alphabet and the tables are constants, so the character-level facts about every token and the  *)
(* table lookups for every token are constant-level definitions: TLC evaluates them once instead of once per state. *)
(* They add nothing: every entry is one of the operators above applied to the token's text.                         *)
WordFacts(w) == [dash |-> StartsDash(w), long |-> IsLongWord(w), short |-> IsShortWord(w), lone |-> IsLone(w),
                 eq |-> HasEq(w), val |-> IF HasEq(w) THEN LongVal(w) ELSE <<>>,
                 bool |-> IsBoolWord(w), true |-> IsTrueWord(w), len |-> Len(w)]
Fact == [t \in 1 .. Len(TT) |-> LET w == TT[t] IN WordFacts(w)]
LongOptOf == [tn \in 1 .. Len(TBL) |-> [t \in 1 .. Len(TT) |->
                 LET w == TT[t] IN IF IsLongWord(w) THEN FindLongIn(TBL[tn], LongName(w)) ELSE 0]]
\* only short option words are ever looked up letter by letter
ShortOptOf == [tn \in 1 .. Len(TBL) |-> [t \in 1 .. Len(TT) |->
                 LET w == TT[t] T == TBL[tn] IN
                 IF IsShortWord(w) THEN [p \in 1 .. Len(w) |-> FindShortIn(T, w[p])] ELSE <<>>]]
FW == Fact[argv[i]]            \* facts about the word under the cursor
FN == Fact[argv[i + 1]]        \* ... and about the next word

---------------------------------------------------------------------------------------------
(* targets *)
TV(n, has, s, ws) == [n |-> n, has |-> has, s |-> s, ws |-> ws]
TV0(j) == TV(IF Tb[j].kind = "int" THEN Int0 ELSE 0, FALSE, <<>>, <<>>)
InPass(j) == (phase = "pre") = Tb[j].pp                 \* S: pre-parse options in the pre-parse pass only, the others in the normal pass only
Kind(j) == Tb[j].kind
NeedsValue(j) == Kind(j) \in {"int", "str", "args"}
IsReassign(j) == Kind(j) \in {"str", "args"} /\ tv[j].has

Gone(k)   == [mark EXCEPT ![k] = IF @ = "any" THEN "any" ELSE "gone"]
Gone2(k)  == [Gone(k) EXCEPT ![k + 1] = "gone"]
AnyAt(m, k) == [m EXCEPT ![k] = "any"]

\* one scanner step: new cursor, new targets, new marks, bad-count increments
Go(ni, nl, nflags, ntv, nmark, dlo, dhi, opn, nre) ==
    /\ i' = ni /\ l' = nl /\ flags' = nflags /\ tv' = ntv /\ mark' = nmark
    /\ badLo' = badLo + dlo /\ badHi' = badHi + dhi /\ badOpen' = (badOpen \/ opn) /\ re' = (re \/ nre)
    /\ UNCHANGED <<tb, calls, ci, argv0, argv, phase, strict, snap, cr, out>>

Scanning == phase \in {"pre", "main"} /\ i <= NArgs
P        == IF l = 0 THEN 2 ELSE l                        \* letter position inside a short word
InShort  == Scanning /\ (l >= 2 \/ FW.short)
LastLetter == P = FW.len
HasNext  == i < NArgs
Nxt      == Txt(i + 1)
\* after letter P of a short word: next letter or next word
NextI == IF LastLetter THEN i + 1 ELSE i
NextL == IF LastLetter THEN 0 ELSE P + 1

\* the option the cursor is at (0 = none / unknown)
CurOpt == IF ~Scanning THEN 0
          ELSE IF l = 0 /\ FW.long THEN LongOptOf[tb][argv[i]]          \* = FindLong(LongName(W))
          ELSE IF InShort THEN ShortOptOf[tb][argv[i]][P] ELSE 0         \* = FindShort(W[P])

\* value assignment (only in the pass the option belongs to)
Assign(j, v) == IF InPass(j) THEN [tv EXCEPT ![j] = v] ELSE tv
SetBool(j, on) == IF ~InPass(j) THEN flags
                  ELSE IF on THEN flags \cup {Tb[j].bit} ELSE flags \ {Tb[j].bit}
ValueTV(j, w) == IF Kind(j) = "int" THEN TV(DecVal(w), FALSE, <<>>, <<>>) ELSE TV(0, TRUE, w, <<>>)
ValueOK(j, w) == IF Kind(j) = "int" THEN IsDecimal(w) ELSE TRUE

---------------------------------------------------------------------------------------------
(* the spellings *)
(* Every action is  guard /\ effect; the guards (G...) are state predicates of the cursor position and of the     *)
(* option j the cursor is at (j = CurOpt, 0 = unknown).  A cursor position no guard accepts is a spelling outside  *)
(* the argument universe (X) - see OpExcluded.                                                                     *)
IsLongHere  == l = 0 /\ FW.long
ValuelessPos == (IsLongHere /\ ~FW.eq) \/ (InShort /\ LastLetter)      \* "-x" as last letter or "--long" without '='
Attached    == Rest(W, P + 1)                                             \* what follows letter P in a short word

\* S: a word that does not begin with '-' is a non-option word and is left alone
GNonOption == l = 0 /\ ~FW.dash
OpNonOption ==
    /\ Scanning /\ GNonOption
    /\ Go(i + 1, 0, flags, tv, mark, 0, 0, FALSE, FALSE)

\* E: a lone "-" / bare "--" is either counted bad or left as a non-option word; it never assigns (S)
GLoneDash == l = 0 /\ FW.lone
OpLoneDash ==
    /\ Scanning /\ GLoneDash
    /\ Go(i + 1, 0, flags, tv, AnyAt(mark, i), 0, 1, FALSE, FALSE)

\* C: unknown long option: counted bad, word skipped
GUnknownLong(j) == IsLongHere /\ j = 0
DoUnknownLong(j) ==
    /\ GUnknownLong(j)
    /\ Go(i + 1, 0, flags, tv, AnyAt(mark, i), 1, 1, FALSE, FALSE)

\* C: unknown short letter: counted bad, the rest of the bundle is still parsed
GUnknownShort(j) == InShort /\ j = 0 /\ W[P] # DASH          \* X: a '-' as a letter inside a bundle
DoUnknownShort(j) ==
    /\ GUnknownShort(j)
    /\ Go(NextI, NextL, flags, tv, AnyAt(mark, i), 1, 1, FALSE, FALSE)

\* "-x" inside or at the end of a bundle, x boolean (or counter): sets its bits (S) / counts (I).  E: a boolean word
\* right after the bundle is either swallowed and ignored or left as a non-option word.  X: "-xon"
GShortFlag(j) == InShort /\ j # 0 /\ Kind(j) \in {"bool", "cnt"} /\ ~IsBoolWord(Attached)
DoShortFlag(j) ==
    /\ GShortFlag(j)
    /\ LET nt == IF Kind(j) = "cnt" THEN Assign(j, TV(tv[j].n + 1, FALSE, <<>>, <<>>)) ELSE tv
           nf == IF Kind(j) = "bool" THEN SetBool(j, TRUE) ELSE flags IN
       IF LastLetter /\ HasNext /\ FN.bool
       THEN Go(i + 2, 0, nf, nt, AnyAt(Gone(i), i + 1), 0, 0, FALSE, FALSE)
       ELSE Go(NextI, NextL, nf, nt, Gone(i), 0, 0, FALSE, FALSE)

\* "-xVALUE": the rest of the word is the value, verbatim (S) - a value that is attached to its option (here, or with
\* '=' below) is unambiguous, so it may begin with '-' or contain '='; only a value in the NEXT word must not begin with '-' (X)
GShortAttachedValue(j) == /\ InShort /\ j # 0 /\ ~LastLetter /\ Kind(j) \in {"int", "str"}
                          /\ ValueOK(j, Attached)        \* verbatim, whatever it begins with or contains ('=', '-')
DoShortAttachedValue(j) ==
    /\ GShortAttachedValue(j)
    /\ Go(i + 1, 0, flags, Assign(j, ValueTV(j, Attached)), Gone(i), 0, 0, FALSE, InPass(j) /\ IsReassign(j))

\* "-x VALUE": the next word is the value, verbatim (S); X: a value that begins with '-'
GShortNextValue(j) == /\ InShort /\ j # 0 /\ LastLetter /\ HasNext /\ Kind(j) \in {"int", "str"}
                      /\ ValueOK(j, Nxt) /\ ~FN.dash
DoShortNextValue(j) ==
    /\ GShortNextValue(j)
    /\ Go(i + 2, 0, flags, Assign(j, ValueTV(j, Nxt)), Gone2(i), 0, 0, FALSE, InPass(j) /\ IsReassign(j))

\* "--long" for a boolean (or counter) with no boolean word after it: set (S); a following non-boolean word is left alone (S)
GLongFlag(j) == /\ IsLongHere /\ j # 0 /\ ~FW.eq /\ Kind(j) \in {"bool", "cnt"}
                /\ ~(Kind(j) = "bool" /\ HasNext /\ FN.bool)
DoLongFlag(j) ==
    /\ GLongFlag(j)
    /\ Go(i + 1, 0, IF Kind(j) = "bool" THEN SetBool(j, TRUE) ELSE flags,
          IF Kind(j) = "cnt" THEN Assign(j, TV(tv[j].n + 1, FALSE, <<>>, <<>>)) ELSE tv,
          Gone(i), 0, 0, FALSE, FALSE)

\* "--long=WORD" / "--long WORD", WORD a boolean word: set or clear accordingly (S).  X: "--long=junk"
GLongBoolWord(j) == /\ IsLongHere /\ j # 0 /\ Kind(j) = "bool"
                    /\ IF FW.eq THEN IsBoolWord(FW.val) ELSE HasNext /\ FN.bool
DoLongBoolWord(j) ==
    /\ GLongBoolWord(j)
    /\ IF FW.eq
       THEN Go(i + 1, 0, SetBool(j, IsTrueWord(FW.val)), tv, Gone(i), 0, 0, FALSE, FALSE)
       ELSE Go(i + 2, 0, SetBool(j, FN.true), tv, Gone2(i), 0, 0, FALSE, FALSE)

\* "--long=VALUE" (S)
GLongEqValue(j) == IsLongHere /\ j # 0 /\ FW.eq /\ Kind(j) \in {"int", "str"} /\ ValueOK(j, FW.val)
DoLongEqValue(j) ==
    /\ GLongEqValue(j)
    /\ Go(i + 1, 0, flags, Assign(j, ValueTV(j, FW.val)), Gone(i), 0, 0, FALSE, InPass(j) /\ IsReassign(j))

\* "--long VALUE" (S); X: a value that begins with '-'
GLongNextValue(j) == /\ IsLongHere /\ j # 0 /\ ~FW.eq /\ HasNext /\ Kind(j) \in {"int", "str"}
                     /\ ValueOK(j, Nxt) /\ ~FN.dash
DoLongNextValue(j) ==
    /\ GLongNextValue(j)
    /\ Go(i + 2, 0, flags, Assign(j, ValueTV(j, Nxt)), Gone2(i), 0, 0, FALSE, InPass(j) /\ IsReassign(j))

\* S: an option that needs a value and has none: counted bad at least once (exact count not claimed), assigns
\* nothing, parsing continues and terminates
GMissingValue(j) == j # 0 /\ ValuelessPos /\ ~HasNext /\ NeedsValue(j)
DoMissingValue(j) ==
    /\ GMissingValue(j)
    /\ Go(i + 1, 0, flags, tv, AnyAt(mark, i), IF InPass(j) THEN 1 ELSE 0, 0, TRUE, FALSE)

\* "-e w1 w2 ..." / "--exec w1 w2 ...": the argument list swallows the rest of the line, verbatim (S)
GArgListRest(j) == j # 0 /\ ValuelessPos /\ HasNext /\ Kind(j) = "args"
DoArgListRest(j) ==
    /\ GArgListRest(j)
    /\ Go(NArgs + 1, 0, flags, Assign(j, TV(0, TRUE, <<>>, [k \in 1 .. (NArgs - i) |-> Txt(i + k)])),
          [k \in 1 .. NArgs |-> IF k > i THEN "gone" ELSE Gone(i)[k]], 0, 0, FALSE, InPass(j) /\ IsReassign(j))

\* "-eWORD w2 ...": -xVALUE spelling of an argument list (I): the attached text is the first word of the list, the
\* rest of the line follows
GArgListAttached(j) == InShort /\ j # 0 /\ ~LastLetter /\ Kind(j) = "args"
DoArgListAttached(j) ==
    /\ GArgListAttached(j)
    /\ Go(NArgs + 1, 0, flags, Assign(j, TV(0, TRUE, <<>>, <<Attached>> \o [k \in 1 .. (NArgs - i) |-> Txt(i + k)])),
          [k \in 1 .. NArgs |-> IF k > i THEN "gone" ELSE Gone(i)[k]], 0, 0, FALSE, InPass(j) /\ IsReassign(j))

\* "--exec=w1 w2 'w 3'": the value is split into words, quote-aware (S); parsing continues with the next word
GArgListEq(j) == IsLongHere /\ j # 0 /\ FW.eq /\ Kind(j) = "args"
DoArgListEq(j) ==
    /\ GArgListEq(j)
    /\ Go(i + 1, 0, flags, Assign(j, TV(0, TRUE, <<>>, SplitWords(FW.val))), Gone(i), 0, 0, FALSE,
          InPass(j) /\ IsReassign(j))

\* abstract option: the client's handler is called with the value or with none.  Value = "=VALUE", the attached rest
\* of a short word (C), or the next word unless that spells a known option (S).  X: a value that begins with '-'
AbstEq       == IsLongHere /\ FW.eq
AbstAttached == InShort /\ ~LastLetter
GAbstract(j) == /\ j # 0 /\ Kind(j) = "abst" /\ (IsLongHere \/ InShort)
                /\ IF AbstEq THEN TRUE
                   ELSE IF AbstAttached THEN TRUE
                   ELSE IF ~HasNext THEN TRUE
                   ELSE IF ~FN.dash THEN TRUE
                   ELSE IsKnownOptionWord(Nxt)
DoAbstract(j) ==
    /\ GAbstract(j)
    /\ LET call(hv, v) == Assign(j, TV(tv[j].n + 1, hv, v, <<>>)) IN
       IF AbstEq THEN Go(i + 1, 0, flags, call(TRUE, FW.val), Gone(i), 0, 0, FALSE, FALSE)
       ELSE IF AbstAttached THEN Go(i + 1, 0, flags, call(TRUE, Attached), Gone(i), 0, 0, FALSE, FALSE)
       ELSE IF ~HasNext THEN Go(i + 1, 0, flags, call(FALSE, <<>>), Gone(i), 0, 0, FALSE, FALSE)
       ELSE IF ~FN.dash THEN Go(i + 2, 0, flags, call(TRUE, Nxt), Gone2(i), 0, 0, FALSE, FALSE)
       ELSE Go(i + 1, 0, flags, call(FALSE, <<>>), Gone(i), 0, 0, FALSE, FALSE)

\* the argument universe at the cursor: some spelling applies
InUniverse(j) == \/ GNonOption \/ GLoneDash \/ GUnknownLong(j) \/ GUnknownShort(j) \/ GShortFlag(j)
                 \/ GShortAttachedValue(j) \/ GShortNextValue(j) \/ GLongFlag(j) \/ GLongBoolWord(j)
                 \/ GLongEqValue(j) \/ GLongNextValue(j) \/ GMissingValue(j) \/ GArgListRest(j) \/ GArgListEq(j)
                 \/ GAbstract(j) \/ GArgListAttached(j)

\* the actions proper: the spelling under the cursor, read with the option the cursor is at
OpUnknownLong == Scanning /\ DoUnknownLong(CurOpt)
OpUnknownShort == Scanning /\ DoUnknownShort(CurOpt)
OpShortFlag == Scanning /\ DoShortFlag(CurOpt)
OpShortAttachedValue == Scanning /\ DoShortAttachedValue(CurOpt)
OpShortNextValue == Scanning /\ DoShortNextValue(CurOpt)
OpLongFlag == Scanning /\ DoLongFlag(CurOpt)
OpLongBoolWord == Scanning /\ DoLongBoolWord(CurOpt)
OpLongEqValue == Scanning /\ DoLongEqValue(CurOpt)
OpLongNextValue == Scanning /\ DoLongNextValue(CurOpt)
OpMissingValue == Scanning /\ DoMissingValue(CurOpt)
OpArgListRest == Scanning /\ DoArgListRest(CurOpt)
OpArgListEq == Scanning /\ DoArgListEq(CurOpt)
OpAbstract == Scanning /\ DoAbstract(CurOpt)
OpArgListAttached == Scanning /\ DoArgListAttached(CurOpt)

ScanStep == \/ OpNonOption \/ OpLoneDash \/ OpUnknownLong \/ OpUnknownShort \/ OpShortFlag
            \/ OpShortAttachedValue \/ OpShortNextValue \/ OpLongFlag \/ OpLongBoolWord \/ OpLongEqValue
            \/ OpLongNextValue \/ OpMissingValue \/ OpArgListRest \/ OpArgListEq \/ OpAbstract \/ OpArgListAttached

---------------------------------------------------------------------------------------------
(* results and pass sequencing *)
\* what the program can observe after a pass.  keep[k]: 1 = word k must still be there, 0 = must be gone, 2 = either
TvDelta == { <<j, tv[j]>> : j \in { q \in 1 .. NOpt : tv[q] # TV0(q) } }       \* targets that differ from their initial value
\* I: the program reads the bad-option count through an 8-bit quantity (SPIFOPT_BADOPTS_GET): an ideal counter of that
\* width stops at its largest value instead of wrapping round to "no bad options"
BadMax == 255
CapBad(n) == IF n > BadMax THEN BadMax ELSE n
Result(ph, keepv) == [pass |-> ph, fl |-> flags, tv |-> TvDelta, keep |-> keepv,
                      same |-> argv = argv0,                    \* the call read the original vector ...
                      inw |-> IF argv = argv0 THEN <<>> ELSE [k \in 1 .. NArgs |-> Txt(k)],     \* ... or these words
                      badLo |-> CapBad(badLo), badHi |-> CapBad(badHi), badOpen |-> badOpen,
                      sf |-> st \ {"PRE"}]                      \* S: the pre-parse setting is cleared by the pass that used it
KeepPre  == [k \in 1 .. NArgs |-> IF mark[k] = "keep" THEN 1 ELSE 2]      \* after a pre-parse pass only non-option words are claimed
KeepAll  == [k \in 1 .. NArgs |-> 1]
KeepOut  == [k \in 1 .. NArgs |-> IF mark[k] = "any" THEN 2
                                  ELSE IF \E q \in 1 .. Len(out) : out[q] = k THEN 1 ELSE 0]
Behaviour(passes, ok) == [tb |-> tb, calls |-> calls, argv |-> [k \in 1 .. Len(argv0) |-> TT[argv0[k]]], strict |-> ok,
                          re |-> re, passes |-> passes]

Finish(passes, ok) ==
    /\ phase' = "done" /\ strict' = ok
    /\ UNCHANGED <<tb, calls, ci, argv0, argv, i, l, flags, tv, mark, badLo, badHi, badOpen, re, snap, cr, out>>
    /\ Emit(Behaviour(passes, ok))

\* A call has ended with result res.  The program calls spifopt_parse() again with the SAME argv and argc (the parser
\* returns no new count): the next call reads nargv - the words up to the NULL the previous call left (S: after a
\* removing pass argv is the kept words, NULL-terminated; whatever lies behind the terminator is not part of the line).
\* Targets, bad-option count and the boolean word carry over; the program sets the settings of the next call itself.
\* cut: the continuation is not determined by the statement (a word that may or may not have stayed, E): the history
\* is compared up to here, the remaining calls are run for termination, memory safety and purity only.
NextCall(res, nargv, cut) ==
    IF ci = Len(calls) \/ cut
    THEN Finish(snap \o <<res>>, strict)
    ELSE /\ snap' = snap \o <<res>> /\ ci' = ci + 1 /\ argv' = nargv
         /\ phase' = (IF "PRE" \in calls[ci + 1] THEN "pre" ELSE "main")
         /\ i' = 1 /\ l' = 0 /\ mark' = [k \in 1 .. Len(nargv) |-> "keep"] /\ cr' = 0 /\ out' = <<>>
         /\ UNCHANGED <<tb, calls, argv0, flags, tv, badLo, badHi, badOpen, strict, re>>

\* end of a pre-parse pass: argv is not touched by it
OpPrePassEnd ==
    /\ phase = "pre" /\ i > NArgs
    /\ NextCall(Result("pre", KeepPre), argv, FALSE)

\* end of a normal pass without argument removal: argv is untouched (S)
OpMainPassEnd ==
    /\ phase = "main" /\ i > NArgs /\ "REM" \notin st
    /\ NextCall(Result("main", KeepAll), argv, FALSE)

\* end of a normal pass with argument removal: compaction, as the mechanism does it
OpCompactBegin ==
    /\ phase = "main" /\ i > NArgs /\ "REM" \in st
    /\ phase' = "compact" /\ cr' = 1 /\ out' = <<>>
    /\ UNCHANGED <<tb, calls, ci, argv0, argv, i, l, flags, tv, mark, badLo, badHi, badOpen, strict, re, snap>>
OpCompactStep ==
    /\ phase = "compact" /\ cr <= NArgs
    /\ cr' = cr + 1
    /\ out' = IF mark[cr] = "gone" THEN out ELSE Append(out, cr)
    /\ UNCHANGED <<tb, calls, ci, argv0, argv, phase, i, l, flags, tv, mark, badLo, badHi, badOpen, strict, re, snap>>
OpCompactEnd ==
    /\ phase = "compact" /\ cr > NArgs
    /\ NextCall(Result("main", KeepOut), [q \in 1 .. Len(out) |-> argv[out[q]]], \E k \in 1 .. NArgs : mark[k] = "any")

\* X: the cursor is at a spelling outside the argument universe (no scanner action applies).  The behaviour ends
\* here; the implementation is still run on this command line, for termination and memory safety only
OpExcluded ==
    /\ Scanning /\ ~InUniverse(CurOpt)
    /\ Finish(<<>>, FALSE)

\* the guards partition nothing twice: at most one spelling applies at any cursor position (the reading is a function)
GuardCount(j) == Cardinality({ g \in 1 .. 16 :
    CASE g = 1 -> GNonOption [] g = 2 -> GLoneDash [] g = 3 -> GUnknownLong(j) [] g = 4 -> GUnknownShort(j)
      [] g = 5 -> GShortFlag(j) [] g = 6 -> GShortAttachedValue(j) [] g = 7 -> GShortNextValue(j) [] g = 8 -> GLongFlag(j)
      [] g = 9 -> GLongBoolWord(j) [] g = 10 -> GLongEqValue(j) [] g = 11 -> GLongNextValue(j) [] g = 12 -> GMissingValue(j)
      [] g = 13 -> GArgListRest(j) [] g = 14 -> GArgListEq(j) [] g = 15 -> GAbstract(j) [] g = 16 -> GArgListAttached(j) })
ReadingIsFunction == Scanning => GuardCount(CurOpt) <= 1

Next == ScanStep \/ OpPrePassEnd \/ OpMainPassEnd \/ OpCompactBegin \/ OpCompactStep \/ OpCompactEnd \/ OpExcluded

ArgvsOver(T) == UNION { [1 .. n -> T] : n \in 0 .. MaxArgs }
ArgvsBounded(t) == ArgvsOver(TokSets[t])                 \* every vector of at most MaxArgs words over the table's alphabet
Init == /\ tb \in TableSet
        /\ calls \in Histories /\ ci = 1
        /\ argv \in Argvs(tb) /\ argv0 = argv
        /\ phase = (IF "PRE" \in calls[1] THEN "pre" ELSE "main")
        /\ i = 1 /\ l = 0
        /\ flags = Flags0[tb]
        /\ tv = [j \in 1 .. Len(TBL[tb]) |-> TV(IF TBL[tb][j].kind = "int" THEN Int0 ELSE 0, FALSE, <<>>, <<>>)]
        /\ mark = [k \in 1 .. Len(argv) |-> "keep"]
        /\ badLo = 0 /\ badHi = 0 /\ badOpen = FALSE /\ strict = TRUE /\ re = FALSE
        /\ snap = <<>> /\ cr = 0 /\ out = <<>>

Spec == Init /\ [][Next]_vars

---------------------------------------------------------------------------------------------
(* properties of the reference itself *)
\* (call, scan | compact | done, word, letter); words < 10000 letters, lines < 2000 words, histories < 40 calls
PhaseNo == 3 * ci + (CASE phase \in {"pre", "main"} -> 0 [] phase = "compact" -> 1 [] phase = "done" -> 2)
Rank == PhaseNo * 20000000 + (IF phase = "compact" THEN cr ELSE i) * 10000 + l

TypeOK == /\ phase \in {"pre", "main", "compact", "done"}
          /\ i \in 1 .. (NArgs + 1) /\ l \in {0} \cup 3 .. 9999
          /\ (Scanning /\ l # 0) => (l <= Len(W) /\ IsShortWord(W))
          /\ \A k \in 1 .. NArgs : mark[k] \in {"keep", "gone", "any"}
          /\ (badOpen \/ badLo <= badHi) /\ badLo >= 0
          /\ ci \in 1 .. Len(calls) /\ Len(snap) <= Len(calls)
          /\ (phase # "done") => (Len(snap) = ci - 1 /\ (phase = "pre") = ("PRE" \in st /\ phase # "compact"))
          /\ (ci = 1) => argv = argv0

\* Terminates: every step strictly advances (pass, word, letter); the rank is bounded, so every reading ends
Terminates == [][Rank' > Rank]_vars
RankBounded == Rank <= (3 * Len(calls) + 2) * 20000000 + (NArgs + 1) * 10000 + 9999

\* BoolTouchesOnlyMask: a step changes only the bit of the boolean option under the cursor, and only in its own pass
OwnedBits == { Tb[j].bit : j \in { q \in 1 .. NOpt : Tb[q].kind = "bool" } }
BoolStepOK == \A b \in (flags' \ flags) \cup (flags \ flags') :
                  CurOpt # 0 /\ Tb[CurOpt].kind = "bool" /\ Tb[CurOpt].bit = b /\ InPass(CurOpt)
BoolTouchesOnlyMask == [][BoolStepOK]_vars
ForeignBitsKept == flags \ OwnedBits = Flags0[tb] \ OwnedBits

\* OtherPassUntouched: options of the other pass keep their values throughout a pass; pre-parse options are never
\* assigned when no pre-parse pass is run
OtherPassStepOK ==
    phase \in {"pre", "main"} =>
        \A j \in 1 .. NOpt : ~InPass(j) =>
            (tv'[j] = tv[j] /\ (Tb[j].kind = "bool" => ((Tb[j].bit \in flags') = (Tb[j].bit \in flags))))
OtherPassUntouched == [][OtherPassStepOK]_vars
\* S: the pass an option belongs to is decided by its PREPARSE bit alone, whatever other modifier bits it carries
PrePassOnlyPre == (phase = "pre" /\ \A c \in 1 .. (ci - 1) : "PRE" \in calls[c]) =>
    \A j \in 1 .. NOpt : ~Tb[j].pp => /\ tv[j] = TV0(j)
                                     /\ (Tb[j].kind = "bool" => ((Tb[j].bit \in flags) = (Tb[j].bit \in Flags0[tb])))
NoPrePassNoPre == (\A c \in 1 .. ci : "PRE" \notin calls[c]) =>
    \A j \in 1 .. NOpt : Tb[j].pp => /\ tv[j] = TV0(j)
                                    /\ (Tb[j].kind = "bool" => ((Tb[j].bit \in flags) = (Tb[j].bit \in Flags0[tb])))
\* later occurrences override earlier ones: a target only ever holds the initial value or a value spelled on the line
\* (checked for integers: the value is the decimal reading of some word or attached value)
IntFromLine == \A j \in 1 .. NOpt : Tb[j].kind = "int" =>
    \/ tv[j].n = Int0
    \/ \E k \in 1 .. Len(argv0), p \in 1 .. 12 :
          LET w == TT[argv0[k]] IN p <= Len(w) /\ IsDecimal(Rest(w, p)) /\ DecVal(Rest(w, p)) = tv[j].n

\* NonOptionsUntouchedInOrder: a plain word is never "gone" unless it is the value of the option word right before it
\* or lies behind an argument-list option; words before the cursor that are plain and not preceded by an option word
\* are kept; the compacted vector lists positions in increasing order
IsArgsOptWordIn(T, w) ==
    \/ IsLongWord(w) /\ ~HasEq(w) /\ FindLongIn(T, LongName(w)) # 0 /\ T[FindLongIn(T, LongName(w))].kind = "args"
    \/ IsShortWord(w) /\ \E p \in 2 .. Len(w) : FindShortIn(T, w[p]) # 0 /\ T[FindShortIn(T, w[p])].kind = "args"
ArgsWordOf == [tn \in 1 .. Len(TBL) |-> [t \in 1 .. Len(TT) |->
                  LET w == TT[t] T == TBL[tn] IN IsArgsOptWordIn(T, w)]]      \* tabulated
IsArgsAt(q) == ArgsWordOf[tb][argv[q]]
\* position of the first argument-list option word on the line (NArgs + 1 if none)
FirstArgsWord == CHOOSE q \in 1 .. (NArgs + 1) : (q = NArgs + 1 \/ IsArgsAt(q)) /\ \A r \in 1 .. (q - 1) : ~IsArgsAt(r)
Dash(k) == Fact[argv[k]].dash
NonOptionsUntouchedInOrder ==
    LET fa == FirstArgsWord IN
    /\ \A k \in 1 .. NArgs : (mark[k] # "keep" /\ ~Dash(k)) => ((k > 1 /\ Dash(k - 1)) \/ fa < k)
    /\ \A k \in 1 .. NArgs : (phase \in {"pre", "main"} /\ k < i /\ ~Dash(k) /\ (k = 1 \/ ~Dash(k - 1)) /\ ~(fa < k))
                                 => mark[k] = "keep"
    /\ \A q \in 1 .. (Len(out) - 1) : out[q] < out[q + 1]

\* ArgvCompacted: the mechanism (read/write cursors) yields exactly the reference filter: program name, then every word
\* not removed, in the original order, no holes
KeptRef == SelectSeq([k \in 1 .. NArgs |-> k], LAMBDA k : mark[k] # "gone")
ArgvCompacted == (phase = "compact" /\ cr > NArgs) => out = KeptRef
\* a later call never sees more than an earlier one: the vector only shrinks, and only by a removing normal pass
ArgvShrunk == Len(argv) <= Len(argv0)
ArgvStepOK == Len(argv') <= Len(argv) /\ (argv' # argv => phase = "compact")
ArgvOnlyShrinks == [][ArgvStepOK]_vars
CompactPrefix == phase = "compact" =>
    out = SelectSeq([k \in 1 .. (cr - 1) |-> k], LAMBDA k : mark[k] # "gone")
================================================================================
