------------------------------ MODULE StrObjTrace ------------------------------
(* Trace validation for C01: every recorded call on real str / ustr objects (operation, arguments, returned value,  *)
(* projected texts of both slots) must be a step of StrObj.  The file named by env TRACE holds one JSON object per   *)
(* line: {op, sl, bop, args, ret, same, post}; sl/bop = slot and base operation name ("b_trim" = slot "b", "trim"),  *)
(* same = TRUE means the projection after the call equals the one before it (post is then not logged: the texts are  *)
(* tens of kilobytes).  {"bop":"reset"} starts a new execution.                                                       *)
(* Large contents for the stream / descriptor constructors are not logged either: both sides generate them from      *)
(* (n, nl) with the same formula, GenContent.                                                                         *)
EXTENDS StrObj, IOUtils
VARIABLE l
Tr == ndJsonDeserialize(IOEnv.TRACE)
ev == Tr[l]

UTrace == [maxlen |-> 1000000]

ObsTrace(op, args, ret, either, post) ==
    /\ op = ev.op /\ args = ev.args
    /\ IF either THEN TRUE ELSE ret = ev.ret
    /\ IF ev.same THEN post = Pre ELSE post = ev.post

\* n characters, a newline at position nl (0 = none): must equal gen_content() of harness/str_replay.c
GenContent(n, nl) == [k \in 1 .. n |-> IF k = nl THEN 10 ELSE 97 + ((k * 7 + (k \div 61)) % 26)]
OpNewFromFpGen(sl, re, n, nl, tr) == /\ sl \in Slots /\ Ctor(sl, re, "_from_fp_gen", <<n, nl, tr>>, LineText(GenContent(n, nl)))
OpNewFromFdGen(sl, re, n, nl, tr) == /\ sl \in Slots /\ Ctor(sl, re, "_from_fd_gen", <<n, nl, tr>>, GenContent(n, nl))

OpNewFromBuffGen(sl, re, m, size) == /\ sl \in Slots /\ m < size      \* a size-byte buffer: m generated characters, then NULs
                                     /\ Ctor(sl, re, "_from_buff_gen", <<m, size>>, GenContent(m, 0))
OpSprintfSGen(sl, n) == /\ Live(sl) /\ MutE(sl, "sprintf_s_gen", <<n>>, TRUE, n = 0, GenContent(n, 0))      \* "%s" with n generated characters

\* Bursts "<op>_n k args": k consecutive calls of the same operation, observed after the last one (the harness checks the
\* representation invariants after every single call).  The value is the k-fold application of the one-call action.
RepT(t, k) == [i \in 1 .. (k * Len(t)) |-> t[((i - 1) % Len(t)) + 1]]
OpAppendCharN(sl, k, c)  == /\ Live(sl) /\ k >= 0 /\ Mut(sl, "append_char_n", <<k, c>>, TRUE, Txt(sl) \o RepT(<<c>>, k))
OpPrependCharN(sl, k, c) == /\ Live(sl) /\ k >= 0 /\ Mut(sl, "prepend_char_n", <<k, c>>, TRUE, RepT(<<c>>, k) \o Txt(sl))
OpAppendPtrN(sl, k, t)   == /\ Live(sl) /\ k >= 0 /\ Mut(sl, "append_from_ptr_n", <<k, t>>, TRUE, Txt(sl) \o RepT(t, k))
OpPrependPtrN(sl, k, t)  == /\ Live(sl) /\ k >= 0 /\ Mut(sl, "prepend_from_ptr_n", <<k, t>>, TRUE, RepT(t, k) \o Txt(sl))
OpAppendObjN(sl, k)      == /\ Live(sl) /\ k >= 0 /\ HasOther(sl) /\ Mut(sl, "append_n", <<k>>, TRUE, Txt(sl) \o RepT(Other(sl), k))
OpPrependObjN(sl, k)     == /\ Live(sl) /\ k >= 0 /\ HasOther(sl) /\ Mut(sl, "prepend_n", <<k>>, TRUE, RepT(Other(sl), k) \o Txt(sl))

CtorStep(sl, o, re, g) ==
    \/ o = "" /\ OpNew(sl, re)
    \/ o = "_from_ptr" /\ OpNewFromPtr(sl, re, g[1])
    \/ o = "_from_ptr_null" /\ OpNewFromPtrNull(sl, re)
    \/ o = "_from_buff" /\ OpNewFromBuff(sl, re, g[1], g[2])
    \/ o = "_from_buff_null" /\ OpNewFromBuffNull(sl, re, g[1])
    \/ o = "_from_num" /\ OpNewFromNum(sl, re, g[1])
    \/ o = "_from_fp" /\ OpNewFromFp(sl, re, g[1], g[2])
    \/ o = "_from_fd" /\ OpNewFromFd(sl, re, g[1], g[2])
    \/ o = "_from_fp_gen" /\ OpNewFromFpGen(sl, re, g[1], g[2], g[3])
    \/ o = "_from_fd_gen" /\ OpNewFromFdGen(sl, re, g[1], g[2], g[3])
    \/ o = "_from_buff_gen" /\ OpNewFromBuffGen(sl, re, g[1], g[2])

TraceInit == Init /\ l = 1
TraceStep ==
    /\ l <= Len(Tr)
    /\ l' = l + 1
    /\ LET sl == ev.sl  o == ev.bop  g == ev.args IN
       \/ o = "reset" /\ a' = <<>> /\ al' = FALSE /\ b' = <<>> /\ bl' = FALSE
       \/ \E k \in {"", "_from_ptr", "_from_ptr_null", "_from_buff", "_from_buff_null", "_from_num", "_from_fp", "_from_fd",
                    "_from_fp_gen", "_from_fd_gen", "_from_buff_gen"} :
             \/ o = "new" \o k /\ CtorStep(sl, k, FALSE, g)
             \/ o = "re" \o k /\ CtorStep(sl, k, TRUE, g)
       \/ o = "done" /\ OpDone(sl)
       \/ o = "del" /\ OpDel(sl)
       \/ o = "dup" /\ OpDup(sl)
       \/ o = "append_from_ptr" /\ OpAppendPtr(sl, g[1])
       \/ o = "prepend_from_ptr" /\ OpPrependPtr(sl, g[1])
       \/ o = "append_char" /\ OpAppendChar(sl, g[1])
       \/ o = "prepend_char" /\ OpPrependChar(sl, g[1])
       \/ o = "append" /\ OpAppendObj(sl)
       \/ o = "prepend" /\ OpPrependObj(sl)
       \/ o = "append_self" /\ OpAppendSelf(sl)
       \/ o = "prepend_self" /\ OpPrependSelf(sl)
       \/ o = "splice_from_ptr" /\ OpSplicePtr(sl, g[1], g[2], g[3])
       \/ o = "splice_from_ptr_null" /\ OpSplicePtrNull(sl, g[1], g[2])
       \/ o = "splice" /\ OpSpliceObj(sl, g[1], g[2])
       \/ o = "splice_self" /\ OpSpliceSelf(sl, g[1], g[2])
       \/ o = "trim" /\ OpTrim(sl)
       \/ o = "reverse" /\ OpReverse(sl)
       \/ o = "upcase" /\ OpUpcase(sl)
       \/ o = "downcase" /\ OpDowncase(sl)
       \/ o = "clear" /\ OpClear(sl, g[1])
       \/ o = "sprintf_lit" /\ OpSprintfLit(sl, g[1])
       \/ o = "sprintf_s" /\ OpSprintfS(sl, g[1])
       \/ o = "sprintf_d" /\ OpSprintfD(sl, g[1])
       \/ o = "sprintf_s_gen" /\ OpSprintfSGen(sl, g[1])
       \/ o = "append_char_n" /\ OpAppendCharN(sl, g[1], g[2])
       \/ o = "prepend_char_n" /\ OpPrependCharN(sl, g[1], g[2])
       \/ o = "append_from_ptr_n" /\ OpAppendPtrN(sl, g[1], g[2])
       \/ o = "prepend_from_ptr_n" /\ OpPrependPtrN(sl, g[1], g[2])
       \/ o = "append_n" /\ OpAppendObjN(sl, g[1])
       \/ o = "prepend_n" /\ OpPrependObjN(sl, g[1])
       \/ o = "sprintf_sd" /\ OpSprintfSD(sl, g[1], g[2])
       \/ o = "len" /\ OpLen(sl)
       \/ o = "index" /\ OpIndex(sl, g[1])
       \/ o = "rindex" /\ OpRindex(sl, g[1])
       \/ o = "find_from_ptr" /\ OpFindPtr(sl, g[1])
       \/ o = "find" /\ OpFindObj(sl)
       \/ o = "find_self" /\ OpFindSelf(sl)
       \/ o = "substr" /\ OpSubstr(sl, g[1], g[2])
       \/ o = "substr_to_ptr" /\ OpSubstrToPtr(sl, g[1], g[2])
       \/ \E kind \in {"cmp", "casecmp"} :
             \/ o = kind \o "_with_ptr" /\ OpCmpPtr(sl, kind, g[1], 0)
             \/ o = kind /\ OpCmpObj(sl, kind, 0)
             \/ o = kind \o "_self" /\ OpCmpSelf(sl, kind, 0)
             \/ o = kind \o "_with_ptr_null" /\ OpCmpPtrNull(sl, kind, 0)
       \/ \E kind \in {"ncmp", "ncasecmp"} :
             \/ o = kind \o "_with_ptr" /\ OpCmpPtr(sl, kind, g[1], g[2])
             \/ o = kind /\ OpCmpObj(sl, kind, g[1])
             \/ o = kind \o "_self" /\ OpCmpSelf(sl, kind, g[1])
             \/ o = kind \o "_with_ptr_null" /\ OpCmpPtrNull(sl, kind, g[1])
       \/ o = "to_num" /\ OpToNum(sl, g[1])
       \/ o = "to_float" /\ OpToFloat(sl)
TraceSpec == TraceInit /\ [][TraceStep]_<<vars, l>>
\* accepted iff every line was consumed: diameter counts the initial state plus one state per line
TraceAccepted == \/ TLCGet("stats").diameter - 1 = Len(Tr)
                 \/ PrintT(<<"TRACE_REJECTED_AFTER", TLCGet("stats").diameter - 1, "OF", Len(Tr)>>) /\ FALSE
================================================================================
