------------------------------- MODULE DebugGate -------------------------------
(* C20: debug output and assertions of libast are gated exactly by the compile-time maximum     *)
(* debug level D (config.h DEBUG), the runtime level R (libast_debug_level) and the silent flag.*)
(*                                                                                              *)
(* Configuration: d is fixed per build (one behaviour = one build); r and silent are run-time   *)
(* settings a program may change at any moment (OpSetLevel, OpSetSilent).  OpExecute(m) is one   *)
(* statement of the family executed in the current configuration; its allowed outcomes          *)
(*      [out  : what appears on the debug/error stream  none|debug|warning|error|fatal,         *)
(*       eval : how often the statement's argument expression is evaluated (0 | 1),             *)
(*       ctl  : "falls" through | "returns" the stated failure value | "exits" the process]      *)
(* are a function of (d, r, silent, m) only, written down from the property statement (S).      *)
(* Where the statement leaves a choice the set has two members (E, see Outcomes).               *)
(* TLC enumerates the whole matrix, checks the cross-cutting laws below and emits the allowed   *)
(* outcomes of every cell; checks/c20.py runs every cell on probe builds DEBUG=0..5.            *)
EXTENDS Integers, Sequences, FiniteSets, TLC, Json

CONSTANTS CompileLevels,   \* 0 .. 5
          RunLevels,       \* 0 .. 6
          Obs(_, _, _, _)

VARIABLES d, r, silent
vars == <<d, r, silent>>

-------------------------------------------------------------------------------
(* the family *)
Subsys == {"D_OPTIONS", "D_OBJ", "D_CONF", "D_MEM", "D_STRINGS", "D_PARSE"}
SubsysLevel(m) == CASE m = "D_OPTIONS" -> 1 [] m = "D_OBJ" -> 2 [] m = "D_CONF" -> 3 [] m = "D_MEM" -> 5
                    [] m = "D_STRINGS" -> 9999 [] m = "D_PARSE" -> 9999
Dprintf == {"DPRINTF1", "DPRINTF2", "DPRINTF3", "DPRINTF4", "DPRINTF5", "DPRINTF6"}
DprintfLevel(m) == CASE m = "DPRINTF1" -> 1 [] m = "DPRINTF2" -> 2 [] m = "DPRINTF3" -> 3
                     [] m = "DPRINTF4" -> 4 [] m = "DPRINTF5" -> 5 [] m = "DPRINTF6" -> 6
AssertHold  == {"ASSERT_hold", "ASSERT_RVAL_hold"}
\* the _pct variants are the same statements with an expression whose text contains printf-looking sequences ("% s", "%d"):
\* the text of the failed expression is DATA in the diagnostic, never a format
AssertFail  == {"ASSERT_fail", "ASSERT_RVAL_fail", "ASSERT_fail_pct", "ASSERT_RVAL_fail_pct"}
RequireHold == {"REQUIRE_hold", "REQUIRE_RVAL_hold"}
RequireFail == {"REQUIRE_fail", "REQUIRE_RVAL_fail", "REQUIRE_fail_pct", "REQUIRE_RVAL_fail_pct"}
Printers    == {"print_warning", "print_error", "dprintf", "fatal_error"}
Gated  == Subsys \cup Dprintf
Macros == Gated \cup AssertHold \cup AssertFail \cup RequireHold \cup RequireFail \cup Printers

\* S: a D_* statement of level L is live iff compiled with D >= L and running at R >= L;
\*    a DPRINTFn statement iff debugging is compiled in (D >= 1) and R >= n
GateOn(dd, rr, m) == IF m \in Subsys THEN dd >= SubsysLevel(m) /\ rr >= SubsysLevel(m)
                     ELSE dd >= 1 /\ rr >= DprintfLevel(m)

O(out, ev, ctl) == [out |-> out, eval |-> ev, ctl |-> ctl]
Shown(s, cls) == IF s THEN "none" ELSE cls          \* S: with output silenced nothing is printed

Outcomes(dd, rr, s, m) ==
    IF m \in Gated THEN
        IF ~GateOn(dd, rr, m) THEN {O("none", 0, "falls")}                    \* S: no output, arguments not evaluated
        ELSE IF ~s THEN {O("debug", 1, "falls")}
        ELSE {O("none", 0, "falls"), O("none", 1, "falls")}                   \* E: silenced - prints nothing; the statement is silent
                                                                               \*    on whether the arguments of a live statement are evaluated
    ELSE IF m \in AssertHold THEN {O("none", IF dd >= 1 THEN 1 ELSE 0, "falls")}   \* S: compiled out -> vanishes (condition not evaluated)
    ELSE IF m \in AssertFail THEN
        IF dd = 0 THEN {O("none", 0, "falls")}                                \* S: ASSERT vanishes
        ELSE IF rr = 0 THEN {O(Shown(s, "warning"), 1, "returns")}            \* S: warns and returns the stated failure value
        ELSE {O(Shown(s, "fatal"), 1, "exits")}                               \* S: fatal at level 1 or more
    ELSE IF m \in RequireHold THEN {O("none", 1, "falls")}
    ELSE IF m \in RequireFail THEN
        IF dd = 0 THEN {O("none", 1, "returns")}                              \* S: reduces to the bare return
        ELSE IF rr = 0 THEN {O("none", 1, "returns")}                         \* S: only returns that value ...
        ELSE {O(Shown(s, "debug"), 1, "returns")}                             \* S: ... logging at level 1 or more
    ELSE IF m = "print_warning" THEN {O(Shown(s, "warning"), 1, "falls")}     \* printers are functions: arguments always evaluated
    ELSE IF m = "print_error"   THEN {O(Shown(s, "error"), 1, "falls")}
    ELSE IF m = "dprintf"       THEN {O(Shown(s, "debug"), 1, "falls")}
    ELSE {O(Shown(s, "fatal"), 1, "exits")}                                   \* fatal_error: always ends the process

-------------------------------------------------------------------------------
View(dd, rr, s) == [d |-> dd, r |-> rr, silent |-> s]
Pre == View(d, r, silent)
Step(op, args, ret, rr, s) == /\ d' = d /\ r' = rr /\ silent' = s /\ Obs(op, args, ret, View(d, rr, s))

OpSetLevel(n)  == Step("set_level", <<n>>, TRUE, n, silent)
OpSetSilent(b) == Step("set_silent", <<b>>, b, r, b)                      \* libast_set_silent returns the new value
\* History of the debug stream: "clean", or one earlier write on it failed (full non-blocking pipe, EAGAIN) and the stream
\* works again.  S: the gates are the two levels and the silent flag - nothing else; so the outcome is the same.
\* "in_atexit_of_fatal": the statement is executed by an atexit handler of the client while the exit() of an earlier fatal error
\* is running the handlers.  S: a failed ASSERT is fatal, libast_fatal_error ends the process - "never by carrying on".
\* "after_refused_print": earlier calls of libast_dprintf / print_error / print_warning were REFUSED because no program name was
\* registered at that moment (the state a failed strdup inside libast_set_program_name leaves); the name has been registered
\* again since.  S: a refused call leaves nothing behind - the later statement behaves as if it had never happened.
\* "after_same_statement": the SAME statement (same source line, same arguments) was executed immediately before in the same
\* configuration and the process carried on.  S: the outcome is a function of the two levels and the silent flag - a statement
\* that logged once logs again (no "repeated message" suppression, no per-site memory).  Only where the first execution does
\* not end the process.
Histories == {"clean", "after_failed_write", "in_atexit_of_fatal", "after_refused_print", "after_same_statement"}
\* Type of the asserted / required expression.  S: ASSERT(x) / REQUIRE(x) test the TRUTH of x exactly as C's !(x) does, whatever
\* its scalar type: a double of magnitude below 1, a 64-bit value whose low 32 bits are 0, a pointer, a bit-field, a _Bool.
\* The outcome is that of the same statement with an int condition of the same truth value.
CondTypes == {"int", "double", "float", "longdouble", "negdouble", "longlong", "pointer", "bool", "bitfield", "uchar"}
Typed == {"ASSERT_hold", "ASSERT_fail", "ASSERT_RVAL_hold", "ASSERT_RVAL_fail",
          "REQUIRE_hold", "REQUIRE_fail", "REQUIRE_RVAL_hold", "REQUIRE_RVAL_fail"}
\* Statement context: every macro of the family is a STATEMENT and must behave as one wherever a statement may stand.
\*   alone / braced           - the plain outcome
\*   then_true / then_false   - the unbraced then-arm of  "if (c) M; else E;" : with c true M behaves as alone and E is not
\*                              executed; with c false M is not executed at all (no output, no evaluation) and E IS executed
\*   loop2                    - the unbraced body of a loop with two iterations: twice the evaluations unless M leaves the function
\* (printers are functions: context is irrelevant, "alone" only).  els = the else arm E was executed.
Contexts == {"alone", "braced", "then_true", "then_false", "loop2"}
InContext(o, c) ==
    IF c = "then_false" THEN [out |-> "none", eval |-> 0, ctl |-> "falls", els |-> TRUE]
    ELSE [out |-> o.out, eval |-> IF c = "loop2" /\ o.ctl = "falls" THEN 2 * o.eval ELSE o.eval, ctl |-> o.ctl, els |-> FALSE]
\* The length of the message is NOT a parameter of the rule: a live statement prints its message complete, whatever its length
\* (checks/c20.py sweeps message lengths around 8..8192, BUFSIZ and beyond against these same outcomes).
\* Environment fault on the diagnostic stream: the k-th write the statement causes (k = 1, 2) fails with EINTR or EAGAIN before
\* any byte went out, or is short (half of it accepted).  What the environment drops is lost - the stream class is not judged
\* under a fault - but evaluations and control are the rule's, and what DOES come out is never garbled: every accepted piece is
\* a piece of the fault-free output of the same statement (a message is formatted from its arguments once, or again from a COPY).
WriteFaults == {"none", "w1_EINTR", "w1_EAGAIN", "w1_short", "w2_EINTR", "w2_EAGAIN", "w2_short"}
UnderFault(o, wf) ==
    IF wf = "none" THEN {[out |-> o.out, eval |-> o.eval, ctl |-> o.ctl, els |-> o.els, garbled |-> FALSE]}
    ELSE {[out |-> "any", eval |-> o.eval, ctl |-> o.ctl, els |-> o.els, garbled |-> FALSE]}      \* "any": not judged
OpExecute(m, h, c, ty, wf) ==
    /\ (c = "alone" \/ (h = "clean" /\ m \notin Printers))
    /\ (ty = "int" \/ (m \in Typed /\ c = "alone" /\ h = "clean"))
    /\ (wf = "none" \/ (c = "alone" /\ h = "clean" /\ ty = "int" /\ ~silent))
    /\ (h # "after_same_statement" \/ \A o \in Outcomes(d, r, silent, m) : o.ctl # "exits")
    /\ \E o \in Outcomes(d, r, silent, m) : \E of \in UnderFault(InContext(o, c), wf) :
          Step("execute", <<m, h, c, ty, wf>>, of, r, silent)

Init == d \in CompileLevels /\ r = 0 /\ silent = FALSE                    \* a program starts at level 0, not silenced
Next == \/ \E n \in RunLevels : OpSetLevel(n)
        \/ \E b \in BOOLEAN : OpSetSilent(b)
        \/ \E m \in Macros, h \in Histories, c \in Contexts, ty \in CondTypes, wf \in WriteFaults : OpExecute(m, h, c, ty, wf)
Spec == Init /\ [][Next]_vars

-------------------------------------------------------------------------------
(* laws of the rule itself, over every reachable configuration *)
All(m) == Outcomes(d, r, silent, m)
TypeOK == d \in CompileLevels /\ r \in RunLevels /\ silent \in BOOLEAN
\* S: with output silenced, messages, warnings and errors print nothing
NoOutputWhenSilent == silent => \A m \in Macros : \A o \in All(m) : o.out = "none"
\* S: a gated-off statement neither prints nor evaluates its arguments
ArgsNotEvaluatedWhenGatedOff == \A m \in Gated : ~GateOn(d, r, m) => All(m) = {O("none", 0, "falls")}
\* S: output iff both levels reach the statement's level (not silenced)
GateExact == \A m \in Gated : \A o \in All(m) : (o.out = "debug") <=> (GateOn(d, r, m) /\ ~silent)
\* raising the runtime level never switches a statement off
GateMonotone == \A m \in Gated : \A r2 \in RunLevels : (r2 >= r /\ GateOn(d, r, m)) => GateOn(d, r2, m)
\* S: debugging compiled out: ASSERT vanishes, REQUIRE is the bare return, nothing is ever printed by a macro
CompiledOut == d = 0 => /\ \A m \in Gated \cup AssertHold \cup AssertFail : All(m) = {O("none", 0, "falls")}
                        /\ \A m \in RequireFail : All(m) = {O("none", 1, "returns")}
\* S: a failed ASSERT never carries on once debugging is compiled in; a REQUIRE never ends the process
AssertStops == d >= 1 => \A m \in AssertFail : \A o \in All(m) : o.ctl = (IF r = 0 THEN "returns" ELSE "exits")
RequireNeverFatal == \A m \in RequireHold \cup RequireFail : \A o \in All(m) : o.ctl # "exits" /\ o.out \in {"none", "debug"}
HoldingIsQuiet == \A m \in AssertHold \cup RequireHold : \A o \in All(m) : o.out = "none" /\ o.ctl = "falls"
\* S: "neither evaluates its arguments otherwise" holds in every statement context; an else arm belongs to the programmer's if
ContextLaw == \A m \in Macros \ Printers : \A o \in All(m) :
                 /\ InContext(o, "then_false").els /\ InContext(o, "then_false").eval = 0
                 /\ ~InContext(o, "then_true").els /\ InContext(o, "then_true").eval = o.eval
                 /\ InContext(o, "braced") = InContext(o, "alone")
\* the compile-time level is a constant of a build
BuildConstant == [][d' = d]_vars
================================================================================
