/* C12: runs the cases emitted by TLC from spec/Quote.tla on the real tokenizers and word utilities.
 * usage: quote_replay <scriptfile> [first]
 * Steps (state token is always "-", these are pure functions):
 *   split <d> <s> = [[..],..]        spiftool_split(d, s); d = "-" (NULL: white space) or [codes]; NULL result = []
 *   tok   <d> <s> = [[..],..]        spif_tok_new_from_ptr(s) (+ set_sep(d)) + spif_tok_eval + token list
 *   tok_eval <d> <s> = [[..],..]     spif_tok_set_src(T, s) + spif_tok_set_sep(T, d or NULL; "~": separator left alone) + spif_tok_eval(T)
 *   tok_setq|tok_setdq|tok_setesc <c> = T,  tok_done = T     spif_tok_set_quote / _set_dquote / _set_escape / spif_tok_done
 *                                    all on the ONE tok object T of this script (created by its first tok_ step, deleted at the end);
 *                                    their state token is [quote,dquote,escape] read back from the object
 *   split_rep | tok_rep <d> <B> <K> = {first=[[..],..],n=N,periodic=T|F}   the function on B repeated K times (long counts)
 *   words_rep <B> <K> <[i,..]>      = {n=N,p=[..],w=[[..],..]}             num_words(B^K), get_word / get_pword at the indices
 *   words <s>     = {n=N,p=[..],w=[[..],..]}   num_words(s); get_word(i,s), get_pword(i,s) for i = 1..N
 *                                    (p: offset into s, -1 = NULL; w: "-" inside the list = NULL);
 *                                    indices 0 and N+1 are called too, for the sanitizer only
 *   join  <toks>  = [[..],[..],[..]] spiftool_join(sep, toks) for sep = NULL/"" , ":" , ", "
 * Every input is an exact-size heap copy.
 */
#include "c12_util.h"

/* the tok object that lives across the steps of one script (op tok_eval): a history on ONE object */
static spif_tok_t T = (spif_tok_t) NULL;
static void vh_begin(void) { T = (spif_tok_t) NULL; }
static void vh_end(void) { if (!SPIF_TOK_ISNULL(T)) { spif_tok_del(T); T = (spif_tok_t) NULL; } }

/* token list of a tok object as [[..],..]; returns an invariant-failure message or NULL */
static const char *tok_readout(spif_tok_t t, vh_sb *ret) {
    spif_list_t l = spif_tok_get_tokens(t); long i, n;
    sb_putc(ret, '[');
    n = SPIF_LIST_ISNULL(l) ? 0 : (long) SPIF_LIST_COUNT(l);
    for (i = 0; i < n; i++) {
        spif_str_t e = (spif_str_t) SPIF_LIST_GET(l, (spif_listidx_t) i);
        if (i) sb_putc(ret, ',');
        if (SPIF_STR_ISNULL(e)) sb_putc(ret, '-');
        else {
            long len = (long) spif_str_get_len(e); const unsigned char *p = (const unsigned char *) e->s;
            if (len < 0) return "token_len<0";
            if (len > 0 && !p) return "token_text=NULL_with_len>0";
            if (p && strlen((const char *) p) != (size_t) len) return "token_len!=strlen";
            sb_bytes(ret, p, (size_t) len);
        }
    }
    sb_putc(ret, ']');
    return NULL;
}

static const char *do_step(const vh_step_t *st, vh_sb *ret, vh_sb *state) {
    const char *op = st->op;
    static char msg[128];
    if (!strncmp(op, "tok_", 4) && strcmp(op, "tok_rep")) {
        /* steps on the script's ONE tok object: set_src/set_sep/eval, the three setters of the special characters, done().
         * state token = the object's special characters read back through the getters: [quote,dquote,escape] */
        const char *bad = NULL;
        if (SPIF_TOK_ISNULL(T)) T = spif_tok_new();
        if (SPIF_TOK_ISNULL(T)) return "tok_new=NULL";
        if (!strcmp(op, "tok_eval") && st->nargs == 2) {
            /* new source; separator: "-" = none (NULL), "~" = leave the object's separator alone, [..] = this one */
            unsigned char *s = cu_text(st->args[1], NULL);
            spif_tok_set_src(T, spif_str_new_from_ptr((spif_charptr_t) s));
            free(s);
            if (strcmp(st->args[0], "~")) {
                unsigned char *d = cu_text(st->args[0], NULL);
                spif_tok_set_sep(T, d ? spif_str_new_from_ptr((spif_charptr_t) d) : (spif_str_t) NULL);
                free(d);
            }
            if (!spif_tok_eval(T)) return "tok_eval=FALSE";
            bad = tok_readout(T, ret);
        } else if (!strcmp(op, "tok_setq") && st->nargs == 1) { sb_bool(ret, spif_tok_set_quote(T, (spif_char_t) vh_int(st->args[0])) ? 1 : 0); }
        else if (!strcmp(op, "tok_setdq") && st->nargs == 1) { sb_bool(ret, spif_tok_set_dquote(T, (spif_char_t) vh_int(st->args[0])) ? 1 : 0); }
        else if (!strcmp(op, "tok_setesc") && st->nargs == 1) { sb_bool(ret, spif_tok_set_escape(T, (spif_char_t) vh_int(st->args[0])) ? 1 : 0); }
        else if (!strcmp(op, "tok_done") && st->nargs == 0) { sb_bool(ret, spif_tok_done(T) ? 1 : 0); }
        else { snprintf(msg, sizeof(msg), "unknown_op_%s/%d", op, st->nargs); return msg; }
        sb_printf(state, "[%d,%d,%d]", (int) (unsigned char) spif_tok_get_quote(T), (int) (unsigned char) spif_tok_get_dquote(T),
                  (int) (unsigned char) spif_tok_get_escape(T));
        return bad;
    }
    sb_putc(state, '-');
    if (!strcmp(op, "split") && st->nargs == 2) {
        size_t n; unsigned char *d = cu_text(st->args[0], NULL), *s = cu_text(st->args[1], &n);
        spif_charptr_t *l = spiftool_split((spif_charptr_t) d, (spif_charptr_t) s);
        int i;
        sb_putc(ret, '[');
        if (l) {
            for (i = 0; l[i]; i++) { if (i) sb_putc(ret, ','); sb_cstr(ret, (unsigned char *) l[i]); }
            for (i = 0; l[i]; i++) { FREE(l[i]); }
            FREE(l);
        }
        sb_putc(ret, ']');
        /* purity: the same call just before on the SAME buffer with different content of the same length (errno left at
         * ERANGE), then the text again - the result must be the one of the fresh call */
        if (n > 0) {
            int v; vh_sb again = {0, 0, 0};
            for (v = 0; v < CU_ALTS; v++) {
                unsigned char *orig = cu_text(st->args[1], NULL);
                cu_alt_content(v, s, orig, n);
                errno = ERANGE;
                l = spiftool_split((spif_charptr_t) d, (spif_charptr_t) s);
                if (l) { for (i = 0; l[i]; i++) { FREE(l[i]); } FREE(l); }
                memcpy(s, orig, n + 1);
                free(orig);
                l = spiftool_split((spif_charptr_t) d, (spif_charptr_t) s);
                sb_need(&again, 16); sb_reset(&again);
                sb_putc(&again, '[');
                if (l) {
                    for (i = 0; l[i]; i++) { if (i) sb_putc(&again, ','); sb_cstr(&again, (unsigned char *) l[i]); }
                    for (i = 0; l[i]; i++) { FREE(l[i]); }
                    FREE(l);
                }
                sb_putc(&again, ']');
                if (strcmp(again.p, ret->p)) { free(again.p); free(d); free(s); return "split_result_depends_on_the_previous_call"; }
            }
            free(again.p);
        }
        free(d); free(s);
    } else if (!strcmp(op, "tok") && st->nargs == 2) {
        unsigned char *d = cu_text(st->args[0], NULL), *s = cu_text(st->args[1], NULL);
        spif_tok_t t = spif_tok_new_from_ptr((spif_charptr_t) s);
        if (SPIF_TOK_ISNULL(t)) { free(d); free(s); return "tok_new_from_ptr=NULL"; }
        if (d) spif_tok_set_sep(t, spif_str_new_from_ptr((spif_charptr_t) d));
        free(d); free(s);      /* the object owns copies; the scanner must not depend on the caller's buffers */
        if (!spif_tok_eval(t)) { spif_tok_del(t); return "tok_eval=FALSE"; }
        { const char *bad = tok_readout(t, ret); if (bad) { spif_tok_del(t); return bad; } }
        spif_tok_del(t);
    } else if ((!strcmp(op, "split_rep") || !strcmp(op, "tok_rep")) && st->nargs == 3) {
        /* long counts: the block B repeated K times (K * tokens-of-B tokens, 65 536 and more); reported compactly:
         * {first=[the first N/K tokens],n=N,periodic=T|F}   periodic: token i equals token i mod (N/K) for every i */
        size_t bl; unsigned char *d = cu_text(st->args[0], NULL), *b = cu_text(st->args[1], &bl), *src;
        long k = vh_int(st->args[2]), i, n = 0, per; int periodic = 1; unsigned char **tk = NULL; spif_tok_t t = (spif_tok_t) NULL;
        spif_charptr_t *l = NULL;
        if (k < 1 || bl < 1) { free(d); free(b); return "bad_case:rep"; }
        src = (unsigned char *) malloc(bl * (size_t) k + 1);
        for (i = 0; i < k; i++) memcpy(src + (size_t) i * bl, b, bl);
        src[bl * (size_t) k] = 0;
        if (op[0] == 's') {
            l = spiftool_split((spif_charptr_t) d, (spif_charptr_t) src);
            if (l) for (n = 0; l[n]; n++);
            tk = (unsigned char **) l;
        } else {
            spif_list_t tl;
            t = spif_tok_new_from_ptr((spif_charptr_t) src);
            if (SPIF_TOK_ISNULL(t)) { free(d); free(b); free(src); return "tok_new_from_ptr=NULL"; }
            if (d) spif_tok_set_sep(t, spif_str_new_from_ptr((spif_charptr_t) d));
            if (!spif_tok_eval(t)) { spif_tok_del(t); free(d); free(b); free(src); return "tok_eval=FALSE"; }
            tl = spif_tok_get_tokens(t);
            n = SPIF_LIST_ISNULL(tl) ? 0 : (long) SPIF_LIST_COUNT(tl);
            if (n > 0) {
                spif_obj_t *arr = SPIF_LIST_TO_ARRAY(tl);        /* one pass instead of n indexed walks of the linked list */
                tk = (unsigned char **) malloc(sizeof(*tk) * (size_t) n);
                for (i = 0; i < n; i++) {
                    spif_str_t e = (spif_str_t) arr[i];
                    tk[i] = (unsigned char *) (SPIF_STR_ISNULL(e) ? "" : (e->s ? (char *) e->s : ""));
                }
                FREE(arr);
            }
        }
        per = (n > 0 && n % k == 0) ? n / k : 0;
        if (!per) periodic = 0;
        for (i = per; periodic && i < n; i++) if (strcmp((char *) tk[i], (char *) tk[i % per])) periodic = 0;
        sb_puts(ret, "{first=[");
        for (i = 0; i < (per ? per : (n < 8 ? n : 8)); i++) { if (i) sb_putc(ret, ','); sb_cstr(ret, tk[i]); }
        sb_printf(ret, "],n=%ld,periodic=%c}", n, periodic ? 'T' : 'F');
        if (op[0] == 's') {
            if (l) { for (i = 0; l[i]; i++) { FREE(l[i]); } FREE(l); }
        } else {
            free(tk);
            spif_tok_del(t);
        }
        free(d); free(b); free(src);
    } else if (!strcmp(op, "words_rep") && st->nargs == 3) {
        /* num_words(B^K) and get_word / get_pword at the listed indices: {n=N,p=[..],w=[[..],..]} */
        size_t bl; unsigned char *b = cu_text(st->args[0], &bl), *src; long k = vh_int(st->args[1]), i; static long ix[64]; int ni, q;
        vh_sb w = {0, 0, 0};
        if (k < 1 || bl < 1) { free(b); return "bad_case:rep"; }
        ni = vh_intlist(st->args[2], ix, 64); if (ni > 64) ni = 64;
        src = (unsigned char *) malloc(bl * (size_t) k + 1);
        for (i = 0; i < k; i++) memcpy(src + (size_t) i * bl, b, bl);
        src[bl * (size_t) k] = 0;
        sb_printf(ret, "{n=%lu,p=[", spiftool_num_words((spif_charptr_t) src));
        sb_need(&w, 16); sb_reset(&w);
        for (q = 0; q < ni; q++) {
            spif_charptr_t g = spiftool_get_word((unsigned long) ix[q], (spif_charptr_t) src);
            spif_charptr_t pw = spiftool_get_pword((unsigned long) ix[q], (spif_charptr_t) src);
            if (q) { sb_putc(ret, ','); sb_putc(&w, ','); }
            sb_int(ret, pw ? (long) ((unsigned char *) pw - src) : -1L);
            sb_cstr(&w, (unsigned char *) g);
            if (g) FREE(g);
        }
        sb_puts(ret, "],w=["); sb_puts(ret, w.p ? w.p : ""); sb_puts(ret, "]}");
        free(w.p); free(b); free(src);
    } else if (!strcmp(op, "words") && st->nargs == 1) {
        size_t len; unsigned char *s = cu_text(st->args[0], &len);
        unsigned long n = spiftool_num_words((spif_charptr_t) s), i;
        vh_sb w = {0, 0, 0};
        if (n > len + 1) { free(s); snprintf(msg, sizeof(msg), "num_words=%lu_for_len=%lu", n, (unsigned long) len); return msg; }
        sb_printf(ret, "{n=%lu,p=[", n);
        sb_need(&w, 16); sb_reset(&w);
        for (i = 1; i <= n; i++) {
            spif_charptr_t g = spiftool_get_word(i, (spif_charptr_t) s);
            spif_charptr_t p = spiftool_get_pword(i, (spif_charptr_t) s);
            if (i > 1) { sb_putc(ret, ','); sb_putc(&w, ','); }
            if (p && ((unsigned char *) p < s || (unsigned char *) p > s + len)) { free(s); free(w.p); if (g) FREE(g); return "get_pword_points_outside_the_text"; }
            sb_int(ret, p ? (long) ((unsigned char *) p - s) : -1L);
            sb_cstr(&w, (unsigned char *) g);
            if (g) FREE(g);
        }
        sb_puts(ret, "],w=["); sb_puts(ret, w.p ? w.p : ""); sb_puts(ret, "]}");
        free(w.p);
        /* purity: get_word / get_pword / num_words after the same calls were made just before on the SAME buffer with
         * different content of the same length and a LOWER index (a cache keyed by address, length, index) */
        if (len > 0 && n >= 1) {
            unsigned char *orig = cu_text(st->args[0], NULL); int v; unsigned long k2;
            for (v = 0; v < CU_ALTS; v++) {
                for (i = 1; i <= n; i++) {
                    for (k2 = 0; k2 < 2; k2++) {
                        unsigned long k = k2 ? (i > 1 ? i - 1 : 1) : 1;
                        spif_charptr_t g, f, pf, pg; unsigned long nw; int same;
                        if (k2 && k == 1) continue;
                        f = spiftool_get_word(i, (spif_charptr_t) orig);         /* fresh buffer: the reference for purity */
                        pf = spiftool_get_pword(i, (spif_charptr_t) orig);
                        cu_alt_content(v, s, orig, len);
                        errno = ERANGE;
                        g = spiftool_get_word(k, (spif_charptr_t) s); if (g) FREE(g);
                        (void) spiftool_get_pword(k, (spif_charptr_t) s);
                        (void) spiftool_num_words((spif_charptr_t) s);
                        memcpy(s, orig, len + 1);
                        g = spiftool_get_word(i, (spif_charptr_t) s);
                        pg = spiftool_get_pword(i, (spif_charptr_t) s);
                        nw = spiftool_num_words((spif_charptr_t) s);
                        same = ((!f && !g) || (f && g && !strcmp((char *) f, (char *) g)))
                               && ((!pf && !pg) || (pf && pg && (pf - (spif_charptr_t) orig) == (pg - (spif_charptr_t) s))) && nw == n;
                        if (f) FREE(f);
                        if (g) FREE(g);
                        if (!same) { free(orig); free(s); return "word_utility_result_depends_on_the_previous_call"; }
                    }
                }
            }
            free(orig);
        }
        /* C: an index far beyond the words (the class "huge index" of Quote.tla: 2^31, 2^32 + k, 2^63, ULONG_MAX ...) finds no
         * word, however it is narrowed or wrapped inside */
        {
            static const unsigned long huge[] = { 0x7fffffffUL, 0x80000000UL, 0xffffffffUL, 0x100000000UL, 0x100000001UL, 0x100000002UL,
                                                  0x200000001UL, 1UL << 40, (1UL << 62) + 1, 0x7fffffffffffffffUL, 0x8000000000000000UL,
                                                  0x8000000000000001UL, ~0UL - 1, ~0UL, 65535UL, 65536UL, 65537UL };
            unsigned q;
            for (q = 0; q < sizeof(huge) / sizeof(huge[0]); q++) {
                spif_charptr_t g;
                if (huge[q] < n + 2) continue;
                g = spiftool_get_word(huge[q], (spif_charptr_t) s);
                if (g) { FREE(g); free(s); return "get_word(huge_index)!=NULL"; }
                if (spiftool_get_pword(huge[q], (spif_charptr_t) s)) { free(s); return "get_pword(huge_index)!=NULL"; }
            }
        }
        /* out-of-range indices: no claim about the value, but no access outside the text either */
        {
            spif_charptr_t g = spiftool_get_word(0, (spif_charptr_t) s);
            if (g) FREE(g);
            g = spiftool_get_word(n + 1, (spif_charptr_t) s);
            if (g) FREE(g);
            g = spiftool_get_word(n + 2, (spif_charptr_t) s);
            if (g) FREE(g);
            (void) spiftool_get_pword(0, (spif_charptr_t) s);
            (void) spiftool_get_pword(n + 1, (spif_charptr_t) s);
            (void) spiftool_get_pword(n + 2, (spif_charptr_t) s);
        }
        free(s);
    } else if (!strcmp(op, "join") && st->nargs == 1) {
        int n, k; unsigned char **l = cu_textlist(st->args[0], &n);
        static const char *seps[3] = { NULL, ":", ", " };
        sb_putc(ret, '[');
        for (k = 0; k < 3; k++) {
            unsigned char *sep = seps[k] ? (unsigned char *) strdup(seps[k]) : NULL;   /* exact-size heap copy */
            spif_charptr_t j = spiftool_join((spif_charptr_t) sep, (spif_charptr_t *) l);
            if (k) sb_putc(ret, ',');
            sb_cstr(ret, (unsigned char *) j);
            if (j) FREE(j);
            free(sep);
        }
        sb_putc(ret, ']');
        cu_free_textlist(l);
    } else {
        snprintf(msg, sizeof(msg), "unknown_op_%s/%d", op, st->nargs);
        return msg;
    }
    return NULL;
}

/* every step at every run-time debug level of VH_LEVELS (c12_util.h) */
static const char *vh_step(const vh_step_t *st, vh_sb *ret, vh_sb *state) { return cu_step_at_levels(do_step, st, ret, state); }

int main(int argc, char **argv) {
    libast_set_program_name("quote_replay");
    DEBUG_LEVEL = 0;
    cu_levels_init();
    return vh_main(argc, argv, 1);
}
