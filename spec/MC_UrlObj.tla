------------------------------ MODULE MC_UrlObj ------------------------------
(* Bounded models of UrlObj for TLC.  Texts are tuples of character codes:                        *)
(*   a=97 b=98 c=99 d=100 h=104 k=107 l=108 m=109 o=111 p=112 q=113 u=117 v=118 w=119 x=120 y=121 *)
(*   z=122 0=48 1=49 8=56  .=46 :=58 /=47 ==61 ?=63 @=64                                          *)
EXTENDS UrlObj

\* quick: one or two texts per part (three for the path), incl. ':' in the password, '@' and '?' in the path,
\* '/', '@', ':' in the query
PartsQuick == [proto  |-> {<<97, 98>>, <<99, 49>>},                         \* ab  c1
               user   |-> {<<117>>},                                        \* u
               passwd |-> {<<112, 119>>, <<112, 58, 119>>},                 \* pw  p:w
               host   |-> {<<104>>},                                        \* h
               port   |-> {<<56, 48>>},                                     \* 80
               path   |-> {<<47, 112>>, <<47, 97, 64, 98>>, <<47, 97, 63, 98>>},   \* /p  /a@b  /a?b
               query  |-> {<<113>>, <<120, 47, 121, 64, 122, 58, 119>>}]    \* q   x/y@z:w
\* thorough: two to four texts per part, adding delimiters where they make the text ambiguous
PartsThorough == [proto  |-> {<<97, 98>>, <<99, 49>>},                                \* ab  c1
                  user   |-> {<<117>>, <<109, 101>>, <<118, 58>>},                    \* u  me  v:
                  passwd |-> {<<112, 119>>, <<112, 58, 119>>, <<112, 64>>},           \* pw  p:w  p@
                  host   |-> {<<104>>, <<108, 111>>},                                 \* h  lo
                  port   |-> {<<56, 48>>, <<120>>, <<56, 58, 49>>},                   \* 80  x  8:1
                  path   |-> {<<47, 112>>, <<47, 97, 64, 98>>, <<47, 97, 63, 98>>},   \* /p  /a@b  /a?b
                  query  |-> {<<113>>, <<120, 47, 121, 64, 122, 58, 119>>}]           \* q   x/y@z:w
\* the shape universe: every well-formed tuple over Parts, written with and without //
ShapeTexts == {Assemble(c, sl) : c \in {k \in AllTuples : WF(k, FALSE)}, sl \in {FALSE}}
              \cup {Assemble(c, TRUE) : c \in {k \in AllTuples : WF(k, TRUE)}}

\* all strings up to a length over {a : / @ ?}
Alpha == {97, 58, 47, 64, 63}
StringsUpTo(n) == UNION {[1 .. k -> Alpha] : k \in 0 .. n}
Short4 == StringsUpTo(4)
Short5 == StringsUpTo(5)
NoTexts == {}
NoParts == [proto |-> {}, user |-> {}, passwd |-> {}, host |-> {}, port |-> {}, path |-> {}, query |-> {}]

LookupsQuick    == {<<"ip", 0>>, <<"no", 0>>, <<"tcp", 80>>, <<"udp", 8080>>}
LookupsThorough == {<<"ip", 0>>, <<"no", 0>>, <<"tcp", 80>>, <<"udp", 8080>>, <<"tcp", 65535>>, <<"udp", 7>>}

ObsEmit(op, args, ret, post) ==
    PrintT(ToJson([pre |-> Pre, op |-> op, args |-> args, ret |-> ret, post |-> post]))
ObsNone(op, args, ret, post) == TRUE
================================================================================
