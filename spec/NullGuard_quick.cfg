SPECIFICATION Spec
CONSTANTS
  Levels = {0, 1, 2, 3, 5}
  Obs <- ObsEmit
INVARIANTS TypeOK LevelZeroIsSoft SoftAlwaysAllowed
CHECK_DEADLOCK FALSE
