/* C04 (+C05/C06 for vectors): replays VecBag.tla scripts on one of the three vector classes.
 * usage: vector_replay <array|linked_list|dlinked_list> <NE> <scriptfile> [first]
 * Elements 1..NE are spif_str objects; probes 0 and NE+1 lie below / above every storable element.
 * Equal elements are compared by value, never by identity.
 * State token: {a=[..],b={live=T|F,s=[..]},it=n}
 */
#include "common.h"
#include "c03_util.h"

static long NE = 3;
static spif_vector_t A, B;
static spif_iterator_t IT;
static int it_count;          /* mirror: number of next() calls that yielded, capped like the spec */

static spif_vector_t new_vector(void) {
    if (cu_is("array")) return SPIF_VECTOR_NEW(array);
    if (cu_is("linked_list")) return SPIF_VECTOR_NEW(linked_list);
    return SPIF_VECTOR_NEW(dlinked_list);
}
static long elem_ordkey(spif_obj_t data, const char **msg) {
    long v = cu_val(data);
    if (v < 1 || v > NE) *msg = "element_outside_the_universe";
    return v;
}

/* full read-back of a vector through the public interface + representation invariants */
static const char *readback(spif_vector_t V, const char *which, vh_sb *out) {
    static long vals[1 << 14];
    static long cnt[1 << 14];
    long n = (long) SPIF_VECTOR_COUNT(V), i, e;
    spif_iterator_t it;
    spif_obj_t *arr;
    const char *inv;

    if (n < 0 || n > 16000) CU_FAIL("%s:count=%ld", which, n);
    /* a fresh iterator yields count elements and reports exhaustion exactly then */
    it = SPIF_VECTOR_ITERATOR(V);
    if (SPIF_ITERATOR_ISNULL(it)) CU_FAIL("%s:iterator()=NULL", which);
    for (i = 0; i < n; i++) {
        spif_obj_t o;
        if (!SPIF_ITERATOR_HAS_NEXT(it)) { SPIF_ITERATOR_DEL(it); CU_FAIL("%s:iter_has_next_false_at_%ld_of_%ld", which, i, n); }
        o = SPIF_ITERATOR_NEXT(it);
        if (SPIF_OBJ_ISNULL(o)) { SPIF_ITERATOR_DEL(it); CU_FAIL("%s:iter_next=NULL_at_%ld_of_%ld", which, i, n); }
        vals[i] = cu_val(o);
    }
    if (SPIF_ITERATOR_HAS_NEXT(it)) { SPIF_ITERATOR_DEL(it); CU_FAIL("%s:iter_has_next_true_after_%ld", which, n); }
    if (!SPIF_OBJ_ISNULL(SPIF_ITERATOR_NEXT(it))) { SPIF_ITERATOR_DEL(it); CU_FAIL("%s:iter_next_after_end!=NULL", which); }
    SPIF_ITERATOR_DEL(it);
    sb_putc(out, '[');
    for (i = 0; i < n; i++) { if (i) sb_putc(out, ','); sb_int(out, vals[i]); }
    sb_putc(out, ']');
    for (i = 1; i < n; i++) if (vals[i - 1] > vals[i]) CU_FAIL("%s:iteration_not_ascending_at_%ld", which, i);
    /* to_array gives the same sequence */
    arr = SPIF_VECTOR_TO_ARRAY(V);
    if (n > 0 && !arr) CU_FAIL("%s:to_array=NULL", which);
    for (i = 0; i < n; i++) {
        if (cu_val(arr[i]) != vals[i]) { FREE(arr); CU_FAIL("%s:to_array_mismatch_at_%ld", which, i); }
    }
    if (arr) FREE(arr);
    /* find / contains of every element value, of a probe below the minimum and of one above the maximum */
    memset(cnt, 0, sizeof(long) * (size_t) (NE + 2));
    for (i = 0; i < n; i++) if (vals[i] >= 0 && vals[i] <= NE + 1) cnt[vals[i]]++;
    for (e = 0; e <= NE + 1; e++) {
        spif_obj_t probe = cu_mk(e), r = SPIF_VECTOR_FIND(V, probe);
        spif_bool_t c = SPIF_VECTOR_CONTAINS(V, probe);
        long rv = cu_val(r);
        SPIF_OBJ_DEL(probe);
        if (cnt[e] && SPIF_OBJ_ISNULL(r)) CU_FAIL("%s:find_misses_a_present_element(%s)", which, e == vals[0] ? "minimum" : (e == vals[n - 1] ? "maximum" : "inner"));
        if (!cnt[e] && !SPIF_OBJ_ISNULL(r)) CU_FAIL("%s:find_returns_something_for_an_absent_probe", which);
        if (cnt[e] && rv != e) CU_FAIL("%s:find_returns_an_unequal_element", which);
        if ((c ? 1 : 0) != (cnt[e] ? 1 : 0)) CU_FAIL("%s:contains_disagrees_with_iteration", which);
    }
    /* representation */
    if ((inv = cu_walk(V, n, which, elem_ordkey, 0))) return inv;
    return NULL;
}

static void vh_begin(void) { A = new_vector(); B = (spif_vector_t) NULL; IT = (spif_iterator_t) NULL; it_count = -1; }
static void vh_end(void) {
    if (!SPIF_ITERATOR_ISNULL(IT)) { SPIF_ITERATOR_DEL(IT); IT = (spif_iterator_t) NULL; }
    if (!SPIF_VECTOR_ISNULL(B)) { SPIF_VECTOR_DEL(B); B = (spif_vector_t) NULL; }
    if (!SPIF_VECTOR_ISNULL(A)) { SPIF_VECTOR_DEL(A); A = (spif_vector_t) NULL; }
}

#define OP(s) (!strcmp(op, s))
static const char *vh_step(const vh_step_t *st, vh_sb *ret, vh_sb *state) {
    const char *op = st->op, *inv;
    spif_vector_t V = A;
    if (op[0] == 'b' && op[1] == '_') { V = B; op += 2; if (OP("del")) op = "b_del"; }

    if (OP("insert")) {
        spif_obj_t e = cu_mk(vh_int(st->args[0]));
        spif_bool_t r = SPIF_VECTOR_INSERT(V, e);
        if (!r) SPIF_OBJ_DEL(e);          /* refused: the element is still the caller's */
        sb_bool(ret, r);
    } else if (OP("remove")) {
        spif_obj_t probe = cu_mk(vh_int(st->args[0])), r = SPIF_VECTOR_REMOVE(V, probe);
        sb_int(ret, cu_val(r));
        if (r == probe) { SPIF_OBJ_DEL(probe); return "remove_returned_the_probe_object"; }
        if (!SPIF_OBJ_ISNULL(r)) SPIF_OBJ_DEL(r);   /* handed back: the caller's to delete */
        SPIF_OBJ_DEL(probe);
    } else if (OP("done")) {
        sb_bool(ret, SPIF_VECTOR_DONE(V));
    } else if (OP("find")) {
        spif_obj_t probe = cu_mk(vh_int(st->args[0])), r = SPIF_VECTOR_FIND(V, probe);
        sb_int(ret, cu_val(r));
        if (r == probe) { SPIF_OBJ_DEL(probe); return "find_returned_the_probe_object"; }
        SPIF_OBJ_DEL(probe);
    } else if (OP("contains")) {
        spif_obj_t probe = cu_mk(vh_int(st->args[0]));
        sb_bool(ret, SPIF_VECTOR_CONTAINS(V, probe));
        SPIF_OBJ_DEL(probe);
    } else if (OP("count")) {
        sb_int(ret, (long) SPIF_VECTOR_COUNT(V));
    } else if (OP("to_array")) {
        long n = (long) SPIF_VECTOR_COUNT(V), i; spif_obj_t *arr = SPIF_VECTOR_TO_ARRAY(V);
        sb_putc(ret, '[');
        for (i = 0; i < n && arr; i++) { if (i) sb_putc(ret, ','); sb_int(ret, cu_val(arr[i])); }
        sb_putc(ret, ']');
        if (arr) FREE(arr);
    } else if (OP("iter_new")) {
        IT = SPIF_VECTOR_ITERATOR(A); it_count = 0;
        sb_bool(ret, !SPIF_ITERATOR_ISNULL(IT));
    } else if (OP("iter_has_next")) {
        sb_bool(ret, SPIF_ITERATOR_HAS_NEXT(IT));
    } else if (OP("iter_next")) {
        long n = (long) SPIF_VECTOR_COUNT(A);
        sb_int(ret, cu_val(SPIF_ITERATOR_NEXT(IT)));
        if (it_count <= n) it_count++;
    } else if (OP("iter_del")) {
        sb_bool(ret, SPIF_ITERATOR_DEL(IT)); IT = (spif_iterator_t) NULL; it_count = -1;
    } else if (OP("dup")) {
        B = SPIF_VECTOR(SPIF_VECTOR_DUP(A));
        if (SPIF_VECTOR_ISNULL(B)) return "dup=NULL";
        if (B == A) return "dup_returned_same_object";
        if (SPIF_OBJ_CLASS(B) != SPIF_OBJ_CLASS(A)) return "dup_class_differs";
        if (strcmp((const char *) SPIF_VECTOR_TYPE(B), (const char *) SPIF_VECTOR_TYPE(A))) return "dup_type_differs";
        sb_bool(ret, 1);
    } else if (OP("b_del")) {
        sb_bool(ret, SPIF_VECTOR_DEL(B)); B = (spif_vector_t) NULL;
    } else if (OP("adopt")) {
        spif_bool_t r = SPIF_VECTOR_DEL(A); A = B; B = (spif_vector_t) NULL;
        sb_bool(ret, r);
    } else {
        CU_FAIL("unknown_op_%s", op);
    }

    sb_puts(state, "{a=");
    if ((inv = readback(A, "a", state))) return inv;
    sb_puts(state, ",b={live=");
    if (SPIF_VECTOR_ISNULL(B)) sb_puts(state, "F,s=[]}");
    else {
        sb_puts(state, "T,s=");
        if ((inv = readback(B, "b", state))) return inv;
        sb_putc(state, '}');
    }
    sb_printf(state, ",it=%d}", it_count);
    return NULL;
}

int main(int argc, char **argv) {
    if (argc < 4) { fprintf(stderr, "usage: %s <class> <NE> <scripts> [first]\n", argv[0]); return 2; }
    cu_cls = argv[1];
    NE = atol(argv[2]);
    if (NE < 1 || NE > 16000) { fprintf(stderr, "bad NE\n"); return 2; }
    libast_set_program_name("vector_replay");
    DEBUG_LEVEL = 0;
    return vh_main(argc, argv, 3);
}
