/* C17: runs the comparison table emitted by TLC from spec/VerCmp.tla on the real spiftool_version_compare.
 * usage: vercmp_replay <universe-file|-> <scriptfile> [first]
 *   universe file: one text per line as [codes]; line k is text k (1-based)
 * Steps (state token always "-"):
 *   (an optional last argument of both steps is the run-time debug level of the step, default 0)
 *   row <i>        = r<d1><d2>...   text i against every text j of the universe, one digit per j
 *   pair <a> <b>   = <d>            one pair given literally
 * For every ordered pair (a, b), both arguments exact-size heap copies:
 *   64 kB of stack are filled with 0xAA (varied by position), r1 = compare(a, b); filled with 0x55 (varied
 *   differently), r2 = compare(a, b); filled with 0xAA again, r3 = compare(b, a).
 * digit: r1+1 (0 less, 1 equal, 2 greater)  when r1 == r2 and r3 == -r1 (and r1 == 0 when a and b are the same text)
 *        5 = r1 != r2 (depends on stack contents), 6 = r3 != -r1 (not antisymmetric), 7 = both, 8 = compare(a, a) != equal,
 *        9 = a value outside {less, equal, greater}
 */
#include "c12_util.h"

static unsigned char **U; static size_t *ULEN; static long UN;

/* Fills 64 kB of stack below the caller: with 0xAA rising by one every 64 bytes (mod 32), or with 0x55 falling by
 * one every 64 bytes, so that two uninitialised buffers of the callee hold different garbage and their order is
 * reversed between the two fills.  (The patterns are prepared once; filling is one memcpy.) */
#define DIRTY_BYTES 65536
static unsigned char dirty_pat[2][DIRTY_BYTES];
static void dirty_init(void) {
    size_t i;
    for (i = 0; i < DIRTY_BYTES; i++) {
        dirty_pat[0][i] = (unsigned char) (0xAA + ((i >> 6) & 0x1F));
        dirty_pat[1][i] = (unsigned char) (0x55 - ((i >> 6) & 0x1F));
    }
}
__attribute__((noinline)) static void dirty_stack(int byte) {
    unsigned char buf[DIRTY_BYTES];
    memcpy(buf, dirty_pat[byte == 0xAA ? 0 : 1], sizeof(buf));
    __asm__ volatile("" : : "r"(buf) : "memory");
}

/* lvl = the run-time debug level of this step (a dimension of every case, see c12_util.h).  Level 0: the protocol of the
 * header.  Level L > 0: r1 = compare(a, b) at level L (stack 0xAA..), r2 = compare(a, b) at level 0 (stack 0x55..),
 * r3 = compare(b, a) at level L: digit 5 then says "the result depends on the debug level (or the stack)". */
static int one(const unsigned char *a, size_t la, const unsigned char *b, size_t lb, int lvl) {
    int r1, r2, r3, d;
    dirty_stack(0xAA);
    cu_set_level(lvl);
    r1 = (int) spiftool_version_compare((spif_charptr_t) a, (spif_charptr_t) b);
    cu_set_level(0);
    dirty_stack(0x55);
    r2 = (int) spiftool_version_compare((spif_charptr_t) a, (spif_charptr_t) b);
    dirty_stack(0xAA);
    cu_set_level(lvl);
    r3 = (int) spiftool_version_compare((spif_charptr_t) b, (spif_charptr_t) a);
    cu_set_level(0);
    if (r1 < -1 || r1 > 1 || r2 < -1 || r2 > 1 || r3 < -1 || r3 > 1) return 9;
    d = 0;
    if (r1 != r2) d |= 1;
    if (r3 != -r1) d |= 2;
    if (d) return 4 + d;
    if (la == lb && !memcmp(a, b, la) && r1 != 0) return 8;
    return r1 + 1;
}

static void load_universe(const char *path) {
    size_t len; char *buf, *p; long n = 0, i = 0;
    if (!strcmp(path, "-")) return;
    buf = vh_readfile(path, &len);
    for (p = buf; *p; p++) if (*p == '\n') n++;
    U = (unsigned char **) malloc(sizeof(*U) * (size_t) (n + 1));
    ULEN = (size_t *) malloc(sizeof(*ULEN) * (size_t) (n + 1));
    p = buf;
    while (*p && i < n) {
        char *nl = strchr(p, '\n');
        if (nl) *nl = 0;
        U[i] = vh_bytes(p, &ULEN[i], 1);
        i++;
        if (!nl) break;
        p = nl + 1;
    }
    UN = i;
    free(buf);
}

static void vh_begin(void) { }
static void vh_end(void) { }

static const char *vh_step(const vh_step_t *st, vh_sb *ret, vh_sb *state) {
    static char msg[96];
    sb_putc(state, '-');
    if (!strcmp(st->op, "row") && (st->nargs == 1 || st->nargs == 2)) {
        long i = vh_int(st->args[0]) - 1, j; int lvl = st->nargs == 2 ? (int) vh_int(st->args[1]) : 0;
        if (i < 0 || i >= UN) return "row_index_outside_universe";
        sb_putc(ret, 'r');
        for (j = 0; j < UN; j++) sb_putc(ret, (char) ('0' + one(U[i], ULEN[i], U[j], ULEN[j], lvl)));
        return NULL;
    }
    if (!strcmp(st->op, "pair") && (st->nargs == 2 || st->nargs == 3)) {
        int lvl = st->nargs == 3 ? (int) vh_int(st->args[2]) : 0;
        size_t la, lb; unsigned char *a = cu_text(st->args[0], &la), *b = cu_text(st->args[1], &lb);
        sb_putc(ret, (char) ('0' + one(a, la, b, lb, lvl)));
        free(a); free(b);
        return NULL;
    }
    snprintf(msg, sizeof(msg), "unknown_op_%s/%d", st->op, st->nargs);
    return msg;
}

int main(int argc, char **argv) {
    if (argc < 3) { fprintf(stderr, "usage: %s <universe|-> <scripts> [first]\n", argv[0]); return 2; }
    libast_set_program_name("vercmp_replay");
    DEBUG_LEVEL = 0;
    cu_levels_init();
    dirty_init();
    load_universe(argv[1]);
    return vh_main(argc, argv, 2);
}
