SPECIFICATION Spec
CONSTANTS
  MaxLen = 40
  NRand = 60
  BitStep = 5
  NRandSeeds = 4
  ByteLens = {1, 2, 5, 13, 25}
  Keys <- MCKeys
  Seeds <- MCSeeds
  Obs <- ObsEmit
INVARIANTS TypeOK JenkinsSame Jenkins32Law MixReversible FnvShiftAdd FoldLaw RangeOK
CHECK_DEADLOCK FALSE
