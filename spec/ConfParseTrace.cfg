SPECIFICATION TraceSpec
CONSTANTS
  Configs <- TraceConfigs
  CapMod = 65536
  LineMax = 20479
  AlphaOf <- NoAlpha
  Sc <- ScTrace
  LineOf <- SelfLine
  FixedLen <- NoFixedLen
  FixedLine <- NoFixedLine
  Obs <- ObsTrace
INVARIANTS IndexBelowCapacity IndicesMirrorStacks InnermostContext StateThreaded StacksRestored
POSTCONDITION TraceAccepted
CHECK_DEADLOCK FALSE
