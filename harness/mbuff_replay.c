/* C07 (+C06 postlude): replays MBuffObj.tla scripts on real spif_mbuff objects, or records executions for
 * MBuffObjTrace.tla (expected tokens "?").
 *
 * Link with -Wl,--wrap=read (fault schedules for the descriptor constructor, see "environment faults" below).
 * usage: mbuff_replay <direct|table> <scriptfile> [first]
 *   direct : calls the public spif_mbuff_*() functions
 *   table  : calls the same operations through the slots of the class table (spif_mbuff_mbuffclass), so that
 *            the wiring of the table is under test as well
 * State token: {a={live=T|F,s=[bytes]},b={live=T|F,s=[bytes]}}
 *
 * Every byte-string argument is handed to the library as an exact-size heap copy WITHOUT a terminator
 * (vh_bytes(..., 0)), so AddressSanitizer reports a one-byte over-read of an argument.  After every step both
 * objects are projected (bytes + len) and the representation invariants are checked:
 *     buff == NULL  =>  len == 0 and size == 0;   0 <= len <= size;   the heap block behind buff holds >= size bytes;
 *     get_len()/get_size() report the fields;  the object still carries the mbuff class.
 */
#ifndef _GNU_SOURCE
# define _GNU_SOURCE 1            /* fopencookie */
#endif
#include "common.h"
#include <sys/types.h>
#include <sys/wait.h>
#include <sys/stat.h>
#include <fcntl.h>
#include <sys/mman.h>

static int via_table;
static spif_mbuff_t S[2];          /* slot A, slot B */
static char invmsg[512];
#define FAIL(...) do { snprintf(invmsg, sizeof(invmsg), __VA_ARGS__); return invmsg; } while (0)

/* ---- the calls, direct or through the class table ------------------------------------------------------ */
#define TBL (SPIF_MBUFFCLASS_VAR(mbuff))
typedef spif_mbuff_t (*f_new_t)(void);
typedef spif_mbuff_t (*f_new_ptr_t)(spif_byteptr_t, spif_memidx_t);
typedef spif_mbuff_t (*f_new_buff_t)(spif_byteptr_t, spif_memidx_t, spif_memidx_t);
typedef spif_mbuff_t (*f_new_fp_t)(FILE *);
typedef spif_mbuff_t (*f_new_fd_t)(int);
typedef spif_bool_t (*f_b_m_t)(spif_mbuff_t);
typedef spif_bool_t (*f_init_ptr_t)(spif_mbuff_t, spif_byteptr_t, spif_memidx_t);
typedef spif_bool_t (*f_init_buff_t)(spif_mbuff_t, spif_byteptr_t, spif_memidx_t, spif_memidx_t);
typedef spif_bool_t (*f_init_fp_t)(spif_mbuff_t, FILE *);
typedef spif_bool_t (*f_init_fd_t)(spif_mbuff_t, int);
typedef spif_mbuff_t (*f_dup_t)(spif_mbuff_t);
typedef spif_bool_t (*f_b_mm_t)(spif_mbuff_t, spif_mbuff_t);
typedef spif_bool_t (*f_b_mpn_t)(spif_mbuff_t, spif_byteptr_t, spif_memidx_t);
typedef spif_bool_t (*f_b_mc_t)(spif_mbuff_t, spif_uint8_t);
typedef spif_cmp_t (*f_c_mm_t)(spif_mbuff_t, spif_mbuff_t);
typedef spif_cmp_t (*f_c_mpn_t)(spif_mbuff_t, spif_byteptr_t, spif_memidx_t);
typedef spif_cmp_t (*f_c_mmn_t)(spif_mbuff_t, spif_mbuff_t, spif_memidx_t);
typedef spif_memidx_t (*f_i_mm_t)(spif_mbuff_t, spif_mbuff_t);
typedef spif_memidx_t (*f_i_mpn_t)(spif_mbuff_t, spif_byteptr_t, spif_memidx_t);
typedef spif_memidx_t (*f_i_mc_t)(spif_mbuff_t, spif_uint8_t);
typedef spif_bool_t (*f_splice_t)(spif_mbuff_t, spif_memidx_t, spif_memidx_t, spif_mbuff_t);
typedef spif_bool_t (*f_splicep_t)(spif_mbuff_t, spif_memidx_t, spif_memidx_t, spif_byteptr_t, spif_memidx_t);
typedef spif_bool_t (*f_sprintf_t)(spif_mbuff_t, spif_charptr_t, ...);
typedef spif_mbuff_t (*f_sub_t)(spif_mbuff_t, spif_memidx_t, spif_memidx_t);
typedef spif_byteptr_t (*f_subp_t)(spif_mbuff_t, spif_memidx_t, spif_memidx_t);

#define SEL(type, slot, direct) (via_table ? (type) (slot) : (type) (direct))
#define M_NEW            SEL(f_new_t, TBL->parent.noo, spif_mbuff_new)
#define M_NEW_FROM_PTR   SEL(f_new_ptr_t, TBL->new_from_ptr, spif_mbuff_new_from_ptr)
#define M_NEW_FROM_BUFF  SEL(f_new_buff_t, TBL->new_from_buff, spif_mbuff_new_from_buff)
#define M_NEW_FROM_FP    SEL(f_new_fp_t, TBL->new_from_fp, spif_mbuff_new_from_fp)
#define M_NEW_FROM_FD    SEL(f_new_fd_t, TBL->new_from_fd, spif_mbuff_new_from_fd)
#define M_INIT           SEL(f_b_m_t, TBL->parent.init, spif_mbuff_init)
#define M_INIT_FROM_PTR  SEL(f_init_ptr_t, TBL->init_from_ptr, spif_mbuff_init_from_ptr)
#define M_INIT_FROM_BUFF SEL(f_init_buff_t, TBL->init_from_buff, spif_mbuff_init_from_buff)
#define M_INIT_FROM_FP   SEL(f_init_fp_t, TBL->init_from_fp, spif_mbuff_init_from_fp)
#define M_INIT_FROM_FD   SEL(f_init_fd_t, TBL->init_from_fd, spif_mbuff_init_from_fd)
#define M_DONE           SEL(f_b_m_t, TBL->parent.done, spif_mbuff_done)
#define M_DEL            SEL(f_b_m_t, TBL->parent.del, spif_mbuff_del)
#define M_DUP            SEL(f_dup_t, TBL->parent.dup, spif_mbuff_dup)
#define M_COMP           SEL(f_c_mm_t, TBL->parent.comp, spif_mbuff_comp)
#define M_APPEND         SEL(f_b_mm_t, TBL->append, spif_mbuff_append)
#define M_APPEND_PTR     SEL(f_b_mpn_t, TBL->append_from_ptr, spif_mbuff_append_from_ptr)
#define M_CLEAR          SEL(f_b_mc_t, TBL->clear, spif_mbuff_clear)
#define M_CMP            SEL(f_c_mm_t, TBL->cmp, spif_mbuff_cmp)
#define M_CMP_PTR        SEL(f_c_mpn_t, TBL->cmp_with_ptr, spif_mbuff_cmp_with_ptr)
#define M_FIND           SEL(f_i_mm_t, TBL->find, spif_mbuff_find)
#define M_FIND_PTR       SEL(f_i_mpn_t, TBL->find_from_ptr, spif_mbuff_find_from_ptr)
#define M_INDEX          SEL(f_i_mc_t, TBL->index, spif_mbuff_index)
#define M_NCMP           SEL(f_c_mmn_t, TBL->ncmp, spif_mbuff_ncmp)
#define M_NCMP_PTR       SEL(f_c_mpn_t, TBL->ncmp_with_ptr, spif_mbuff_ncmp_with_ptr)
#define M_PREPEND        SEL(f_b_mm_t, TBL->prepend, spif_mbuff_prepend)
#define M_PREPEND_PTR    SEL(f_b_mpn_t, TBL->prepend_from_ptr, spif_mbuff_prepend_from_ptr)
#define M_REVERSE        SEL(f_b_m_t, TBL->reverse, spif_mbuff_reverse)
#define M_RINDEX         SEL(f_i_mc_t, TBL->rindex, spif_mbuff_rindex)
#define M_SPLICE         SEL(f_splice_t, TBL->splice, spif_mbuff_splice)
#define M_SPLICE_PTR     SEL(f_splicep_t, TBL->splice_from_ptr, spif_mbuff_splice_from_ptr)
#define M_SPRINTF        SEL(f_sprintf_t, TBL->sprintf, spif_mbuff_sprintf)
#define M_SUBBUFF        SEL(f_sub_t, TBL->subbuff, spif_mbuff_subbuff)
#define M_SUBBUFF_PTR    SEL(f_subp_t, TBL->subbuff_to_ptr, spif_mbuff_subbuff_to_ptr)
#define M_TRIM           SEL(f_b_m_t, TBL->trim, spif_mbuff_trim)

/* ---- projection + representation invariants ---------------------------------------------------------------- */
static const char *check_slot(spif_mbuff_t m, const char *nm) {
    long len, size;
    if (!m) return NULL;
    if (SPIF_OBJ_CLASS(m) != SPIF_CLASS(SPIF_MBUFFCLASS_VAR(mbuff))) FAIL("%s:class_pointer_changed", nm);
    len = (long) m->len; size = (long) m->size;
    if ((long) spif_mbuff_get_len(m) != len) FAIL("%s:get_len!=len", nm);
    if ((long) spif_mbuff_get_size(m) != size) FAIL("%s:get_size!=size", nm);
    if (len < 0) FAIL("%s:len<0(%ld)", nm, len);
    if (size < len) FAIL("%s:size(%ld)<len(%ld)", nm, size, len);
    if (m->buff == NULL) {
        if (len != 0 || size != 0) FAIL("%s:buff==NULL_but_len=%ld_size=%ld", nm, len, size);
    } else {
#ifdef VH_ASAN
        if (!__sanitizer_get_ownership(m->buff)) FAIL("%s:buff_is_not_a_live_heap_block", nm);
        if ((long) __sanitizer_get_allocated_size(m->buff) < size) {
            FAIL("%s:allocation(%ld)<size(%ld)", nm, (long) __sanitizer_get_allocated_size(m->buff), size);
        }
#endif
    }
    return NULL;
}
/* Slack poisoning: the bytes between len and size have no defined content, so overwriting them is invisible to a correct
 * implementation.  After EVERY step they are filled with adversarial content - on even steps the model alphabet cyclically,
 * on odd steps a rotated copy of the live bytes themselves - with a phase that depends on the step number, so that a needle
 * whose first bytes are the last live bytes can be completed from the slack and every byte searched by index / rindex / cmp
 * exists there.  Any read beyond len then shows as a wrong value even where ASan is blind (same heap block).
 * Called only after check_slot() has established len <= size <= allocation. */
static void poison_slack(spif_mbuff_t m, int step) {
    static const unsigned char alpha[] = { 0, 32, 97, 233, 233, 0, 97, 32, 32, 233 };
    long i, len, size;
    if (!m || !m->buff) return;
    len = (long) m->len; size = (long) m->size;
    for (i = len; i < size; i++) {
        long k = i - len + step / 2;
        if ((step & 1) && len > 0) m->buff[i] = m->buff[k % len];
        else m->buff[i] = alpha[k % (long) sizeof(alpha)];
    }
}
/* ---- real sizes (round 5): objects of 2 GiB + k / 4 GiB + k bytes in GAP-COMPRESSED form ------------------------------
 * `huge_new <head> <2g|4g> <tail>` builds, through the public constructor spif_mbuff_new_from_buff(), an object whose
 * bytes are  head ++ G zero bytes ++ tail  with G = 2^31 or 2^32 (source: a lazily zeroed MAP_NORESERVE mapping).  The
 * specification sees the same object with the gap compressed to GM zeros (MBuffObj.tla, "Gap compression", GapLaw): the
 * harness translates positions / lengths between the two scales - arguments model -> real, results real -> model -
 *     p <  head + GM/2            same position in both           (head and the first half of the model gap)
 *     p >= head + GM/2 (model)    real position p + (G - GM)      (second half of the gap, tail, the length itself)
 * and projects the real bytes as  [0, head+GM/2) ++ [head+G-GM/2, len)  after checking that everything between is zero.  A
 * result that falls deep inside the gap has no model position and is reported as an invariant failure.  Only operations
 * that do not need a second multi-GiB block are offered on such an object (queries, subbuff*, cmp family, reverse, del). */
#define GM 8
typedef struct { int on; long head, G; } scaled_t;
static scaled_t SC[2];
#define BIGV (1L << 30)                       /* values beyond +-2^30 are extreme-argument classes: passed through */
static long sc_pos_in(const scaled_t *sc, long p) { return (p < sc->head + GM / 2) ? p : p + (sc->G - GM); }
static long sc_len_model(const scaled_t *sc, long reallen) { return reallen - (sc->G - GM); }
/* an index argument (may be negative = from the end) */
static long sc_idx_in(const scaled_t *sc, long reallen, long i) {
    long lm = sc_len_model(sc, reallen), k;
    if (!sc->on || i >= BIGV || i <= -BIGV) return i;
    if (i >= 0) return sc_pos_in(sc, i);
    k = i + lm;
    if (k < 0) return i - (sc->G - GM);
    return sc_pos_in(sc, k) - reallen;
}
static long sc_cnt_in(const scaled_t *sc, long n) {           /* a count / length measured from the start (ncmp) */
    if (!sc->on || n >= BIGV || n <= -BIGV || n < 0) return n;
    return sc_pos_in(sc, n);
}
static int sc_pos_out(const scaled_t *sc, long p, long *out) {
    if (!sc->on || p < sc->head + GM / 2) { *out = p; return 1; }
    if (p >= sc->head + sc->G - GM / 2) { *out = p - (sc->G - GM); return 1; }
    return 0;
}
/* all of [a, b) zero?  full = every byte (word loop, not instrumented: ~0.2 s per 2 GiB); otherwise 64 KiB at either end and
 * 8192 probes in between.  The full scan runs after every mutating call and before the object is deleted, so that a stray
 * write by a query is found at the latest then. */
__attribute__((no_sanitize("address"))) static int gap_is_zero(const unsigned char *p, long a, long b, int full) {
    long i;
    if (full) {
        while (a < b && (((unsigned long) (p + a)) & 7)) { if (p[a]) return 0; a++; }
        for (; a + 8 <= b; a += 8) if (*(const unsigned long *) (p + a)) return 0;
        for (; a < b; a++) if (p[a]) return 0;
        return 1;
    }
    for (i = a; i < b && i < a + 65536; i++) if (p[i]) return 0;
    for (i = (b - 65536 > a) ? b - 65536 : a; i < b; i++) if (p[i]) return 0;
    for (i = 0; i < 8192; i++) if (p[a + (long) (((unsigned long) i * 2654435761UL * 4099UL) % (unsigned long) (b - a))]) return 0;
    return 1;
}
static int sc_full_scan = 1;
static const char *put_slot_scaled(vh_sb *out, spif_mbuff_t m, const scaled_t *sc) {
    long a = sc->head + GM / 2, b = sc->head + sc->G - GM / 2, len = (long) m->len, i, first = 1;
    if (len < b) FAIL("scaled:length_%ld_is_shorter_than_head+gap", len);
    if (!gap_is_zero((const unsigned char *) m->buff, a, b, sc_full_scan)) FAIL("scaled:non-zero_byte_inside_the_gap");
    sb_puts(out, "{live=T,s=[");
    for (i = 0; i < len; i++) {
        if (i == a) i = b;
        if (i >= len) break;
        if (!first) sb_putc(out, ',');
        sb_printf(out, "%u", (unsigned) m->buff[i]); first = 0;
    }
    sb_puts(out, "]}");
    return NULL;
}
static void put_slot(vh_sb *out, spif_mbuff_t m) {
    if (!m) { sb_puts(out, "{live=F,s=[]}"); return; }
    sb_puts(out, "{live=T,s=");
    sb_bytes(out, (const unsigned char *) m->buff, (size_t) m->len);
    sb_putc(out, '}');
}

/* ---- inputs for the stream / descriptor constructors --------------------------------------------------------- */
static pid_t writer_pid;
/* kind: file  = regular file, position 0
 *       seek  = regular file holding junk + content, positioned behind the junk (non-zero offset)
 *       pipe  = pipe filled completely before the call (writer end closed)
 *       pieces= pipe fed by a forked writer in several pieces with pauses (reader sees short reads) */
static size_t junk_len(size_t n) { return n < 100 ? 3 : 4099; }
static int make_input(const char *kind, const unsigned char *p, size_t n, int *is_seek) {
    int fd = -1;
    writer_pid = 0; *is_seek = 0;
    if (!strcmp(kind, "file") || !strcmp(kind, "seek")) {
        char name[64];
        size_t j = 0, i;
        snprintf(name, sizeof(name), "mb-in-%ld-XXXXXX", (long) getpid());
        fd = mkstemp(name);
        if (fd < 0) { perror("mkstemp"); _exit(2); }
        unlink(name);
        if (!strcmp(kind, "seek")) {
            unsigned char jb[4100];
            j = junk_len(n);
            for (i = 0; i < j; i++) jb[i] = (unsigned char) (0x55 + 7 * i);
            if (write(fd, jb, j) != (ssize_t) j) _exit(2);
            *is_seek = 1;
        }
        if (n && write(fd, p, n) != (ssize_t) n) _exit(2);
        if (lseek(fd, (off_t) j, SEEK_SET) != (off_t) j) _exit(2);
    } else {
        int pf[2];
        if (pipe(pf) < 0) { perror("pipe"); _exit(2); }
        if (!strcmp(kind, "pipe") && n <= 60000) {
            if (n && write(pf[1], p, n) != (ssize_t) n) _exit(2);
            close(pf[1]);
        } else {
            size_t chunk = (n <= 16) ? 1 : (n < 6000 ? n / 3 + 1 : 1500);
            fflush(stdout);
            writer_pid = fork();
            if (writer_pid < 0) { perror("fork"); _exit(2); }
            if (writer_pid == 0) {
                size_t off = 0;
                signal(SIGPIPE, SIG_DFL);
                close(pf[0]);
                if (!strcmp(kind, "pipe")) chunk = n ? n : 1;
                while (off < n) {
                    size_t k = (n - off < chunk) ? n - off : chunk;
                    ssize_t w = write(pf[1], p + off, k);
                    if (w <= 0) _exit(1);
                    off += (size_t) w;
                    if (off < n) usleep(n <= 16 ? 1500 : 3000);
                }
                _exit(0);
            }
            close(pf[1]);
        }
        fd = pf[0];
    }
    return fd;
}
static void reap_writer(void) {
    if (writer_pid > 0) { int st; waitpid(writer_pid, &st, 0); writer_pid = 0; }
}
/* new object from a stream / descriptor (self == NULL) or re-initialisation of an existing one */
static spif_mbuff_t from_input(int use_fp, const char *kind, const unsigned char *p, size_t n, spif_mbuff_t self, spif_bool_t *ok) {
    int is_seek, fd = make_input(kind, p, n, &is_seek);
    spif_mbuff_t r = self;
    if (use_fp) {
        FILE *fp = fdopen(fd, "r");
        if (!fp) { perror("fdopen"); _exit(2); }
        if (is_seek) {
            /* make the STREAM sit at the non-zero offset too (ftell() reports it) */
            if (fseek(fp, (long) junk_len(n), SEEK_SET) != 0) _exit(2);
        }
        if (self) *ok = M_INIT_FROM_FP(self, fp); else { r = M_NEW_FROM_FP(fp); *ok = (r != NULL); }
        fclose(fp);
    } else {
        if (self) *ok = M_INIT_FROM_FD(self, fd); else { r = M_NEW_FROM_FD(fd); *ok = (r != NULL); }
        close(fd);
    }
    reap_writer();
    return r;
}

/* ---- environment faults (round 3): read() interposed at link time (-Wl,--wrap=read), custom streams for FILE* ------------
 * A schedule is a flat list of (kind, value) pairs, one pair per read call of the constructor under test:
 *     0 x = deliver normally     1 x = short read: deliver at most x bytes     2 e = fail with errno e-th of fault_errnos
 * calls behind the end of the list are served normally.  The wrapper is armed only for the descriptor / stream handed to
 * the constructor, and reports what the ENVIRONMENT actually did: whether an EINTR / another error was returned and how
 * many bytes were delivered in total - these observations travel in the recorded event (MBuffObj.tla: OpNewFault). */
static const int fault_errnos[] = { 0, EINTR, EAGAIN, ECONNRESET, EIO };
static long fsched[64]; static int fsched_n, fcall;
static int fault_fd = -1;
static int f_hit_eintr, f_hit_hard; static long f_delivered;
static void fault_arm(const char *tok) {
    fsched_n = vh_intlist(tok, fsched, 64); if (fsched_n > 64) fsched_n = 64;
    fcall = 0; f_hit_eintr = f_hit_hard = 0; f_delivered = 0;
}
/* the directive for the next read call: returns 0 = serve (at most *limit bytes), else the errno to fail with */
static int fault_next(size_t *limit) {
    int k = fcall++;
    if (2 * k + 1 < fsched_n) {
        long kind = fsched[2 * k], v = fsched[2 * k + 1];
        if (kind == 1 && v >= 1 && (size_t) v < *limit) *limit = (size_t) v;      /* never 0: that would be an EOF, not a short read */
        if (kind == 2 && v >= 1 && v <= 4) {
            int e = fault_errnos[v];
            if (e == EINTR) f_hit_eintr = 1; else f_hit_hard = 1;
            return e;
        }
    }
    return 0;
}
ssize_t __real_read(int fd, void *buf, size_t count);
ssize_t __wrap_read(int fd, void *buf, size_t count) {
    ssize_t r; size_t limit = count; int e;
    if (fd != fault_fd || fault_fd < 0) return __real_read(fd, buf, count);
    if ((e = fault_next(&limit))) { errno = e; return -1; }
    r = __real_read(fd, buf, limit);
    if (r > 0) f_delivered += r;
    return r;
}
/* a FILE* over a memory block with the same schedule; seekable or not */
typedef struct { const unsigned char *p; size_t n, pos, junk, hi; int seekable; } cookie_t;
static ssize_t ck_read(void *c, char *buf, size_t size) {
    cookie_t *k = (cookie_t *) c; size_t limit = size, left = k->n - k->pos; int e;
    if ((e = fault_next(&limit))) { errno = e; f_hit_hard = 1; f_hit_eintr = 0; return -1; }   /* stdio knows only "error" */
    if (limit > left) limit = left;
    memcpy(buf, k->p + k->pos, limit); k->pos += limit;
    if (k->pos > k->hi) k->hi = k->pos;                     /* delivered = high-water mark of CONTENT bytes handed out */
    f_delivered = (k->hi > k->junk) ? (long) (k->hi - k->junk) : 0;
    return (ssize_t) limit;
}
static int ck_seek(void *c, off64_t *off, int whence) {
    cookie_t *k = (cookie_t *) c; off64_t np;
    if (!k->seekable) { errno = ESPIPE; return -1; }
    np = (whence == SEEK_SET) ? *off : (whence == SEEK_CUR ? (off64_t) k->pos + *off : (off64_t) k->n + *off);
    if (np < 0 || np > (off64_t) k->n) { errno = EINVAL; return -1; }
    k->pos = (size_t) np; *off = np;
    return 0;
}
/* constructor / re-initialisation under a fault schedule.  kind: file | seek | pipe */
static spif_mbuff_t from_input_fault(int use_fp, const char *kind, const unsigned char *p, size_t n, const char *sched,
                                     spif_mbuff_t self, spif_bool_t *ok) {
    spif_mbuff_t r = self;
    if (use_fp) {
        cookie_t ck; cookie_io_functions_t io; FILE *fp; unsigned char *blk; size_t j = 0, i;
        int seekable = strcmp(kind, "pipe") != 0;
        if (!strcmp(kind, "seek")) j = junk_len(n);
        blk = (unsigned char *) malloc(j + n + 1);
        for (i = 0; i < j; i++) blk[i] = (unsigned char) (0x55 + 7 * i);
        memcpy(blk + j, p, n);
        ck.p = blk; ck.n = j + n; ck.pos = 0; ck.seekable = seekable; ck.junk = j; ck.hi = 0;
        memset(&io, 0, sizeof(io)); io.read = ck_read; io.seek = ck_seek;
        fp = fopencookie(&ck, "r", io);
        if (!fp) { perror("fopencookie"); _exit(2); }
        if (j && fseek(fp, (long) j, SEEK_SET) != 0) _exit(2);
        fault_arm(sched);
        if (self) *ok = M_INIT_FROM_FP(self, fp); else { r = M_NEW_FROM_FP(fp); *ok = (r != NULL); }
        fsched_n = 0;
        fclose(fp);
        free(blk);
    } else {
        int is_seek, fd = make_input(kind, p, n, &is_seek);
        fault_arm(sched);
        fault_fd = fd;
        if (self) *ok = M_INIT_FROM_FD(self, fd); else { r = M_NEW_FROM_FD(fd); *ok = (r != NULL); }
        fault_fd = -1; fsched_n = 0;
        close(fd);
        reap_writer();
    }
    return r;
}

/* ---- script interface ------------------------------------------------------------------------------------------ */
static void vh_begin(void) { S[0] = S[1] = (spif_mbuff_t) NULL; SC[0].on = SC[1].on = 0; }
static void vh_end(void) {
    int k;
    for (k = 0; k < 2; k++) if (S[k]) { spif_mbuff_del(S[k]); S[k] = (spif_mbuff_t) NULL; }
}

/* Conv_CmpWithPtrCountBeyondLength (MBuffObj.tla): count larger than the buffer and the buffer equal to the first len bytes
 * at the pointer - the specification accepts EQUAL or LESS (expected token "*"); GREATER is accepted by neither reading. */
static const char *beyond_length_check(spif_mbuff_t m, const unsigned char *p, long n, int c) {
    if (n > (long) m->len && (m->len == 0 || !memcmp(m->buff, p, (size_t) m->len)) && c != 0 && c != -1) {
        FAIL("cmp_with_ptr_count_beyond_length_returned_%d_(EQUAL_or_LESS_allowed)", c);
    }
    return NULL;
}

#define OP(s) (!strcmp(op, s))
#define NEED_LIVE(k) do { if (!S[k]) FAIL("harness:op_%s_on_absent_slot", op); } while (0)
#define NEED_ABSENT(k) do { if (S[k]) FAIL("harness:op_%s_on_live_slot", op); } while (0)
static spif_mbuff_t other_of(const char *src) {
    if (!strcmp(src, "self")) return S[0];
    if (!strcmp(src, "b")) return S[1];
    return (spif_mbuff_t) NULL;
}

static const char *vh_step(const vh_step_t *st, vh_sb *ret, vh_sb *state) {
    const char *op = st->op, *inv;
    int me = 0;                       /* the slot the call is made on */
    spif_mbuff_t m;
    unsigned char *p = NULL; size_t n = 0;

    if (op[0] == 'b' && op[1] == '_') { me = 1; op += 2; }
    m = S[me];
    {   /* adversarial prelude: errno as an earlier, unrelated call may have left it */
        static const int stale[] = { 0, EINTR, ERANGE, EAGAIN };
        errno = stale[(vh_cur_step + (int) (vh_cur_sid & 3)) & 3];
    }

    if (SC[0].on && !(OP("index") || OP("rindex") || OP("find") || OP("cmp") || OP("find_from_ptr") || OP("cmp_with_ptr") || OP("ncmp") ||
                      OP("ncmp_with_ptr") || OP("subbuff") || OP("subbuff_to_ptr") || OP("reverse") || OP("del") ||
                      (me == 1 && (OP("new_from_ptr") || OP("del") || OP("cmp_a") || OP("reverse") || OP("clear") || OP("append_from_ptr")))))
        FAIL("harness:op_%s_not_offered_on_a_gap-compressed_object", st->op);
    sc_full_scan = (OP("huge_new") || OP("reverse"));
    if (SC[0].on && me == 0 && OP("del")) {
        long a_ = SC[0].head + GM / 2, b_ = SC[0].head + SC[0].G - GM / 2;
        if ((long) S[0]->len >= b_ && !gap_is_zero((const unsigned char *) S[0]->buff, a_, b_, 1)) FAIL("scaled:non-zero_byte_inside_the_gap_(found_before_del)");
    }
    if (OP("huge_new")) {
        /* args: head bytes, gap class, tail bytes */
        size_t hn, tn; unsigned char *hp = vh_bytes(st->args[0], &hn, 0), *tp = vh_bytes(st->args[2], &tn, 0), *reg;
        long G = !strcmp(st->args[1], "4g") ? (1L << 32) : (1L << 31), total;
        NEED_ABSENT(0);
        total = (long) hn + G + (long) tn;
        reg = (unsigned char *) mmap(NULL, (size_t) total, PROT_READ | PROT_WRITE, MAP_PRIVATE | MAP_ANONYMOUS | MAP_NORESERVE, -1, 0);
        if (reg == (unsigned char *) MAP_FAILED) { perror("mmap"); _exit(2); }
        memcpy(reg, hp, hn); memcpy(reg + hn + G, tp, tn);
        S[0] = M_NEW_FROM_BUFF((spif_byteptr_t) reg, (spif_memidx_t) total, (spif_memidx_t) total);
        munmap(reg, (size_t) total);
        free(hp); free(tp);
        SC[0].on = 1; SC[0].head = (long) hn; SC[0].G = G;
        sb_bool(ret, S[0] != NULL);
        if (!S[0]) SC[0].on = 0;
    } else if (me == 1 && OP("dup_to_a")) {
        NEED_LIVE(1); NEED_ABSENT(0);
        S[0] = M_DUP(S[1]);
        if (S[0] == S[1]) FAIL("dup_returned_same_object");
        if (S[0] && S[0]->buff && S[0]->buff == S[1]->buff) FAIL("dup_shares_the_byte_buffer");
        sb_bool(ret, S[0] != NULL);
    } else if (me == 1 && OP("cmp_a")) {
        NEED_LIVE(1); NEED_LIVE(0);
        sb_int(ret, (long) (int) M_CMP(S[1], S[0]));
    } else if (me == 1 && OP("append_a")) {
        NEED_LIVE(1); NEED_LIVE(0);
        sb_bool(ret, M_APPEND(S[1], S[0]));
    } else if (OP("new")) {
        NEED_ABSENT(me);
        S[me] = M_NEW(); sb_bool(ret, S[me] != NULL);
    } else if (OP("new_from_ptr")) {
        NEED_ABSENT(me);
        p = vh_bytes(st->args[0], &n, 0);
        S[me] = M_NEW_FROM_PTR((spif_byteptr_t) p, (spif_memidx_t) n); sb_bool(ret, S[me] != NULL);
    } else if (OP("new_from_ptr_null")) {
        NEED_ABSENT(me);
        S[me] = M_NEW_FROM_PTR((spif_byteptr_t) NULL, (spif_memidx_t) vh_int(st->args[0])); sb_bool(ret, S[me] != NULL);
    } else if (OP("new_from_buff")) {
        NEED_ABSENT(me);
        p = vh_bytes(st->args[0], &n, 0);
        S[me] = M_NEW_FROM_BUFF((spif_byteptr_t) p, (spif_memidx_t) n, (spif_memidx_t) vh_int(st->args[1])); sb_bool(ret, S[me] != NULL);
    } else if (OP("new_from_buff_null")) {
        NEED_ABSENT(me);
        S[me] = M_NEW_FROM_BUFF((spif_byteptr_t) NULL, (spif_memidx_t) vh_int(st->args[0]), (spif_memidx_t) vh_int(st->args[1]));
        sb_bool(ret, S[me] != NULL);
    } else if (OP("new_from_fp") || OP("new_from_fd")) {
        spif_bool_t ok = FALSE;
        NEED_ABSENT(me);
        p = vh_bytes(st->args[1], &n, 0);
        S[me] = from_input(OP("new_from_fp"), st->args[0], p, n, (spif_mbuff_t) NULL, &ok);
        sb_bool(ret, ok);
    } else if (OP("new_fault") || OP("reinit_fault")) {
        /* args: ctor(fp|fd) kind bytes schedule ; the return token carries the environment's observations */
        spif_bool_t ok = FALSE, r1 = TRUE;
        int use_fp = !strcmp(st->args[0], "fp");
        p = vh_bytes(st->args[2], &n, 0);
        if (OP("new_fault")) {
            NEED_ABSENT(me);
            S[me] = from_input_fault(use_fp, st->args[1], p, n, st->args[3], (spif_mbuff_t) NULL, &ok);
        } else {
            NEED_LIVE(me);
            r1 = M_DONE(m);
            (void) from_input_fault(use_fp, st->args[1], p, n, st->args[3], m, &ok);
        }
        sb_printf(ret, "{d=%ld,eintr=%c,hard=%c,ok=%c}", f_delivered, f_hit_eintr ? 'T' : 'F', f_hit_hard ? 'T' : 'F', (ok && r1) ? 'T' : 'F');
    } else if (OP("reinit")) {
        /* done() followed by an init_*() call on the same object */
        const char *ctor = st->args[0];
        spif_bool_t r1, r2 = FALSE;
        NEED_LIVE(me);
        p = vh_bytes(st->args[2], &n, 0);
        r1 = M_DONE(m);
        if (m->buff != NULL || m->len != 0 || m->size != 0) FAIL("done_left_buff/len/size_set");
        if (!strcmp(ctor, "init")) r2 = M_INIT(m);
        else if (!strcmp(ctor, "ptr")) r2 = M_INIT_FROM_PTR(m, (spif_byteptr_t) p, (spif_memidx_t) n);
        else if (!strcmp(ctor, "buff")) r2 = M_INIT_FROM_BUFF(m, (spif_byteptr_t) p, (spif_memidx_t) n, (spif_memidx_t) (n + 2));
        else if (!strcmp(ctor, "fp") || !strcmp(ctor, "fd")) (void) from_input(!strcmp(ctor, "fp"), st->args[1], p, n, m, &r2);
        else FAIL("harness:unknown_ctor_%s", ctor);
        sb_bool(ret, r1 && r2);
    } else if (OP("del")) {
        NEED_LIVE(me);
        sb_bool(ret, M_DEL(m)); S[me] = (spif_mbuff_t) NULL; SC[me].on = 0;
    } else if (OP("done")) {
        NEED_LIVE(me);
        sb_bool(ret, M_DONE(m));
    } else if (OP("append") || OP("prepend")) {
        spif_mbuff_t o = other_of(st->args[0]);
        NEED_LIVE(me); if (!o) FAIL("harness:no_other_object");
        sb_bool(ret, OP("append") ? M_APPEND(m, o) : M_PREPEND(m, o));
    } else if (OP("append_from_ptr") || OP("prepend_from_ptr")) {
        NEED_LIVE(me);
        p = vh_bytes(st->args[0], &n, 0);
        sb_bool(ret, OP("append_from_ptr") ? M_APPEND_PTR(m, (spif_byteptr_t) p, (spif_memidx_t) n)
                                            : M_PREPEND_PTR(m, (spif_byteptr_t) p, (spif_memidx_t) n));
    } else if (OP("append_from_ptr_null") || OP("prepend_from_ptr_null")) {
        NEED_LIVE(me);
        sb_bool(ret, OP("append_from_ptr_null") ? M_APPEND_PTR(m, (spif_byteptr_t) NULL, (spif_memidx_t) vh_int(st->args[0]))
                                                 : M_PREPEND_PTR(m, (spif_byteptr_t) NULL, (spif_memidx_t) vh_int(st->args[0])));
    } else if (OP("splice")) {
        spif_mbuff_t o = other_of(st->args[2]);
        NEED_LIVE(me); if (!o && strcmp(st->args[2], "null")) FAIL("harness:no_other_object");
        sb_bool(ret, M_SPLICE(m, (spif_memidx_t) vh_int(st->args[0]), (spif_memidx_t) vh_int(st->args[1]), o));
    } else if (OP("splice_from_ptr")) {
        NEED_LIVE(me);
        p = vh_bytes(st->args[2], &n, 0);
        sb_bool(ret, M_SPLICE_PTR(m, (spif_memidx_t) vh_int(st->args[0]), (spif_memidx_t) vh_int(st->args[1]), (spif_byteptr_t) p, (spif_memidx_t) n));
    } else if (OP("splice_from_ptr_null")) {
        NEED_LIVE(me);
        sb_bool(ret, M_SPLICE_PTR(m, (spif_memidx_t) vh_int(st->args[0]), (spif_memidx_t) vh_int(st->args[1]), (spif_byteptr_t) NULL,
                                  (spif_memidx_t) vh_int(st->args[2])));
    } else if (OP("trim")) {
        NEED_LIVE(me); sb_bool(ret, M_TRIM(m));
    } else if (OP("reverse")) {
        NEED_LIVE(me);
        if (SC[me].on) SC[me].head = (long) m->len - SC[me].G - SC[me].head;      /* the tail becomes the head */
        sb_bool(ret, M_REVERSE(m));
    } else if (OP("clear")) {
        NEED_LIVE(me); sb_bool(ret, M_CLEAR(m, (spif_uint8_t) vh_int(st->args[0])));
    } else if (OP("sprintf")) {
        const char *kind = st->args[0]; long k = vh_int(st->args[2]);
        NEED_LIVE(me);
        p = vh_bytes(st->args[1], &n, 1);            /* a C string: sprintf arguments are texts */
        if (!strcmp(kind, "lit")) sb_bool(ret, M_SPRINTF(m, (spif_charptr_t) p));
        else if (!strcmp(kind, "s")) sb_bool(ret, M_SPRINTF(m, (spif_charptr_t) "%s", (char *) p));
        else if (!strcmp(kind, "d")) sb_bool(ret, M_SPRINTF(m, (spif_charptr_t) "%d", (int) k));
        else if (!strcmp(kind, "sd")) sb_bool(ret, M_SPRINTF(m, (spif_charptr_t) "%s:%d", (char *) p, (int) k));
        else FAIL("harness:unknown_sprintf_kind_%s", kind);
    } else if (OP("index") || OP("rindex")) {
        NEED_LIVE(me);
        {
            long r = (long) (OP("index") ? M_INDEX(m, (spif_uint8_t) vh_int(st->args[0])) : M_RINDEX(m, (spif_uint8_t) vh_int(st->args[0]))), o_;
            if (!sc_pos_out(&SC[me], r, &o_)) FAIL("scaled:result_%ld_lies_deep_inside_the_gap", r);
            sb_int(ret, o_);
        }
    } else if (OP("find") || OP("cmp")) {
        spif_mbuff_t o = other_of(st->args[0]);
        NEED_LIVE(me); if (!o) FAIL("harness:no_other_object");
        if (OP("find")) {
            long r = (long) M_FIND(m, o), o_;
            if (!sc_pos_out(&SC[me], r, &o_)) FAIL("scaled:result_%ld_lies_deep_inside_the_gap", r);
            sb_int(ret, o_);
        }
        else {
            spif_cmp_t c1 = M_CMP(m, o), c2 = M_COMP(m, o);
            if (c1 != c2) FAIL("comp()_and_cmp()_disagree");
            sb_int(ret, (long) (int) c1);
        }
    } else if (OP("find_from_ptr") || OP("cmp_with_ptr")) {
        NEED_LIVE(me);
        p = vh_bytes(st->args[0], &n, 0);
        if (OP("find_from_ptr")) {
            long r = (long) M_FIND_PTR(m, (spif_byteptr_t) p, (spif_memidx_t) n), o_;
            if (!sc_pos_out(&SC[me], r, &o_)) FAIL("scaled:result_%ld_lies_deep_inside_the_gap", r);
            sb_int(ret, o_);
        }
        else {
            int c = (int) M_CMP_PTR(m, (spif_byteptr_t) p, (spif_memidx_t) n);
            if ((inv = beyond_length_check(m, p, (long) n, c))) return inv;
            sb_int(ret, (long) c);
        }
    } else if (OP("ncmp")) {
        spif_mbuff_t o = other_of(st->args[0]);
        NEED_LIVE(me); if (!o) FAIL("harness:no_other_object");
        sb_int(ret, (long) (int) M_NCMP(m, o, (spif_memidx_t) sc_cnt_in(&SC[me], vh_int(st->args[1]))));
    } else if (OP("ncmp_with_ptr")) {
        NEED_LIVE(me);
        p = vh_bytes(st->args[0], &n, 0);
        {
            long cnt = vh_int(st->args[1]);
            int c = (int) M_NCMP_PTR(m, (spif_byteptr_t) p, (spif_memidx_t) cnt);
            if ((inv = beyond_length_check(m, p, cnt, c))) return inv;
            sb_int(ret, (long) c);
        }
    } else if (OP("subbuff")) {
        spif_mbuff_t r;
        NEED_LIVE(0); NEED_ABSENT(1);
        r = M_SUBBUFF(S[0], (spif_memidx_t) sc_idx_in(&SC[0], (long) S[0]->len, vh_int(st->args[0])), (spif_memidx_t) vh_int(st->args[1]));
        if (r && r == S[0]) FAIL("subbuff_returned_the_object_itself");
        if (r && r->buff && r->buff >= S[0]->buff && r->buff < S[0]->buff + S[0]->size) FAIL("subbuff_shares_the_byte_buffer");
        S[1] = r;
        sb_bool(ret, r != NULL);
    } else if (OP("subbuff_to_ptr")) {
        spif_byteptr_t r;
        NEED_LIVE(me);
        r = M_SUBBUFF_PTR(m, (spif_memidx_t) sc_idx_in(&SC[me], (long) m->len, vh_int(st->args[0])), (spif_memidx_t) vh_int(st->args[1]));
        if (!r) sb_puts(ret, "{ok=F,s=[]}");
        else {
            /* the interface does not return the count: as built the result is a fresh block of count+1 bytes,
             * NUL-terminated (C) - the count is read off the allocation */
            long cnt;
#ifdef VH_ASAN
            if (!__sanitizer_get_ownership(r)) FAIL("subbuff_to_ptr_result_is_not_a_heap_block");
            cnt = (long) __sanitizer_get_allocated_size(r) - 1;
#else
            cnt = 0;
#endif
            if (cnt < 0) FAIL("subbuff_to_ptr_result_has_no_room_for_terminator");
            if (r[cnt] != 0) FAIL("subbuff_to_ptr_result_not_terminated");
            sb_puts(ret, "{ok=T,s="); sb_bytes(ret, (const unsigned char *) r, (size_t) cnt); sb_putc(ret, '}');
            free(r);
        }
    } else if (OP("dup")) {
        NEED_LIVE(0); NEED_ABSENT(1);
        S[1] = M_DUP(S[0]);
        if (S[1] == S[0]) FAIL("dup_returned_same_object");
        if (S[1] && S[1]->buff && S[1]->buff == S[0]->buff) FAIL("dup_shares_the_byte_buffer");
        if (S[1] && strcmp((const char *) spif_mbuff_type(S[1]), (const char *) spif_mbuff_type(S[0]))) FAIL("dup_type_differs");
        sb_bool(ret, S[1] != NULL);
    } else {
        FAIL("harness:unknown_op_%s", st->op);
    }
    if (p) free(p);

    if ((inv = check_slot(S[0], "a"))) return inv;
    if ((inv = check_slot(S[1], "b"))) return inv;
    poison_slack(S[0], vh_cur_step);
    poison_slack(S[1], vh_cur_step + 1);
    sb_puts(state, "{a=");
    if (S[0] && SC[0].on) { if ((inv = put_slot_scaled(state, S[0], &SC[0]))) return inv; }
    else put_slot(state, S[0]);
    sb_puts(state, ",b="); put_slot(state, S[1]);
    sb_putc(state, '}');
    return NULL;
}

int main(int argc, char **argv) {
    if (argc < 3) { fprintf(stderr, "usage: %s <direct|table> <scripts> [first]\n", argv[0]); return 2; }
    via_table = !strcmp(argv[1], "table");
    libast_set_program_name("mbuff_replay");
    DEBUG_LEVEL = getenv("VH_DEBUG_LEVEL") ? (unsigned int) atoi(getenv("VH_DEBUG_LEVEL")) : 0;   /* the level is a dimension of the families */
    signal(SIGPIPE, SIG_IGN);
    return vh_main(argc, argv, 2);
}
