SPECIFICATION TraceSpec
CONSTANTS
  FaultLen = 9
  Dirs = {}
  TmpDirs = {}
  Templates = {}
  Lens = {}
  Faults = {}
  Umasks = {}
  Levels = {}
  MaxLive = 100000
  D = 4
  Obs <- ObsTrace
POSTCONDITION TraceAccepted
CHECK_DEADLOCK FALSE
