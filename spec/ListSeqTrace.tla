------------------------------ MODULE ListSeqTrace ------------------------------
(* Trace validation for C02: every recorded call of a real list object (op, args, returned value, *)
(* full projected state) must be a step of ListSeq.  The file named by env TRACE holds one JSON   *)
(* object per line; {"op":"reset"} starts a new execution.                                        *)
EXTENDS ListSeq, IOUtils
VARIABLE l
Tr == ndJsonDeserialize(IOEnv.TRACE)

ObsTrace(op, args, ret, post) ==
    /\ op = Tr[l].op /\ args = Tr[l].args /\ ret = Tr[l].ret /\ post = Tr[l].post

TraceInit == Init /\ l = 1
ev == Tr[l]
TraceStep ==
    /\ l <= Len(Tr)
    /\ l' = l + 1
    /\ \/ ev.op = "reset" /\ a' = <<>> /\ b' = BNIL /\ bl' = FALSE /\ it' = NIL
       \/ ev.op = "append" /\ OpAppend(ev.args[1])
       \/ ev.op = "prepend" /\ OpPrepend(ev.args[1])
       \/ ev.op = "insert_at" /\ OpInsertAt(ev.args[1], ev.args[2])
       \/ ev.op = "remove" /\ OpRemove(ev.args[1])
       \/ ev.op = "remove_at" /\ OpRemoveAt(ev.args[1])
       \/ ev.op = "reverse" /\ OpReverse
       \/ ev.op = "done" /\ OpDone
       \/ ev.op = "get" /\ OpGet(ev.args[1])
       \/ ev.op = "index" /\ OpIndex(ev.args[1])
       \/ ev.op = "find" /\ OpFind(ev.args[1])
       \/ ev.op = "contains" /\ OpContains(ev.args[1])
       \/ ev.op = "count" /\ OpCount
       \/ ev.op = "to_array" /\ OpToArray
       \/ ev.op = "iter_new" /\ OpIterNew
       \/ ev.op = "iter_has_next" /\ OpIterHasNext
       \/ ev.op = "iter_next" /\ OpIterNext
       \/ ev.op = "iter_del" /\ OpIterDel
       \/ ev.op = "iter_dup" /\ OpIterDup
       \/ ev.op = "dup" /\ OpDup
       \/ ev.op = "b_del" /\ OpDelB
       \/ ev.op = "b_append" /\ OpBAppend(ev.args[1])
       \/ ev.op = "b_remove_at" /\ OpBRemoveAt(ev.args[1])
       \/ ev.op = "b_reverse" /\ OpBReverse
       \/ ev.op = "adopt" /\ OpAdopt
TraceSpec == TraceInit /\ [][TraceStep]_<<vars, l>>
\* accepted iff every line was consumed: diameter counts the initial state plus one state per line
TraceAccepted == \/ TLCGet("stats").diameter - 1 = Len(Tr)
                 \/ PrintT(<<"TRACE_REJECTED_AFTER", TLCGet("stats").diameter - 1, "OF", Len(Tr)>>) /\ FALSE
TraceLen == Len(Tr)
================================================================================
