SPECIFICATION TraceSpec
CONSTANTS
  CapMod = 65536
  ClearOnGrow = TRUE
  ResetVarsOnFree = TRUE
  MaxCtx = 255
  MaxBi = 255
  MaxVars = 1000000
  Progs = {0}
  GrowSteps = 6
  Texts = {}
  Outcomes = {}
  Obs <- ObsTrace
INVARIANTS IndexBelowCapacity BuiltinSentinel AfterFreeNoResidue FileStackRestored
CHECK_DEADLOCK FALSE
