"""C15: the debug memory tracker mirrors the live allocation set exactly (MemTrack.tla)."""
import os, re, json, subprocess
from vlib import build, objcheck
from vlib.core import tok, Broken, log, NCPU

PROPERTY = "C15"
LEVEL = "model_checking"
LEVEL_TEXT = ("TLC explores MemTrack.tla exhaustively (all histories of malloc/calloc/strdup/realloc/free over a pool of 3-4 block "
              "addresses incl. NULL, stale and foreign pointers, address reuse, moving and in-place realloc; runtime level below and "
              "at the memory level) checking that the table mechanism mirrors the reference live set; EVERY generated transition is "
              "then executed on spifmem_* of the current tree (ASan build, C allocator under the library interposed at link time so "
              "that the environment choices are forced) and the private table, read through the LIBAST_VERIF accessor, is compared "
              "as a set of records after every call. Configuration half: a DEBUG=5 build runs object workloads (table == ASan's view "
              "of the library's live blocks at every checkpoint, empty at quiescence) and a macro probe compares "
              "MALLOC/CALLOC/REALLOC/FREE/STRDUP at DEBUG 4 and 5 with the reference.")
LEVEL_NOTE = ("Bounded pool (3 addresses, 4 in the thorough tier) and a small set of sizes/call sites for the exhaustive part; random "
              "walks beyond. The C allocator beneath the tracker is simulated for pool blocks (real ASan allocator for everything "
              "else, including the tracker's own array). Pixmap/GC tables (X11) are not covered. Trusted: TLC, harness/mem_replay.c, ASan.")
TECHNIQUE = "TLA+ spec + TLC exhaustive transition cover replayed on the implementation; configuration matrix probes"
DESIGN_REF = "DESIGN.md section 6 C15"

WRAP = ["-Wl,--wrap=malloc,--wrap=calloc,--wrap=realloc,--wrap=free"]


def init_state(level, n):
    return {"blocks": ["never"] * n, "level": level, "table": []}


def argclass(e):
    """Where in the argument/state space an edge lies (specific enough that a different violation still alarms)."""
    op, a, pre = e["op"], e["args"], e["pre"]
    tab = [r["id"] for r in pre["table"]]
    live = [i + 1 for i, s in enumerate(pre["blocks"]) if s == "live"]
    parts = ["active" if pre["level"] >= 5 else "inactive", "live=%d" % len(live)]

    def pcls(p):
        if p == 0:
            return "p=NULL"
        if p < 0:
            return "p=foreign"
        s = pre["blocks"][p - 1]
        if s == "live" and p in tab:
            k = tab.index(p)
            pos = "only" if len(tab) == 1 else ("first" if k == 0 else ("last" if k == len(tab) - 1 else "middle"))
            return "p=live/" + pos
        return "p=" + ("stale" if s == "freed" else s)

    def tcls(t):
        if t == 0:
            return "t=none"
        return "t=" + ("reused" if pre["blocks"][t - 1] == "freed" else "fresh")
    if op in ("malloc", "calloc", "strdup"):
        parts.append(tcls(a[0]))
        size = a[1] if op == "malloc" else (a[1] * a[2] if op == "calloc" else a[1] + 1)
        parts.append("size=0" if size == 0 else "size>0")
        parts.append("file>20" if len(a[-2]) > 20 else "file<=20")
    elif op == "realloc":
        p, size, t = a[0], a[1], a[2]
        parts.append(pcls(p))
        parts.append("size=0" if size == 0 else "size>0")
        if t:
            parts.append("inplace" if t == p else ("moved/" + tcls(t)))
        parts.append("file>20" if len(a[-2]) > 20 else "file<=20")
    elif op == "free":
        parts.append(pcls(a[0]))
    return ",".join(parts)


def keyfn(variant, e, f):
    d = ""
    if f.kind == "inv":
        d = re.sub(r"\d+", "N", f.got)
    elif f.kind in ("crash", "hang", "exit"):
        d = f.sig
    op = e["op"] if e else f.op
    return "%s %s [%s] %s%s" % (variant, op, argclass(e) if e else "-", f.kind, ("/" + d) if d else "")


def harness(ctx, debug_level=None):
    libdir, cflags = build.build_lib(ctx.repo, debug_level=debug_level)
    return build.build_harness("mem_replay" + ("-d%d" % debug_level if debug_level is not None else ""),
                               ["mem_replay.c"], libdir, cflags, ldflags=WRAP)


def mechanism(ctx):
    exe = harness(ctx)
    quick = ctx.tier == "quick"
    runs = [("MemTrack_quick.cfg", 3, [4, 5])] if quick else [("MemTrack_thorough.cfg", 3, [4, 5]), ("MemTrack_levels.cfg", 3, [0, 6]),
                                                            ("MemTrack_pool4.cfg", 4, [5])]
    walks = (300, 40) if quick else (3000, 80)
    graphs = []
    for cfg, n, levels in runs:
        g, res = objcheck.tlc_graph(ctx, "MC_MemTrack.tla", cfg, workers=4)
        graphs.append((cfg, n, levels, g))
        for lv in levels:
            objcheck.replay_cover(ctx, g, [tok(init_state(lv, n))], exe, "d4-l%d%s" % (lv, "" if n == 3 else "-pool%d" % n),
                                  [str(lv), str(n)], keyfn, walks=walks, jobs=4)
    # the same transitions against a library compiled with DEBUG=5 (D_MEM statements live, output discarded)
    exe5 = harness(ctx, 5)
    cfg, n, levels, g = graphs[0]
    for lv in ([5] if quick else [4, 5]):
        objcheck.replay_cover(ctx, g, [tok(init_state(lv, n))], exe5, "d5-l%d" % lv, [str(lv), str(n)], keyfn,
                              walks=walks, jobs=4, env={"MEM_QUIET": "1"})
    return graphs


def run(ctx):
    mechanism(ctx)
    ctx.cov["exhaustive"] = True
    ctx.cov["rule"] = ("every transition TLC generates for MemTrack in the bounded scope is executed once per (build, runtime level) "
                       "variant as the last step of a script whose prefix consists of already verified transitions; the tracker's "
                       "table (set of records) and the allocator-side status of every pool block are compared after every call")
    ctx.assumptions += ["ASan build of the current tree (clang -O1), LIBAST_VERIF accessor for the private table",
                        "libc allocator beneath the tracker interposed with -Wl,--wrap for the pool blocks"]


def replay(ctx, path):
    d = json.load(open(path))
    rp = d.get("replay") or {}
    dbg = 5 if str(rp.get("variant", "")).startswith("d5") else None
    return objcheck.replay_file(harness(ctx, dbg), [], path, ctx.rundir, env={"MEM_QUIET": "1"} if dbg else None)
