------------------------------ MODULE MC_Expand ------------------------------
(* Bounded model of Expand for TLC.  Inputs = all strings of at most N symbols over several small  *)
(* alphabets (a symbol is a short text, e.g. "%put("), each alphabet paired with the environments   *)
(* that matter for it.  One JSON line per finished expansion (ObsEmit).                             *)
EXTENDS Expand

CONSTANTS Sel,        \* alphabets explored in this run
          N,          \* longest input (symbols) from the empty store
          N1, N2,     \* longest %put/%get input from a store with one / with two or more entries
          NCall,      \* longest input over the 9-symbol "call" alphabet
          NMix        \* longest input over the merged 10-symbol "mix" alphabet

(* environments: 1: HOME=/h A=w$   2: HOME unset, A=v   3: HOME and A set but empty.  B is never set. *)
EnvMC(e, nm) == IF nm = NmHome THEN (IF e = 1 THEN <<47, 104>> ELSE <<>>)
                ELSE IF nm = <<65>> THEN (IF e = 1 THEN <<119, 36>> ELSE IF e = 2 THEN <<118>> ELSE <<>>)
                ELSE <<>>

Tab(a) ==
  CASE a = "esc"  -> << <<92>>, <<110>>, <<84>>, <<39>>, <<34>>, <<120>> >>                       \*  \ n T ' " x
    [] a = "dol1" -> << <<36>>, <<123>>, <<125>>, <<65>>, <<66>>, <<39>> >>                       \*  $ { } A B '
    [] a = "dol2" -> << <<36>>, <<40>>, <<41>>, <<65>>, <<45>>, <<34>> >>                         \*  $ ( ) A - "
    [] a = "til"  -> << <<126>>, <<39>>, <<34>>, <<47>>, <<120>>, <<92>> >>                       \*  ~ ' " / x \
    [] a = "pg"   -> << <<37, 112, 117, 116, 40>>, <<37, 103, 101, 116, 40>>, <<41>>, <<97>>, <<98>>, <<32>> >>   \* %put( %get( ) a b blank
    [] a = "call" -> << <<37, 118, 101, 114, 115, 105, 111, 110, 40>>, <<37, 97, 112, 112, 110, 97, 109, 101, 40>>,
                        <<37, 114, 97, 110, 100, 111, 109, 40>>, <<41>>, <<97>>, <<32>>, <<37>>, <<37, 71, 69, 84, 40>>, <<39>> >>
                                                                      \* %version( %appname( %random( ) a blank % %GET( '
    [] a = "app"  -> << <<37, 97, 49, 40>>, <<37, 65, 50, 40>>, <<37, 97, 51, 40>>, <<41>>, <<120>>, <<37, 118, 101, 114, 115, 105, 111, 110, 40>> >>
                                                                      \* %a1( %A2( %a3( ) x %version(      (application built-ins)
    [] a = "mix"  -> << <<92>>, <<39>>, <<34>>, <<36>>, <<123>>, <<125>>, <<65>>, <<126>>, <<37, 103, 101, 116, 40>>, <<41>> >>
                                                                      \*  \ ' " $ { } A ~ %get( )
EnvsOf(a) == CASE a = "til" -> {1, 2, 3} [] a = "dol2" -> {1, 3} [] a = "mix" -> {1, 2} [] OTHER -> {1}
\* input length bound per alphabet, environment and store (-1: not offered).  The secondary environments and
\* the paren alphabet get one symbol less (they differ from the primary ones in a single rule).
LenOf(a, e, st) == IF a = "pg" THEN (IF Len(st) = 0 THEN N ELSE IF Len(st) = 1 THEN N1 ELSE N2)
                   ELSE IF st # <<>> THEN -1
                   ELSE IF a = "call" THEN NCall
                   ELSE IF a = "app" THEN NCall - 1
                   ELSE IF a = "mix" THEN (IF e = 1 THEN NMix ELSE NMix - 1)
                   ELSE IF a = "dol2" \/ (a = "til" /\ e # 1) THEN N - 1
                   ELSE N

RECURSIVE Flat(_, _)
Flat(ss, tab) == IF ss = <<>> THEN <<>> ELSE tab[ss[1]] \o Flat(Tail(ss), tab)
\* symbol strings of the %put/%get alphabet are offered only when their parentheses balance (symbols 1,2 open, 3 closes):
\* calls without a closing parenthesis are explored with the "call" alphabet, which cannot change the store
RECURSIVE BalFrom(_, _, _)
BalFrom(ss, i, d) == IF i > Len(ss) THEN d = 0
                     ELSE IF ss[i] <= 2 THEN BalFrom(ss, i + 1, d + 1)
                     ELSE IF ss[i] = 3 THEN d > 0 /\ BalFrom(ss, i + 1, d - 1)
                     ELSE BalFrom(ss, i + 1, d)
SymStrings(a, n) == LET all == UNION {[1 .. k -> 1 .. Len(Tab(a))] : k \in 0 .. n}
                    IN IF a = "pg" THEN {ss \in all : BalFrom(ss, 1, 0)} ELSE all
TextsOf(a, n) == {Flat(ss, Tab(a)) : ss \in SymStrings(a, n)}
\* the text sets are constants: evaluated once (TLC caches constant-level definitions), not per idle state
DummyStores == {<<>>, <<0>>, <<0, 0>>}
TextCache == [p \in {q \in {<<a, LenOf(a, e, d)>> : a \in Sel, e \in {1, 2, 3}, d \in DummyStores} : q[2] >= 0} |-> TextsOf(p[1], p[2])]
StartsReg0(st) == UNION {{p[2]} \X TextCache[<<p[1], LenOf(p[1], p[2], st)>>] :
                        p \in {q \in {<<a, e>> : a \in Sel, e \in {1, 2, 3}} : q[2] \in EnvsOf(q[1]) /\ LenOf(q[1], q[2], st) >= 0}}

AppNameMC(e) == <<97, 112>>          \* "ap"
AppVersionMC(e) == <<49, 46, 50>>    \* "1.2"
\* once the application has registered built-ins only the "app" alphabet is offered (it cannot change the store)
StartsMC(st, rg) == IF rg = <<>> THEN StartsReg0(st)
                    ELSE IF "app" \in Sel THEN {1} \X TextCache[<<"app", LenOf("app", 1, st)>>] ELSE {}
RegNone == <<>>
DirMC(e, path) == [known |-> FALSE, isdir |-> FALSE, ents |-> <<>>]      \* no directory fixtures in the bounded model
RegMC == << [name |-> <<97, 49>>, kind |-> 0], [name |-> <<97, 50>>, kind |-> 1], [name |-> <<97, 51>>, kind |-> 2] >>      \* a1 a2 a3
StoreBound == Len(store) <= 2
ObsEmit(op, args, ret, post) ==
    PrintT(ToJson([pre |-> store0, op |-> op, args |-> args, ret |-> ret, post |-> post]))
ObsNone(op, args, ret, post) == TRUE
================================================================================
