/* X03 (extension), sequential part: replays spec/ThreadObj.tla on the real pthreads / pthreads_mutex / pthreads_condition
 * objects, one script step per call, with heap balance (like small_replay.c for C05/C06).
 *
 *   thread_obj_replay <thread|mutex|cond> <scriptfile> [first]
 *   thread_obj_replay probe-done         what spif_pthreads_done() does to a RUNNING thread, in a forked child
 *   thread_obj_replay probe-stubs        which wrappers have any effect at all (labels findings, decides nothing)
 *
 * State token {lo=[{cr=..,lk=..},{..}],th=[s1,s2]}:
 *   th[i]  none | plain | func | run | rund - read back from the object (NULL, main_func, handle) + the harness's own note
 *          whether it detached the thread
 *   lo[j]  cr = 9 for an empty slot, else the thread slot the object names as creator (0 = NULL); lk = is the embedded
 *          pthread_mutex_t REALLY locked (probed with pthread_mutex_trylock on the public field, undone when it succeeds)
 * A started worker parks on a semaphore until "t_finish".
 */
#include "common.h"
#include <libast/pthreads.h>
#include <pthread.h>
#include <semaphore.h>
#include <sys/wait.h>
#include <sys/syscall.h>

static const char *part;
static spif_pthreads_t T[3];
static spif_obj_t L[3];              /* mutex or condition objects */
static int detached[3];
static sem_t park[3];
static volatile int gone[3];
static volatile long wtid[3];          /* kernel thread id of the worker: a detached thread cannot be joined, so "it is gone" is
                                          decided by the kernel (tgkill -> ESRCH), i.e. after the C library freed its TLS */
static int is_cond_slot(int j) { return !strcmp(part, "cond") || (!strcmp(part, "thread") && j == 2); }

static spif_thread_data_t worker(spif_thread_data_t self) {
    int i = (int) (long) spif_pthreads_get_data(SPIF_PTHREADS(self));
    __atomic_store_n(&wtid[i], (long) syscall(SYS_gettid), __ATOMIC_SEQ_CST);
    sem_wait(&park[i]);
    __atomic_store_n(&gone[i], 1, __ATOMIC_SEQ_CST);
    return NULL;
}
static void finish(int i) {
    pthread_t h = spif_pthreads_get_handle(T[i]);
    sem_post(&park[i]);
    if (detached[i]) {
        int n = 0; long tid;
        while (!(tid = __atomic_load_n(&wtid[i], __ATOMIC_SEQ_CST)) && n++ < 5000) usleep(200);
        for (n = 0; n < 20000 && tid && syscall(SYS_tgkill, (long) getpid(), tid, 0) == 0; n++) usleep(100);
    }
    else pthread_join(h, NULL);
    spif_pthreads_set_handle(T[i], (pthread_t) 0);          /* the handle is stale now; done() would signal it */
    detached[i] = 0; gone[i] = 0; wtid[i] = 0;
}
static void vh_begin(void) {
    int i;
    for (i = 1; i <= 2; i++) { T[i] = NULL; L[i] = NULL; detached[i] = 0; gone[i] = 0; sem_init(&park[i], 0, 0); }
}
static void vh_end(void) {
    int i;
    for (i = 1; i <= 2; i++) if (L[i]) { SPIF_OBJ_DEL(L[i]); L[i] = NULL; }
    for (i = 1; i <= 2; i++) if (T[i]) {
        if (spif_pthreads_get_handle(T[i])) finish(i);
        spif_pthreads_del(T[i]); T[i] = NULL;
    }
    for (i = 1; i <= 2; i++) sem_destroy(&park[i]);
}
static int really_locked(spif_obj_t o) {
    pthread_mutex_t *m = &SPIF_PTHREADS_MUTEX(o)->mutex;
    int e = pthread_mutex_trylock(m);
    if (e == 0) { pthread_mutex_unlock(m); return 0; }
    return 1;
}
static const char *tstate(int i) {
    if (!T[i]) return "none";
    if (spif_pthreads_get_handle(T[i])) return detached[i] ? "rund" : "run";
    return spif_pthreads_get_main_func(T[i]) ? "func" : "plain";
}
static void emit_cmp(vh_sb *ret, spif_cmp_t c, void *a, void *b) {
    if (c == SPIF_CMP_EQUAL) sb_puts(ret, "eq");
    else if (c == SPIF_CMP_FROM_INT((spif_ulong_t) a - (spif_ulong_t) b) || c == ((a < b) ? SPIF_CMP_LESS : SPIF_CMP_GREATER)) sb_puts(ret, "ord");
    else sb_printf(ret, "wrong-sign(%d)", (int) c);
}
static int show_ok(spif_str_t s, const char *needle) {
    int ok = !SPIF_STR_ISNULL(s) && SPIF_STR_STR(s) && strstr((const char *) SPIF_STR_STR(s), needle) != NULL;
    if (!SPIF_STR_ISNULL(s)) spif_str_del(s);
    return ok;
}
/* type() identifies the class: it returns the class object, whose first member is the class name text (as in small_replay.c) */
static int type_ok(spif_obj_t o, spif_class_t got, spif_class_t want, const char *name) {
    return got == want && SPIF_OBJ_CLASS(o) == want && want->classname && !strcmp((const char *) want->classname, name);
}
#define OP(s) (!strcmp(op, s))
static const char *vh_step(const vh_step_t *st, vh_sb *ret, vh_sb *state) {
    const char *op = st->op; int i = st->nargs ? atoi(st->args[0]) : 0, k = st->nargs > 1 ? atoi(st->args[1]) : 0, j = i, c;
    if (i < 1 || i > 2 || (st->nargs > 1 && (k < 1 || k > 2))) return "bad_slot";
    /* ---- thread objects */
    if (OP("t_new")) { T[i] = spif_pthreads_new(); sb_bool(ret, T[i] != NULL); }
    else if (OP("t_new_with_func")) { T[i] = spif_pthreads_new_with_func(worker, (spif_thread_data_t) (long) i); sb_bool(ret, T[i] != NULL); }
    else if (OP("t_init")) { sb_bool(ret, spif_pthreads_init(T[i])); }
    else if (OP("t_init_with_func")) { sb_bool(ret, spif_pthreads_init_with_func(T[i], worker, (spif_thread_data_t) (long) i)); }
    else if (OP("t_done")) { sb_bool(ret, spif_pthreads_done(T[i])); }
    else if (OP("t_del")) { sb_bool(ret, spif_pthreads_del(T[i])); T[i] = NULL; }
    else if (OP("t_dup")) {
        T[k] = spif_pthreads_dup(T[i]); sb_bool(ret, T[k] != NULL && T[k] != T[i]);
        if (T[k]) spif_pthreads_set_data(T[k], (spif_thread_data_t) (long) k);      /* the copy is a thread object of its own */
    }
    else if (OP("t_comp")) { emit_cmp(ret, spif_pthreads_comp(T[i], T[k]), T[i], T[k]); }
    else if (OP("t_comp_null")) { sb_int(ret, (long) spif_pthreads_comp(T[i], (spif_pthreads_t) NULL)); }
    else if (OP("t_type")) { sb_bool(ret, type_ok(SPIF_OBJ(T[i]), (spif_class_t) spif_pthreads_type(T[i]), SPIF_CLASS_VAR(pthreads), "!spif_pthreads_t!")); }
    else if (OP("t_show")) { sb_bool(ret, show_ok(spif_pthreads_show(T[i], (spif_charptr_t) "t", (spif_str_t) NULL, 0), "spif_pthreads_t")); }
    else if (OP("t_run")) { sb_bool(ret, spif_pthreads_run(T[i])); }
    else if (OP("t_kill0")) { sb_bool(ret, spif_pthreads_kill(T[i], 0)); }
    else if (OP("t_detach")) { spif_bool_t r = spif_pthreads_detach(T[i]); if (r && spif_pthreads_get_handle(T[i])) detached[i] = 1; sb_bool(ret, r); }
    else if (OP("t_finish")) { finish(i); sb_bool(ret, 1); }
    else if (OP("t_get_mutex")) { L[1] = spif_pthreads_get_mutex(T[i]); sb_bool(ret, L[1] != NULL); }
    else if (OP("t_get_condition")) { L[2] = spif_pthreads_get_condition(T[i]); sb_bool(ret, L[2] != NULL); }
    /* ---- lockables */
    else if (OP("l_new")) { L[j] = is_cond_slot(j) ? SPIF_OBJ(spif_pthreads_condition_new()) : SPIF_OBJ(spif_pthreads_mutex_new()); sb_bool(ret, L[j] != NULL); }
    else if (OP("l_init")) { sb_bool(ret, is_cond_slot(j) ? spif_pthreads_condition_init(SPIF_PTHREADS_CONDITION(L[j])) : spif_pthreads_mutex_init(SPIF_PTHREADS_MUTEX(L[j]))); }
    else if (OP("l_done")) { sb_bool(ret, SPIF_OBJ_DONE(L[j])); }
    else if (OP("l_del")) { sb_bool(ret, SPIF_OBJ_DEL(L[j])); L[j] = NULL; }
    else if (OP("l_dup")) { L[k] = SPIF_OBJ_DUP(L[j]); sb_bool(ret, L[k] != NULL && L[k] != L[j]); }
    else if (OP("l_comp")) { emit_cmp(ret, SPIF_OBJ_COMP(L[j], L[k]), L[j], L[k]); }
    else if (OP("l_comp_null")) {
        sb_int(ret, (long) (is_cond_slot(j) ? spif_pthreads_condition_comp(SPIF_PTHREADS_CONDITION(L[j]), NULL) : spif_pthreads_mutex_comp(SPIF_PTHREADS_MUTEX(L[j]), NULL)));
    }
    else if (OP("l_type")) {
        sb_bool(ret, is_cond_slot(j) ? type_ok(L[j], (spif_class_t) SPIF_OBJ_TYPE(L[j]), SPIF_CLASS(SPIF_CONDITIONCLASS_VAR(pthreads_condition)), "!spif_pthreads_condition_t!")
                                     : type_ok(L[j], (spif_class_t) SPIF_OBJ_TYPE(L[j]), SPIF_CLASS(SPIF_MUTEXCLASS_VAR(pthreads_mutex)), "!spif_pthreads_mutex_t!"));
    }
    else if (OP("l_show")) {
        spif_str_t s = is_cond_slot(j) ? spif_pthreads_condition_show(SPIF_PTHREADS_CONDITION(L[j]), (spif_charptr_t) "l", (spif_str_t) NULL, 0)
                                       : spif_pthreads_mutex_show(SPIF_PTHREADS_MUTEX(L[j]), (spif_charptr_t) "l", (spif_str_t) NULL, 0);
        sb_bool(ret, show_ok(s, is_cond_slot(j) ? "spif_pthreads_condition_t" : "spif_pthreads_mutex_t"));
    }
    else if (OP("l_lock")) { sb_bool(ret, spif_pthreads_mutex_lock(SPIF_PTHREADS_MUTEX(L[j]))); }
    else if (OP("l_try")) { sb_bool(ret, spif_pthreads_mutex_lock_nowait(SPIF_PTHREADS_MUTEX(L[j]))); }
    else if (OP("l_unlock")) { sb_bool(ret, spif_pthreads_mutex_unlock(SPIF_PTHREADS_MUTEX(L[j]))); }
    else if (OP("l_signal")) { sb_bool(ret, SPIF_CONDITION_SIGNAL(L[j])); }
    else if (OP("l_broadcast")) { sb_bool(ret, SPIF_CONDITION_BROADCAST(L[j])); }
    else if (OP("l_wait_timed")) { sb_bool(ret, SPIF_CONDITION_WAIT_TIMED(L[j], 1)); }
    else return "unknown_op";

    sb_puts(state, "{lo=[");
    for (j = 1; j <= 2; j++) {
        if (j > 1) sb_putc(state, ',');
        if (!L[j]) sb_puts(state, "{cr=9,lk=F}");
        else {
            spif_thread_t cr = spif_pthreads_mutex_get_creator(SPIF_PTHREADS_MUTEX(L[j]));
            c = !cr ? 0 : (cr == SPIF_THREAD(T[1]) ? 1 : (cr == SPIF_THREAD(T[2]) ? 2 : 8));
            sb_printf(state, "{cr=%d,lk=%c}", c, really_locked(L[j]) ? 'T' : 'F');
        }
    }
    sb_printf(state, "],th=[%s,%s]}", tstate(1), tstate(2));
    return NULL;
}

static spif_thread_data_t parked(spif_thread_data_t self) { (void) self; for (;;) pause(); return NULL; }
static int probe_done(void) {
    pid_t p = fork(); int st = 0;
    if (p == 0) {
        spif_pthreads_t t;
        signal(SIGTERM, SIG_DFL);
        t = spif_pthreads_new_with_func(parked, NULL);
        if (!t || !spif_pthreads_run(t)) _exit(9);
        usleep(20000);
        spif_pthreads_done(t);              /* the object of a thread that is still running is cleaned up */
        usleep(200000);
        _exit(0);
    }
    if (waitpid(p, &st, 0) != p) return 2;
    if (WIFSIGNALED(st)) printf("PROBE done-on-running-thread: process terminated by signal %d%s\n", WTERMSIG(st), WTERMSIG(st) == SIGTERM ? " (SIGTERM)" : "");
    else printf("PROBE done-on-running-thread: process survived, exit %d\n", WEXITSTATUS(st));
    return 0;
}

static void *warm(void *p) { usleep(2000); return p; }
/* Which wrappers have any effect at all?  One line "PROBE effect lock=.. try=.. unlock=.. wait=.. wait_timed=.. signal=..
 * broadcast=.. wait_for=..".  Used ONLY to label findings ("[no-effect wrapper]": the function is an empty stub) so that the
 * recorded known findings stop applying the moment a wrapper is implemented - the verdicts themselves are TLC's. */
static spif_pthreads_condition_t PC;
static int p_returned, p_woken, p_fin;
static void *p_waiter(void *timed) {            /* calls the WRAPPER's wait with the mutex raw-locked */
    pthread_mutex_lock(&SPIF_PTHREADS_MUTEX(PC)->mutex);
    if (timed) spif_pthreads_condition_wait_timed(PC, 100000); else spif_pthreads_condition_wait(PC);
    __atomic_store_n(&p_returned, 1, __ATOMIC_SEQ_CST);
    pthread_mutex_unlock(&SPIF_PTHREADS_MUTEX(PC)->mutex);        /* harmless if the wrapper left it unlocked */
    return NULL;
}
static void *p_sleeper(void *arg) {             /* waits RAW; woken by the WRAPPER's signal/broadcast? */
    (void) arg;
    pthread_mutex_lock(&SPIF_PTHREADS_MUTEX(PC)->mutex);
    __atomic_store_n(&p_returned, 1, __ATOMIC_SEQ_CST);           /* "asleep" (the mutex is released by the wait below) */
    pthread_cond_wait(&PC->cond, &SPIF_PTHREADS_MUTEX(PC)->mutex);
    __atomic_store_n(&p_woken, 1, __ATOMIC_SEQ_CST);
    pthread_mutex_unlock(&SPIF_PTHREADS_MUTEX(PC)->mutex);
    return NULL;
}
static spif_thread_data_t p_worker(spif_thread_data_t self) { (void) self; usleep(30000); __atomic_store_n(&p_fin, 1, __ATOMIC_SEQ_CST); return NULL; }
static int ld(int *p) { return __atomic_load_n(p, __ATOMIC_SEQ_CST); }
static int probe_wait(int timed) {
    pthread_t h; int blocks, n = 0;
    PC = spif_pthreads_condition_new(); p_returned = 0;
    pthread_create(&h, NULL, p_waiter, timed ? (void *) 1 : NULL);
    usleep(60000);
    blocks = !ld(&p_returned);
    while (!ld(&p_returned) && n++ < 2000) {                      /* wake it (raw) until it is gone */
        pthread_mutex_lock(&SPIF_PTHREADS_MUTEX(PC)->mutex); pthread_cond_broadcast(&PC->cond); pthread_mutex_unlock(&SPIF_PTHREADS_MUTEX(PC)->mutex);
        usleep(1000);
    }
    pthread_join(h, NULL);
    spif_pthreads_condition_del(PC);
    return blocks;
}
static int probe_wake(int bcast) {
    pthread_t h; int woke, n = 0;
    PC = spif_pthreads_condition_new(); p_returned = p_woken = 0;
    pthread_create(&h, NULL, p_sleeper, NULL);
    while (!ld(&p_returned) && n++ < 2000) usleep(500);
    pthread_mutex_lock(&SPIF_PTHREADS_MUTEX(PC)->mutex);          /* obtained only once the sleeper is inside pthread_cond_wait */
    if (bcast) spif_pthreads_condition_broadcast(PC); else spif_pthreads_condition_signal(PC);
    pthread_mutex_unlock(&SPIF_PTHREADS_MUTEX(PC)->mutex);
    for (n = 0; n < 200 && !ld(&p_woken); n++) usleep(1000);
    woke = ld(&p_woken);
    while (!ld(&p_woken)) { pthread_mutex_lock(&SPIF_PTHREADS_MUTEX(PC)->mutex); pthread_cond_broadcast(&PC->cond); pthread_mutex_unlock(&SPIF_PTHREADS_MUTEX(PC)->mutex); usleep(1000); }
    pthread_join(h, NULL);
    spif_pthreads_condition_del(PC);
    return woke;
}
static int probe_stubs(void) {
    spif_pthreads_mutex_t m = spif_pthreads_mutex_new(); spif_pthreads_t me, w;
    int lock, try_, unlock, wait_, twait, sig, bc, join;
    spif_pthreads_mutex_lock(m); lock = really_locked(SPIF_OBJ(m)); if (lock) pthread_mutex_unlock(&m->mutex);
    spif_pthreads_mutex_lock_nowait(m); try_ = really_locked(SPIF_OBJ(m)); if (try_) pthread_mutex_unlock(&m->mutex);
    pthread_mutex_lock(&m->mutex); spif_pthreads_mutex_unlock(m); unlock = !really_locked(SPIF_OBJ(m)); if (!unlock) pthread_mutex_unlock(&m->mutex);
    spif_pthreads_mutex_del(m);
    wait_ = probe_wait(0); twait = probe_wait(1); sig = probe_wake(0); bc = probe_wake(1);
    me = spif_pthreads_new(); w = spif_pthreads_new_with_func(p_worker, NULL); p_fin = 0;
    if (!spif_pthreads_run(w)) return 2;
    spif_pthreads_wait_for(me, w); join = ld(&p_fin);
    if (!join) pthread_join(spif_pthreads_get_handle(w), NULL);
    spif_pthreads_set_handle(w, (pthread_t) 0); spif_pthreads_del(w); spif_pthreads_del(me);
    printf("PROBE effect lock=%d try=%d unlock=%d wait=%d wait_timed=%d signal=%d broadcast=%d wait_for=%d\n", lock, try_, unlock, wait_, twait, sig, bc, join);
    return 0;
}
int main(int argc, char **argv) {
    if (argc >= 2 && !strcmp(argv[1], "probe-done")) return probe_done();
    if (argc >= 2 && !strcmp(argv[1], "probe-stubs")) return probe_stubs();
    if (argc < 3) return 2;
    part = argv[1];
    libast_set_program_name("thread_obj_replay");
    {   /* warm the C library's thread stack cache so that heap balance is not disturbed by the first pthread_create */
        pthread_t a, b;
        pthread_create(&a, NULL, warm, NULL); pthread_create(&b, NULL, warm, NULL);
        pthread_join(a, NULL); pthread_join(b, NULL);
    }
    return vh_main(argc, argv, 2);
}
