\* one instance of the table in checks/x03.py (thorough tier), for running TLC by hand
SPECIFICATION FairSpec
CONSTANTS
  Thr = {0, 1, 2, 3}
  Lk = {1, 2, 9}
  Cnd = {9}
  Impl = "ideal"
  Spurious = TRUE
  Pattern = "prodcons"
  NW = 3
  K = 2
  NP = 2
  Q = 4
  Obs <- ObsNone
INVARIANTS MCTypeOK QueuesDisjoint WaiterReleased OnlyLiveOwn BeliefSound MutualExclusion OneInCS CntNonNeg FinalCount JoinAfterFinish
PROPERTIES Termination NoLostWakeup
CHECK_DEADLOCK TRUE
