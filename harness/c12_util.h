/* Helpers shared by the C12 / C13 / C17 replay harnesses (pure-function cases emitted by TLC).
 * Texts travel as lists of character codes; every input handed to the library is an exact-size heap block
 * (bytes + NUL, nothing else) so that AddressSanitizer's redzones sit directly before byte 0 and behind the NUL. */
#ifndef VERIF_C12_UTIL_H
#define VERIF_C12_UTIL_H
#include "common.h"

/* "-" -> NULL, "[..]" -> exact-size NUL-terminated heap copy */
static unsigned char *cu_text(const char *t, size_t *len) {
    if (t[0] == '-' && t[1] == 0) { if (len) *len = 0; return NULL; }
    return vh_bytes(t, len, 1);
}

/* "[[97],[98,99],[]]" -> array of exact-size NUL-terminated heap strings, NULL-terminated array (exact size too) */
static unsigned char **cu_textlist(const char *t, int *count) {
    int n = 0, depth = 0, i; const char *p; unsigned char **out;
    for (p = t; *p; p++) {
        if (*p == '[') { depth++; if (depth == 2) n++; }
        else if (*p == ']') depth--;
    }
    out = (unsigned char **) malloc(sizeof(unsigned char *) * (size_t) (n + 1));
    i = 0;
    p = t;
    if (*p == '[') p++;
    while (*p && i < n) {
        if (*p == '[') {
            const char *e = strchr(p, ']'); size_t k = (size_t) (e - p) + 1; char *tmp = (char *) malloc(k + 1);
            memcpy(tmp, p, k); tmp[k] = 0;
            out[i++] = vh_bytes(tmp, NULL, 1);
            free(tmp);
            p = e + 1;
        } else p++;
    }
    out[n] = NULL;
    if (count) *count = n;
    return out;
}
static void cu_free_textlist(unsigned char **l) {
    int i;
    if (!l) return;
    for (i = 0; l[i]; i++) free(l[i]);
    free(l);
}

/* Reference-free alternative contents of the same length (never a NUL) for the adversarial prelude ("the same call made
 * just before on a buffer at the SAME address and of the same length but with different content"):
 *   0: the text reversed, every byte that would stay in place changed   1: blanks <-> non-blanks
 *   2: rotated left by one                                               3: a blank at every second place, 'a' elsewhere */
#define CU_ALTS 4
static void cu_alt_content(int variant, unsigned char *dst, const unsigned char *s, size_t len) {
    size_t i;
    for (i = 0; i < len; i++) {
        unsigned char c;
        switch (variant) {
          case 0: c = s[len - 1 - i]; if (c == s[i]) c = (unsigned char) ((c == 'x') ? ' ' : 'x'); break;
          case 1: c = (unsigned char) (isspace(s[i]) ? 'x' : ' '); break;
          case 2: c = s[(i + 1) % len]; break;
          default: c = (unsigned char) ((i & 1) ? ' ' : 'a'); break;
        }
        dst[i] = c;
    }
    dst[len] = 0;
}

/* NUL-terminated C string as [codes] */
static void sb_cstr(vh_sb *b, const unsigned char *s) {
    if (!s) { sb_putc(b, '-'); return; }
    sb_bytes(b, s, strlen((const char *) s));
}

#endif
