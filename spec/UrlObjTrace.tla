------------------------------ MODULE UrlObjTrace ------------------------------
(* Trace validation for C14: every recorded call on a real URL object (op, args, returned value, the full    *)
(* projected state of both slots) must be a step of UrlObj.  Used for the seeded random byte strings, which   *)
(* TLC cannot enumerate: TLC evaluates Parse / Unparse on each recorded text.  The file named by env TRACE     *)
(* holds one JSON object per line; {"op":"reset"} starts a new execution.                                      *)
EXTENDS UrlObj, IOUtils
VARIABLE l
Tr == ndJsonDeserialize(IOEnv.TRACE)

ObsTrace(op, args, ret, post) ==
    /\ op = Tr[l].op /\ args = Tr[l].args /\ ret = Tr[l].ret /\ post = Tr[l].post

TraceInit == Init /\ l = 1
ev == Tr[l]
TraceStep ==
    /\ l <= Len(Tr)
    /\ l' = l + 1
    /\ \/ ev.op = "reset" /\ a' = NoObj /\ b' = NoObj /\ fresh' = FALSE
       \/ ev.op = "parse" /\ OpParse(ev.args[1], ev.args[2])
       \/ ev.op = "new" /\ OpNew
       \/ ev.op = "set" /\ OpSet(ev.args[1], ev.args[2])
       \/ ev.op = "unparse" /\ OpUnparse
       \/ ev.op = "dup" /\ OpDup
       \/ ev.op = "reparse" /\ OpReparse(ev.args[1])
       \/ ev.op = "b_del" /\ OpDelB
       \/ ev.op = "del" /\ OpDel
       \/ ev.op = "adopt" /\ OpAdopt
TraceSpec == TraceInit /\ [][TraceStep]_<<vars, l>>
\* accepted iff every line was consumed: diameter counts the initial state plus one state per line
TraceAccepted == \/ TLCGet("stats").diameter - 1 = Len(Tr)
                 \/ PrintT(<<"TRACE_REJECTED_AFTER", TLCGet("stats").diameter - 1, "OF", Len(Tr)>>) /\ FALSE
NoPartsT == [proto |-> {}, user |-> {}, passwd |-> {}, host |-> {}, port |-> {}, path |-> {}, query |-> {}]
NoTextsT == {}
================================================================================
