SPECIFICATION TraceSpec
CONSTANTS
  Keys = {}
  Seeds = {}
  Obs <- ObsTrace
POSTCONDITION TraceAccepted
CHECK_DEADLOCK FALSE
