"""Direction (B): validating recorded executions of the implementation against a trace specification."""
import os, json, re
from .tlc import run_tlc
from .core import Broken, log


def validate(ctx, module, cfg, events, tag="t", timeout=1800, heap="8g", depth_first=False):
    """events: list of JSON-able dicts, one per recorded call.  Returns (accepted, n_consumed)."""
    path = os.path.join(ctx.rundir, "trace-%s-%d.ndjson" % (tag, os.getpid()))
    with open(path, "w") as f:
        for e in events:
            f.write(json.dumps(e, separators=(",", ":")) + "\n")
    res = run_tlc(module, cfg, ctx.rundir, workers=1, timeout=timeout, env={"TRACE": path}, heap=heap,
                  depth_first=depth_first, coverage=False)
    txt = "\n".join(res.tail)
    m = re.search(r'"TRACE_REJECTED_AFTER", (\d+), "OF", (\d+)', txt)
    if m:
        return False, int(m.group(1)), path
    if res.ok:
        return True, len(events), path
    # some other error (e.g. evaluation error inside an action): report position if TLC printed it
    raise Broken("trace validation run failed without a verdict (%s):\n%s" % (module, "\n".join(res.tail[-30:])))
