SPECIFICATION Spec
CONSTANTS
  NE = 5
  MaxLen = 6
  BDepth = 2
  Obs <- ObsEmit
INVARIANTS TypeOK Sorted BagConservation FindIffPresent FillLaw IterLaw
PROPERTIES MutatorsOnly SlotsIndependent DupIsEqual
CHECK_DEADLOCK FALSE
