----------------------------- MODULE MC_ConfParse -----------------------------
(* Bounded models of ConfParse for TLC: alphabets of the enumerated file families, the            *)
(* configurations (registered contexts x null-handler mode x family) and the behaviour emitter:   *)
(* one JSON line per complete behaviour (input file tree, expected handler calls, return value,   *)
(* final table indices).                                                                          *)
EXTENDS ConfParse, Json

Inc(f) == IncLine(f)
AlphaBase == {
    L(<<35, 32, 99>>),                                   \* '# c'
    L(<<98, 101, 103, 105, 110, 32, 65>>),               \* 'begin A'
    L(<<98, 101, 103, 105, 110, 32, 122, 122>>),         \* 'begin zz'
    L(<<101, 110, 100>>),                                \* 'end'
    L(<<32, 97, 108, 112, 104, 97, 32, 49, 32>>),        \* ' alpha 1 '
    L(<<98, 101, 116, 97>>),                             \* 'beta'
    Inc(2) }                                             \* '%include f002.cfg'
AlphaInc == {
    L(<<98, 101, 116, 97>>),                             \* 'beta'
    L(<<98, 101, 103, 105, 110, 32, 65>>),               \* 'begin A'
    L(<<101, 110, 100>>) }                               \* 'end'
AlphaLeaf == { L(<<103, 97, 109, 109, 97>>), L(<<101, 110, 100>>) }      \* 'gamma', 'end'
AlphaRich == {
    L(<<>>),                                             \* ''
    L(<<32, 32, 32>>),                                   \* '   '
    L(<<32, 32, 35, 32, 99>>),                           \* '  # c'
    L(<<60, 120, 62>>),                                  \* '<x>'
    L(<<98, 101, 103, 105, 110, 32, 32, 66, 32, 32, 101, 120, 116, 114, 97>>),   \* 'begin  B  extra'
    L(<<98, 101, 103, 73, 78, 32, 97>>),                 \* 'begIN a'
    L(<<66, 101, 103, 105, 110, 32, 65>>),               \* 'Begin A'      (ordinary: capital first letter)
    L(<<98, 101, 103, 105, 110>>),                       \* 'begin'        (ordinary: no context word)
    L(<<98, 101, 103, 105, 110, 9, 65>>),                \* 'begin\tA'     (ordinary: keyword needs a blank)
    L(<<101, 110, 100, 32, 111, 102, 32, 105, 116>>),    \* 'end of it'
    L(<<69, 78, 68>>),                                   \* 'END'          (ordinary)
    L(<<101, 78, 100>>),                                 \* 'eNd'
    L(<<101, 110, 100, 101, 114>>),                      \* 'ender'        (ordinary)
    L(<<37, 112, 117, 116, 40, 107, 32, 118, 41>>),      \* '%put(k v)'
    L(<<37>>),                                           \* '%'
    L(<<37, 105, 110, 99, 108, 117, 100, 101>>),         \* '%include'     (directive: no file word)
    L(<<37, 105, 110, 99, 108, 117, 100, 101, 32, 110, 111, 102, 105, 108, 101>>),   \* '%include nofile'
    Inc(4),                                              \* a file without the magic line
    Inc(5),                                              \* an empty file
    Inc(2),
    L(<<9, 98, 101, 116, 97, 9>>),                       \* '\tbeta\t'
    L(<<115, 107, 105, 112, 109, 101>>),                 \* 'skipme'
    L(<<98, 101, 103, 105, 110, 32, 110, 117, 108, 108>>),   \* 'begin null'
    L(<<98, 101, 103, 105, 110, 32, 65>>),               \* 'begin A'
    L(<<101, 110, 100>>),                                \* 'end'
    L(<<37, 112, 114, 101, 112, 114, 111, 99, 32, 99, 97, 116>>),    \* '%preproc cat'  (outside the universe: spawns)
    L(<<103, 97, 109, 109, 97>>) }                       \* 'gamma'
AlphaMid == AlphaInc \cup {Inc(3), L(<<115, 107, 105, 112, 109, 101>>)}

AlphaMC(a, f) ==
    CASE a = "base"  -> (IF f = 1 THEN AlphaBase ELSE AlphaInc)
      [] a = "rich"  -> (IF f = 1 THEN AlphaRich ELSE AlphaLeaf)
      [] a = "deep"  -> (CASE f = 1 -> AlphaBase [] f = 2 -> AlphaMid [] OTHER -> AlphaLeaf)

Cfg(fam, n, regfam, nreg, nullmode, kinds, maxlen, alpha) ==
    [fam |-> fam, n |-> n, regfam |-> regfam, nreg |-> nreg, names |-> <<>>, nullmode |-> nullmode,
     kinds |-> kinds, maxlen |-> maxlen, alpha |-> alpha, content |-> <<>>]
Fam(fam, n) == Cfg(fam, n, "AB", 0, "first", <<"ok">>, <<0>>, "none")
RegModes == {<<"none", 0>>, <<"A", 0>>, <<"AB", 0>>, <<"many", 30>>}
NullModes == {"builtin", "first", "last"}
K5 == <<"ok", "ok", "ok", "badmagic", "empty">>

EnumAll(m1, m2) == {Cfg("enum", 0, r[1], r[2], nm, <<"ok", "ok">>, <<m1, m2>>, "base") : r \in RegModes, nm \in NullModes}
NestNs  == {9, 10, 11, 19, 20, 21, 39, 40, 41, 79, 80, 81, 159, 160, 161, 254, 255}
ChainNs == {8, 9, 10, 11, 19, 20, 39, 40, 79, 80, 159, 160, 161, 253, 254}
RegNs   == {19, 20, 21, 39, 40, 79, 80, 159, 160, 161, 254, 255}
LongNs  == {20477, 20478, 20479, 20480, 20481, 40957, 40958, 40959, 41000}
Families(nest, chain, regs) ==
    {Fam("nest", n) : n \in nest} \cup {Fam("unbal", n) : n \in {19, 20, 21, 160, 255}}
    \cup {Fam("chain", n) : n \in chain} \cup {Fam("long", n) : n \in LongNs}
    \cup {Cfg("reg", 0, "many", n, nm, <<"ok">>, <<0>>, "none") : n \in regs, nm \in {"first", "last"}}
    \cup {Cfg("enum", 0, "A", 0, "first", <<k>>, <<0>>, "base") : k \in {"missing", "badmagic", "empty"}}

ConfigsQuickEnum ==
    {Cfg("enum", 0, "A", 0, "first", <<"ok", "ok">>, <<5, 2>>, "base")}
    \cup EnumAll(3, 2)
    \cup {Cfg("enum", 0, "AB", 0, "first", K5, <<2, 1, 0, 0, 0>>, "rich")}
ConfigsQuickFam == Families(NestNs, ChainNs, RegNs)
ConfigsThoroughEnum ==
    {Cfg("enum", 0, "A", 0, "first", <<"ok", "ok">>, <<6, 2>>, "base")}
    \cup {Cfg("enum", 0, "AB", 0, "first", <<"ok", "ok", "ok">>, <<4, 2, 1>>, "deep")}
    \cup EnumAll(4, 2)
    \cup {Cfg("enum", 0, "AB", 0, nm, K5, <<3, 1, 0, 0, 0>>, "rich") : nm \in {"first", "builtin"}}
ConfigsThoroughFam == Families(1 .. 255, 1 .. 254, 2 .. 255)
\* the pinned mechanism (CapMod = 256): TLC must find the capacity wrap by itself
ConfigsAsBuilt == {Fam("nest", 161), Fam("chain", 161), Cfg("reg", 0, "many", 161, "first", <<"ok">>, <<0>>, "none")}

\* the scanner, tabulated once for the lines of the alphabets and families (TLC caches constant definitions)
KnownLines == AlphaBase \cup AlphaInc \cup AlphaLeaf \cup AlphaRich \cup AlphaMid \cup {T1, T2, L(S_end)}
              \cup {BeginOf(k) : k \in 1 .. 3} \cup {IncLine(f) : f \in 1 .. 255}
ScanTab == [l \in KnownLines |-> Scan(l)]
ScMC(l) == IF l \in KnownLines THEN ScanTab[l] ELSE Scan(l)

ObsEmit(op, input, ret, post) == PrintT(ToJson([op |-> op, input |-> input, ret |-> ret, post |-> post]))
================================================================================
