----------------------------- MODULE MC_ConfParse -----------------------------
(* Bounded models of ConfParse for TLC: the table of lines (files hold indices into it), the      *)
(* alphabets of the enumerated file families, the parametric families (nesting, include chains,   *)
(* over-long lines, many registrations), the configurations (registered contexts x null-handler   *)
(* mode x family) and the behaviour emitter: one JSON line per complete behaviour (input file     *)
(* tree, expected handler calls, return value, final table indices).                              *)
EXTENDS ConfParse, Json

LongNs == <<20477, 20478, 20479, 20480, 20481, 40957, 40958, 40959, 41000>>
LineTab == <<
    L(<<35, 32, 99>>),                                   \*  1 '# c'
    L(<<98, 101, 103, 105, 110, 32, 65>>),               \*  2 'begin A'
    L(<<98, 101, 103, 105, 110, 32, 122, 122>>),         \*  3 'begin zz'
    L(<<101, 110, 100>>),                                \*  4 'end'
    L(<<32, 97, 108, 112, 104, 97, 32, 49, 32>>),        \*  5 ' alpha 1 '
    L(<<98, 101, 116, 97>>),                             \*  6 'beta'
    L(<<103, 97, 109, 109, 97>>),                        \*  7 'gamma'
    L(<<115, 107, 105, 112, 109, 101>>),                 \*  8 'skipme'
    L(<<98, 101, 103, 105, 110, 32, 66>>),               \*  9 'begin B'
    L(<<>>),                                             \* 10 ''
    L(<<32, 32, 32>>),                                   \* 11 '   '
    L(<<32, 32, 35, 32, 99>>),                           \* 12 '  # c'
    L(<<60, 120, 62>>),                                  \* 13 '<x>'
    L(<<98, 101, 103, 105, 110, 32, 32, 66, 32, 32, 101, 120, 116, 114, 97>>),   \* 14 'begin  B  extra'
    L(<<98, 101, 103, 73, 78, 32, 97>>),                 \* 15 'begIN a'
    L(<<66, 101, 103, 105, 110, 32, 65>>),               \* 16 'Begin A'      (ordinary: capital first letter)
    L(<<98, 101, 103, 105, 110>>),                       \* 17 'begin'        (ordinary: no context word)
    L(<<98, 101, 103, 105, 110, 9, 65>>),                \* 18 'begin\tA'     (ordinary: the keyword needs a blank)
    L(<<101, 110, 100, 32, 111, 102, 32, 105, 116>>),    \* 19 'end of it'
    L(<<69, 78, 68>>),                                   \* 20 'END'          (ordinary)
    L(<<101, 78, 100>>),                                 \* 21 'eNd'
    L(<<101, 110, 100, 101, 114>>),                      \* 22 'ender'        (ordinary)
    L(<<37, 112, 117, 116, 40, 107, 32, 118, 41>>),      \* 23 '%put(k v)'
    L(<<37>>),                                           \* 24 '%'
    L(<<37, 105, 110, 99, 108, 117, 100, 101>>),         \* 25 '%include'     (directive: no file word)
    L(<<37, 105, 110, 99, 108, 117, 100, 101, 32, 110, 111, 102, 105, 108, 101>>),   \* 26 '%include nofile'
    L(<<9, 98, 101, 116, 97, 9>>),                       \* 27 '\tbeta\t'
    L(<<98, 101, 103, 105, 110, 32, 110, 117, 108, 108>>),   \* 28 'begin null'
    L(<<37, 112, 114, 101, 112, 114, 111, 99, 32, 99, 97, 116>>)   \* 29 '%preproc cat' (outside the universe: spawns)
    >>
    \o [f \in 1 .. 255 |-> IncLine(f)]                                   \* 29 + f    '%include f<f>.cfg'
    \o [i \in 1 .. 255 |-> L(S_begin_ \o CtxName(i))]                    \* 284 + i   'begin c<i>'
    \o [j \in 1 .. Len(LongNs) |-> [x |-> LongNs[j], t |-> <<>>]]        \* 539 + j   x^n
Inc(f)    == 29 + f
BeginC(i) == 284 + i
Long(n)   == 539 + (CHOOSE j \in 1 .. Len(LongNs) : LongNs[j] = n)
ScanTab   == [i \in 1 .. Len(LineTab) |-> Scan(LineTab[i])]      \* constant: TLC evaluates it once
LineMC(e) == LineTab[e]
ScMC(e)   == ScanTab[e]

AlphaBase == {1, 2, 3, 4, 5, 6, Inc(2)}
AlphaInc  == {6, 2, 4}
AlphaLeaf == {7, 4}
AlphaMid  == AlphaInc \cup {Inc(3), 8}
AlphaRich == (10 .. 29) \cup {2, 4, 7, 8, Inc(2), Inc(4), Inc(5)}     \* Inc(4): a file without the magic line, Inc(5): an empty file
AlphaMC(a, f) ==
    CASE a = "base"  -> (IF f = 1 THEN AlphaBase ELSE AlphaInc)
      [] a = "rich"  -> (IF f = 1 THEN AlphaRich ELSE AlphaLeaf)
      [] a = "deep"  -> (CASE f = 1 -> AlphaBase [] f = 2 -> AlphaMid [] OTHER -> AlphaLeaf)

(* parametric families *)
T1 == 5
T2 == 6
END == 4
BeginOf(k) == CASE k % 3 = 1 -> 2 [] k % 3 = 2 -> 9 [] OTHER -> 3        \* begin A, begin B, begin zz in turn
FixedLenMC(c, f) ==
    CASE c.fam = "nest"  -> 4 * c.n                     \* (begin text1)^n (end text2)^n
      [] c.fam = "unbal" -> c.n + 1                     \* begin^n text1
      [] c.fam = "chain" -> IF f <= c.n THEN 3 ELSE 1   \* file k: text1, %include file k+1, text2; the last file: text1
      [] c.fam = "long"  -> 3                           \* text1, x^n, text2
      [] c.fam = "reg"   -> 9                           \* begin <last registered> text1 end begin <second> text1 end begin <unknown> text1 end
                                                        \* (the three kinds of lookup - late hit, early hit, miss - at every table size)
      [] OTHER -> 0
FixedLineMC(c, f, i) ==
    CASE c.fam = "nest"  -> IF i <= 2 * c.n THEN (IF i % 2 = 1 THEN BeginOf((i + 1) \div 2) ELSE T1)
                            ELSE (IF i % 2 = 1 THEN END ELSE T2)
      [] c.fam = "unbal" -> IF i <= c.n THEN BeginOf(i) ELSE T1
      [] c.fam = "chain" -> IF f <= c.n THEN (CASE i = 1 -> T1 [] i = 2 -> Inc(f + 1) [] OTHER -> T2) ELSE T1
      [] c.fam = "long"  -> (CASE i = 1 -> T1 [] i = 2 -> Long(c.n) [] OTHER -> T2)
      [] c.fam = "reg"   -> (CASE i = 1 -> BeginC(c.nreg) [] i = 4 -> BeginC(2) [] i = 7 -> 3 [] i \in {2, 5, 8} -> T1 [] OTHER -> END)

P_libast == <<108, 105, 98, 97, 115, 116>>        \* "libast"
P_tsabil == <<116, 115, 97, 98, 105, 108>>        \* "tsabil"  (same length: the replaced name string may land at the same address)
P_Eterm  == <<69, 116, 101, 114, 109>>            \* "Eterm"
P_long   == <<109, 121, 45, 99, 111, 110, 102, 105, 103, 117, 114, 97, 116, 111, 114>>   \* "my-configurator"
WithProg(c, p) == [c EXCEPT !.prog = p]
\* the program name is a process-wide setting: behaviours of different configurations are replayed by the same harness
\* processes in TLC's emission order, so the name changes between parses all the time
ProgOfNull(nm) == CASE nm = "builtin" -> P_libast [] nm = "first" -> P_tsabil [] OTHER -> P_long
Cfg(fam, n, regfam, nreg, nullmode, kinds, maxlen, alpha) ==
    [fam |-> fam, n |-> n, regfam |-> regfam, nreg |-> nreg, names |-> <<>>, nullmode |-> nullmode, prog |-> P_libast, magic |-> <<>>, env |-> [home |-> <<>>, vname |-> <<>>, vval |-> <<>>],
     kinds |-> kinds, maxlen |-> maxlen, alpha |-> alpha, content |-> <<>>]
Fam(fam, n) == Cfg(fam, n, "AB", 0, "first", <<"ok">>, <<0>>, "none")
RegModes == {<<"none", 0>>, <<"A", 0>>, <<"AB", 0>>, <<"many", 30>>}
NullModes == {"builtin", "first", "last"}
K5 == <<"ok", "ok", "ok", "badmagic", "empty">>
\* the classifier-alphabet configurations run under another program name; file 4 exists and carries the magic line of the
\* PREVIOUS program name (libast), file 5 is empty
K5f == <<"ok", "ok", "ok", "ok", "empty">>
Rich(nm, maxlen) == [WithProg(Cfg("enum", 0, "AB", 0, nm, K5f, maxlen, "rich"), P_Eterm) EXCEPT !.magic = <<P_Eterm, P_Eterm, P_Eterm, P_libast, P_Eterm>>]

EnumAll(m1, m2) == {WithProg(Cfg("enum", 0, r[1], r[2], nm, <<"ok", "ok">>, <<m1, m2>>, "base"), ProgOfNull(nm)) : r \in RegModes, nm \in NullModes}
NestNs  == {9, 10, 11, 19, 20, 21, 39, 40, 41, 79, 80, 81, 159, 160, 161, 254, 255}
ChainNs == {8, 9, 10, 11, 19, 20, 39, 40, 79, 80, 159, 160, 161, 253, 254}
RegNs   == {19, 20, 21, 39, 40, 79, 80, 159, 160, 161, 254, 255}
Families(nest, chain, regs) ==
    {Fam("nest", n) : n \in nest} \cup {Fam("unbal", n) : n \in {19, 20, 21, 160, 255}}
    \cup {Fam("chain", n) : n \in chain} \cup {Fam("long", LongNs[j]) : j \in 1 .. Len(LongNs)}
    \cup {Cfg("reg", 0, "many", n, nm, <<"ok">>, <<0>>, "none") : n \in regs, nm \in {"first", "last"}}
    \cup {Cfg("enum", 0, "A", 0, "first", <<k>>, <<0>>, "base") : k \in {"missing", "badmagic", "empty"}}

ConfigsQuickEnum ==
    {Cfg("enum", 0, "A", 0, "first", <<"ok", "ok">>, <<5, 2>>, "base")}
    \cup EnumAll(3, 2)
    \cup {Rich("first", <<2, 1, 0, 0, 0>>)}
ConfigsQuickFam == Families(NestNs, ChainNs, RegNs)
ConfigsThoroughEnum ==
    {Cfg("enum", 0, "A", 0, "first", <<"ok", "ok">>, <<6, 2>>, "base")}
    \cup {Cfg("enum", 0, "AB", 0, "first", <<"ok", "ok", "ok">>, <<4, 2, 1>>, "deep")}
    \cup EnumAll(4, 2)
    \cup {Rich(nm, <<3, 1, 0, 0, 0>>) : nm \in {"first", "builtin"}}
ConfigsThoroughFam == Families(1 .. 255, 1 .. 254, 3 .. 255)
\* the small set of behaviours that the C11 driver re-runs under its own instruments (spawn refusal, heap balance)
ConfigsC11 == {Cfg("enum", 0, "A", 0, "first", <<"ok", "ok">>, <<3, 2>>, "base"),
               Rich("last", <<2, 1, 0, 0, 0>>)}
               \cup {Fam("nest", n) : n \in {21, 161, 255}} \cup {Fam("chain", n) : n \in {21, 161, 254}}
\* the pinned mechanism (CapMod = 256): TLC must find the capacity wrap by itself
ConfigsAsBuilt == {Fam("nest", 161), Fam("chain", 161), Cfg("reg", 0, "many", 161, "first", <<"ok">>, <<0>>, "none")}

ObsEmit(op, input, ret, post) == PrintT(ToJson([op |-> op, input |-> input, ret |-> ret, post |-> post]))
================================================================================
