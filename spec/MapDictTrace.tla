------------------------------ MODULE MapDictTrace ------------------------------
(* Trace validation for C03: every recorded call of a real map object (op, args, returned value,   *)
(* full projected state) must be a step of MapDict.  The file named by env TRACE holds one JSON     *)
(* object per line; {"op":"reset"} starts a new execution.  An event without a "post" field was     *)
(* recorded with a projected state identical to the one of the previous event of that execution:    *)
(* the specification must then not move either.                                                      *)
EXTENDS MapDict, IOUtils
VARIABLE l
Tr == ndJsonDeserialize(IOEnv.TRACE)

ObsTrace(op, args, ret, post) ==
    /\ op = Tr[l].op /\ args = Tr[l].args /\ ret = Tr[l].ret
    /\ IF "post" \in DOMAIN Tr[l] THEN post = Tr[l].post ELSE post = Pre

TraceInit == Init /\ l = 1
ev == Tr[l]
TraceStep ==
    /\ l <= Len(Tr)
    /\ l' = l + 1
    /\ \/ ev.op = "reset" /\ a' = EmptyMap /\ b' = EmptyMap /\ bl' = FALSE /\ it' = NIL /\ held' = 0
       \/ ev.op = "set" /\ OpSet(ev.args[1], ev.args[2], ev.args[3], ev.args[4])
       \/ ev.op = "set_pair" /\ OpSetPair(ev.args[1], ev.args[2], ev.args[3], ev.args[4])
       \/ ev.op = "set_keep" /\ OpSetKeep(ev.args[1], ev.args[2], ev.args[3], ev.args[4])
       \/ ev.op = "caller_mutates" /\ OpCallerMutates
       \/ ev.op = "caller_deletes" /\ OpCallerDeletes
       \/ ev.op = "set_from" /\ OpSetFrom(ev.args[1], ev.args[2])
       \/ ev.op = "set_component" /\ OpSetComponent(ev.args[1], ev.args[2])
       \/ ev.op = "set_own_pair" /\ OpSetOwnPair(ev.args[1])
       \/ ev.op = "set_own_key" /\ OpSetOwnKey(ev.args[1], ev.args[2], ev.args[3])
       \/ ev.op = "remove_own_key" /\ OpRemoveOwnKey(ev.args[1])
       \/ ev.op = "fill_set" /\ OpFillSet(ev.args[1], ev.args[2], ev.args[3], ev.args[4], ev.args[5])
       \/ ev.op = "remove" /\ OpRemove(ev.args[1], ev.args[2])
       \/ ev.op = "done" /\ OpDone
       \/ ev.op = "get" /\ OpGet(ev.args[1], ev.args[2])
       \/ ev.op = "has_key" /\ OpHasKey(ev.args[1], ev.args[2])
       \/ ev.op = "has_value" /\ OpHasValue(ev.args[1], ev.args[2])
       \/ ev.op = "count" /\ OpCount
       \/ ev.op = "get_keys" /\ OpGetKeys(ev.args[1], ev.args[2], ev.args[3])
       \/ ev.op = "get_values" /\ OpGetValues(ev.args[1], ev.args[2], ev.args[3])
       \/ ev.op = "get_pairs" /\ OpGetPairs(ev.args[1], ev.args[2], ev.args[3])
       \/ ev.op = "iter_new" /\ OpIterNew
       \/ ev.op = "iter_has_next" /\ OpIterHasNext
       \/ ev.op = "iter_next" /\ OpIterNext
       \/ ev.op = "iter_del" /\ OpIterDel
       \/ ev.op = "dup" /\ OpDup
       \/ ev.op = "b_del" /\ OpDelB
       \/ ev.op = "b_set" /\ OpBSet(ev.args[1], ev.args[2])
       \/ ev.op = "b_remove" /\ OpBRemove(ev.args[1])
       \/ ev.op = "b_get" /\ OpBGet(ev.args[1])
       \/ ev.op = "adopt" /\ OpAdopt
TraceSpec == TraceInit /\ [][TraceStep]_<<vars, l>>
\* accepted iff every line was consumed: diameter counts the initial state plus one state per line
TraceAccepted == \/ TLCGet("stats").diameter - 1 = Len(Tr)
                 \/ PrintT(<<"TRACE_REJECTED_AFTER", TLCGet("stats").diameter - 1, "OF", Len(Tr)>>) /\ FALSE
TraceLen == Len(Tr)
================================================================================
