/* C18: native copies of the step / finish operators of spec/Hashes.tla and their folds, for keys TLC cannot enumerate
 * (2^31 .. 2^32 bytes).  They are NOT an independent oracle: every operator here is bound to the operator of the same
 * name in Hashes.tla by the "steps" vectors TLC emits (OpSteps), and every whole-key fold is compared by hash_replay.c
 * with TLC's value on EVERY vector and every recorded long-key event (disagreement = machinery error, exit 2).  The
 * folding itself is law FoldLaw of the spec.  Lengths are 64-bit here; nothing is truncated.
 * Not instrumented by ASan (speed; the library's own reads are).
 */
#ifndef C18_REF_H
#define C18_REF_H
#include <stdint.h>

#define C18_NOSAN __attribute__((no_sanitize("address")))
#define C18_LIB_RANDOM 0xf721b64dU      /* LIB_RANDOM */
#define C18_FNV_PRIME  16777619U        /* FNV_PRIME */
#define C18_FNV_BASIS  2166136261U      /* FNV_BASIS */

/* Mix(a0, b0, c0) */
#define C18_MIX(a, b, c) do { \
    a = (a - b - c) ^ (c >> 13); b = (b - c - a) ^ (a << 8);  c = (c - a - b) ^ (b >> 13); \
    a = (a - b - c) ^ (c >> 12); b = (b - c - a) ^ (a << 16); c = (c - a - b) ^ (b >> 5); \
    a = (a - b - c) ^ (c >> 3);  b = (b - c - a) ^ (a << 10); c = (c - a - b) ^ (b >> 15); } while (0)

static inline uint32_t c18_oaat_step(uint32_t h, uint8_t byte) { h += byte; h += h << 10; h ^= h >> 6; return h; }
static inline uint32_t c18_oaat_fin(uint32_t h) { h += h << 3; h ^= h >> 11; h += h << 15; return h; }
static inline uint32_t c18_rot_step(uint32_t h, uint8_t byte) { return (h << 4) ^ (h >> 28) ^ byte; }
static inline uint32_t c18_rot_fin(uint32_t h) { return h ^ (h >> 10) ^ (h >> 20); }
static inline uint32_t c18_fnv1a_step(uint32_t h, uint8_t byte) { return (h ^ byte) * C18_FNV_PRIME; }
static inline uint32_t c18_word_le(const uint8_t *k) { return k[0] | ((uint32_t) k[1] << 8) | ((uint32_t) k[2] << 16) | ((uint32_t) k[3] << 24); }

/* Lookup2Gen(k, init, g, "bytes", lt) */
C18_NOSAN static uint32_t c18_lookup2(const uint8_t *k, uint64_t n, uint32_t init, uint32_t g, uint32_t lt)
{
    uint32_t a = g, b = g, c = init; uint64_t rem = n;
    while (rem >= 12) {                                   /* L2Blocks */
        a += c18_word_le(k); b += c18_word_le(k + 4); c += c18_word_le(k + 8);
        C18_MIX(a, b, c);
        k += 12; rem -= 12;
    }
    c += lt;
    if (rem >= 11) c += (uint32_t) k[10] << 24;           /* L2Tail: case n runs iff rem >= n */
    if (rem >= 10) c += (uint32_t) k[9] << 16;
    if (rem >= 9)  c += (uint32_t) k[8] << 8;
    if (rem >= 8)  b += (uint32_t) k[7] << 24;
    if (rem >= 7)  b += (uint32_t) k[6] << 16;
    if (rem >= 6)  b += (uint32_t) k[5] << 8;
    if (rem >= 5)  b += k[4];
    if (rem >= 4)  a += (uint32_t) k[3] << 24;
    if (rem >= 3)  a += (uint32_t) k[2] << 16;
    if (rem >= 2)  a += (uint32_t) k[1] << 8;
    if (rem >= 1)  a += k[0];
    C18_MIX(a, b, c);
    return c;
}
C18_NOSAN static uint32_t c18_oaat(const uint8_t *k, uint64_t n, uint32_t init)
{ uint32_t h = init; uint64_t i; for (i = 0; i < n; i++) h = c18_oaat_step(h, k[i]); return c18_oaat_fin(h); }
C18_NOSAN static uint32_t c18_rot(const uint8_t *k, uint64_t n, uint32_t init)
{ uint32_t h = init; uint64_t i; for (i = 0; i < n; i++) h = c18_rot_step(h, k[i]); return c18_rot_fin(h); }
C18_NOSAN static uint32_t c18_fnv1a(const uint8_t *k, uint64_t n, uint32_t hval)
{ uint32_t h = hval; uint64_t i; for (i = 0; i < n; i++) h = c18_fnv1a_step(h, k[i]); return h; }

/* Ref<Fn>(key, seed) of Hashes.tla; nunits = bytes, or words for jenkins32 (Jenkins32Law: hash2 = Lookup2Gen over the
 * little-endian image with the length term counted in words) */
C18_NOSAN static uint32_t c18_ref(const char *op, const uint8_t *k, uint64_t nunits, uint32_t seed)
{
    if (!strcmp(op, "jenkins") || !strcmp(op, "jenkinsLE")) return c18_lookup2(k, nunits, seed, C18_LIB_RANDOM, (uint32_t) nunits);
    if (!strcmp(op, "jenkins32")) return c18_lookup2(k, nunits * 4, seed, C18_LIB_RANDOM, (uint32_t) nunits);
    if (!strcmp(op, "rotating")) return c18_rot(k, nunits, seed ? seed : C18_LIB_RANDOM);
    if (!strcmp(op, "one_at_a_time")) return c18_oaat(k, nunits, seed ? seed : C18_LIB_RANDOM);
    return c18_fnv1a(k, nunits, seed ? seed : C18_FNV_BASIS);
}
#endif
