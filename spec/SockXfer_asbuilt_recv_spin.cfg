SPECIFICATION Spec
CONSTANTS
  Lens <- LensAll
  Modes <- ModesAll
  KW = 2
  KR = 2
  Chunk = 4096
  SendMech = "repaired"
  RecvMech = "asbuilt"
  Obs <- ObsNone
INVARIANTS EofEndsLoop
CHECK_DEADLOCK TRUE
