/* C15, configuration half: the MALLOC / CALLOC / REALLOC / FREE / STRDUP macro ladder (include/libast.h) observed in
 * one build.  Compiled once per compile-time DEBUG (shim config.h) and run per runtime level; checks/c15.py compares
 * the observations of the builds with each other and with the reference (result NULL-ness taken from the transitions
 * TLC generates for MemTrack).  usage: mem_macro_probe <runtime-level>
 * One line per case:
 *   <case> null=<0|1> keep=<0|1|-> nulled=<0|1|-> released=<0|1|-> rec=<n> size=<n|-> line=<0|1|-> file=<0|1|-> table=<n>
 *   null: result is NULL; keep: contents preserved / zeroed / equal; nulled: FREE() set the variable to NULL;
 *   released: the old block is no longer a live heap block; rec: records in the tracker's table naming the result;
 *   size/line/file: that record carries the requested size, the macro's __LINE__ and __FILE__ cut to 20 characters;
 *   table: records in the table once the case has cleaned up after itself.
 */
#include <config.h>
#include <libast.h>
#include <stdio.h>
#include <stdlib.h>
#include <string.h>
#include <sanitizer/allocator_interface.h>

extern spifmem_memrec_t *spifmem_verif_malloc_rec(void);

static void report(const char *name, void *res, int keep, int nulled, int released, size_t want, unsigned long line) {
    spifmem_memrec_t *mr = spifmem_verif_malloc_rec();
    size_t k; int rec = 0, sz = -1, ln = -1, fl = -1;
    char cut[SPIFMEM_FNAME_LEN + 1];
    strncpy(cut, __FILE__, SPIFMEM_FNAME_LEN); cut[SPIFMEM_FNAME_LEN] = 0;
    for (k = 0; res && k < mr->cnt; k++) {
        if (mr->ptrs[k].ptr == res) {
            rec++;
            sz = (mr->ptrs[k].size == want);
            ln = (mr->ptrs[k].line == line);
            fl = !strcmp((char *) mr->ptrs[k].file, cut);
        }
    }
    printf("%s null=%d keep=", name, res == NULL);
    if (keep < 0) printf("-"); else printf("%d", keep);
    printf(" nulled="); if (nulled < 0) printf("-"); else printf("%d", nulled);
    printf(" released="); if (released < 0) printf("-"); else printf("%d", released);
    printf(" rec=%d size=", rec); if (sz < 0) printf("-"); else printf("%d", sz);
    printf(" line="); if (ln < 0) printf("-"); else printf("%d", ln);
    printf(" file="); if (fl < 0) printf("-"); else printf("%d", fl);
}
static void tail(void) { printf(" table=%lu\n", (unsigned long) spifmem_verif_malloc_rec()->cnt); }

static int pattern_ok(const unsigned char *p, size_t n) { size_t k; for (k = 0; k < n; k++) if (p[k] != (unsigned char) (k * 7 + 1)) return 0; return 1; }
static void pattern(unsigned char *p, size_t n) { size_t k; for (k = 0; k < n; k++) p[k] = (unsigned char) (k * 7 + 1); }

int main(int argc, char **argv) {
    static char nbuf[BUFSIZ];
    unsigned char *p, *q; char *s; int *ip; unsigned long L; FILE *n;
    if (argc < 2) return 2;
    n = fopen("/dev/null", "w");
    if (n) { setvbuf(n, nbuf, _IOFBF, sizeof(nbuf)); stderr = n; }
    spifmem_init();
    libast_debug_level = (unsigned) atoi(argv[1]);

    p = (unsigned char *) MALLOC(0); L = __LINE__;
    report("malloc_0", p, -1, -1, -1, 0, L); if (p) FREE(p); tail();

    p = (unsigned char *) MALLOC(16); L = __LINE__;
    if (p) pattern(p, 16);
    report("malloc_n", p, p ? pattern_ok(p, 16) : -1, -1, -1, 16, L); if (p) FREE(p); tail();

    ip = (int *) CALLOC(int, 0); L = __LINE__;
    report("calloc_0", ip, -1, -1, -1, 0, L); if (ip) FREE(ip); tail();

    ip = (int *) CALLOC(int, 4); L = __LINE__;
    report("calloc_n", ip, ip ? (ip[0] == 0 && ip[1] == 0 && ip[2] == 0 && ip[3] == 0) : -1, -1, -1, 4 * sizeof(int), L); if (ip) FREE(ip); tail();

    s = (char *) STRDUP("tracked text"); L = __LINE__;
    report("strdup", s, s ? !strcmp(s, "tracked text") : -1, -1, -1, sizeof("tracked text"), L); if (s) FREE(s); tail();

    p = NULL;
    q = (unsigned char *) REALLOC(p, 0); L = __LINE__;
    report("realloc_null_0", q, -1, -1, -1, 0, L); if (q) FREE(q); tail();

    p = NULL;
    q = (unsigned char *) REALLOC(p, 24); L = __LINE__;
    report("realloc_null_n", q, -1, -1, -1, 24, L); if (q) FREE(q); tail();

    p = (unsigned char *) MALLOC(16); pattern(p, 16);
    q = (unsigned char *) REALLOC(p, 0); L = __LINE__;
    report("realloc_live_0", q, -1, -1, !__sanitizer_get_ownership(p), 0, L); if (q) FREE(q); tail();

    p = (unsigned char *) MALLOC(16); pattern(p, 16);
    q = (unsigned char *) REALLOC(p, 8); L = __LINE__;
    report("realloc_live_shrink", q, q ? pattern_ok(q, 8) : -1, -1, (q == p) ? -1 : !__sanitizer_get_ownership(p), 8, L); if (q) FREE(q); tail();

    p = (unsigned char *) MALLOC(16); pattern(p, 16);
    q = (unsigned char *) REALLOC(p, 4000); L = __LINE__;
    report("realloc_live_grow", q, q ? pattern_ok(q, 16) : -1, -1, (q == p) ? -1 : !__sanitizer_get_ownership(p), 4000, L); if (q) FREE(q); tail();

    p = NULL;
    FREE(p);
    report("free_null", NULL, -1, p == NULL, -1, 0, 0); tail();

    p = (unsigned char *) MALLOC(16); q = p;
    FREE(p);
    report("free_live", NULL, -1, p == NULL, !__sanitizer_get_ownership(q), 0, 0); tail();

    fflush(stdout);
    return 0;
}
