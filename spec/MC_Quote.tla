------------------------------- MODULE MC_Quote -------------------------------
(* Bounded model of Quote for TLC: the input alphabet, the delimiter sets, and the case emitter: one JSON *)
(* line per finished scan = one (input -> expected outputs) case for the replay harness.                  *)
EXTENDS Quote
\* a b space : ' " \     (the adjacency cases of the grammar: quote / backslash / delimiter / end of text)
Alpha7 == {97, 98, 32, 58, 39, 34, 92}
\* default (white space), ":" and ": "
Delims3 == {<<>>, <<58>>, <<58, 32>>}
ObsEmit(op, args, ret, post) ==
    PrintT(ToJson([d |-> args[1], s |-> args[2], lv |-> DebugLevels] @@ Expected(args[1], args[2], ret)))
================================================================================
