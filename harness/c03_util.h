/* Shared by harness/map_replay.c (C03) and harness/vector_replay.c (C04): element construction, value read-out and the
 * structural walk of the three public container structs (same invariants as harness/list_replay.c).
 * Include after common.h.
 */
#ifndef VERIF_C03_UTIL_H
#define VERIF_C03_UTIL_H

static const char *cu_cls = "array";
static char cu_msg[512];

#define CU_FAIL(...) do { snprintf(cu_msg, sizeof(cu_msg), __VA_ARGS__); return cu_msg; } while (0)

static int cu_is(const char *c) { return !strcmp(cu_cls, c); }

/* Keys / values / elements are spif_str objects.  Their text encodes a number v >= 0 so that the order of object
 * comparison (spif_str_comp = strcmp, bytes UNSIGNED) is the order of the numbers.  Three text families (round 3: values
 * outside a tiny ASCII alphabet), chosen per harness run or per script:
 *   0  "%05ld"                                         all-ASCII digits
 *   1  byte F(v) then "%05ld", F(v) = 1 + v*254/(N+1)  the FIRST byte sweeps 1..255 monotonically over the universe
 *                                                      0..N+1 (N = cu_N), so ASCII and >= 0x80 first bytes are mixed
 *   2  'K' then byte v+1 (only if N <= 253)            the LAST byte sweeps 1..255
 * Numbers above N+1 (the caller's own list entries 1001..) get the largest varying byte and keep their digits. */
static long cu_N = 3;
static int cu_enc = 0;        /* current family */
static int cu_enc_arg = 0;    /* as given on the command line; -1 = chosen per script from its id */
static int cu_family_for(long sid, int nfam) { return (int) (sid % nfam); }
static void cu_begin_script(long sid) {
    if (cu_enc_arg >= 0) cu_enc = cu_enc_arg;
    else cu_enc = cu_family_for(sid, cu_N <= 253 ? 3 : 2);
}
static void cu_text(long v, char *t, size_t n) {
    if (cu_enc == 1) {
        long f = (v > cu_N + 1) ? 255 : 1 + (v * 254) / (cu_N + 1);
        snprintf(t, n, "%c%05ld", (int) (unsigned char) f, v);
    } else if (cu_enc == 2) {
        if (v > cu_N + 1) snprintf(t, n, "K\377%05ld", v);
        else snprintf(t, n, "K%c", (int) (unsigned char) (v + 1));
    } else {
        snprintf(t, n, "%05ld", v);
    }
}
/* Object classes (round 4: mixed-class elements): cls 1 = spif_str, cls 2 = spif_url with the very same text.  A url IS
 * a str and compares by its text, so the two are interchangeable in every comparison a container makes. */
static spif_obj_t cu_mkc(long v, long cls) {
    char t[40];
    cu_text(v, t, sizeof(t));
    if (cls == 2) return SPIF_OBJ(spif_url_new_from_ptr((spif_charptr_t) t));
    return SPIF_OBJ(spif_str_new_from_ptr((spif_charptr_t) t));
}
static spif_obj_t cu_mk(long v) { return cu_mkc(v, 1); }
/* url objects whose text starts "word:" make libast look the word up with getprotobyname()/getservbyname(); the C library
 * allocates its lookup state once per process on first use.  Do that before any heap-balance window opens. */
#include <netdb.h>
static void cu_warm_libc(void) {
    (void) getprotobyname("tcp"); (void) getprotobyname("nosuchproto"); (void) getprotobyname("");
    (void) getservbyname("http", "tcp"); (void) getservbyname("nosuchserv", "udp"); (void) getservbyname("", "tcp");
}
/* optional class argument of a script step (absent = str) */
static long cu_clsarg(const vh_step_t *st, int i) { return (i < st->nargs) ? vh_int(st->args[i]) : 1; }
static long cu_mixcls(long mix, long k) { return mix == 3 ? 1 + (k % 2) : (mix == 2 ? 2 : 1); }
static long cu_val(spif_obj_t o) {
    const unsigned char *s;
    if (SPIF_OBJ_ISNULL(o)) return 0;
    s = (const unsigned char *) SPIF_STR_STR(SPIF_STR(o));
    if (!s) return -1000000;
    if (cu_enc == 1) {
        if (!s[0] || !isdigit(s[1])) return -1000000;          /* scribbled-over or not one of ours */
        return atol((const char *) s + 1);
    }
    if (cu_enc == 2) {
        if (s[0] != 'K' || !s[1]) return -1000000;
        if (s[2]) return isdigit(s[2]) ? atol((const char *) s + 2) : -1000000;
        return (long) s[1] - 1;
    }
    if (!isdigit(s[0])) return -1000000;
    return atol((const char *) s);
}
/* the caller changes its own object */
static void cu_scribble(spif_obj_t o) {
    spif_str_t s = SPIF_STR(o);
    spif_stridx_t i;
    for (i = 0; i < s->len; i++) s->s[i] = 'Z';
}
static spif_list_t cu_new_list(void) {
    if (cu_is("array")) return SPIF_LIST_NEW(array);
    if (cu_is("linked_list")) return SPIF_LIST_NEW(linked_list);
    return SPIF_LIST_NEW(dlinked_list);
}

/* Walks the representation of container C (class cu_cls) which must hold exactly n elements.  ordkey(data, &msg)
 * returns the ordering key of one stored element (and may set msg to report a malformed element); keys must be
 * ascending (strictly if strict).  */
typedef long (*cu_ordkey_fn)(spif_obj_t data, const char **msg);

static const char *cu_walk(void *C, long n, const char *which, cu_ordkey_fn ordkey, int strict) {
    long k = 0, prevkey = 0, key;
    const char *m = NULL;

#define CU_ELEM(data, pos)                                                                                             \
    do {                                                                                                               \
        if (SPIF_OBJ_ISNULL(data)) CU_FAIL("%s:%s.NULL_element_at_%ld", which, cu_cls, (long) (pos));                 \
        key = ordkey((data), &m);                                                                                      \
        if (m) CU_FAIL("%s:%s.%s_at_%ld", which, cu_cls, m, (long) (pos));                                             \
        if ((pos) > 0 && (strict ? key <= prevkey : key < prevkey))                                                    \
            CU_FAIL("%s:%s.order_broken_at_%ld", which, cu_cls, (long) (pos));                                         \
        prevkey = key;                                                                                                 \
    } while (0)

    if (cu_is("array")) {
        spif_array_t a = SPIF_ARRAY(C);
        if (a->len != n) CU_FAIL("%s:array.len=%ld_count=%ld", which, (long) a->len, n);
#ifdef VH_ASAN
        if (n > 0 && (!a->items || __sanitizer_get_allocated_size(a->items) < (size_t) n * sizeof(spif_obj_t)))
            CU_FAIL("%s:array.items_allocation_smaller_than_len", which);
#endif
        for (k = 0; k < n; k++) CU_ELEM(a->items[k], k);
    } else if (cu_is("linked_list")) {
        spif_linked_list_t l = SPIF_LINKED_LIST(C); spif_linked_list_item_t c;
        for (c = l->head; c && k <= n + 1; c = c->next) { if (k < n) CU_ELEM(c->data, k); k++; }
        if (k != n || l->len != n) CU_FAIL("%s:linked.chain=%ld_len=%ld_count=%ld", which, k, (long) l->len, n);
    } else {
        spif_dlinked_list_t l = SPIF_DLINKED_LIST(C); spif_dlinked_list_item_t c, last = NULL;
        if (l->len != n) CU_FAIL("%s:dlinked.len=%ld_count=%ld", which, (long) l->len, n);
        for (c = l->head; c && k <= n + 1; c = c->next) {
            if (c->prev != last) CU_FAIL("%s:dlinked.prev_link_wrong_at_%ld", which, k);
            if (k < n) CU_ELEM(c->data, k);
            last = c; k++;
        }
        if (k != n) CU_FAIL("%s:dlinked.next_chain=%ld_len=%ld", which, k, n);
        if (l->tail != last) CU_FAIL("%s:dlinked.tail_is_not_last_node", which);
        if (n == 0 && (l->head || l->tail)) CU_FAIL("%s:dlinked.empty_but_head_or_tail_set", which);
        k = 0; last = NULL;
        for (c = l->tail; c && k <= n + 1; c = c->prev) {
            if (c->next != last) CU_FAIL("%s:dlinked.next_link_wrong_from_tail_at_%ld", which, k);
            last = c; k++;
        }
        if (k != n) CU_FAIL("%s:dlinked.prev_chain=%ld_len=%ld", which, k, n);
    }
#undef CU_ELEM
    return NULL;
}

#endif
