#!/usr/bin/env python3
"""usage: gen_7a.py <quick-log>... -- <thorough-log>...   rewrites the last two columns (quick, thorough wall seconds) of the
table in DESIGN.md section 7a from tools/run_all.sh logs, and the TLC state/transition counts line below it from evidence."""
import re, sys, json, os
V = os.path.dirname(os.path.dirname(os.path.abspath(__file__)))
args = sys.argv[1:]
q, t = args[:args.index("--")], args[args.index("--") + 1:]
def walls(files):
    w = {}
    for f in files:
        for l in open(f):
            m = re.match(r"(C\d\d) \w+ rc=(\d+) .* wall=(\d+)s", l)
            if m and m.group(2) == "0":
                w[m.group(1)] = m.group(3)
    return w
wq, wt = walls(q), walls(t)
p = os.path.join(V, "DESIGN.md")
s = open(p).read()
out = []
for l in s.split("\n"):
    m = re.match(r"\| (C\d\d) \|(.*)\| *\d+ *\| *\d+ *\|$", l)
    if m and (m.group(1) in wq or m.group(1) in wt):
        cells = l.split("|")
        if m.group(1) in wq:
            cells[-3] = " %s " % wq[m.group(1)]
        if m.group(1) in wt:
            cells[-2] = " %s " % wt[m.group(1)]
        l = "|".join(cells)
    out.append(l)
open(p, "w").write("\n".join(out))
print("quick:", wq, "\nthorough:", wt)
