SPECIFICATION Spec
CONSTANTS
  CapMod = 65536
  ClearOnGrow = FALSE
  ResetVarsOnFree = TRUE
  MaxCtx = 1
  MaxBi = 12
  MaxVars = 2
  Progs = {1, 2}
  GrowSteps = 1
  Texts <- NoTexts
  Outcomes <- OutcomesMC
  Obs <- ObsNone
INVARIANTS IndexBelowCapacity BuiltinSentinel AfterFreeNoResidue FileStackRestored
CONSTRAINT Bounded EnvQuiet
CHECK_DEADLOCK FALSE
