SPECIFICATION Spec
CONSTANTS
  Sel = {"esc", "dol1", "dol2", "til", "pg", "call", "mix"}
  N = 6
  N1 = 5
  N2 = 3
  NCall = 5
  NMix = 4
  Limit = 20479
  NameMax = 127
  AppName <- AppNameMC
  AppVersion <- AppVersionMC
  Starts <- StartsMC
  RegOffer <- RegNone
  EnvGet <- EnvMC
  DirGet <- DirMC
  Obs <- ObsEmit
CONSTRAINT StoreBound
INVARIANTS TypeOK OutputBounded NeverReadsPastEnd
PROPERTIES SingleQuoteOpaque PrefixSuffixPreserved PutThenGet StoreChangesOnlyOnReturn
CHECK_DEADLOCK FALSE
