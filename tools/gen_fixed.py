#!/usr/bin/env python3
"""Rewrites the "fixed" list (and hooks.source_commits) from /repo's history: one entry per `fix:` commit since the pinned snapshot.
   fixed entries document repaired defects; they suppress nothing."""
import json, re, subprocess, os
V = os.path.dirname(os.path.dirname(os.path.abspath(__file__)))
BASE = open("/root/.vp/repo_root_sha").read().strip()
log = subprocess.check_output(["git", "-C", "/repo", "log", "--reverse", "--format=%h\t%s", BASE + "..HEAD"], text=True).splitlines()
RULES = [  # first match wins: (regex on subject, property)
    (r"NULL-object guard|orders a NULL (iterator|socket) first|NULL object argument", "C16"),
    (r"mbuff", "C07"),
    (r"init_from_fd", "C01"),
    (r"str/ustr|spif_str|spif_ustr", "C01"),
    (r"map remove", "C03"),
    (r"sorted insert", "C04"),
    (r"\bcomp\b.*(array|linked_list)|(array|linked_list) comp|objpair comp", "C05"),
    (r"\bdup\b|objpair init|regexp compile|url parse refuses", "C05"),
    (r"insert_at|reverse", "C02"),
    (r"url (parse|unparse)", "C14"),
    (r"socket", "C19"),
    (r"version_compare", "C17"),
    (r"condense_whitespace|spiftool_substr", "C13"),
    (r"spiftool_split|tok_eval|num_words", "C12"),
    (r"option|argument-list|counter|lone|argv|pre-parse|REQUIRE\(argc|--args", "C08"),
    (r"spifmem", "C15"),
    (r"silent|debug statements", "C20"),
    (r"built-in function|builtin_exec|builtin_dirscan|working directory", "C11"),
    (r"shell_expand|put_var|expan", "C10"),
    (r"conf|context|include|fstate|parse_line|find_file|temp", "C09"),
]
fixed, hooks, unk = [], [], []
for line in log:
    h, s = line.split("\t", 1)
    if s.startswith("hook:"):
        hooks.append(h)
        continue
    if not s.startswith("fix:"):
        unk.append(line)
        continue
    prop = next((p for rx, p in RULES if re.search(rx, s)), "?")
    fixed.append("fixed: property=%s %s %s" % (prop, h, s[4:].strip()))
kf = json.load(open(os.path.join(V, "known_findings.json")))
kf["fixed"] = fixed
json.dump(kf, open(os.path.join(V, "known_findings.json"), "w"), indent=1)
st = json.load(open(os.path.join(V, "tools", "manifest_static.json")))
st["head"]["hooks"]["source_commits"] = hooks
json.dump(st, open(os.path.join(V, "tools", "manifest_static.json"), "w"), indent=1)
print("%d fix commits, %d hook commits, %d other" % (len(fixed), len(hooks), len(unk)))
for l in fixed:
    if "property=?" in l:
        print("UNCLASSIFIED", l)
for l in unk:
    print("OTHER", l)
