SPECIFICATION Spec
CONSTANTS
  MaxD = 4
  MaxS = 3
  MaxMsgs = 1
  Mech = "repaired"
  Obs <- ObsEmit
INVARIANTS FdFieldValidOrMinus1 OneOwnerPerDescriptor NoOrphanDescriptor AllDeletedMeansAllClosed
CHECK_DEADLOCK FALSE
