/* C14 (+C05/C06 for url): replays UrlObj.tla scripts on real spif_url_t objects.
 * usage: url_replay <scriptfile> [first]
 *
 * ops:   parse <text> <lk>     A = spif_url_new_from_ptr(text) under lookup outcome lk
 *        new                   A = spif_url_new()
 *        set <field> <opt>     spif_url_set_<field>(A, NULL | new str)
 *        unparse               spif_url_unparse(A)
 *        dup                   B = spif_url_dup(A)
 *        reparse <lk>          B = spif_url_new_from_str(SPIF_STR(A)) under lookup outcome lk
 *        b_del | del | adopt
 * lk:    [ip,0] protocol word is an IP protocol; [tcp,p] tcp service with port p; [udp,p] udp service;
 *        [no,0] neither; [svx,p] service found but its protocol is unknown (robustness runs only)
 *        (kept as its first letter i/t/u/n/s in lk_kind)
 * State token: {a={c=[o1..o7],live=T|F,t=[codes]},b={...}}  o = [] (absent) | [[codes]]
 *
 * getprotobyname/getservbyname are interposed at link time (-Wl,--wrap=...): the outcome is a pure function of the
 * installed mode, independent of /etc/protocols and /etc/services.
 */
#include "common.h"
#include <netdb.h>
#include <arpa/inet.h>

static spif_url_t A, B;
static char invmsg[512];

/* ---- environment ---------------------------------------------------------------------------- */
static int lk_kind = 'n';
static int lk_port = 0;
static long lk_calls = 0;

static char sproto_tcp[] = "tcp", sproto_udp[] = "udp";     /* the s_proto texts handed out with a service entry */

struct protoent *__wrap_getprotobyname(const char *name) {
    static struct protoent pe; static char *noalias[1] = { NULL }; static char nm[64];
    lk_calls++;
    if (!name) return NULL;
    /* "ip": every word is a protocol.  "tcp"/"udp": the URL's word is not, but the protocol named by the service entry
     * (recognised by identity, so that a URL whose word happens to be "tcp" is still "not a protocol") is. */
    if (lk_kind == 'i' || ((lk_kind == 't' || lk_kind == 'u') && (name == sproto_tcp || name == sproto_udp))) {
        snprintf(nm, sizeof(nm), "%s", name);
        pe.p_name = nm; pe.p_aliases = noalias; pe.p_proto = !strcmp(name, "udp") ? 17 : (!strcmp(name, "tcp") ? 6 : 253);
        return &pe;
    }
    return NULL;
}
struct servent *__wrap_getservbyname(const char *name, const char *proto) {
    static struct servent se; static char *noalias[1] = { NULL }; static char nm[64];
    lk_calls++;
    if (!name || !proto) return NULL;
    if (((lk_kind == 't' || lk_kind == 's') && !strcmp(proto, "tcp")) || (lk_kind == 'u' && !strcmp(proto, "udp"))) {
        snprintf(nm, sizeof(nm), "%s", name);
        se.s_name = nm; se.s_aliases = noalias; se.s_port = htons((unsigned short) lk_port);
        se.s_proto = lk_kind == 'u' ? sproto_udp : sproto_tcp;
        return &se;
    }
    return NULL;
}
static void set_lookup(const char *t) {        /* "[tcp,80]" */
    const char *c = strchr(t, ',');
    lk_kind = t[1]; lk_port = c ? atoi(c + 1) : 0;
}

/* ---- projection ----------------------------------------------------------------------------- */
static const char *str_inv(spif_str_t s, const char *what) {
    if (!s->s) {
        if (s->len != 0 || s->size != 0) { snprintf(invmsg, sizeof(invmsg), "%s:NULL_text_but_len_or_size_set", what); return invmsg; }
        return NULL;
    }
    if ((size_t) s->len != strlen((const char *) s->s)) { snprintf(invmsg, sizeof(invmsg), "%s:len!=strlen", what); return invmsg; }
    if (s->size < s->len + 1) { snprintf(invmsg, sizeof(invmsg), "%s:size<len+1", what); return invmsg; }
#ifdef VH_ASAN
    if (__sanitizer_get_allocated_size(s->s) < (size_t) s->size) { snprintf(invmsg, sizeof(invmsg), "%s:allocation_smaller_than_size", what); return invmsg; }
#endif
    return NULL;
}
static const char *proj(spif_url_t u, const char *which, vh_sb *out) {
    spif_str_t c[7]; int i; const char *inv; char nm[32];
    static const char *fn[7] = { "proto", "user", "passwd", "host", "port", "path", "query" };
    if (SPIF_URL_ISNULL(u)) { sb_puts(out, "{c=[[],[],[],[],[],[],[]],live=F,t=[]}"); return NULL; }
    if (SPIF_OBJ_CLASS(u) != SPIF_CLASS_VAR(url)) { snprintf(invmsg, sizeof(invmsg), "%s:class_is_not_url", which); return invmsg; }
    c[0] = spif_url_get_proto(u); c[1] = spif_url_get_user(u); c[2] = spif_url_get_passwd(u); c[3] = spif_url_get_host(u);
    c[4] = spif_url_get_port(u); c[5] = spif_url_get_path(u); c[6] = spif_url_get_query(u);
    sb_puts(out, "{c=[");
    for (i = 0; i < 7; i++) {
        if (i) sb_putc(out, ',');
        if (SPIF_STR_ISNULL(c[i])) { sb_puts(out, "[]"); continue; }
        snprintf(nm, sizeof(nm), "%s.%s", which, fn[i]);
        if ((inv = str_inv(c[i], nm))) return inv;
        sb_putc(out, '[');
        sb_bytes(out, (const unsigned char *) SPIF_STR_STR(c[i]), c[i]->s ? (size_t) c[i]->len : 0);
        sb_putc(out, ']');
    }
    sb_puts(out, "],live=T,t=");
    snprintf(nm, sizeof(nm), "%s.text", which);
    if ((inv = str_inv(SPIF_STR(u), nm))) return inv;
    sb_bytes(out, (const unsigned char *) (SPIF_STR(u)->s ? SPIF_STR(u)->s : (spif_charptr_t) ""), SPIF_STR(u)->s ? (size_t) SPIF_STR(u)->len : 0);
    sb_putc(out, '}');
    return NULL;
}
/* the two slots must not share any storage */
static const char *independent(void) {
    spif_str_t ca[7], cb[7]; int i, j;
    if (SPIF_URL_ISNULL(A) || SPIF_URL_ISNULL(B)) return NULL;
    if (A == B) return "slots_are_the_same_object";
    if (SPIF_STR(A)->s && SPIF_STR(A)->s == SPIF_STR(B)->s) return "copy_shares_the_text_buffer";
    ca[0] = A->proto; ca[1] = A->user; ca[2] = A->passwd; ca[3] = A->host; ca[4] = A->port; ca[5] = A->path; ca[6] = A->query;
    cb[0] = B->proto; cb[1] = B->user; cb[2] = B->passwd; cb[3] = B->host; cb[4] = B->port; cb[5] = B->path; cb[6] = B->query;
    for (i = 0; i < 7; i++) for (j = 0; j < 7; j++) {
        if (!ca[i] || !cb[j]) continue;
        if (ca[i] == cb[j]) return "copy_shares_a_component_object";
        if (ca[i]->s && ca[i]->s == cb[j]->s) return "copy_shares_a_component_buffer";
    }
    return NULL;
}

static void vh_begin(void) { A = B = (spif_url_t) NULL; lk_kind = 'n'; lk_port = 0; }
static void vh_end(void) {
    if (!SPIF_URL_ISNULL(B)) { spif_url_del(B); B = (spif_url_t) NULL; }
    if (!SPIF_URL_ISNULL(A)) { spif_url_del(A); A = (spif_url_t) NULL; }
}

#define OP(s) (!strcmp(op, s))
static const char *vh_step(const vh_step_t *st, vh_sb *ret, vh_sb *state) {
    const char *op = st->op, *inv;
    static unsigned nth;

    /* adversarial prelude: whatever an earlier, unrelated call left in errno must not matter */
    errno = (nth++ & 1) ? ERANGE : EINTR;
    if (OP("parse")) {
        size_t n; unsigned char *t = vh_bytes(st->args[0], &n, 1);
        set_lookup(st->args[1]);
        A = spif_url_new_from_ptr((spif_charptr_t) t);
        free(t);                                   /* the object must own its text */
        sb_bool(ret, !SPIF_URL_ISNULL(A));
        if (SPIF_URL_ISNULL(A)) return "new_from_ptr=NULL";
    } else if (OP("new")) {
        A = spif_url_new();
        sb_bool(ret, !SPIF_URL_ISNULL(A));
        if (SPIF_URL_ISNULL(A)) return "new=NULL";
    } else if (OP("set")) {
        spif_str_t v = (spif_str_t) NULL; spif_bool_t r; const char *f = st->args[0];
        if (strcmp(st->args[1], "[]")) {
            size_t n; unsigned char *t = vh_bytes(st->args[1] + 1, &n, 1);     /* "[[1,2]]" -> "[1,2]]" */
            v = spif_str_new_from_ptr((spif_charptr_t) t);
            free(t);
        }
        if (!strcmp(f, "proto")) r = spif_url_set_proto(A, v);
        else if (!strcmp(f, "user")) r = spif_url_set_user(A, v);
        else if (!strcmp(f, "passwd")) r = spif_url_set_passwd(A, v);
        else if (!strcmp(f, "host")) r = spif_url_set_host(A, v);
        else if (!strcmp(f, "port")) r = spif_url_set_port(A, v);
        else if (!strcmp(f, "path")) r = spif_url_set_path(A, v);
        else if (!strcmp(f, "query")) r = spif_url_set_query(A, v);
        else return "unknown_field";
        sb_bool(ret, r);
    } else if (OP("unparse")) {
        sb_bool(ret, spif_url_unparse(A));
    } else if (OP("dup")) {
        lk_kind = 't'; lk_port = 4444;             /* a copy must not depend on the environment */
        B = spif_url_dup(A);
        if (SPIF_URL_ISNULL(B)) return "dup=NULL";
        if (SPIF_OBJ_CLASS(B) != SPIF_OBJ_CLASS(A)) return "dup_class_differs";
        if (spif_url_type(B) != spif_url_type(A)) return "dup_type_differs";
        sb_bool(ret, 1);
    } else if (OP("reparse")) {
        set_lookup(st->args[0]);
        B = spif_url_new_from_str(SPIF_STR(A));
        if (SPIF_URL_ISNULL(B)) return "new_from_str=NULL";
        sb_bool(ret, 1);
    } else if (OP("b_del")) {
        sb_bool(ret, spif_url_del(B)); B = (spif_url_t) NULL;
    } else if (OP("del")) {
        sb_bool(ret, spif_url_del(A)); A = (spif_url_t) NULL;
    } else if (OP("adopt")) {
        spif_bool_t r = TRUE;
        if (!SPIF_URL_ISNULL(A)) r = spif_url_del(A);
        A = B; B = (spif_url_t) NULL;
        sb_bool(ret, r);
    } else {
        snprintf(invmsg, sizeof(invmsg), "unknown_op_%s", op);
        return invmsg;
    }
    if ((inv = independent())) return inv;
    sb_puts(state, "{a=");
    if ((inv = proj(A, "a", state))) return inv;
    sb_puts(state, ",b=");
    if ((inv = proj(B, "b", state))) return inv;
    sb_putc(state, '}');
    return NULL;
}

int main(int argc, char **argv) {
    if (argc < 2) { fprintf(stderr, "usage: %s <scripts> [first]\n", argv[0]); return 2; }
    libast_set_program_name("url_replay");
    DEBUG_LEVEL = 0;
    return vh_main(argc, argv, 1);
}
