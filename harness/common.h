/* Shared replay-harness runtime for /verif (included by every harness translation unit).
 *
 * Script file format (one or more scripts):
 *     S <sid>
 *     <op> <arg>* = <expected-ret> <expected-state>
 *     ...
 *     E
 * Tokens never contain blanks.  An expected token "?" means "do not compare, record": the harness then
 * prints   R <sid> <step> <ret> <state>   (used to record traces for TLC trace validation).
 *
 * Output (stdout, line buffered):
 *     X <sid> <step> <kind> <op> exp=<tok> got=<tok>      kind in ret|state|inv|heap
 *     C <sid> <step> <op>                                 sanitizer/abort death inside that step
 *     H <sid> <step> <op>                                 watchdog (hang)
 *     Q <sid> <step> <op>                                 the library called exit()
 *     DONE <scripts> <steps>
 * A harness supplies vh_begin / vh_step / vh_end.
 */
#ifndef VERIF_COMMON_H
#define VERIF_COMMON_H

#include <config.h>
#include <libast.h>
#include <stdio.h>
#include <stdlib.h>
#include <string.h>
#include <stdarg.h>
#include <unistd.h>
#include <signal.h>
#include <errno.h>
#include <ctype.h>

#if defined(__has_feature)
# if __has_feature(address_sanitizer)
#  define VH_ASAN 1
# endif
#endif
#ifdef VH_ASAN
# include <sanitizer/allocator_interface.h>
# include <sanitizer/asan_interface.h>
# include <sanitizer/common_interface_defs.h>
#endif

#define VH_MAXARGS 24
#define VH_TOKBUF  (1 << 20)

typedef struct {
    char *op;
    int nargs;
    char *args[VH_MAXARGS];
    char *exp_ret;
    char *exp_state;
} vh_step_t;

/* string builder for canonical tokens */
typedef struct { char *p; size_t n, cap; } vh_sb;
static void sb_reset(vh_sb *b) { b->n = 0; if (b->p) b->p[0] = 0; }
static void sb_need(vh_sb *b, size_t k) {
    if (b->n + k + 1 > b->cap) {
        b->cap = (b->n + k + 1) * 2 + 64;
        b->p = (char *) realloc(b->p, b->cap);
    }
}
static void sb_puts(vh_sb *b, const char *s) { size_t k = strlen(s); sb_need(b, k); memcpy(b->p + b->n, s, k + 1); b->n += k; }
static void sb_putc(vh_sb *b, char c) { sb_need(b, 1); b->p[b->n++] = c; b->p[b->n] = 0; }
static void sb_printf(vh_sb *b, const char *fmt, ...) {
    char tmp[256]; va_list ap; va_start(ap, fmt); vsnprintf(tmp, sizeof(tmp), fmt, ap); va_end(ap); sb_puts(b, tmp);
}
static void sb_int(vh_sb *b, long v) { sb_printf(b, "%ld", v); }
static void sb_bool(vh_sb *b, int v) { sb_putc(b, v ? 'T' : 'F'); }
/* list of bytes as [a,b,c] */
static void sb_bytes(vh_sb *b, const unsigned char *p, size_t n) {
    size_t i; sb_putc(b, '[');
    for (i = 0; i < n; i++) { if (i) sb_putc(b, ','); sb_printf(b, "%u", (unsigned) p[i]); }
    sb_putc(b, ']');
}

/* ---- token parsing ------------------------------------------------------------------------ */
static long vh_int(const char *t) { return strtol(t, NULL, 10); }
static int vh_bool(const char *t) { return t[0] == 'T'; }
/* "[1,2,3]" -> ints; returns count */
static int vh_intlist(const char *t, long *out, int max) {
    int n = 0; const char *p = t;
    if (*p == '[') p++;
    while (*p && *p != ']') {
        char *e; long v = strtol(p, &e, 10);
        if (e == p) break;
        if (n < max) out[n] = v;
        n++; p = e;
        if (*p == ',') p++;
    }
    return n;
}
/* "[97,98]" -> exact-size heap block holding the bytes plus a terminating NUL (redzone right behind it).
 * With nul==0 the block holds only the bytes (at least 1 byte is allocated so the pointer is valid). */
static unsigned char *vh_bytes(const char *t, size_t *len, int nul) {
    static long tmp[1 << 16];
    int n = vh_intlist(t, tmp, (int) (sizeof(tmp) / sizeof(tmp[0]))), i;
    unsigned char *p = (unsigned char *) malloc((size_t) n + (nul ? 1 : (n ? 0 : 1)));
    for (i = 0; i < n; i++) p[i] = (unsigned char) tmp[i];
    if (nul) p[n] = 0;
    if (len) *len = (size_t) n;
    return p;
}

/* ---- harness-supplied ------------------------------------------------------------------------ */
static void vh_begin(void);
/* executes st; fills ret and state tokens; returns NULL or a static invariant-failure message */
static const char *vh_step(const vh_step_t *st, vh_sb *ret, vh_sb *state);
/* releases everything the script still owns */
static void vh_end(void);

/* ---- runtime ---------------------------------------------------------------------------------- */
static long vh_cur_sid = -1; static int vh_cur_step = -1; static const char *vh_cur_op = "-";
static int vh_in_script = 0;
static int vh_check_heap = 1;
static int vh_watchdog_s = 20;

static void vh_emit_raw(char tag) {
    char b[256]; int n;
    fflush(stdout);
    n = snprintf(b, sizeof(b), "%c %ld %d %s\n", tag, vh_cur_sid, vh_cur_step, vh_cur_op);
    if (write(1, b, (size_t) n) < 0) { }
}
static void vh_death(void) { if (vh_in_script) vh_emit_raw('C'); }
static void vh_alarm(int sig) { (void) sig; vh_emit_raw('H'); _exit(3); }
static void vh_abrt(int sig) { (void) sig; if (vh_in_script) vh_emit_raw('C'); _exit(4); }
static void vh_atexit(void) { if (vh_in_script) { vh_emit_raw('Q'); _exit(5); } }

/* progress record shared with the orchestrator (no system call per step): a death that leaves no C/H/Q line - e.g. a
 * stack smash so large that the sanitizer dies inside its own report - is still charged to the right script and step */
#include <sys/mman.h>
#include <fcntl.h>
typedef struct { volatile long sid; volatile int step; volatile int in_script; char op[40]; } vh_progress_t;
static vh_progress_t vh_progress_dummy, *vh_progress = &vh_progress_dummy;
static void vh_progress_open(void) {
    const char *p = getenv("VH_PROGRESS"); int fd; void *m;
    if (!p) return;
    fd = open(p, O_RDWR | O_CREAT, 0600);
    if (fd < 0) return;
    if (ftruncate(fd, sizeof(vh_progress_t)) == 0) {
        m = mmap(NULL, sizeof(vh_progress_t), PROT_READ | PROT_WRITE, MAP_SHARED, fd, 0);
        if (m != MAP_FAILED) vh_progress = (vh_progress_t *) m;
    }
    close(fd);
}
static void vh_progress_set(long sid, int step, const char *op, int in_script) {
    vh_progress->sid = sid; vh_progress->step = step; vh_progress->in_script = in_script;
    strncpy(vh_progress->op, op, sizeof(vh_progress->op) - 1);
}

static size_t vh_heap(void) {
#ifdef VH_ASAN
    return __sanitizer_get_current_allocated_bytes();
#else
    return 0;
#endif
}

/* live heap NOT counting the harness's own token builders (they may grow inside a script when a result is larger than
 * anything the script announced; that is the harness's memory, not the library's) */
static size_t vh_heap_excl(const vh_sb *a, const vh_sb *b) {
#ifdef VH_ASAN
    size_t h = __sanitizer_get_current_allocated_bytes();
    if (a->p) h -= __sanitizer_get_allocated_size(a->p);
    if (b->p) h -= __sanitizer_get_allocated_size(b->p);
    return h;
#else
    (void) a; (void) b; return 0;
#endif
}

static char *vh_readfile(const char *path, size_t *len) {
    FILE *f = strcmp(path, "-") ? fopen(path, "rb") : stdin; size_t cap = 1 << 20, n = 0; char *b;
    if (!f) { perror(path); exit(2); }
    b = (char *) malloc(cap);
    for (;;) {
        size_t k;
        if (n + 65536 + 1 > cap) { cap *= 2; b = (char *) realloc(b, cap); }
        k = fread(b + n, 1, 65536, f);
        if (k == 0) break;
        n += k;
    }
    b[n] = 0; *len = n;
    if (f != stdin) fclose(f);
    return b;
}

static int vh_parse_step(char *line, vh_step_t *st) {
    char *save = NULL, *t; int eq = 0;
    memset(st, 0, sizeof(*st));
    t = strtok_r(line, " ", &save);
    if (!t) return -1;
    st->op = t;
    while ((t = strtok_r(NULL, " ", &save))) {
        if (!eq) {
            if (!strcmp(t, "=")) { eq = 1; continue; }
            if (st->nargs >= VH_MAXARGS) return -1;
            st->args[st->nargs++] = t;
        } else if (!st->exp_ret) st->exp_ret = t;
        else if (!st->exp_state) st->exp_state = t;
    }
    if (!st->exp_ret) st->exp_ret = (char *) "?";
    if (!st->exp_state) st->exp_state = (char *) "?";
    return 0;
}

/* usage: <harness> [harness args...] <scriptfile> <first-script-ordinal>
 * vh_main is called by the harness main with the index of the script file argument. */
static int vh_main(int argc, char **argv, int fileidx) {
    size_t len; char *buf, *p; long nscripts = 0, nsteps = 0, ordinal = 0, first = 0;
    vh_sb ret = {0, 0, 0}, state = {0, 0, 0};
    static vh_step_t steps[4096];

    setvbuf(stdout, NULL, _IOLBF, 0);
    if (fileidx >= argc) { fprintf(stderr, "usage: %s ... <scriptfile> [first]\n", argv[0]); return 2; }
    if (fileidx + 1 < argc) first = atol(argv[fileidx + 1]);
    if (getenv("VH_NO_HEAP")) vh_check_heap = 0;
    if (getenv("VH_WATCHDOG")) vh_watchdog_s = atoi(getenv("VH_WATCHDOG"));
#ifdef VH_ASAN
    __sanitizer_set_death_callback(vh_death);
#endif
    signal(SIGALRM, vh_alarm);
    signal(SIGABRT, vh_abrt);
    atexit(vh_atexit);
    vh_progress_open();
    buf = vh_readfile(argv[fileidx], &len);
    sb_need(&ret, 1 << 16); sb_need(&state, 1 << 16);
    printf("HELLO %s\n", argv[0]);     /* allocates stdio's buffer outside any measured window */

    p = buf;
    while (*p) {
        char *nl = strchr(p, '\n'); int n = 0, i, abandoned = 0; size_t h0, h1;
        if (nl) *nl = 0;
        if (p[0] != 'S' || p[1] != ' ') { p = nl ? nl + 1 : p + strlen(p); continue; }
        vh_cur_sid = atol(p + 2);
        p = nl ? nl + 1 : p + strlen(p);
        while (*p) {
            nl = strchr(p, '\n');
            if (nl) *nl = 0;
            if (p[0] == 'E' && p[1] == 0) { p = nl ? nl + 1 : p + strlen(p); break; }
            if (n < 4096 && vh_parse_step(p, &steps[n]) == 0) n++;
            p = nl ? nl + 1 : p + strlen(p);
        }
        if (ordinal++ < first) continue;
        nscripts++;
        vh_cur_step = -1; vh_cur_op = "begin";
        vh_progress_set(vh_cur_sid, -1, "begin", 1);
        {   /* grow the token builders OUTSIDE the measured window: the largest expected token of this script, with slack */
            size_t need = 1 << 16; int q;
            for (q = 0; q < n; q++) {
                size_t a = strlen(steps[q].exp_state), b = strlen(steps[q].exp_ret);
                if (a * 2 + 4096 > need) need = a * 2 + 4096;
                if (b * 2 + 4096 > need) need = b * 2 + 4096;
            }
            if (getenv("VH_TOKEN_MAX") && (size_t) atol(getenv("VH_TOKEN_MAX")) > need) need = (size_t) atol(getenv("VH_TOKEN_MAX"));
            sb_reset(&ret); sb_reset(&state); sb_need(&ret, need); sb_need(&state, need);
        }
        h0 = vh_heap_excl(&ret, &state);
        vh_in_script = 1;
        alarm((unsigned) vh_watchdog_s);
        vh_begin();
        for (i = 0; i < n; i++) {
            const char *inv; int record;
            vh_cur_step = i; vh_cur_op = steps[i].op;
            vh_progress_set(vh_cur_sid, i, steps[i].op, 1);
            sb_reset(&ret); sb_reset(&state);
            inv = vh_step(&steps[i], &ret, &state);
            nsteps++;
            record = (steps[i].exp_ret[0] == '?' && steps[i].exp_ret[1] == 0);
            if (inv) {
                printf("X %ld %d inv %s exp=- got=%s\n", vh_cur_sid, i, steps[i].op, inv);
                abandoned = 1; break;
            }
            if (record) {
                printf("R %ld %d %s %s\n", vh_cur_sid, i, ret.p, state.p);
                continue;
            }
            if (strcmp(state.p, steps[i].exp_state)) {
                printf("X %ld %d state %s exp=%s got=%s ret=%s\n", vh_cur_sid, i, steps[i].op, steps[i].exp_state, state.p, ret.p);
                abandoned = 1; break;
            }
            if (strcmp(ret.p, steps[i].exp_ret) && strcmp(steps[i].exp_ret, "*")) {
                printf("X %ld %d ret %s exp=%s got=%s\n", vh_cur_sid, i, steps[i].op, steps[i].exp_ret, ret.p);
                /* state still agrees: carry on */
            }
        }
        vh_cur_step = n; vh_cur_op = "end";
        vh_progress_set(vh_cur_sid, n, "end", 1);
        vh_end();
        alarm(0);
        vh_in_script = 0;
        vh_progress_set(vh_cur_sid, n, "done", 0);
        h1 = vh_heap_excl(&ret, &state);
        if (vh_check_heap && !abandoned && h1 != h0) {
            printf("X %ld %d heap end exp=%lu got=%lu\n", vh_cur_sid, n, (unsigned long) h0, (unsigned long) h1);
        }
    }
    printf("DONE %ld %ld\n", nscripts, nsteps);
    vh_in_script = 0;
    free(buf);
    return 0;
}

#endif
