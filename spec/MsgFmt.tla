-------------------------------- MODULE MsgFmt --------------------------------
(* X04 (extension, DESIGN.md section 10): the diagnostic output of libast - src/msgs.c, the two globals of      *)
(* src/debug.c and the statement macros of include/libast.h that are built on them - as ONE small state machine.  *)
(*                                                                                                                *)
(* State (what a later call can observe):                                                                          *)
(*   name, nst   the stored program name text and who owns the stored pointer:                                     *)
(*               "static" (the built-in default PACKAGE), "heap" (a private copy made by the library),            *)
(*               "unset"  (the client assigned NULL to the public variable; name = <<>>)                           *)
(*   ver, vst    the same for the program version                                                                  *)
(*   silent      the silent flag, level the runtime debug level (libast_debug_level, src/debug.c)                  *)
(*   bad         ledger verdict, only ever left "none" by the AS-BUILT mechanism (constant AsBuilt = TRUE)         *)
(* Every public call / statement macro is one action; the action computes the exact bytes the call writes to the  *)
(* error stream (texts are sequences of character codes), what it returns and how control leaves it.              *)
(*                                                                                                                *)
(* Rule kinds (DESIGN.md 3):  S = stated by the documentation of the function / macro,  I = ideal (the code       *)
(* diverges: a finding),  C = as-built convention (strict),  X = outside the argument universe.                   *)
EXTENDS Integers, Sequences, FiniteSets, TLC, Json

CONSTANTS Names,        \* texts offered to libast_set_program_name
          Vers,         \* texts offered to libast_set_program_version
          Msgs,         \* messages (sequences of format items) offered to the printer functions
          MacroMsgs,    \* messages offered to the message-bearing statement macros
          Levels,       \* runtime debug levels offered
          Clocks,       \* values time() returns while a debug header is printed (64-bit, four 16-bit limbs)
          Sites,        \* probe sites of the statement macros: [tag, file, line]
          Macros,       \* statement macros offered
          D,            \* compile-time DEBUG of the build
          Extras,       \* model bound: offer the NULL / alias / unset calls of the name and version (FALSE: only plain set calls)
          AsBuilt,      \* FALSE: the reference ledger;  TRUE: the ownership mechanism exactly as src/msgs.c has it
          Obs(_, _, _, _)

VARIABLES name, nst, ver, vst, silent, level, bad
vars == <<name, nst, ver, vst, silent, level, bad>>

-------------------------------------------------------------------------------
(* fixed texts *)
DefName     == <<108,105,98,97,115,116>>                       \* PACKAGE  "libast"
DefVer      == <<48,46,56,46,49>>                              \* VERSION  "0.8.1"
T_Error     == <<58,32,32,69,114,114,111,114,58,32,32>>        \* ":  Error:  "
T_Warning   == <<58,32,32,87,97,114,110,105,110,103,58,32,32>> \* ":  Warning:  "
T_Fatal     == <<58,32,32,70,65,84,65,76,58,32,32>>            \* ":  FATAL:  "
T_Moo       == <<77,111,111,46,10>>                            \* "Moo.\n"
T_Expr      == <<118,104,95,122,101,114,111,40,41>>            \* "vh_zero()"  the failing expression of the probes
T_Abort0    == <<65,98,111,114,116,105,110,103,46,10>>         \* "Aborting.\n"
\* the formats of include/libast.h, as written there
T_HeaderFmt == <<91,37,108,117,93,32,37,49,50,115,32,124,32,37,52,100,58,32,37,115,40,41,58,32>>   \* "[%lu] %12s | %4d: %s(): "
T_AssertFmt == <<65,83,83,69,82,84,32,102,97,105,108,101,100,32,105,110,32,37,115,40,41,32,97,116,32,37,115,58,37,100,58,32,32,37,115,10>>
T_RequireFmt == <<82,69,81,85,73,82,69,32,102,97,105,108,101,100,58,32,32,37,115,10>>
T_NotReachedFmt == <<65,83,83,69,82,84,32,102,97,105,108,101,100,32,105,110,32,37,115,40,41,32,97,116,32,37,115,58,37,100,58,32,32,84,104,105,115,32,99,111,100,101,32,115,104,111,117,108,100,32,110,111,116,32,98,101,32,114,101,97,99,104,101,100,46,10>>
T_AbortFmt  == <<65,98,111,114,116,105,110,103,32,105,110,32,37,115,40,41,32,97,116,32,37,115,58,37,100,46,10>>

-------------------------------------------------------------------------------
(* 64-bit values as four 16-bit limbs, most significant first (TLC integers are 32-bit) *)
Limbs(n)  == <<0, 0, n \div 65536, n % 65536>>                 \* 0 <= n < 2^31
IsZero(x) == \A i \in 1 .. Len(x) : x[i] = 0
RECURSIVE DivAcc(_, _, _, _)
DivAcc(x, b, i, carry) ==                                       \* long division of x by the small number b
    IF i > Len(x) THEN [q |-> <<>>, r |-> carry]
    ELSE LET cur == carry * 65536 + x[i]
             rest == DivAcc(x, b, i + 1, cur % b)
         IN  [q |-> <<cur \div b>> \o rest.q, r |-> rest.r]
RECURSIVE DigitsOf(_, _)
DigitsOf(x, b) == LET d == DivAcc(x, b, 1, 0) IN                \* digit VALUES, most significant first; zero -> <<0>>
                  IF IsZero(d.q) THEN <<d.r>> ELSE Append(DigitsOf(d.q, b), d.r)
RECURSIVE IncAt(_, _)
IncAt(x, i) == IF i = 0 THEN x
               ELSE IF x[i] = 65535 THEN IncAt([x EXCEPT ![i] = 0], i - 1)
               ELSE [x EXCEPT ![i] = x[i] + 1]
Neg(x)      == IncAt([i \in 1 .. Len(x) |-> 65535 - x[i]], Len(x))      \* two's complement
Negative(x) == x[1] >= 32768
DigitChar(d) == IF d < 10 THEN 48 + d ELSE 87 + d               \* lower-case hexadecimal
DigitText(ds) == [i \in 1 .. Len(ds) |-> DigitChar(ds[i])]
RECURSIVE MulAdd(_, _, _, _)
MulAdd(x, b, d, i) ==                                           \* x * b + d on limbs, from the least significant limb i
    IF i = 0 THEN x
    ELSE LET cur == x[i] * b + d IN MulAdd([x EXCEPT ![i] = cur % 65536], b, cur \div 65536, i - 1)
RECURSIVE FromDigits(_, _, _)
FromDigits(ds, b, acc) == IF ds = <<>> THEN acc ELSE FromDigits(Tail(ds), b, MulAdd(acc, b, Head(ds), Len(acc)))

-------------------------------------------------------------------------------
(* The printf subset the diagnostics are used with.  A message is a sequence of format items                   *)
(*   [k |-> "lit", t |-> text]                                   literal characters ('%' is written "%%")         *)
(*   [k |-> "s",   t |-> argument text, w, fl, prec]             %s  %12s  %-5s  %.3s                             *)
(*   [k |-> "c",   t |-> <<character>>, w, fl]                   %c                                               *)
(*   [k |-> "d"|"u"|"x", t |-> four limbs, lng, w, fl]           %d %u %x %ld %lu %lx, width, "-" or "0" flag      *)
(* every item carries all fields (w = 0: no width; fl in "n" none | "l" left | "z" zero; prec = -1: none).       *)
Item(k, t, w, fl, prec, lng) == [k |-> k, t |-> t, w |-> w, fl |-> fl, prec |-> prec, lng |-> lng]
Lit(t)     == Item("lit", t, 0, "n", -1, FALSE)
Str(t)     == Item("s", t, 0, "n", -1, FALSE)
StrW(t, w) == Item("s", t, w, "n", -1, FALSE)
IntD(v)    == Item("d", v, 0, "n", -1, FALSE)
IntDW(v, w) == Item("d", v, w, "n", -1, FALSE)
ULong(v)   == Item("u", v, 0, "n", -1, TRUE)
Numeric    == {"d", "u", "x"}

RECURSIVE DecNat(_)
DecNat(n) == IF n < 10 THEN <<48 + n>> ELSE Append(DecNat(n \div 10), 48 + (n % 10))
Blanks(n) == [i \in 1 .. n |-> 32]
Zeros(n)  == [i \in 1 .. n |-> 48]
Take(s, n) == SubSeq(s, 1, IF n < Len(s) THEN n ELSE Len(s))

\* the bare conversion of an item, before padding to the field width
Bare(it) ==
    IF it.k = "lit" THEN it.t
    ELSE IF it.k = "s" THEN (IF it.prec >= 0 THEN Take(it.t, it.prec) ELSE it.t)
    ELSE IF it.k = "c" THEN it.t
    ELSE LET v == IF it.lng THEN it.t ELSE SubSeq(it.t, 3, 4) IN        \* int / unsigned: the low 32 bits
         IF it.k = "d" THEN (IF Negative(v) THEN <<45>> \o DigitText(DigitsOf(Neg(v), 10)) ELSE DigitText(DigitsOf(v, 10)))
         ELSE IF it.k = "u" THEN DigitText(DigitsOf(v, 10))
         ELSE DigitText(DigitsOf(v, 16))
Padded(it, b) ==
    IF Len(b) >= it.w THEN b
    ELSE IF it.fl = "l" THEN b \o Blanks(it.w - Len(b))
    ELSE IF it.fl = "z" /\ it.k \in Numeric
         THEN (IF b[1] = 45 THEN <<45>> \o Zeros(it.w - Len(b)) \o Tail(b) ELSE Zeros(it.w - Len(b)) \o b)
    ELSE Blanks(it.w - Len(b)) \o b
ItemText(it) == IF it.k = "lit" THEN it.t ELSE Padded(it, Bare(it))

RECURSIVE DoublePct(_)
DoublePct(t) == IF Len(t) = 0 THEN <<>>                           \* every '%' of literal text is written "%%" (halving: long texts)
                ELSE IF Len(t) = 1 THEN (IF t[1] = 37 THEN <<37, 37>> ELSE t)
                ELSE LET h == Len(t) \div 2 IN DoublePct(SubSeq(t, 1, h)) \o DoublePct(SubSeq(t, h + 1, Len(t)))
ItemFmt(it) ==                                                  \* the piece of the C format string that denotes the item
    IF it.k = "lit" THEN DoublePct(it.t)
    ELSE <<37>> \o (IF it.fl = "l" THEN <<45>> ELSE IF it.fl = "z" THEN <<48>> ELSE <<>>)
              \o (IF it.w > 0 THEN DecNat(it.w) ELSE <<>>)
              \o (IF it.prec >= 0 THEN <<46>> \o DecNat(it.prec) ELSE <<>>)
              \o (IF it.lng THEN <<108>> ELSE <<>>)
              \o (CASE it.k = "s" -> <<115>> [] it.k = "c" -> <<99>> [] it.k = "d" -> <<100>> [] it.k = "u" -> <<117>> [] it.k = "x" -> <<120>>)
RECURSIVE Expand(_)
Expand(m) == IF m = <<>> THEN <<>> ELSE ItemText(Head(m)) \o Expand(Tail(m))       \* what the message prints
RECURSIVE FmtOf(_)
FmtOf(m)  == IF m = <<>> THEN <<>> ELSE ItemFmt(Head(m)) \o FmtOf(Tail(m))         \* the format string handed to the function
NArgs(m)  == Cardinality({i \in 1 .. Len(m) : m[i].k # "lit"})

-------------------------------------------------------------------------------
(* statement macros: the probe functions of the harness are named <site tag>_<macro name> *)
MacName(mac) ==
    CASE mac = "moo" -> <<109,111,111>> [] mac = "assert" -> <<97,115,115,101,114,116>> [] mac = "require" -> <<114,101,113,117,105,114,101>>
      [] mac = "nr" -> <<110,114>> [] mac = "nrv" -> <<110,114,118>> [] mac = "abort" -> <<97,98,111,114,116>>
      [] mac = "dopt" -> <<100,111,112,116>> [] mac = "dobj" -> <<100,111,98,106>> [] mac = "dconf" -> <<100,99,111,110,102>>
      [] mac = "dmem" -> <<100,109,101,109>>
      [] mac = "dp1" -> <<100,112,49>> [] mac = "dp2" -> <<100,112,50>> [] mac = "dp3" -> <<100,112,51>>
      [] mac = "dp4" -> <<100,112,52>> [] mac = "dp5" -> <<100,112,53>> [] mac = "dp6" -> <<100,112,54>>
      [] mac = "dp7" -> <<100,112,55>> [] mac = "dp8" -> <<100,112,56>> [] mac = "dp9" -> <<100,112,57>>
Func(site, mac) == site.tag \o <<95>> \o MacName(mac)
AllMacros == {"moo", "assert", "require", "nr", "nrv", "abort", "dopt", "dobj", "dconf", "dmem",
              "dp1", "dp2", "dp3", "dp4", "dp5", "dp6", "dp7", "dp8", "dp9"}
\* S (libast.h): DPRINTFn is live iff debugging is compiled in and the runtime level is at least n; a D_<subsystem>
\* statement iff BOTH levels reach the level of the subsystem (options 1, obj 2, conf 3, mem 5)
GateLevel(mac) == CASE mac = "dp1" -> 1 [] mac = "dp2" -> 2 [] mac = "dp3" -> 3 [] mac = "dp4" -> 4 [] mac = "dp5" -> 5
                    [] mac = "dp6" -> 6 [] mac = "dp7" -> 7 [] mac = "dp8" -> 8 [] mac = "dp9" -> 9
                    [] mac = "dopt" -> 1 [] mac = "dobj" -> 2 [] mac = "dconf" -> 3 [] mac = "dmem" -> 5
MsgMacros   == {"dp1", "dp2", "dp3", "dp4", "dp5", "dp6", "dp7", "dp8", "dp9", "dopt", "dobj", "dconf", "dmem"}
SubsysMacros == {"dopt", "dobj", "dconf", "dmem"}
GateOn(dd, lv, mac) == IF mac \in SubsysMacros THEN dd >= GateLevel(mac) /\ lv >= GateLevel(mac)
                       ELSE dd >= 1 /\ lv >= GateLevel(mac)

\* S: "[%lu] %12s | %4d: %s(): " with time(NULL), __FILE__, __LINE__, __FUNCTION__
HeaderItems(site, mac, clk) ==
    << Lit(<<91>>), ULong(clk), Lit(<<93, 32>>), StrW(site.file, 12), Lit(<<32, 124, 32>>), IntDW(Limbs(site.line), 4),
       Lit(<<58, 32>>), Str(Func(site, mac)), Lit(<<40, 41, 58, 32>>) >>
Header(site, mac, clk) == Expand(HeaderItems(site, mac, clk))
Where(site, mac) == << Str(Func(site, mac)), Str(site.file), IntD(Limbs(site.line)) >>      \* the %s() at %s:%d part
AssertItems(site, mac) ==
    << Lit(<<65,83,83,69,82,84,32,102,97,105,108,101,100,32,105,110,32>>), Where(site, mac)[1], Lit(<<40,41,32,97,116,32>>),
       Where(site, mac)[2], Lit(<<58>>), Where(site, mac)[3], Lit(<<58,32,32>>), Str(T_Expr), Lit(<<10>>) >>
NotReachedItems(site, mac) ==
    << Lit(<<65,83,83,69,82,84,32,102,97,105,108,101,100,32,105,110,32>>), Where(site, mac)[1], Lit(<<40,41,32,97,116,32>>),
       Where(site, mac)[2], Lit(<<58>>), Where(site, mac)[3],
       Lit(<<58,32,32,84,104,105,115,32,99,111,100,101,32,115,104,111,117,108,100,32,110,111,116,32,98,101,32,114,101,97,99,104,101,100,46,10>>) >>
RequireItems == << Lit(<<82,69,81,85,73,82,69,32,102,97,105,108,101,100,58,32,32>>), Str(T_Expr), Lit(<<10>>) >>
AbortItems(site, mac) ==
    << Lit(<<65,98,111,114,116,105,110,103,32,105,110,32>>), Where(site, mac)[1], Lit(<<40,41,32,97,116,32>>),
       Where(site, mac)[2], Lit(<<58>>), Where(site, mac)[3], Lit(<<46,10>>) >>

-------------------------------------------------------------------------------
(* observable state and the shape of a step *)
HeapBytes(n, ns, v, vs) == (IF ns = "heap" THEN Len(n) + 1 ELSE 0) + (IF vs = "heap" THEN Len(v) + 1 ELSE 0)
View(n, ns, v, vs, s, l) == [name |-> n, nst |-> ns, ver |-> v, vst |-> vs, silent |-> s, level |-> l,
                             hb |-> HeapBytes(n, ns, v, vs)]     \* hb: bytes the library holds on the heap for the two texts
Pre == View(name, nst, ver, vst, silent, level)
Step(op, args, ret, n, ns, v, vs, s, l, b) ==
    /\ name' = n /\ nst' = ns /\ ver' = v /\ vst' = vs /\ silent' = s /\ level' = l /\ bad' = b
    /\ Obs(op, args, ret, View(n, ns, v, vs, s, l))
Alive == bad = "none"

-------------------------------------------------------------------------------
(* the program name / version: one ownership rule for both slots *)
\* C (Conv_SameTextKeepsPointer): a text equal to the stored one leaves the stored pointer alone (idempotent);
\* S: otherwise the library stores a PRIVATE copy of the text and releases the copy it made before.
SetTo(cur, cst, t)   == IF cst # "unset" /\ cur = t THEN [txt |-> cur, st |-> cst, kept |-> TRUE]
                        ELSE [txt |-> t, st |-> "heap", kept |-> FALSE]
\* I: NULL means "back to the built-in default" (the else-branch of the function says so)
SetDefault(cst, def) == [txt |-> def, st |-> "static", kept |-> (cst = "static")]
\* the ledger verdict of the AS-BUILT mechanism (src/msgs.c:81-93): the old copy is released iff its TEXT differs from the
\* default - so a private copy whose text equals the default is never released; a NULL argument is compared with strcmp
\* before it is tested; an argument that points into the stored copy is duplicated after the copy was released
LeakBy(cur, cst, def, t)   == IF AsBuilt /\ cst = "heap" /\ cur = def /\ t # cur THEN "leak" ELSE bad
NullBy(cst)                == IF AsBuilt /\ cst # "unset" THEN "nullderef" ELSE bad
SuffixBy(cur, cst, def)    == IF AsBuilt /\ cst = "heap" THEN (IF cur = def THEN "leak" ELSE "uaf") ELSE bad

OpSetName(t) == LET r == SetTo(name, nst, t) IN
    /\ Alive /\ Step("set_name", <<t>>, [kept |-> r.kept], r.txt, r.st, ver, vst, silent, level, LeakBy(name, nst, DefName, t))
OpSetNameNull == LET r == SetDefault(nst, DefName) IN
    /\ Alive /\ Step("set_name_null", <<>>, [kept |-> r.kept], r.txt, r.st, ver, vst, silent, level, NullBy(nst))
\* aliasing: the client hands the stored pointer back (same text: nothing happens) ...
OpSetNameAlias ==
    /\ Alive /\ nst # "unset" /\ Step("set_name_alias", <<0>>, [kept |-> TRUE], name, nst, ver, vst, silent, level, bad)
\* ... or a pointer INTO the stored text (e.g. the part behind the last '/'): I - the new name is that suffix
OpSetNameSuffix(k) ==
    /\ Alive /\ nst # "unset" /\ k >= 1 /\ k <= Len(name)
    /\ Step("set_name_alias", <<k>>, [kept |-> FALSE], SubSeq(name, k + 1, Len(name)), "heap", ver, vst, silent, level, SuffixBy(name, nst, DefName))
\* the variable is public: the client takes the pointer away (and releases a private copy itself)
OpUnsetName ==
    /\ Alive /\ Step("unset_name", <<>>, TRUE, <<>>, "unset", ver, vst, silent, level, bad)

OpSetVer(t) == LET r == SetTo(ver, vst, t) IN
    /\ Alive /\ Step("set_ver", <<t>>, [kept |-> r.kept], name, nst, r.txt, r.st, silent, level, LeakBy(ver, vst, DefVer, t))
OpSetVerNull == LET r == SetDefault(vst, DefVer) IN
    /\ Alive /\ Step("set_ver_null", <<>>, [kept |-> r.kept], name, nst, r.txt, r.st, silent, level, NullBy(vst))
OpSetVerAlias ==
    /\ Alive /\ vst # "unset" /\ Step("set_ver_alias", <<0>>, [kept |-> TRUE], name, nst, ver, vst, silent, level, bad)
OpSetVerSuffix(k) ==
    /\ Alive /\ vst # "unset" /\ k >= 1 /\ k <= Len(ver)
    /\ Step("set_ver_alias", <<k>>, [kept |-> FALSE], name, nst, SubSeq(ver, k + 1, Len(ver)), "heap", silent, level, SuffixBy(ver, vst, DefVer))
OpUnsetVer ==
    /\ Alive /\ Step("unset_ver", <<>>, TRUE, name, nst, <<>>, "unset", silent, level, bad)

OpSetSilent(b) == Alive /\ Step("set_silent", <<b>>, b, name, nst, ver, vst, b, level, bad)       \* S: returns the new value
OpSetLevel(n)  == Alive /\ Step("set_level", <<n>>, TRUE, name, nst, ver, vst, silent, n, bad)

-------------------------------------------------------------------------------
(* output *)
\* S: silent mode prints nothing.  C (Conv_UnsetNameMutes): without a program name every printer returns without output
\* (msgs.c: REQUIRE(libast_program_name != NULL)) - and so does the debug line that REQUIRE itself would log.
Shown(ns, s) == ~s /\ ns # "unset"
Out(err, val, ctl) == [err |-> err, out |-> <<>>, val |-> val, ctl |-> ctl]        \* out: the standard output - never written
\* the AS-BUILT mechanism without a name at level >= 1: REQUIRE logs through libast_dprintf, whose own REQUIRE logs through
\* libast_dprintf ... (include/libast.h:649-666 + msgs.c:166) - unbounded recursion
RecursionBy(usesRequire) == IF AsBuilt /\ usesRequire /\ nst = "unset" /\ ~silent /\ D >= 1 /\ level >= 1 THEN "recursion" ELSE bad

DprintfOut(m, ns, s)  == IF Shown(ns, s) THEN Out(Expand(m), Len(Expand(m)), "falls") ELSE Out(<<>>, 0, "falls")   \* S: returns the number of characters printed
PrefixedOut(n, ns, s, marker, m, val, ctl) == Out(IF Shown(ns, s) THEN n \o marker \o Expand(m) ELSE <<>>, val, ctl)

OpDprintf(m)      == Alive /\ Step("dprintf", <<m, FmtOf(m)>>, DprintfOut(m, nst, silent), name, nst, ver, vst, silent, level, RecursionBy(TRUE))
OpPrintError(m)   == Alive /\ Step("print_error", <<m, FmtOf(m)>>, PrefixedOut(name, nst, silent, T_Error, m, 0, "falls"),
                                   name, nst, ver, vst, silent, level, RecursionBy(TRUE))
OpPrintWarning(m) == Alive /\ Step("print_warning", <<m, FmtOf(m)>>, PrefixedOut(name, nst, silent, T_Warning, m, 0, "falls"),
                                   name, nst, ver, vst, silent, level, RecursionBy(TRUE))
\* S: prints and ends the process (exit(-1): status 255); it ends the process also when nothing may be printed
OpFatalError(m)   == Alive /\ Step("fatal_error", <<m, FmtOf(m)>>, PrefixedOut(name, nst, silent, T_Fatal, m, 255, "exits"),
                                   name, nst, ver, vst, silent, level, bad)

\* one statement macro executed at a probe site while time() returns clk;  val: 1000 = control fell through the statement,
\* 7 = the enclosing function returned the stated failure value, 255 = exit status
MacroOut(mac, site, clk, m, n, ns, s, lv) ==
    LET dbg(body) == IF Shown(ns, s) THEN Header(site, mac, clk) \o body ELSE <<>>      \* header and body are two libast_dprintf calls
        warn(its) == PrefixedOut(n, ns, s, T_Warning, its, 7, "returns")
        fatal(its) == PrefixedOut(n, ns, s, T_Fatal, its, 255, "exits")
    IN  IF mac = "moo" THEN Out(dbg(T_Moo), 1000, "falls")                                \* MOO() is not gated at all
        ELSE IF mac \in MsgMacros THEN (IF GateOn(D, lv, mac) THEN Out(dbg(Expand(m)), 1000, "falls") ELSE Out(<<>>, 1000, "falls"))
        ELSE IF mac = "assert" THEN                                                       \* ASSERT_RVAL(<false>, 7)
             (IF D = 0 THEN Out(<<>>, 1000, "falls") ELSE IF lv >= 1 THEN fatal(AssertItems(site, mac)) ELSE warn(AssertItems(site, mac)))
        ELSE IF mac = "require" THEN                                                      \* REQUIRE_RVAL(<false>, 7)
             (IF D >= 1 /\ lv >= 1 THEN Out(dbg(Expand(RequireItems)), 7, "returns") ELSE Out(<<>>, 7, "returns"))
        ELSE IF mac = "nr" THEN                                                           \* ASSERT_NOTREACHED_RVAL(7)
             (IF D = 0 THEN Out(<<>>, 7, "returns") ELSE IF lv >= 1 THEN fatal(NotReachedItems(site, mac)) ELSE warn(NotReachedItems(site, mac)))
        ELSE IF mac = "nrv" THEN                                                          \* ASSERT_NOTREACHED()
             \* C (Conv_NotReachedFallsThrough): with debugging compiled in it warns and CARRIES ON at level 0; compiled out it returns
             (IF D = 0 THEN Out(<<>>, 7, "returns") ELSE IF lv >= 1 THEN fatal(NotReachedItems(site, mac))
              ELSE PrefixedOut(n, ns, s, T_Warning, NotReachedItems(site, mac), 1000, "falls"))
        ELSE \* "abort": ABORT() is fatal at every level; compiled out it has no location
             (IF D = 0 THEN PrefixedOut(n, ns, s, T_Fatal, <<Lit(T_Abort0)>>, 255, "exits") ELSE fatal(AbortItems(site, mac)))
UsesDprintf(mac, lv) == mac = "moo" \/ (mac \in MsgMacros /\ GateOn(D, lv, mac)) \/ (mac = "require" /\ D >= 1 /\ lv >= 1)
                        \/ (mac \in {"assert", "nr", "nrv"} /\ D >= 1 /\ lv = 0)
OpMacro(mac, site, clk, m) ==
    /\ Alive /\ (mac \in MsgMacros \/ m = <<>>)
    /\ Step("macro", <<mac, site, clk, m, FmtOf(m)>>, MacroOut(mac, site, clk, m, name, nst, silent, level),
            name, nst, ver, vst, silent, level, RecursionBy(UsesDprintf(mac, level)))

-------------------------------------------------------------------------------
Init == name = DefName /\ nst = "static" /\ ver = DefVer /\ vst = "static" /\ silent = FALSE /\ level = 0 /\ bad = "none"

Next == \/ \E t \in Names : OpSetName(t)
        \/ (Extras /\ (OpSetNameNull \/ OpSetNameAlias \/ OpUnsetName))
        \/ \E k \in {1, Len(name)} : Extras /\ name \in Names \cup {DefName} /\ OpSetNameSuffix(k)       \* (model bound: no suffix of a suffix)
        \/ \E t \in Vers : OpSetVer(t)
        \/ (Extras /\ Vers # {} /\ (OpSetVerNull \/ OpSetVerAlias \/ OpUnsetVer \/ \E k \in {1, Len(ver)} : ver \in Vers \cup {DefVer} /\ OpSetVerSuffix(k)))
        \/ \E b \in BOOLEAN : OpSetSilent(b)
        \/ \E n \in Levels : OpSetLevel(n)
        \/ \E m \in Msgs : OpDprintf(m) \/ OpPrintError(m) \/ OpPrintWarning(m) \/ OpFatalError(m)
        \/ \E mac \in Macros, site \in Sites, clk \in Clocks : \E m \in (IF mac \in MsgMacros THEN MacroMsgs ELSE {<<>>}) : OpMacro(mac, site, clk, m)
Spec == Init /\ [][Next]_vars

-------------------------------------------------------------------------------
(* laws of the reference itself *)
States3 == {"static", "heap", "unset"}
TypeOK == /\ nst \in States3 /\ vst \in States3 /\ silent \in BOOLEAN /\ level \in Levels \cup {0}
          /\ bad \in {"none", "leak", "nullderef", "uaf", "recursion"}
\* the ledger: a "static" slot holds the default text, an "unset" slot nothing; the bytes held are exactly the private copies
OwnershipSound == /\ (nst = "static" => name = DefName) /\ (nst = "unset" => name = <<>>)
                  /\ (vst = "static" => ver = DefVer) /\ (vst = "unset" => ver = <<>>)
\* never a leaked copy, a dangling stored pointer, a NULL dereference or an unbounded recursion (the AS-BUILT cfgs refute these)
NoLeak == bad # "leak"
NoNullDeref == bad # "nullderef"
NoUseAfterFree == bad # "uaf"
NoRecursion == bad # "recursion"
\* S: setting the same text again changes nothing and keeps the pointer; setting any text makes it the stored text
SetIdempotent == \A t \in Names : LET r == SetTo(name, nst, t) r2 == SetTo(r.txt, r.st, t) IN
                     r.txt = t /\ r2.txt = t /\ r2.st = r.st /\ r2.kept
\* S: silent => nothing is written by any printer or macro, and libast_dprintf returns 0
AllOuts == {DprintfOut(m, nst, silent) : m \in Msgs}
           \cup {PrefixedOut(name, nst, silent, mk, m, 0, "falls") : mk \in {T_Error, T_Warning, T_Fatal}, m \in Msgs}
           \cup {MacroOut(mac, site, clk, m, name, nst, silent, level) : mac \in Macros, site \in Sites, clk \in Clocks, m \in MacroMsgs}
SilentWritesNothing == (silent \/ nst = "unset") => \A o \in AllOuts : o.err = <<>> /\ o.out = <<>>
\* S: the printed text is <program name><marker><formatted message>, the message is the last thing printed
PrefixLaw == Shown(nst, silent) => \A m \in Msgs :
                LET e == PrefixedOut(name, nst, silent, T_Error, m, 0, "falls").err IN
                /\ SubSeq(e, 1, Len(name)) = name
                /\ SubSeq(e, Len(name) + 1, Len(name) + Len(T_Error)) = T_Error
                /\ SubSeq(e, Len(name) + Len(T_Error) + 1, Len(e)) = Expand(m)
                /\ DprintfOut(m, nst, silent).val = Len(Expand(m))
\* the program name is DATA: a '%' in it is printed, never interpreted (the model has names containing "%s")
\* S: a gated statement prints iff its gate is open; raising the runtime level never switches one off
GateLaw == \A mac \in Macros \cap MsgMacros : \A site \in Sites, clk \in Clocks, m \in MacroMsgs :
              LET o == MacroOut(mac, site, clk, m, name, nst, silent, level) IN
              /\ (o.err # <<>>) => (GateOn(D, level, mac) /\ Shown(nst, silent))
              /\ (GateOn(D, level, mac) /\ Shown(nst, silent)) => (o.err = Header(site, mac, clk) \o Expand(m))
              /\ \A l2 \in Levels : (l2 >= level /\ GateOn(D, level, mac)) => GateOn(D, l2, mac)
\* S: a failed assertion / ABORT never carries on at level >= 1; REQUIRE never ends the process
ControlLaw == \A mac \in Macros, site \in Sites, clk \in Clocks :
              LET o == MacroOut(mac, site, clk, <<>>, name, nst, silent, level) IN
              /\ (mac \in {"assert", "nr", "nrv"} /\ D >= 1 /\ level >= 1) => o.ctl = "exits"
              /\ (mac = "abort") => o.ctl = "exits"
              /\ (mac = "require") => o.ctl = "returns" /\ o.val = 7
              /\ (o.ctl = "exits") => o.val = 255

\* laws of the format semantics over the message universe
AllMsgs == Msgs \cup MacroMsgs
FormatLaws == \A m \in AllMsgs :
    /\ \A i \in 1 .. Len(m) : LET it == m[i] IN                                        \* a field is never shorter than its width,
          /\ Len(ItemText(it)) = (IF Len(Bare(it)) >= it.w THEN Len(Bare(it)) ELSE it.w)   \* never cut by it
          /\ (it.k = "s" /\ it.prec >= 0) => Len(Bare(it)) <= it.prec
          /\ (it.k \in Numeric) => LET v == IF it.lng THEN it.t ELSE SubSeq(it.t, 3, 4) IN \* decimal / hexadecimal round trip
                 /\ FromDigits(DigitsOf(v, 10), 10, [j \in 1 .. Len(v) |-> 0]) = v
                 /\ FromDigits(DigitsOf(v, 16), 16, [j \in 1 .. Len(v) |-> 0]) = v
                 /\ Neg(Neg(v)) = v
    /\ \A j \in 0 .. Len(m) : /\ Expand(m) = Expand(SubSeq(m, 1, j)) \o Expand(SubSeq(m, j + 1, Len(m)))     \* compositional
                              /\ FmtOf(m) = FmtOf(SubSeq(m, 1, j)) \o FmtOf(SubSeq(m, j + 1, Len(m)))
    \* the format string names exactly one conversion per argument; every other '%' is doubled
    /\ Cardinality({i \in 1 .. Len(FmtOf(m)) : FmtOf(m)[i] = 37})
          = NArgs(m) + 2 * Cardinality({p \in UNION {{<<i, j>> : j \in 1 .. Len(m[i].t)} : i \in 1 .. Len(m)} : m[p[1]].k = "lit" /\ m[p[1]].t[p[2]] = 37})
\* the item sequences above ARE the formats of include/libast.h
MacroFormats == \A site \in Sites, clk \in Clocks :
    /\ FmtOf(HeaderItems(site, "moo", clk)) = T_HeaderFmt
    /\ FmtOf(AssertItems(site, "assert")) = T_AssertFmt
    /\ FmtOf(NotReachedItems(site, "nr")) = T_NotReachedFmt
    /\ FmtOf(RequireItems) = T_RequireFmt
    /\ FmtOf(AbortItems(site, "abort")) = T_AbortFmt
    \* shape of the header: "[" digits "] " file right-aligned to 12 " | " line right-aligned to 4 ": " function "(): "
    /\ LET h == Header(site, "moo", clk) f == Func(site, "moo") IN
          /\ h[1] = 91 /\ SubSeq(h, Len(h) - 3, Len(h)) = <<40, 41, 58, 32>>
          /\ SubSeq(h, Len(h) - 3 - Len(f), Len(h) - 4) = f
          /\ Len(h) = 1 + Len(DigitsOf(clk, 10)) + 2 + (IF Len(site.file) > 12 THEN Len(site.file) ELSE 12) + 3
                        + (IF Len(DecNat(site.line)) > 4 THEN Len(DecNat(site.line)) ELSE 4) + 2 + Len(f) + 4
===============================================================================
