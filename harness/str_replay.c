/* C01: replays StrObj.tla scripts on the str or the ustr class and records traces for StrObjTrace.tla.
 * usage: str_replay <str|ustr> <scriptfile> [first]
 *
 * Two slots (A, B).  An operation name with the prefix "b_" is executed on slot B with slot A as "the other object";
 * otherwise on slot A with slot B as the other object (NULL when that slot is absent).
 * State token: {a={live=T|F,s=[codes]},b={live=T|F,s=[codes]}}     (in record mode "=" when unchanged)
 * After every step, for every live slot, the representation invariants of the property are checked:
 *     s == NULL  =>  len == size == 0
 *     otherwise  s is the start of a heap block, 0 <= len < size <= allocated size, s[len] == 0, no NUL before len
 *     get_len()/get_size() report the fields
 * and the spare capacity s[len+1 .. size) is then overwritten with alphabet characters (see poison_slack).
 * All C-string / buffer arguments are exact-size heap copies, so ASan's redzone sits right behind the last byte.
 * Every method is called through the public function of the class (spif_str_X / spif_ustr_X); at start-up every slot
 * of the class table is compared with the address of that public function (table wiring).
 */
#include "common.h"
#include <sys/types.h>
#include <sys/wait.h>
#include <sys/stat.h>
#include <fcntl.h>
#include <math.h>

/* ---- the two classes behind one table of typed pointers (ustr has the same layout and signatures) ------------------ */
typedef spif_str_t S;
typedef struct {
    const char *name;
    spif_class_t *cls; spif_strclass_t *strcls;
    S (*noo)(void); S (*new_from_ptr)(spif_charptr_t); S (*new_from_buff)(spif_charptr_t, spif_stridx_t);
    S (*new_from_fp)(FILE *); S (*new_from_fd)(int); S (*new_from_num)(long);
    spif_bool_t (*init)(S); spif_bool_t (*init_from_ptr)(S, spif_charptr_t); spif_bool_t (*init_from_buff)(S, spif_charptr_t, spif_stridx_t);
    spif_bool_t (*init_from_fp)(S, FILE *); spif_bool_t (*init_from_fd)(S, int); spif_bool_t (*init_from_num)(S, long);
    spif_bool_t (*done)(S); spif_bool_t (*del)(S); S (*show)(S, spif_charptr_t, S, size_t); spif_cmp_t (*comp)(S, S); S (*dup)(S);
    spif_classname_t (*type)(S);
    spif_bool_t (*append)(S, S); spif_bool_t (*append_char)(S, spif_char_t); spif_bool_t (*append_from_ptr)(S, spif_charptr_t);
    spif_cmp_t (*casecmp)(S, S); spif_cmp_t (*casecmp_with_ptr)(S, spif_charptr_t);
    spif_bool_t (*clear)(S, spif_char_t);
    spif_cmp_t (*cmp)(S, S); spif_cmp_t (*cmp_with_ptr)(S, spif_charptr_t);
    spif_bool_t (*downcase)(S);
    spif_stridx_t (*find)(S, S); spif_stridx_t (*find_from_ptr)(S, spif_charptr_t); spif_stridx_t (*index)(S, spif_char_t);
    spif_cmp_t (*ncasecmp)(S, S, spif_stridx_t); spif_cmp_t (*ncasecmp_with_ptr)(S, spif_charptr_t, spif_stridx_t);
    spif_cmp_t (*ncmp)(S, S, spif_stridx_t); spif_cmp_t (*ncmp_with_ptr)(S, spif_charptr_t, spif_stridx_t);
    spif_bool_t (*prepend)(S, S); spif_bool_t (*prepend_char)(S, spif_char_t); spif_bool_t (*prepend_from_ptr)(S, spif_charptr_t);
    spif_bool_t (*reverse)(S); spif_stridx_t (*rindex)(S, spif_char_t);
    spif_bool_t (*splice)(S, spif_stridx_t, spif_stridx_t, S); spif_bool_t (*splice_from_ptr)(S, spif_stridx_t, spif_stridx_t, spif_charptr_t);
    spif_bool_t (*sprintf)(S, spif_charptr_t, ...);
    S (*substr)(S, spif_stridx_t, spif_stridx_t); spif_charptr_t (*substr_to_ptr)(S, spif_stridx_t, spif_stridx_t);
    double (*to_float)(S); size_t (*to_num)(S, int);
    spif_bool_t (*trim)(S); spif_bool_t (*upcase)(S);
    spif_stridx_t (*get_size)(S); spif_stridx_t (*get_len)(S);
} vt_t;

#define VT_INIT(p) { #p, &SPIF_CLASS_VAR(p), &SPIF_STRCLASS_VAR(p), \
    (void *) spif_##p##_new, (void *) spif_##p##_new_from_ptr, (void *) spif_##p##_new_from_buff, \
    (void *) spif_##p##_new_from_fp, (void *) spif_##p##_new_from_fd, (void *) spif_##p##_new_from_num, \
    (void *) spif_##p##_init, (void *) spif_##p##_init_from_ptr, (void *) spif_##p##_init_from_buff, \
    (void *) spif_##p##_init_from_fp, (void *) spif_##p##_init_from_fd, (void *) spif_##p##_init_from_num, \
    (void *) spif_##p##_done, (void *) spif_##p##_del, (void *) spif_##p##_show, (void *) spif_##p##_comp, (void *) spif_##p##_dup, \
    (void *) spif_##p##_type, \
    (void *) spif_##p##_append, (void *) spif_##p##_append_char, (void *) spif_##p##_append_from_ptr, \
    (void *) spif_##p##_casecmp, (void *) spif_##p##_casecmp_with_ptr, (void *) spif_##p##_clear, \
    (void *) spif_##p##_cmp, (void *) spif_##p##_cmp_with_ptr, (void *) spif_##p##_downcase, \
    (void *) spif_##p##_find, (void *) spif_##p##_find_from_ptr, (void *) spif_##p##_index, \
    (void *) spif_##p##_ncasecmp, (void *) spif_##p##_ncasecmp_with_ptr, (void *) spif_##p##_ncmp, (void *) spif_##p##_ncmp_with_ptr, \
    (void *) spif_##p##_prepend, (void *) spif_##p##_prepend_char, (void *) spif_##p##_prepend_from_ptr, \
    (void *) spif_##p##_reverse, (void *) spif_##p##_rindex, (void *) spif_##p##_splice, (void *) spif_##p##_splice_from_ptr, \
    (void *) spif_##p##_sprintf, (void *) spif_##p##_substr, (void *) spif_##p##_substr_to_ptr, \
    (void *) spif_##p##_to_float, (void *) spif_##p##_to_num, (void *) spif_##p##_trim, (void *) spif_##p##_upcase, \
    (void *) spif_##p##_get_size, (void *) spif_##p##_get_len }

static vt_t vt_str = VT_INIT(str);
static vt_t vt_ustr = VT_INIT(ustr);
static vt_t *V;
static S slot[2];
static char invmsg[512];
static const char *wiring_msg;
static vh_sb last_state;

/* ---- class table wiring ---------------------------------------------------------------------------------------------- */
static const char *check_wiring(void) {
    spif_strclass_t c = *V->strcls;
    spif_class_t b = *V->cls;
#define W(slotexpr, fn, nm) if ((void *) (slotexpr) != (void *) (fn)) { snprintf(invmsg, sizeof(invmsg), "class_table_%s_slot_%s_is_not_the_public_function", V->name, nm); return invmsg; }
    if ((void *) b != (void *) c) { snprintf(invmsg, sizeof(invmsg), "class_var_and_strclass_var_differ_%s", V->name); return invmsg; }
    W(b->noo, V->noo, "new") W(b->init, V->init, "init") W(b->done, V->done, "done") W(b->del, V->del, "del")
    W(b->show, V->show, "show") W(b->comp, V->comp, "comp") W(b->dup, V->dup, "dup") W(b->type, V->type, "type")
    W(c->new_from_ptr, V->new_from_ptr, "new_from_ptr") W(c->new_from_buff, V->new_from_buff, "new_from_buff")
    W(c->new_from_fp, V->new_from_fp, "new_from_fp") W(c->new_from_fd, V->new_from_fd, "new_from_fd")
    W(c->new_from_num, V->new_from_num, "new_from_num")
    W(c->init_from_ptr, V->init_from_ptr, "init_from_ptr") W(c->init_from_buff, V->init_from_buff, "init_from_buff")
    W(c->init_from_fp, V->init_from_fp, "init_from_fp") W(c->init_from_fd, V->init_from_fd, "init_from_fd")
    W(c->init_from_num, V->init_from_num, "init_from_num")
    W(c->append, V->append, "append") W(c->append_char, V->append_char, "append_char") W(c->append_from_ptr, V->append_from_ptr, "append_from_ptr")
    W(c->casecmp, V->casecmp, "casecmp") W(c->casecmp_with_ptr, V->casecmp_with_ptr, "casecmp_with_ptr") W(c->clear, V->clear, "clear")
    W(c->cmp, V->cmp, "cmp") W(c->cmp_with_ptr, V->cmp_with_ptr, "cmp_with_ptr") W(c->downcase, V->downcase, "downcase")
    W(c->find, V->find, "find") W(c->find_from_ptr, V->find_from_ptr, "find_from_ptr") W(c->index, V->index, "index")
    W(c->ncasecmp, V->ncasecmp, "ncasecmp") W(c->ncasecmp_with_ptr, V->ncasecmp_with_ptr, "ncasecmp_with_ptr")
    W(c->ncmp, V->ncmp, "ncmp") W(c->ncmp_with_ptr, V->ncmp_with_ptr, "ncmp_with_ptr")
    W(c->prepend, V->prepend, "prepend") W(c->prepend_char, V->prepend_char, "prepend_char") W(c->prepend_from_ptr, V->prepend_from_ptr, "prepend_from_ptr")
    W(c->reverse, V->reverse, "reverse") W(c->rindex, V->rindex, "rindex") W(c->splice, V->splice, "splice")
    W(c->splice_from_ptr, V->splice_from_ptr, "splice_from_ptr") W(c->sprintf, V->sprintf, "sprintf")
    W(c->substr, V->substr, "substr") W(c->substr_to_ptr, V->substr_to_ptr, "substr_to_ptr")
    W(c->to_float, V->to_float, "to_float") W(c->to_num, V->to_num, "to_num") W(c->trim, V->trim, "trim") W(c->upcase, V->upcase, "upcase")
#undef W
    return NULL;
}

/* ---- projection + representation invariants ------------------------------------------------------------------------- */
static const char *fail(const char *who, const char *what) { snprintf(invmsg, sizeof(invmsg), "%s:%s", who, what); return invmsg; }

static const char *check_obj(S o, const char *who) {
    if (SPIF_OBJ_CLASS(SPIF_OBJ(o)) != *V->cls) return fail(who, "class_pointer_is_not_the_class");
    if (o->s == NULL) {
        if (o->len != 0 || o->size != 0) { snprintf(invmsg, sizeof(invmsg), "%s:s=NULL_but_len=%ld_size=%ld", who, (long) o->len, (long) o->size); return invmsg; }
    } else {
        size_t asz = 0;
#ifdef VH_ASAN
        if (!__sanitizer_get_ownership(o->s)) return fail(who, "s_is_not_the_start_of_a_live_heap_block");
        asz = __sanitizer_get_allocated_size(o->s);
#else
        asz = (size_t) o->size;
#endif
        if (o->len < 0) return fail(who, "len<0");
        if (o->size <= o->len) { snprintf(invmsg, sizeof(invmsg), "%s:size=%ld_not_greater_than_len=%ld", who, (long) o->size, (long) o->len); return invmsg; }
        if ((spif_stridx_t) asz < o->size) { snprintf(invmsg, sizeof(invmsg), "%s:allocation=%ld_smaller_than_size=%ld_(len=%ld)", who, (long) asz, (long) o->size, (long) o->len); return invmsg; }
        if (o->s[o->len] != 0) return fail(who, "s[len]!=0");
        if (o->len && memchr(o->s, 0, (size_t) o->len)) { snprintf(invmsg, sizeof(invmsg), "%s:NUL_before_len_(strlen=%ld_len=%ld)", who, (long) strlen((char *) o->s), (long) o->len); return invmsg; }
    }
    if (V->get_len(o) != o->len) return fail(who, "get_len!=len");
    if (V->get_size(o) != o->size) return fail(who, "get_size!=size");
    return NULL;
}

/* Capacity bytes behind the terminator have no defined content: after every step they are overwritten with characters
 * of the model alphabets (phase = step number), so that code which reads beyond the terminator - a search or compare
 * given size instead of len, a copy that trusts stale bytes - produces a wrong VALUE, not only an ASan report.
 * s[len] itself is never touched.  Called only after check_obj() has established len < size <= allocation. */
static unsigned long step_no;
static void poison_slack(S o) {
    static const unsigned char pat[] = {97, 66, 32, 55, 9, 200, 65, 98};
    spif_stridx_t k;
    if (!o->s) return;
    for (k = o->len + 1; k < o->size; k++) o->s[k] = (char) pat[(step_no + (unsigned long) k) % sizeof(pat)];
}

static int quiet;       /* inside a burst (<op>_n): check + poison after every call, build the token only after the last */
static const char *project(vh_sb *state) {
    int i; const char *inv;
    step_no++;
    if (quiet) {
        for (i = 0; i < 2; i++) if (slot[i]) {
            if ((inv = check_obj(slot[i], i ? "b" : "a"))) return inv;
            poison_slack(slot[i]);
        }
        return NULL;
    }
    sb_putc(state, '{');
    for (i = 0; i < 2; i++) {
        sb_puts(state, i ? ",b={live=" : "a={live=");
        if (!slot[i]) sb_puts(state, "F,s=[]}");
        else {
            if ((inv = check_obj(slot[i], i ? "b" : "a"))) return inv;
            sb_puts(state, "T,s=");
            sb_bytes(state, (const unsigned char *) slot[i]->s, (size_t) slot[i]->len);
            sb_putc(state, '}');
            poison_slack(slot[i]);
        }
    }
    sb_putc(state, '}');
    return NULL;
}

/* ---- content delivery for the stream / descriptor constructors ----------------------------------------------------- */
/* transport 0: regular file in the run directory; 1: pipe filled before the call; 2: pipe fed in pieces by a forked
 * writer; 3: (descriptor only) regular file, with read() interposed: short counts and EINTR failures */
static int rd_active = 0, rd_fd = -1, rd_calls = 0;
ssize_t __real_read(int fd, void *buf, size_t n);
ssize_t __wrap_read(int fd, void *buf, size_t n) {
    static const size_t piece[] = {1, 7, 4096, 100, 4095, 3, 4096, 4096};
    if (rd_active && fd == rd_fd) {
        int k = rd_calls++;
        size_t want;
        if (k == 0 || k == 3 || k == 4 || (k % 11) == 10) { errno = EINTR; return -1; }
        want = piece[k % (int) (sizeof(piece) / sizeof(piece[0]))];
        if (want > n) want = n;
        return __real_read(fd, buf, want);
    }
    return __real_read(fd, buf, n);
}

static char tmpname[64];
static pid_t writer = -1;
static int open_content(const unsigned char *c, size_t n, int tr) {
    int fd = -1;
    writer = -1;
    if (tr == 0 || tr == 3) {
        snprintf(tmpname, sizeof(tmpname), "c01-content-%ld.tmp", (long) getpid());
        fd = open(tmpname, O_WRONLY | O_CREAT | O_TRUNC, 0600);
        if (fd < 0) { perror("open"); exit(2); }
        if (n && write(fd, c, n) != (ssize_t) n) { perror("write"); exit(2); }
        close(fd);
        fd = open(tmpname, O_RDONLY);
        unlink(tmpname);
        if (tr == 3) { rd_active = 1; rd_fd = fd; rd_calls = 0; }
    } else {
        int p[2];
        if (pipe(p) < 0) { perror("pipe"); exit(2); }
        if (tr == 1 && n <= 60000) {
            if (n && write(p[1], c, n) != (ssize_t) n) { perror("write"); exit(2); }
            close(p[1]);
        } else {
            fflush(stdout);
            writer = fork();
            if (writer < 0) { perror("fork"); exit(2); }
            if (writer == 0) {
                static const size_t piece[] = {1, 4095, 2, 4096, 4097, 10, 8192, 1};
                size_t off = 0; int k = 0;
                close(p[0]);
                while (off < n) {
                    size_t w = piece[k++ % 8];
                    if (w > n - off) w = n - off;
                    if (write(p[1], c + off, w) != (ssize_t) w) _exit(1);
                    off += w;
                    usleep(300);
                }
                close(p[1]);
                _exit(0);
            }
            close(p[1]);
        }
        fd = p[0];
    }
    return fd;
}
static void close_content(void) {
    rd_active = 0; rd_fd = -1;
    if (writer > 0) { int st; waitpid(writer, &st, 0); writer = -1; }
}
/* generated contents for trace mode: must equal GenContent(n, nl) of StrObjTrace.tla */
static unsigned char *gen_content(long n, long nl) {
    unsigned char *c = (unsigned char *) malloc((size_t) n + 1); long k;
    for (k = 1; k <= n; k++) c[k - 1] = (unsigned char) ((k == nl) ? 10 : (97 + ((k * 7 + k / 61) % 26)));
    return c;
}

/* Integer arguments.  An ordinary token is a decimal that fits TLC's 32-bit integers.  Extreme values (operations "<op>_x",
 * StrObjTrace.tla) travel as {dec=<decimal numeral>,v=<value if |value| < 2^30, else 0>,w=<0 | 1 = huge positive | -1 = huge negative>}:
 * the call gets the exact 64-bit value `dec`, the specification the class (w, v).  The consistency of the two is checked here. */
static int xint_bad;
static long long xint(const char *t) {
    const char *d, *q; long long val, v; int w, saved = errno;      /* errno may be a preset of the purity runs: keep it */
    if (t[0] != '{') return (long long) vh_int(t);
    d = strstr(t, "dec="); q = strstr(t, ",v=");
    if (!d || !q || !strstr(t, ",w=")) { xint_bad = 1; return 0; }
    errno = 0;
    val = strtoll(d + 4, NULL, 10);
    if (errno == ERANGE) xint_bad = 1;
    v = strtoll(q + 3, NULL, 10);
    w = atoi(strstr(t, ",w=") + 3);
    errno = saved;
    if (w == 0 ? (val != v || v >= (1LL << 30) || v <= -(1LL << 30)) : (w == 1 ? val < (1LL << 30) : (w == -1 ? val > -(1LL << 30) : 1))) xint_bad = 1;
    return val;
}
/* a number given as sign and three decimal limbs (each < 10^9): neg a b c = +-((a * 10^9 + b) * 10^9 + c) */
static long limbs(const vh_step_t *st, int k) {
    unsigned long long mag = ((unsigned long long) vh_int(st->args[k + 1]) * 1000000000ULL + (unsigned long long) vh_int(st->args[k + 2])) * 1000000000ULL
                             + (unsigned long long) vh_int(st->args[k + 3]);
    return (long) (vh_bool(st->args[k]) ? (0ULL - mag) : mag);
}

/* ---- steps ------------------------------------------------------------------------------------------------------------ */
/* Heap balance of our own for record mode (common.h's is switched off there with VH_NO_HEAP because the token buffers
 * grow with the texts): live heap minus the capacities of the three token buffers must be the same at the end of a
 * script as at its first step.  Enabled with C01_OWN_HEAP=1. */
static int own_heap, preset_errno;
static vh_sb *g_ret, *g_state;
static long own_h0; static int own_h0_set;
static long own_level(void) {
    return (long) vh_heap() - (long) ((g_ret ? g_ret->cap : 0) + (g_state ? g_state->cap : 0) + last_state.cap);
}
static void vh_begin(void) {
    slot[0] = slot[1] = NULL; sb_reset(&last_state); sb_puts(&last_state, "{a={live=F,s=[]},b={live=F,s=[]}}");
    own_h0_set = 0;
}
static void vh_end(void) {
    int i;
    for (i = 0; i < 2; i++) if (slot[i]) { V->del(slot[i]); slot[i] = NULL; }
    if (own_heap && own_h0_set && own_level() != own_h0)
        printf("X %ld %d heap end exp=%ld got=%ld\n", vh_cur_sid, vh_cur_step, own_h0, own_level());
}

static void put_sub(vh_sb *ret, int ok, const unsigned char *p, size_t n) {
    sb_puts(ret, ok ? "{ok=T,s=" : "{ok=F,s=");
    sb_bytes(ret, p, ok ? n : 0);
    sb_putc(ret, '}');
}

#define OP(s) (!strcmp(op, s))
#define ARG(k) (st->args[k])
static const char *step1(const vh_step_t *st, vh_sb *ret, vh_sb *state) {
    const char *op = st->op, *inv;
    int me = 0, re = 0, isnew = 0;
    S self, other;
    unsigned char *p = NULL; size_t n = 0;

    if (preset_errno) errno = preset_errno;      /* adversarial prelude: stale errno from "an earlier call" */
    if (op[0] == 'b' && op[1] == '_') { me = 1; op += 2; }
    self = slot[me]; other = slot[1 - me];

    /* constructors: "new..." on an absent slot, "re..." = done() + init...() on a live one */
    if (!strncmp(op, "new", 3) && (op[3] == 0 || op[3] == '_')) { isnew = 1; op += 3; }
    else if (op[0] == 'r' && op[1] == 'e' && (op[2] == 0 || (op[2] == '_' && !strncmp(op + 2, "_from_", 6)))) { re = 1; op += 2; }
    if (isnew || re) {
        spif_bool_t r = TRUE;
        if (isnew && self) return "script_error_new_on_live_slot";
        if (re) { if (!self) return "script_error_re_on_absent_slot"; r = V->done(self); }
        if (OP("")) {
            if (isnew) self = V->noo(); else r = r && V->init(self);
        } else if (OP("_from_ptr")) {
            p = vh_bytes(ARG(0), &n, 1);
            if (isnew) self = V->new_from_ptr((spif_charptr_t) p); else r = r && V->init_from_ptr(self, (spif_charptr_t) p);
        } else if (OP("_from_ptr_null")) {
            if (isnew) self = V->new_from_ptr(NULL); else r = r && V->init_from_ptr(self, NULL);
        } else if (OP("_from_buff")) {
            p = vh_bytes(ARG(0), &n, 0);
            if (isnew) self = V->new_from_buff((spif_charptr_t) p, (spif_stridx_t) xint(ARG(1)));
            else r = r && V->init_from_buff(self, (spif_charptr_t) p, (spif_stridx_t) xint(ARG(1)));
        } else if (OP("_from_buff_gen")) {       /* args m size: a size-byte buffer holding m generated characters, then NULs */
            size_t m = (size_t) vh_int(ARG(0)), sz = (size_t) vh_int(ARG(1));
            unsigned char *g = gen_content((long) m, 0);
            p = (unsigned char *) calloc(sz ? sz : 1, 1);
            memcpy(p, g, m < sz ? m : sz); free(g);
            if (isnew) self = V->new_from_buff((spif_charptr_t) p, (spif_stridx_t) sz);
            else r = r && V->init_from_buff(self, (spif_charptr_t) p, (spif_stridx_t) sz);
        } else if (OP("_from_buff_null")) {
            if (isnew) self = V->new_from_buff(NULL, (spif_stridx_t) xint(ARG(0)));
            else r = r && V->init_from_buff(self, NULL, (spif_stridx_t) xint(ARG(0)));
        } else if (OP("_from_num_x")) {            /* neg a b c: the number as sign and decimal limbs */
            long kx = limbs(st, 0);
            if (isnew) self = V->new_from_num(kx); else r = r && V->init_from_num(self, kx);
        } else if (OP("_from_num")) {
            if (isnew) self = V->new_from_num(vh_int(ARG(0))); else r = r && V->init_from_num(self, vh_int(ARG(0)));
        } else if (OP("_from_fp") || OP("_from_fd") || OP("_from_fp_gen") || OP("_from_fd_gen")) {
            int gen = (strstr(op, "_gen") != NULL), isfp = (op[7] == 'p'), tr, fd;
            if (gen) { n = (size_t) vh_int(ARG(0)); p = gen_content((long) n, vh_int(ARG(1))); tr = (int) vh_int(ARG(2)); }
            else { p = vh_bytes(ARG(0), &n, 0); tr = (int) vh_int(ARG(1)); }
            fd = open_content(p, n, tr);
            if (isfp) {
                FILE *fp = fdopen(fd, "r");
                if (!fp) { perror("fdopen"); exit(2); }
                if (isnew) self = V->new_from_fp(fp); else r = r && V->init_from_fp(self, fp);
                fclose(fp);
            } else {
                if (isnew) self = V->new_from_fd(fd); else r = r && V->init_from_fd(self, fd);
                close(fd);
            }
            close_content();
        } else {
            snprintf(invmsg, sizeof(invmsg), "unknown_constructor_%s", st->op); return invmsg;
        }
        if (p) free(p);
        if (isnew) { if (!self) return "constructor_returned_NULL"; slot[me] = self; }
        sb_bool(ret, r);
        goto out;
    }

    if (!self) return "script_error_operation_on_absent_slot";

    if (OP("done")) sb_bool(ret, V->done(self));
    else if (OP("del")) { sb_bool(ret, V->del(self)); slot[me] = NULL; }
    else if (OP("dup")) {
        S d;
        if (other) return "script_error_dup_onto_live_slot";
        d = V->dup(self);
        if (!d) return "dup=NULL";
        slot[1 - me] = d;
        if (d == self) return "dup_returned_the_same_object";
        if (d->s && d->s == self->s) return "dup_shares_the_text_buffer";
        sb_bool(ret, 1);
    }
    else if (OP("append_from_ptr")) { p = vh_bytes(ARG(0), &n, 1); sb_bool(ret, V->append_from_ptr(self, (spif_charptr_t) p)); }
    else if (OP("prepend_from_ptr")) { p = vh_bytes(ARG(0), &n, 1); sb_bool(ret, V->prepend_from_ptr(self, (spif_charptr_t) p)); }
    else if (OP("append_char")) sb_bool(ret, V->append_char(self, (spif_char_t) vh_int(ARG(0))));
    else if (OP("prepend_char")) sb_bool(ret, V->prepend_char(self, (spif_char_t) vh_int(ARG(0))));
    else if (OP("append")) sb_bool(ret, V->append(self, other));
    else if (OP("prepend")) sb_bool(ret, V->prepend(self, other));
    else if (OP("append_self")) sb_bool(ret, V->append(self, self));
    else if (OP("prepend_self")) sb_bool(ret, V->prepend(self, self));
    else if (OP("splice_from_ptr")) {
        p = vh_bytes(ARG(2), &n, 1);
        sb_bool(ret, V->splice_from_ptr(self, (spif_stridx_t) xint(ARG(0)), (spif_stridx_t) xint(ARG(1)), (spif_charptr_t) p));
    }
    else if (OP("splice_from_ptr_null")) sb_bool(ret, V->splice_from_ptr(self, (spif_stridx_t) xint(ARG(0)), (spif_stridx_t) xint(ARG(1)), NULL));
    else if (OP("splice")) sb_bool(ret, V->splice(self, (spif_stridx_t) xint(ARG(0)), (spif_stridx_t) xint(ARG(1)), other));
    else if (OP("splice_self")) sb_bool(ret, V->splice(self, (spif_stridx_t) xint(ARG(0)), (spif_stridx_t) xint(ARG(1)), self));
    else if (OP("trim")) sb_bool(ret, V->trim(self));
    else if (OP("reverse")) sb_bool(ret, V->reverse(self));
    else if (OP("upcase")) sb_bool(ret, V->upcase(self));
    else if (OP("downcase")) sb_bool(ret, V->downcase(self));
    else if (OP("clear")) sb_bool(ret, V->clear(self, (spif_char_t) vh_int(ARG(0))));
    else if (OP("sprintf_lit")) { p = vh_bytes(ARG(0), &n, 1); sb_bool(ret, V->sprintf(self, (spif_charptr_t) p)); }
    else if (OP("sprintf_s")) {
        unsigned char *f = vh_bytes("[37,115]", NULL, 1);       /* "%s" */
        p = vh_bytes(ARG(0), &n, 1); sb_bool(ret, V->sprintf(self, (spif_charptr_t) f, (char *) p)); free(f);
    }
    else if (OP("sprintf_s_gen")) {           /* "%s" with a generated argument of n characters (long outputs) */
        unsigned char *f = vh_bytes("[37,115]", NULL, 1);
        long gn = vh_int(ARG(0));
        p = gen_content(gn, 0); p[gn] = 0;
        sb_bool(ret, V->sprintf(self, (spif_charptr_t) f, (char *) p)); free(f);
    }
    else if (OP("sprintf_d_x")) {
        unsigned char *f = vh_bytes("[37,100]", NULL, 1);       /* "%d" with an int given as sign and decimal limbs */
        sb_bool(ret, V->sprintf(self, (spif_charptr_t) f, (int) limbs(st, 0))); free(f);
    }
    else if (OP("sprintf_d")) {
        unsigned char *f = vh_bytes("[37,100]", NULL, 1);       /* "%d" */
        sb_bool(ret, V->sprintf(self, (spif_charptr_t) f, (int) vh_int(ARG(0)))); free(f);
    }
    else if (OP("sprintf_sd")) {
        unsigned char *f = vh_bytes("[37,115,61,37,100]", NULL, 1);       /* "%s=%d" */
        p = vh_bytes(ARG(0), &n, 1); sb_bool(ret, V->sprintf(self, (spif_charptr_t) f, (char *) p, (int) vh_int(ARG(1)))); free(f);
    }
    /* queries */
    else if (OP("len")) sb_int(ret, (long) V->get_len(self));
    else if (OP("index")) sb_int(ret, (long) V->index(self, (spif_char_t) vh_int(ARG(0))));
    else if (OP("rindex")) sb_int(ret, (long) V->rindex(self, (spif_char_t) vh_int(ARG(0))));
    else if (OP("find_from_ptr")) { p = vh_bytes(ARG(0), &n, 1); sb_int(ret, (long) V->find_from_ptr(self, (spif_charptr_t) p)); }
    /* the C-string argument is the object's own text from offset k (source inside the receiver: allowed for queries) */
    else if (OP("find_from_ptr_own")) { long k = vh_int(ARG(0)); sb_int(ret, (long) V->find_from_ptr(self, self->s ? self->s + k : (spif_charptr_t) "")); }
    else if (OP("cmp_with_ptr_own")) { long k = vh_int(ARG(0)); sb_int(ret, (long) V->cmp_with_ptr(self, self->s ? self->s + k : (spif_charptr_t) "")); }
    else if (OP("casecmp_with_ptr_own")) { long k = vh_int(ARG(0)); sb_int(ret, (long) V->casecmp_with_ptr(self, self->s ? self->s + k : (spif_charptr_t) "")); }
    else if (OP("ncmp_with_ptr_own")) { long k = vh_int(ARG(0)); sb_int(ret, (long) V->ncmp_with_ptr(self, self->s ? self->s + k : (spif_charptr_t) "", (spif_stridx_t) xint(ARG(1)))); }
    else if (OP("ncasecmp_with_ptr_own")) { long k = vh_int(ARG(0)); sb_int(ret, (long) V->ncasecmp_with_ptr(self, self->s ? self->s + k : (spif_charptr_t) "", (spif_stridx_t) xint(ARG(1)))); }
    else if (OP("find")) sb_int(ret, (long) V->find(self, other));
    else if (OP("find_self")) sb_int(ret, (long) V->find(self, self));
    else if (OP("substr")) {
        S r = V->substr(self, (spif_stridx_t) xint(ARG(0)), (spif_stridx_t) xint(ARG(1)));
        if (!r) put_sub(ret, 0, NULL, 0);
        else {
            if ((inv = check_obj(r, "substr_result"))) { V->del(r); return inv; }
            if (r->s && r->s >= self->s && self->s && r->s <= self->s + self->len) { return "substr_result_shares_the_text_buffer"; }
            put_sub(ret, 1, (const unsigned char *) r->s, (size_t) r->len);
            V->del(r);
        }
    }
    else if (OP("substr_to_ptr")) {
        spif_charptr_t r = V->substr_to_ptr(self, (spif_stridx_t) xint(ARG(0)), (spif_stridx_t) xint(ARG(1)));
        if (!r) put_sub(ret, 0, NULL, 0);
        else {
            size_t asz, k;
#ifdef VH_ASAN
            if (!__sanitizer_get_ownership(r)) return "substr_to_ptr_result_is_not_a_heap_block";
            asz = __sanitizer_get_allocated_size(r);
#else
            asz = strlen((char *) r) + 1;
#endif
            for (k = 0; k < asz && r[k]; k++) ;
            if (k == asz) { free(r); return "substr_to_ptr_result_is_not_NUL_terminated_inside_its_allocation"; }
            put_sub(ret, 1, (const unsigned char *) r, k);
            free(r);
        }
    }
    else if (OP("cmp_with_ptr")) { p = vh_bytes(ARG(0), &n, 1); sb_int(ret, (long) V->cmp_with_ptr(self, (spif_charptr_t) p)); }
    else if (OP("casecmp_with_ptr")) { p = vh_bytes(ARG(0), &n, 1); sb_int(ret, (long) V->casecmp_with_ptr(self, (spif_charptr_t) p)); }
    else if (OP("ncmp_with_ptr")) { p = vh_bytes(ARG(0), &n, 1); sb_int(ret, (long) V->ncmp_with_ptr(self, (spif_charptr_t) p, (spif_stridx_t) xint(ARG(1)))); }
    else if (OP("ncasecmp_with_ptr")) { p = vh_bytes(ARG(0), &n, 1); sb_int(ret, (long) V->ncasecmp_with_ptr(self, (spif_charptr_t) p, (spif_stridx_t) xint(ARG(1)))); }
    else if (OP("cmp")) sb_int(ret, (long) V->cmp(self, other));
    else if (OP("casecmp")) sb_int(ret, (long) V->casecmp(self, other));
    else if (OP("ncmp")) sb_int(ret, (long) V->ncmp(self, other, (spif_stridx_t) xint(ARG(0))));
    else if (OP("ncasecmp")) sb_int(ret, (long) V->ncasecmp(self, other, (spif_stridx_t) xint(ARG(0))));
    else if (OP("cmp_self")) sb_int(ret, (long) V->cmp(self, self));
    else if (OP("casecmp_self")) sb_int(ret, (long) V->casecmp(self, self));
    else if (OP("ncmp_self")) sb_int(ret, (long) V->ncmp(self, self, (spif_stridx_t) xint(ARG(0))));
    else if (OP("ncasecmp_self")) sb_int(ret, (long) V->ncasecmp(self, self, (spif_stridx_t) xint(ARG(0))));
    else if (OP("cmp_with_ptr_null")) sb_int(ret, (long) V->cmp_with_ptr(self, NULL));
    else if (OP("casecmp_with_ptr_null")) sb_int(ret, (long) V->casecmp_with_ptr(self, NULL));
    else if (OP("ncmp_with_ptr_null")) sb_int(ret, (long) V->ncmp_with_ptr(self, NULL, (spif_stridx_t) xint(ARG(0))));
    else if (OP("ncasecmp_with_ptr_null")) sb_int(ret, (long) V->ncasecmp_with_ptr(self, NULL, (spif_stridx_t) xint(ARG(0))));
    else if (OP("to_num")) sb_int(ret, (long) V->to_num(self, (int) vh_int(ARG(0))));
    else if (OP("to_float")) {
        double d = V->to_float(self);
        if (d == floor(d) && fabs(d) < 1e15) sb_int(ret, (long) d); else sb_puts(ret, "not_integral");
    }
    else { snprintf(invmsg, sizeof(invmsg), "unknown_op_%s", st->op); return invmsg; }
    if (p) free(p);

out:
    if ((inv = project(state))) return inv;
#ifdef VH_ASAN
    if (own_heap && own_h0_set) {      /* per-call heap account: everything allocated since the script began belongs to a live string */
        long owned = 0; int i;
        for (i = 0; i < 2; i++) if (slot[i]) owned += (long) sizeof(*slot[i]) + (slot[i]->s ? (long) __sanitizer_get_allocated_size(slot[i]->s) : 0);
        if (own_level() - own_h0 != owned) {
            snprintf(invmsg, sizeof(invmsg), "heap:%ld_bytes_allocated_but_%ld_owned_by_the_live_strings", own_level() - own_h0, owned);
            return invmsg;
        }
    }
#endif
    if (quiet) return NULL;
    if (st->exp_state[0] == '?' && st->exp_state[1] == 0) {       /* record mode: "=" when the projection did not change */
        if (!strcmp(state->p, last_state.p)) { sb_reset(state); sb_putc(state, '='); }
        else { sb_reset(&last_state); sb_puts(&last_state, state->p); }
    }
    return NULL;
}

/* "<op>_n k args..." = k consecutive calls of <op> args...; representation invariants are checked and the slack is
 * poisoned after every call, the return values are and-ed, the projection is emitted after the last call. */
static const char *vh_step(const vh_step_t *st, vh_sb *ret, vh_sb *state) {
    size_t n = strlen(st->op);
    const char *inv = NULL;
    if (wiring_msg) return wiring_msg;
    g_ret = ret; g_state = state;
    if (!own_h0_set) { own_h0 = own_level(); own_h0_set = 1; }
    xint_bad = 0;
    if (n > 2 && !strcmp(st->op + n - 2, "_x") && !strstr(st->op, "_from_num_x") && !strstr(st->op, "sprintf_d_x")) {
        static char basex[64];
        vh_step_t one = *st;
        if (n - 2 >= sizeof(basex)) return "script_error_x";
        memcpy(basex, st->op, n - 2); basex[n - 2] = 0;
        one.op = basex;
        inv = step1(&one, ret, state);
        if (!inv && xint_bad) return "script_error_inconsistent_extended_integer";
        return inv;
    }
    if (n > 2 && !strcmp(st->op + n - 2, "_n")) {
        static char base[64];
        vh_step_t one = *st;
        long k = vh_int(st->args[0]), i; int all = 1, j;
        if (n - 2 >= sizeof(base) || st->nargs < 1) return "script_error_burst";
        memcpy(base, st->op, n - 2); base[n - 2] = 0;
        one.op = base; one.nargs = st->nargs - 1;
        for (j = 0; j < one.nargs; j++) one.args[j] = st->args[j + 1];
        if (k <= 0) { quiet = 0; sb_bool(ret, 1); return project(state); }
        for (i = 0; i < k && !inv; i++) {
            quiet = (i < k - 1);
            sb_reset(ret); sb_reset(state);
            inv = step1(&one, ret, state);
            if (!inv && strcmp(ret->p, "T")) all = 0;
        }
        quiet = 0;
        if (inv) return inv;
        sb_reset(ret); sb_bool(ret, all);
        return NULL;
    }
    return step1(st, ret, state);
}

int main(int argc, char **argv) {
    if (argc < 3) { fprintf(stderr, "usage: %s <str|ustr> <scripts> [first]\n", argv[0]); return 2; }
    if (!strcmp(argv[1], "str")) V = &vt_str;
    else if (!strcmp(argv[1], "ustr")) V = &vt_ustr;
    else { fprintf(stderr, "unknown class %s\n", argv[1]); return 2; }
    libast_set_program_name("str_replay");
    DEBUG_LEVEL = getenv("C01_DEBUG_LEVEL") ? (unsigned) atoi(getenv("C01_DEBUG_LEVEL")) : 0;      /* process-wide switch: a dimension of the purity runs */
    sb_need(&last_state, 1 << 16);
    own_heap = getenv("C01_OWN_HEAP") != NULL;
    preset_errno = getenv("C01_ERRNO") ? atoi(getenv("C01_ERRNO")) : 0;
    wiring_msg = check_wiring();
    if (wiring_msg) wiring_msg = strdup(wiring_msg);
    return vh_main(argc, argv, 2);
}
