/* C08: runs behaviours of OptParse.tla on the real option parser (spifopt_parse) and records what the program
 * can observe afterwards.  The comparison with TLC's expectation is done by checks/c08.py (record mode).
 *
 * usage: opt_replay <tables-file> <scriptfile> [first]
 * tables-file (written by checks/c08.py from the header line TLC prints, i.e. from MC_OptParse.tla):
 *     I <table> <flags0-word> <int0>      (initial content of the boolean word: all 64 bits matter)
 *     O <table> <short-code> <kind> <pp:0|1> <deprecated:0|1> <array:0|1> <bit> <long-name-codes>
 * script:  S <sid>
 *          parse <table> <settings|-1> <argv-token|-> <leak-ok:T|F> <prelude> = ? ?   first call: builds everything
 *          parse <table> <settings> - F <prelude> = ? ?                              a further call on the same argv, SAME argc
 * prelude (stale process state set up right before the call; the result must not depend on it):
 *   0 none, 1 errno=ERANGE, 2 errno=EINTR, 3 errno=EAGAIN, 4 an earlier parse of another command line with another
 *   table that ended in bad options (and the program reset the counter afterwards)
 *          E
 * settings: bit0 PREPARSE, bit1 REMOVE_ARGS (the library's own values).
 * State token: {argv=[[..]..],bad=N,fl=N,hang=T|F,help=N,sf=N,term=T|F,tv=[{has=,n=,s=,ws=}...]}
 *   argv = words argv[1..] up to the first NULL (at most argc-1), term = a NULL was found at an index <= argc.
 */
#include "common.h"
#include <setjmp.h>
#include <sys/time.h>

#define MAXT 4
#define MAXO 40
#define MAXW 16
#define GUARD 0xA5C3A5C3A5C3A5C3UL

typedef struct { int sh, kind, pp, dep, arr, bit; char lg[32]; } odef_t;
enum { K_BOOL, K_INT, K_STR, K_ARGS, K_ABST, K_CNT };
static odef_t defs[MAXT][MAXO];
static int ndefs[MAXT];
static unsigned long flags0_word[MAXT]; static long int0;

/* targets: every one an unsigned-long sized cell between two guard words, all inside one heap block */
typedef struct { unsigned long g0, v, g1; } cell_t;
static cell_t *cells;            /* [0] = shared boolean word, [1 + j] = target of option j */
/* An INTEGER option's target is an int (handle_integer stores through an int pointer): the int lives in the first
 * sizeof(int) bytes of the cell and the REST of the cell is a guard of its own, so a store of any other width
 * ("strtol returns a long") is a write beyond the target even when the value it carries is right. */
#define INT_TAIL 0xA5
static void set_int_cell(cell_t *c, int v) { memset(&c->v, INT_TAIL, sizeof(c->v)); memcpy(&c->v, &v, sizeof(v)); }
static int int_of_cell(const cell_t *c) { int v; memcpy(&v, &c->v, sizeof(v)); return v; }
static int int_tail_ok(const cell_t *c) {
    const unsigned char *p = (const unsigned char *) &c->v; size_t k;
    for (k = sizeof(int); k < sizeof(c->v); k++) if (p[k] != INT_TAIL) return 0;
    return 1;
}
static spifopt_t *table;
static int cur_tb = -1, nopt;
static char **av, **orig; static int ac;
/* abstract options: the handler is told the value only, so every abstract option of a table gets a handler of its own */
#define MAXABST 8
static struct { long calls; int has; char *val; } abst[MAXABST];
static int abst_of[MAXO];        /* option index -> handler slot */
static long nhelp;
static sigjmp_buf jb; static volatile int armed;
static char invmsg[256];

static void help_handler(void) { nhelp++; }
static void abstract_called(int k, spif_charptr_t v) {
    abst[k].calls++;
    if (abst[k].val) free(abst[k].val);
    abst[k].val = v ? strdup((char *) v) : NULL;
    abst[k].has = v != NULL;
}
#define AH(k) static void abstract_handler_##k(spif_charptr_t v) { abstract_called(k, v); }
AH(0) AH(1) AH(2) AH(3) AH(4) AH(5) AH(6) AH(7)
static spifopt_abstract_handler_t abstract_handlers[MAXABST] = {
    abstract_handler_0, abstract_handler_1, abstract_handler_2, abstract_handler_3,
    abstract_handler_4, abstract_handler_5, abstract_handler_6, abstract_handler_7 };
static void on_vtalrm(int sig) { (void) sig; if (armed) { armed = 0; siglongjmp(jb, 1); } }

static void load_tables(const char *path) {
    FILE *f = fopen(path, "r"); char line[1024];
    if (!f) { perror(path); exit(2); }
    while (fgets(line, sizeof(line), f)) {
        if (line[0] == 'I') {
            int t; unsigned long w; long v;
            if (sscanf(line + 1, "%d %lu %ld", &t, &w, &v) != 3 || t < 1 || t > MAXT) { fprintf(stderr, "bad init line %s", line); exit(2); }
            flags0_word[t - 1] = w; int0 = v;
        }
        else if (line[0] == 'O') {
            int t, sh, pp, dep, arr, bit, n, i; char kind[16], lst[512]; long cs[64]; odef_t *d;
            if (sscanf(line + 1, "%d %d %15s %d %d %d %d %511s", &t, &sh, kind, &pp, &dep, &arr, &bit, lst) != 8) { fprintf(stderr, "bad table line %s", line); exit(2); }
            if (t < 1 || t > MAXT || ndefs[t - 1] >= MAXO) { fprintf(stderr, "table overflow\n"); exit(2); }
            d = &defs[t - 1][ndefs[t - 1]++];
            d->sh = sh; d->pp = pp; d->dep = dep; d->arr = arr; d->bit = bit;
            d->kind = !strcmp(kind, "bool") ? K_BOOL : !strcmp(kind, "int") ? K_INT : !strcmp(kind, "str") ? K_STR
                    : !strcmp(kind, "args") ? K_ARGS : !strcmp(kind, "abst") ? K_ABST : K_CNT;
            n = vh_intlist(lst, cs, 31);
            for (i = 0; i < n && i < 31; i++) d->lg[i] = (char) cs[i];
            d->lg[i] = 0;
        }
    }
    fclose(f);
}

static void setup(int tb, const char *argvtok) {
    int j, n = 0, nab = 0; const char *p;
    cur_tb = tb; nopt = ndefs[tb];
    cells = (cell_t *) malloc(sizeof(cell_t) * (size_t) (nopt + 1));
    table = (spifopt_t *) malloc(sizeof(spifopt_t) * (size_t) nopt);       /* exact size: redzone right behind the table */
    for (j = 0; j <= nopt; j++) { cells[j].g0 = cells[j].g1 = GUARD; cells[j].v = 0; }
    cells[0].v = flags0_word[tb];
    for (j = 0; j < nopt; j++) {
        odef_t *d = &defs[tb][j]; spifopt_t *o = &table[j];
        unsigned long fl = 0;
        o->short_opt = (spif_char_t) d->sh; o->long_opt = SPIF_CHARPTR(d->lg); o->desc = SPIF_CHARPTR("d");
        o->mask = 0; o->value = &cells[1 + j].v;
        switch (d->kind) {
            case K_BOOL: fl = SPIFOPT_FLAG_BOOLEAN; o->value = &cells[0].v; o->mask = (spif_uint32_t) (1UL << d->bit); break;
            case K_INT:  fl = SPIFOPT_FLAG_INTEGER; set_int_cell(&cells[1 + j], (int) int0); break;
            case K_STR:  fl = SPIFOPT_FLAG_STRING; break;
            case K_ARGS: fl = SPIFOPT_FLAG_ARGLIST; break;
            case K_ABST:
                if (nab >= MAXABST) { fprintf(stderr, "too many abstract options\n"); exit(2); }
                fl = SPIFOPT_FLAG_ABSTRACT; abst_of[j] = nab; o->value = (void *) abstract_handlers[nab++]; break;
            default:     fl = SPIFOPT_FLAG_COUNTER; break;
        }
        if (d->pp) fl |= SPIFOPT_FLAG_PREPARSE;
        if (d->dep) fl |= SPIFOPT_FLAG_DEPRECATED;
        if (d->arr) fl |= SPIFOPT_FLAG_ARRAY;
        o->flags = (spif_uint16_t) fl;
    }
    /* argv: "[[45,97],[120]]" -> exact-size array, every word its own exact-size allocation */
    ac = 1;
    for (p = argvtok + 1; *p; p++) if (*p == '[') ac++;
    av = (char **) malloc(sizeof(char *) * (size_t) (ac + 1));
    orig = (char **) malloc(sizeof(char *) * (size_t) (ac + 1));
    av[0] = strdup("prog");
    p = argvtok + 1; n = 1;
    while (*p && n < ac) {
        if (*p == '[') {
            const char *e = strchr(p, ']'); size_t len; char *tmp;
            size_t k = (size_t) (e - p + 1);
            tmp = (char *) malloc(k + 1);
            memcpy(tmp, p, k); tmp[k] = 0;
            av[n++] = (char *) vh_bytes(tmp, &len, 1);
            free(tmp);
            p = e + 1;
        } else p++;
    }
    av[ac] = NULL;
    memcpy(orig, av, sizeof(char *) * (size_t) (ac + 1));
    memset(abst, 0, sizeof(abst)); nhelp = 0;
    SPIFOPT_OPTLIST_SET(table);
    SPIFOPT_NUMOPTS_SET(nopt);
    SPIFOPT_ALLOWBAD_SET(255);          /* the limit is an 8-bit field: its largest value, so that limit handling never starts */
    SPIFOPT_BADOPTS_SET(0);
    SPIFOPT_HELPHANDLER_SET(help_handler);
    spifopt_settings.flags = 0;
}

/* prelude 4: what an earlier, unrelated use of the parser in the same process leaves behind */
static void earlier_refused_parse(void) {
    static long qv; static char a0[] = "p", a1[] = "--zz", a2[] = "-q", a3[] = "99999999999999999999999";
    char *pav[5]; spifopt_t pt[1];
    spif_uint8_t fl = spifopt_settings.flags; spif_uint16_t bad = SPIFOPT_BADOPTS_GET();
    pt[0].short_opt = 'q'; pt[0].long_opt = SPIF_CHARPTR("qq"); pt[0].desc = SPIF_CHARPTR("d");
    pt[0].flags = SPIFOPT_FLAG_INTEGER; pt[0].value = &qv; pt[0].mask = 0;
    pav[0] = a0; pav[1] = a1; pav[2] = a2; pav[3] = a3; pav[4] = NULL;
    SPIFOPT_OPTLIST_SET(pt); SPIFOPT_NUMOPTS_SET(1); spifopt_settings.flags = 0;
    spifopt_parse(4, pav);
    SPIFOPT_OPTLIST_SET(table); SPIFOPT_NUMOPTS_SET(nopt); spifopt_settings.flags = fl; SPIFOPT_BADOPTS_SET(bad);
}

static void vh_begin(void) { cur_tb = -1; vh_check_heap = 1; }

static void free_strlist(char **l) {
    int k;
    if (!l) return;
    for (k = 0; l[k]; k++) free(l[k]);
    free(l);
}

static void vh_end(void) {
    int j;
    if (cur_tb < 0) return;
    for (j = 0; j < nopt; j++) {
        odef_t *d = &defs[cur_tb][j];
        if (d->kind == K_STR && cells[1 + j].v) free((void *) cells[1 + j].v);
        if (d->kind == K_ARGS && cells[1 + j].v) free_strlist((char **) cells[1 + j].v);
    }
    for (j = 0; j < ac; j++) free(orig[j]);
    free(orig); free(av); free(cells); free(table);
    for (j = 0; j < MAXABST; j++) { if (abst[j].val) free(abst[j].val); abst[j].val = NULL; }
    SPIFOPT_OPTLIST_SET(NULL); SPIFOPT_NUMOPTS_SET(0);
    cur_tb = -1;
}

static void put_text(vh_sb *b, const char *s) { sb_bytes(b, (const unsigned char *) s, strlen(s)); }

static const char *vh_step(const vh_step_t *st, vh_sb *ret, vh_sb *state) {
    int tb, j, k, hang = 0, term = 0; long settings, prelude;
    struct itimerval tv, off;

    if (strcmp(st->op, "parse") || st->nargs < 5) return "unknown_op";
    prelude = vh_int(st->args[4]);
    tb = (int) vh_int(st->args[0]) - 1; settings = vh_int(st->args[1]);
    if (tb < 0 || tb >= MAXT || !ndefs[tb]) return "no_such_table";
    if (cur_tb < 0) {
        setup(tb, st->args[2]);
        if (vh_bool(st->args[3])) vh_check_heap = 0;     /* an overwritten string/list value is the program's to free */
    }
    if (settings >= 0) spifopt_settings.flags = (spif_uint8_t) settings;

    memset(&off, 0, sizeof(off)); memset(&tv, 0, sizeof(tv));
    tv.it_value.tv_usec = 300000;                         /* CPU-time watchdog */
    if (sigsetjmp(jb, 1) == 0) {
        armed = 1;
        setitimer(ITIMER_VIRTUAL, &tv, NULL);
        if (prelude == 4) earlier_refused_parse();
        errno = prelude == 1 ? ERANGE : prelude == 2 ? EINTR : prelude == 3 ? EAGAIN : prelude == 0 ? 0 : errno;   /* fresh = errno 0 */
        spifopt_parse(ac, av);
        armed = 0;
        setitimer(ITIMER_VIRTUAL, &off, NULL);
    } else {
        setitimer(ITIMER_VIRTUAL, &off, NULL);
        hang = 1;
        vh_check_heap = 0;                                /* an interrupted call cannot be balanced */
        { FILE *dn = fopen("/dev/null", "w"); if (dn) { setvbuf(dn, NULL, _IONBF, 0); stderr = dn; } }   /* the old stream may have been left locked */
    }
    sb_bool(ret, !hang);

    for (j = 0; j <= nopt; j++) {
        if (cells[j].g0 != GUARD || cells[j].g1 != GUARD) {
            snprintf(invmsg, sizeof(invmsg), "guard_word_damaged_next_to_target_%d", j);
            return invmsg;
        }
    }
    for (j = 0; j < nopt; j++) {
        if (defs[cur_tb][j].kind == K_INT && !int_tail_ok(&cells[1 + j])) {
            snprintf(invmsg, sizeof(invmsg), "write_beyond_the_int_target_%d", j);
            return invmsg;
        }
    }
    sb_puts(state, "{argv=[");
    for (k = 1; k <= ac; k++) {
        int m, known = 0;
        if (!av[k]) { term = 1; break; }
        if (k == ac) break;
        for (m = 1; m < ac; m++) if (orig[m] == av[k]) known = 1;
        if (!known) { snprintf(invmsg, sizeof(invmsg), "argv[%d]_is_not_one_of_the_original_words", k); return invmsg; }
        if (k > 1) sb_putc(state, ',');
        put_text(state, av[k]);
    }
    if (av[0] != orig[0]) return "argv[0]_changed";
    sb_printf(state, "],bad=%ld,fl=%lu,hang=%c,help=%ld,sf=%ld,term=%c,tv=[", (long) SPIFOPT_BADOPTS_GET(), cells[0].v,
              hang ? 'T' : 'F', nhelp, (long) SPIFOPT_FLAGS_GET(), term ? 'T' : 'F');
    for (j = 0; j < nopt; j++) {
        odef_t *d = &defs[cur_tb][j]; unsigned long v = cells[1 + j].v;
        if (j) sb_putc(state, ',');
        switch (d->kind) {
            case K_INT:
                sb_printf(state, "{has=F,n=%ld,s=[],ws=[]}", (long) int_of_cell(&cells[1 + j])); break;
            case K_CNT:
                sb_printf(state, "{has=F,n=%ld,s=[],ws=[]}", (long) v); break;
            case K_STR:
                if (!v) sb_puts(state, "{has=F,n=0,s=[],ws=[]}");
                else { sb_puts(state, "{has=T,n=0,s="); put_text(state, (char *) v); sb_puts(state, ",ws=[]}"); }
                break;
            case K_ARGS:
                if (!v) sb_puts(state, "{has=F,n=0,s=[],ws=[]}");
                else {
                    char **l = (char **) v;
                    sb_puts(state, "{has=T,n=0,s=[],ws=[");
                    for (k = 0; l[k] && k < 100000; k++) { if (k) sb_putc(state, ','); put_text(state, l[k]); }
                    sb_puts(state, "]}");
                }
                break;
            case K_ABST:
                sb_printf(state, "{has=%c,n=%ld,s=", abst[abst_of[j]].has ? 'T' : 'F', abst[abst_of[j]].calls);
                if (abst[abst_of[j]].val) put_text(state, abst[abst_of[j]].val); else sb_puts(state, "[]");
                sb_puts(state, ",ws=[]}");
                break;
            default:
                sb_puts(state, "{has=F,n=0,s=[],ws=[]}");
        }
    }
    sb_puts(state, "]}");
    return NULL;
}

int main(int argc, char **argv) {
    FILE *devnull;
    if (argc < 3) { fprintf(stderr, "usage: %s <tables> <scripts> [first]\n", argv[0]); return 2; }
    load_tables(argv[1]);
    libast_set_program_name("opt_replay");
    DEBUG_LEVEL = 0;
    signal(SIGVTALRM, on_vtalrm);
    /* the parser reports every bad option on stdio's stderr; the sanitizer writes to descriptor 2 directly */
    devnull = fopen("/dev/null", "w");
    if (devnull) { setvbuf(devnull, NULL, _IONBF, 0); stderr = devnull; }   /* unbuffered: no lazy allocation inside a script */
    return vh_main(argc, argv, 2);
}
