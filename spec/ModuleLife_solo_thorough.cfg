SPECIFICATION Spec
CONSTANTS
  Variants = {1, 2, 3, 4, 5}
  Paths = {1, 2, 3, 4, 5, 6, 7, 8, 9}
  Names = {1, 2}
  Slots = {1}
  LoadFaults = {"none", "dlopen", "init"}
  UnloadFaults = {"none", "done"}
  RunFaults = {"none", "run"}
  SymFaults = {"none", "sym"}
  Levels = {0, 1, 3, 5}
  Indents = {0, 2}
  Cap = 3
  AsBuilt = FALSE
  Bounded = TRUE
  TrackMain = FALSE
  Obs <- ObsEmit
INVARIANTS TypeOK RefsMatchHolders QuiescenceClosed MainMatches NoStaleUse LoaderSane
PROPERTIES OwnHooksOnly HookPairsWithRefs RefusedChangesNothing
VIEW View
CHECK_DEADLOCK FALSE
