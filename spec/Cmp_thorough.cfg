SPECIFICATION Spec
CONSTANTS
  Alpha = {0, 1, 97, 98, 200}
  MaxLen = 3
  Kinds = {"text", "pair"}
INVARIANTS Reflexive Antisymmetric Transitive TransitiveEq NullLeast Total PrefixIsLess EqualIffSameValue PairIgnoresValue EmitUniverse
CHECK_DEADLOCK FALSE
