------------------------------ MODULE StrHelpers ------------------------------
(* C13: the bounded copy helpers (spiftool_safe_strncpy / safe_strncat), spiftool_substr and the in-place  *)
(* helpers (chomp, condense_whitespace, downcase_str / upcase_str, safe_str, strrev) as pure operators     *)
(* over byte sequences.  A destination buffer is a sequence of exactly `size` bytes; an operator returns    *)
(* [result, ret, touched]: the buffer / string afterwards, the return value and the set of 0-based byte      *)
(* offsets the reference may write (everything else must keep its value).                                  *)
(* Rule kinds (DESIGN.md 3): S = stated by the property, C = as-built convention, X = outside the universe. *)
EXTENDS Integers, Sequences, FiniteSets, TLC, Json

CONSTANTS CopyAlphabet,     \* bytes of sources and destination prefixes
          MaxSize,          \* destination sizes 1 .. MaxSize
          MaxSrc,           \* longest source / prefix
          TextAlphabet,     \* bytes of the strings given to substr and to the in-place helpers
          MaxText,          \* longest such string
          Ints,             \* idx / cnt arguments of substr
          Obs(_, _, _, _)

VARIABLES fam,              \* "copy" | "substr" | "inplace"
          x,                \* the arguments: [size, src, pre, s, idx, cnt] (fields a family does not use are 0 / <<>>)
          done
vars == <<fam, x, done>>

\* S: every operation specified here is a pure function of its arguments.  The library's run-time debug level is a
\* process-wide switch (>= 1: a failed ASSERT exits the process; >= 3 and >= 5: trace statements); it is a DIMENSION of every
\* case - each emitted case is executed at every level of DebugLevels and must yield the same result, buffers and return
\* values, and never terminate the process - and not a parameter of any result.
DebugLevels == <<0, 1, 3, 5>>
NUL == 0   FILL == 126   NIL == -1
IsSpace(c) == c \in {32, 9, 10, 11, 12, 13}
IsCntrl(c) == c \in 0 .. 31 \/ c = 127
Lower(c) == IF c \in 65 .. 90 THEN c + 32 ELSE c
Upper(c) == IF c \in 97 .. 122 THEN c - 32 ELSE c
Min(S) == CHOOSE m \in S : \A y \in S : m <= y
Max(S) == CHOOSE m \in S : \A y \in S : m >= y
MinOf(a, b) == IF a < b THEN a ELSE b

\* the C string held by a buffer: the bytes before the first NUL (the whole buffer if there is none)
NulAt(buf)  == LET Z == {k \in 1 .. Len(buf) : buf[k] = NUL} IN IF Z = {} THEN Len(buf) + 1 ELSE Min(Z)
CStr(buf)   == SubSeq(buf, 1, NulAt(buf) - 1)
Terminated(buf) == NulAt(buf) <= Len(buf)
\* a destination of `size` bytes that holds the string pre (then NUL, then filler); not terminated when pre does not fit
Buffer(size, pre) == [k \in 1 .. size |-> IF k <= Len(pre) THEN pre[k] ELSE IF k = Len(pre) + 1 THEN NUL ELSE FILL]

------------------------------------------------------------------------------------------
(* bounded copies *)
\* S: at most size bytes written, always NUL-terminated, the longest prefix of src that fits, TRUE iff nothing was cut
SafeStrncpy(size, src, buf0) ==
    LET k == MinOf(Len(src), size - 1) IN
    [result  |-> [j \in 1 .. size |-> IF j <= k THEN src[j] ELSE IF j = k + 1 THEN NUL ELSE buf0[j]],
     ret     |-> Len(src) <= size - 1,
     touched |-> 0 .. k]
\* S: same, behind the string already in the destination.  C: a destination that holds no NUL within size bytes
\* is left alone and FALSE is returned (claimed = FALSE: the statement's "always NUL-terminated" presupposes a
\* destination that holds a string; the value is not compared there, the guard bytes are)
SafeStrncat(size, src, buf0) ==
    LET n == NulAt(buf0) - 1 IN
    IF n >= size THEN [result |-> buf0, ret |-> FALSE, touched |-> {}, claimed |-> FALSE]
    ELSE LET k == MinOf(Len(src), size - 1 - n) IN
         [result  |-> [j \in 1 .. size |-> IF j <= n THEN buf0[j] ELSE IF j <= n + k THEN src[j - n]
                                           ELSE IF j = n + k + 1 THEN NUL ELSE buf0[j]],
          ret     |-> Len(src) <= size - 1 - n,
          touched |-> n .. (n + k),
          claimed |-> TRUE]

\* a destination whose declared size is at least old + src + 1 bytes, of which only the first m = old + src + 1 are modelled
\* (and exist in the harness: the byte behind them is a guard byte): the result on those m bytes
RoomyCopy(src, pre) == LET m == Len(pre) + Len(src) + 1  b == Buffer(m, pre) IN
                       [buf0 |-> b, cpy |-> SafeStrncpy(m, src, b), cat |-> SafeStrncat(m, src, b)]

(* Source and destination in the SAME buffer (safe_strncpy(buf, buf + k, size), k >= 0: truncation in place, moving a tail to   *)
(* the front).  mem is the buffer, dest is its offset 0, the source string starts at offset k.  S: the outcome is that of       *)
(* copying the source string as it was BEFORE the call ("longest prefix that fits", "TRUE exactly when nothing was cut"); bytes *)
(* behind the size window keep their value.  X: a source that starts BEFORE the destination inside the same string (a forward   *)
(* copy reads what it has just written) and every aliased shape of safe_strncat (its source would lose its terminator) are      *)
(* outside the contract, as for strcpy / strcat.                                                                                  *)
AliasedStrncpy(mem, k, size) ==
    LET src == CStr(SubSeq(mem, k + 1, Len(mem)))
        r == SafeStrncpy(size, src, SubSeq(mem, 1, size)) IN
    [result |-> r.result \o SubSeq(mem, size + 1, Len(mem)), ret |-> r.ret, touched |-> r.touched, src |-> src]
\* the buffer that holds the string t (then NUL, then filler) and is at least `size` bytes long
AliasMem(t, size) == Buffer(IF size > Len(t) + 1 THEN size ELSE Len(t) + 1, t)

(* substr.  S: negative idx counts from the end; outside 0..len-1 refused.  C (DESIGN.md 8a): cnt <= 0 means "up *)
(* to |cnt| before the end", a negative resulting count is refused, an over-long count is clamped.              *)
Substr(s, idx, cnt) ==
    LET len == Len(s)
        start == IF idx < 0 THEN len + idx ELSE idx
        cc == IF cnt <= 0 THEN len - start + cnt ELSE cnt
    IN IF start < 0 \/ start >= len THEN [ok |-> FALSE, result |-> <<>>]
       ELSE IF cc < 0 THEN [ok |-> FALSE, result |-> <<>>]
       ELSE [ok |-> TRUE, result |-> SubSeq(s, start + 1, start + MinOf(cc, len - start))]

------------------------------------------------------------------------------------------
(* in-place helpers: s is the string, the block is Len(s)+1 bytes; touched within 0 .. Len(s) *)
\* (first / last non-blank position found by an ascending CHOOSE whose guard fails fast: linear for TLC, also on 65 535 bytes)
FirstNonBlank(s) == CHOOSE k \in 1 .. (Len(s) + 1) : (k = Len(s) + 1 \/ ~IsSpace(s[k])) /\ \A j \in 1 .. (k - 1) : IsSpace(s[j])
LastNonBlank(s)  == CHOOSE k \in 0 .. Len(s) : (k = 0 \/ ~IsSpace(s[k])) /\ \A j \in (k + 1) .. Len(s) : IsSpace(s[j])
\* S: chomp removes leading and trailing white space
Chomp(s) == [result |-> IF LastNonBlank(s) = 0 THEN <<>> ELSE SubSeq(s, FirstNonBlank(s), LastNonBlank(s)),
             touched |-> IF s = <<>> THEN {} ELSE 0 .. Len(s)]
\* C: every run of white space becomes one blank; a blank at the very end is dropped (one at the start stays)
\* (written without recursion so that TLC can evaluate it on texts of a thousand bytes: the kept positions are the
\* non-blank ones and the first blank of every run)
CondenseKept(s) == SelectSeq([k \in 1 .. Len(s) |-> k], LAMBDA k : ~IsSpace(s[k]) \/ k = 1 \/ ~IsSpace(s[k - 1]))
CondenseRuns(s) == LET idx == CondenseKept(s) IN [j \in 1 .. Len(idx) |-> IF IsSpace(s[idx[j]]) THEN 32 ELSE s[idx[j]]]
Condense(s) == LET r == CondenseRuns(s) IN
               [result |-> IF r # <<>> /\ r[Len(r)] = 32 THEN SubSeq(r, 1, Len(r) - 1) ELSE r,
                touched |-> 0 .. Len(s)]
Downcase(s) == [result |-> [k \in 1 .. Len(s) |-> Lower(s[k])], touched |-> 0 .. (Len(s) - 1)]
Upcase(s)   == [result |-> [k \in 1 .. Len(s) |-> Upper(s[k])], touched |-> 0 .. (Len(s) - 1)]
\* C: control characters among the first n bytes become '.'; n <= Len(s) (X beyond: n is the length of the text)
SafeStr(s, n) == [result |-> [k \in 1 .. Len(s) |-> IF k <= n /\ IsCntrl(s[k]) THEN 46 ELSE s[k]], touched |-> 0 .. (n - 1)]
Strrev(s)   == [result |-> [k \in 1 .. Len(s) |-> s[Len(s) + 1 - k]], touched |-> 0 .. (Len(s) - 1)]

InPlaceAll(s) == [chomp |-> Chomp(s).result, condense |-> Condense(s).result, down |-> Downcase(s).result,
                  up |-> Upcase(s).result, rev |-> Strrev(s).result,
                  safe |-> [n \in 1 .. (Len(s) + 1) |-> SafeStr(s, n - 1).result]]

------------------------------------------------------------------------------------------
(* the model: one state per argument tuple, one evaluation step each *)
X0 == [size |-> 0, src |-> <<>>, pre |-> <<>>, s |-> <<>>, idx |-> 0, cnt |-> 0]
SeqsUpTo(A, n) == UNION {[1 .. k -> A] : k \in 0 .. n}

\* substr does not look at the bytes: texts of distinct letters "", "a", "ab", .. (so that a wrong slice is visible) and a few others
SubstrTexts == {[k \in 1 .. n |-> 96 + k] : n \in 0 .. (MaxText + 1)} \cup SeqsUpTo(CopyAlphabet, 3)

Init == /\ done = FALSE
        /\ \/ /\ fam = "copy"
              /\ \E size \in 1 .. MaxSize, src \in SeqsUpTo(CopyAlphabet, MaxSrc), pre \in SeqsUpTo(CopyAlphabet, MaxSrc) :
                    x = [X0 EXCEPT !.size = size, !.src = src, !.pre = pre]
           \/ /\ fam = "substr"
              /\ \E s \in SubstrTexts, idx \in Ints, cnt \in Ints :
                    x = [X0 EXCEPT !.s = s, !.idx = idx, !.cnt = cnt]
           \/ /\ fam = "inplace"
              /\ \E s \in SeqsUpTo(TextAlphabet, MaxText) : x = [X0 EXCEPT !.s = s]
           \/ /\ fam = "alias"          \* s = the string in the buffer, idx = k (where the source starts), size
              /\ \E s \in SeqsUpTo(CopyAlphabet \cup {98}, MaxSrc), k \in 0 .. MaxSrc, size \in 1 .. MaxSize :
                    k <= Len(s) /\ x = [X0 EXCEPT !.s = s, !.idx = k, !.size = size]

EvalCopy == /\ ~done /\ fam = "copy" /\ done' = TRUE /\ UNCHANGED <<fam, x>>
            /\ LET b == Buffer(x.size, x.pre) IN
               Obs("copy", <<x.size, x.src, b>>, [cpy |-> SafeStrncpy(x.size, x.src, b), cat |-> SafeStrncat(x.size, x.src, b)], TRUE)
EvalSubstr == /\ ~done /\ fam = "substr" /\ done' = TRUE /\ UNCHANGED <<fam, x>>
              /\ Obs("substr", <<x.s, x.idx, x.cnt>>, Substr(x.s, x.idx, x.cnt), TRUE)
EvalInPlace == /\ ~done /\ fam = "inplace" /\ done' = TRUE /\ UNCHANGED <<fam, x>>
               /\ Obs("inplace", <<x.s>>, InPlaceAll(x.s), TRUE)
EvalAlias == /\ ~done /\ fam = "alias" /\ done' = TRUE /\ UNCHANGED <<fam, x>>
             /\ LET m == AliasMem(x.s, x.size) IN Obs("alias", <<x.size, x.idx, m>>, AliasedStrncpy(m, x.idx, x.size), TRUE)
Next == EvalCopy \/ EvalSubstr \/ EvalInPlace \/ EvalAlias
Spec == Init /\ [][Next]_vars

------------------------------------------------------------------------------------------
(* laws of the reference (checked on every argument tuple) *)
Untouched(r, before) == \A k \in 1 .. Len(before) : (k - 1) \notin r.touched => r.result[k] = before[k]
IsPrefixOf(p, t) == Len(p) <= Len(t) /\ SubSeq(t, 1, Len(p)) = p
CopyLawsOf(size, src, pre) ==
        LET b == Buffer(size, pre)
            c == SafeStrncpy(size, src, b)  a == SafeStrncat(size, src, b)  old == CStr(b) IN
        \* NulTerminated, within size bytes
        /\ Len(c.result) = size /\ Terminated(c.result)
        \* LongestPrefix: a prefix of src, and one more character would not have fitted
        /\ IsPrefixOf(CStr(c.result), src) /\ (CStr(c.result) # src => Len(CStr(c.result)) = size - 1)
        \* TrueIffNothingCut
        /\ c.ret = (CStr(c.result) = src)
        \* TouchedWithinBounds
        /\ c.touched \subseteq 0 .. (size - 1) /\ Untouched(c, b)
        /\ a.claimed = Terminated(b)
        /\ a.claimed =>
              /\ Len(a.result) = size /\ Terminated(a.result)
              /\ IsPrefixOf(old, CStr(a.result)) /\ IsPrefixOf(SubSeq(CStr(a.result), Len(old) + 1, Len(CStr(a.result))), src)
              /\ (CStr(a.result) # old \o src => Len(CStr(a.result)) = size - 1)
              /\ a.ret = (CStr(a.result) = old \o src)
              /\ a.touched \subseteq 0 .. (size - 1) /\ Untouched(a, b)
        /\ ~a.claimed => a.result = b /\ a.touched = {}
        \* SizeBeyondNeedIrrelevant: once everything fits (size >= old + src + 1) a larger size changes nothing - the strings, the
        \* return values and the touched offsets are those of the tight size.  This is how sizes the model cannot build a buffer
        \* for (65 536 .. INT_MAX) are specified: by their class "roomy" = the tight size (RoomyCopy below).
        /\ LET m == Len(old) + Len(src) + 1 IN
           (Terminated(b) /\ m <= size) =>
              LET bt == Buffer(m, old) ct == SafeStrncpy(m, src, bt) at == SafeStrncat(m, src, bt) IN
              /\ CStr(c.result) = CStr(ct.result) /\ c.ret = ct.ret /\ c.touched = ct.touched
              /\ CStr(a.result) = CStr(at.result) /\ a.ret = at.ret /\ a.touched = at.touched
SubstrLawsOf(s, idx, cnt) ==
        LET r == Substr(s, idx, cnt)  len == Len(s)
            start == IF idx < 0 THEN len + idx ELSE idx IN
        \* refused exactly when the start is outside the string or the count is negative beyond the rest
        /\ r.ok = (start \in 0 .. (len - 1) /\ (cnt <= 0 => len - start + cnt >= 0))
        \* exactly the requested in-range slice
        /\ r.ok => /\ r.result = SubSeq(s, start + 1, start + Len(r.result))
                   /\ (cnt > 0 => Len(r.result) = MinOf(cnt, len - start))
                   /\ (cnt <= 0 => Len(r.result) = len - start + cnt)
InPlaceLawsOf(s) ==
        \* NeverLonger, TouchedWithinBounds
        /\ \A r \in {Chomp(s), Condense(s), Downcase(s), Upcase(s), Strrev(s)} \cup {SafeStr(s, n) : n \in 0 .. Len(s)} :
              Len(r.result) <= Len(s) /\ r.touched \subseteq 0 .. Len(s)
        /\ LET c == Chomp(s).result IN
              /\ (c = <<>>) = (\A k \in 1 .. Len(s) : IsSpace(s[k]))
              /\ c # <<>> => ~IsSpace(c[1]) /\ ~IsSpace(c[Len(c)])
              /\ \E i \in 0 .. Len(s) : SubSeq(s, i + 1, i + Len(c)) = c /\ \A k \in (1 .. i) \cup ((i + Len(c) + 1) .. Len(s)) : IsSpace(s[k])
              /\ Chomp(c).result = c
        /\ LET c == Condense(s).result IN
              /\ \A k \in 1 .. Len(c) : IsSpace(c[k]) => c[k] = 32 /\ k < Len(c) /\ ~IsSpace(c[k + 1])
              /\ Condense(c).result = c
              /\ SelectSeq(c, LAMBDA ch : ~IsSpace(ch)) = SelectSeq(s, LAMBDA ch : ~IsSpace(ch))
        /\ Strrev(Strrev(s).result).result = s
        /\ Downcase(Upcase(s).result).result = Downcase(s).result
        /\ \A n \in 0 .. Len(s) : LET r == SafeStr(s, n).result IN Len(r) = Len(s) /\ \A k \in 1 .. n : ~IsCntrl(r[k])
AliasLawsOf(t, k, size) ==
        LET m == AliasMem(t, size)  r == AliasedStrncpy(m, k, size)  src == SubSeq(t, k + 1, Len(t))  got == CStr(r.result) IN
        /\ r.src = src /\ Len(r.result) = Len(m)
        /\ NulAt(r.result) <= size                                                  \* NulTerminated within size bytes
        /\ IsPrefixOf(got, src) /\ (got # src => Len(got) = size - 1)               \* LongestPrefix of the ORIGINAL source
        /\ r.ret = (got = src)                                                      \* TrueIffNothingCut
        /\ \A j \in 1 .. Len(m) : (j - 1) \notin r.touched => r.result[j] = m[j]   \* TouchedWithinBounds, the rest untouched
        /\ r.touched \subseteq 0 .. (size - 1)
        /\ (k = 0 /\ Len(t) < size) => r.result = m /\ r.ret                       \* copying a fitting string onto itself changes nothing
AliasLaws   == (fam = "alias" /\ ~done) => AliasLawsOf(x.s, x.idx, x.size)
CopyLaws    == (fam = "copy" /\ ~done) => CopyLawsOf(x.size, x.src, x.pre)
SubstrLaws  == (fam = "substr" /\ ~done) => SubstrLawsOf(x.s, x.idx, x.cnt)
InPlaceLaws == (fam = "inplace" /\ ~done) => InPlaceLawsOf(x.s)
================================================================================
