-------------------------------- MODULE VecBag --------------------------------
(* C04 (and the vector half of C05/C06): the vector interface of libast as ONE sorted     *)
(* multiset.  The array, linked_list and dlinked_list vector classes must all refine it.  *)
(*                                                                                       *)
(* State:  a    - slot A, the vector under test: the multiset written as its ascending    *)
(*                sequence (equal elements are interchangeable, so this is canonical)     *)
(*         b,bl - slot B: an independent copy produced by Dup (bl = it is live)           *)
(*         it   - NIL or the number of elements an iterator over A has already yielded    *)
(* Elements are 1..NE (the harness makes spif_str objects whose text orders like the      *)
(* number).  Probe arguments range over 0..NE+1: 0 is below every storable element, NE+1  *)
(* above every one.                                                                       *)
(* Element identity (round 3): elements that compare EQUAL may still be distinguishable (the   *)
(* harness also runs with elements objpair(value, unique tag)).  WHERE among its equals an     *)
(* element is kept is legitimately class-dependent, so tags are not part of this state; the    *)
(* harness checks them as ownership / representation facts after every step (the set of tags   *)
(* in the vector = inserted and not yet handed back; remove/find hand out a stored element)    *)
(* and at dup, where DupIsEqual (b' = a) must hold slot by slot INCLUDING the tags.            *)
(* Rule kinds (DESIGN.md 3): S = stated by the property, C = as-built convention.         *)
EXTENDS Integers, Sequences, FiniteSets, TLC, Json

CONSTANTS NE,         \* number of element values
          MaxLen,     \* model bound on the size of either slot
          BDepth,     \* model bound: while a copy is live the two multisets differ in at most BDepth occurrences
          Obs(_, _, _, _)   \* observation hook (op, args, ret, post-state)

VARIABLES a, b, bl, it
vars == <<a, b, bl, it>>

Elems  == 1 .. NE
Probes == 0 .. (NE + 1)
NONE   == 0                        \* "NULL" where an element is expected
NIL    == -1

------------------------------------------------------------------------------------------
(* the ideal sorted multiset *)
Cnt(s, e)   == Cardinality({i \in 1 .. Len(s) : s[i] = e})
Present(s, e) == \E i \in 1 .. Len(s) : s[i] = e
IsSorted(s) == \A i \in 1 .. (Len(s) - 1) : s[i] <= s[i + 1]
\* S: insertion keeps the ascending order (where among its equals the new element lands cannot be observed)
Ins(s, e)   == LET k == Cardinality({i \in 1 .. Len(s) : s[i] <= e}) IN
               SubSeq(s, 1, k) \o <<e>> \o SubSeq(s, k + 1, Len(s))
\* S: removal takes out exactly one element equal to the probe and hands it back
Rem(s, e)   == IF Present(s, e)
               THEN LET k == CHOOSE i \in 1 .. Len(s) : s[i] = e /\ \A j \in 1 .. (i - 1) : s[j] # e IN
                    [ret |-> e, s |-> SubSeq(s, 1, k - 1) \o SubSeq(s, k + 1, Len(s))]
               ELSE [ret |-> NONE, s |-> s]
FindRes(s, e) == IF Present(s, e) THEN e ELSE NONE          \* S: a stored element equal to the probe, iff one is present
Abs(n)      == IF n < 0 THEN 0 - n ELSE n
SumOver(f, S) == LET RECURSIVE Sum(_)
                     Sum(T) == IF T = {} THEN 0 ELSE LET x == CHOOSE y \in T : TRUE IN f[x] + Sum(T \ {x})
                 IN Sum(S)
Diff(x, y)  == SumOver([e \in Elems |-> Abs(Cnt(x, e) - Cnt(y, e))], Elems)

(* what the harness can observe of a state *)
BView(y, yl) == IF yl THEN [live |-> TRUE, s |-> y] ELSE [live |-> FALSE, s |-> <<>>]
St(x, y, yl, z) == [a |-> x, b |-> BView(y, yl), it |-> z]
Pre == St(a, b, bl, it)

Step(op, args, ret, x, y, yl, z) ==
    /\ a' = x /\ b' = y /\ bl' = yl /\ it' = z /\ Obs(op, args, ret, St(x, y, yl, z))
StepA(op, args, ret, x) == Step(op, args, ret, x, b, bl, it)
StepQ(op, args, ret)    == Step(op, args, ret, a, b, bl, it)

NoIter  == it = NIL                    \* program discipline: nothing is mutated while an iterator over A is alive
NOBOUND == 100000                      \* BDepth >= NOBOUND: no bound (trace validation; Diff is not evaluated)
Room    == bl => (IF BDepth >= NOBOUND THEN TRUE ELSE Diff(a, b) < BDepth)   \* model bound on how far the two copies drift apart
CanMutA == NoIter /\ Room
CanMutB == NoIter /\ bl /\ Room

------------------------------------------------------------------------------------------
(* mutators of A *)
(* Object classes (round 4: mixed-class elements).  Elements and probes are handed over as objects of one of two
   comparison-compatible classes: 1 = spif_str, 2 = spif_url (a url IS a str and compares by its text).  S: the vector is
   ordered and searched "by object comparison", so the class of an argument or of a stored element must never show in
   any result; the class arguments below do not enter the next-state or the return value at all - that IS the
   specification.  (Only while no copy is live may an argument be a url: model bound.) *)
Classes == 1 .. 2
ClsOK(c) == c \in Classes /\ (IF c = 1 THEN TRUE ELSE ~bl)
OpInsert(e, c) == /\ CanMutA /\ ClsOK(c) /\ Len(a) < MaxLen /\ StepA("insert", <<e, c>>, TRUE, Ins(a, e))
OpRemove(e, c) == LET r == Rem(a, e) IN
               /\ CanMutA /\ ClsOK(c) /\ StepA("remove", <<e, c>>, r.ret, r.s)          \* the returned element is the caller's
\* Aliased argument (round 3): the probe IS the stored element (as find() handed it out); it comes back to the caller.
OpRemoveOwn(e) == LET r == Rem(a, e) IN
               /\ CanMutA /\ Present(a, e) /\ StepA("remove_own", <<e>>, r.ret, r.s)
\* Macro step for the size sweeps (round 3): insert(lo), insert(lo+st), .. <= hi in that order.  Only offered when every
\* stored element is below lo, so the result is the plain concatenation (FillLaw ties it to Ins).
FillSeq(lo, hi, st) == [i \in 1 .. ((hi - lo) \div st + 1) |-> lo + (i - 1) * st]
\* mix: 1 all elements are strs, 2 all are urls, 3 odd values are urls and even values strs.
OpFill(lo, hi, st, mix) == /\ CanMutA /\ mix \in 1 .. 3 /\ (IF mix = 1 THEN TRUE ELSE ~bl) /\ lo >= 1 /\ lo <= hi /\ st >= 1 /\ (IF a = <<>> THEN TRUE ELSE a[Len(a)] < lo)
                      /\ Len(a) + Len(FillSeq(lo, hi, st)) <= MaxLen
                      /\ StepA("fill", <<lo, hi, st, mix>>, Len(FillSeq(lo, hi, st)), a \o FillSeq(lo, hi, st))
OpDone      == /\ CanMutA /\ StepA("done", <<>>, TRUE, <<>>)             \* C06: empty and reusable

(* queries on A: enabled in every state, also while an iterator or a copy is alive *)
Anytime       == TRUE
OpFind(e, c)     == /\ Anytime /\ ClsOK(c) /\ StepQ("find", <<e, c>>, FindRes(a, e))
OpContains(e, c) == /\ Anytime /\ ClsOK(c) /\ StepQ("contains", <<e, c>>, Present(a, e))
OpCount       == /\ Anytime /\ StepQ("count", <<>>, Len(a))
OpToArray     == /\ Anytime /\ StepQ("to_array", <<>>, a)

(* iterator over A: ascending *)
OpIterNew     == /\ it = NIL /\ ~bl /\ Step("iter_new", <<>>, TRUE, a, b, bl, 0)
OpIterHasNext == /\ it # NIL /\ StepQ("iter_has_next", <<>>, it < Len(a))
OpIterNext    == /\ it # NIL                                     \* C: next() after exhaustion -> NULL, repeatedly
                 /\ Step("iter_next", <<>>, IF it < Len(a) THEN a[it + 1] ELSE NONE,
                         a, b, bl, IF it < Len(a) THEN it + 1 ELSE Len(a) + 1)
OpIterDel     == /\ it # NIL /\ Step("iter_del", <<>>, TRUE, a, b, bl, NIL)

(* the copy *)
OpDup        == /\ NoIter /\ ~bl /\ Step("dup", <<>>, TRUE, a, a, TRUE, it)
OpDelB       == /\ NoIter /\ bl /\ Step("b_del", <<>>, TRUE, a, <<>>, FALSE, it)
OpBInsert(e) == /\ CanMutB /\ Len(b) < MaxLen /\ Step("b_insert", <<e>>, TRUE, a, Ins(b, e), TRUE, it)
OpBRemove(e) == LET r == Rem(b, e) IN
                /\ CanMutB /\ Step("b_remove", <<e>>, r.ret, a, r.s, TRUE, it)
OpBFind(e)   == /\ NoIter /\ bl /\ StepQ("b_find", <<e>>, FindRes(b, e))
\* swap roles: delete A, keep the copy as the vector under test (the copy must be a full citizen)
OpAdopt      == /\ NoIter /\ bl /\ Step("adopt", <<>>, TRUE, b, <<>>, FALSE, it)

Init == a = <<>> /\ b = <<>> /\ bl = FALSE /\ it = NIL

Next == \/ \E e \in Elems : OpBInsert(e)
        \/ \E e \in Elems, c \in Classes : OpInsert(e, c)
        \/ \E e \in Probes : OpBRemove(e) \/ OpBFind(e)
        \/ \E e \in Probes, c \in Classes : OpRemove(e, c) \/ OpFind(e, c) \/ OpContains(e, c)
        \/ \E e \in Elems : OpRemoveOwn(e)
        \/ \E lo \in Elems, hi \in Elems, st \in 1 .. 2, mix \in {1, 3} : (st = 1 \/ hi - lo >= 2) /\ OpFill(lo, hi, st, mix)
        \/ OpDone \/ OpCount \/ OpToArray
        \/ OpIterNew \/ OpIterHasNext \/ OpIterNext \/ OpIterDel
        \/ OpDup \/ OpDelB \/ OpAdopt

Spec == Init /\ [][Next]_vars

------------------------------------------------------------------------------------------
(* properties of the reference itself *)
TypeOK == /\ a \in Seq(Elems) /\ Len(a) <= MaxLen
          /\ b \in Seq(Elems) /\ Len(b) <= MaxLen /\ bl \in BOOLEAN /\ (~bl => b = <<>>)
          /\ it \in {NIL} \cup 0 .. (MaxLen + 1)

\* S: iteration and to_array are always in ascending order
Sorted == IsSorted(a) /\ IsSorted(b)

\* S: "contains exactly the inserted-and-not-removed elements", stated per step: an insert adds exactly one occurrence
\* of its argument, a remove takes out exactly one occurrence of its probe if there is one and nothing otherwise, and no
\* other element count moves.  By induction over any history: multiset = inserted - removed.
BagConservationOf(s) ==
    /\ \A e \in Elems : LET t == Ins(s, e) IN
           /\ IsSorted(t) /\ Len(t) = Len(s) + 1
           /\ \A x \in Probes : Cnt(t, x) = Cnt(s, x) + (IF x = e THEN 1 ELSE 0)
    /\ \A e \in Probes : LET r == Rem(s, e) IN
           /\ IsSorted(r.s)
           /\ (r.ret = NONE) <=> ~Present(s, e)
           /\ Present(s, e) => r.ret = e /\ Len(r.s) = Len(s) - 1
           /\ \A x \in Probes : Cnt(r.s, x) = Cnt(s, x) - (IF x = e /\ Present(s, e) THEN 1 ELSE 0)
BagConservation == BagConservationOf(a) /\ BagConservationOf(b)

\* S: find returns a stored element equal to the probe iff one is present (never for probes outside the universe)
FindIffPresent == \A e \in Probes :
    /\ (FindRes(a, e) # NONE) <=> Cnt(a, e) > 0
    /\ FindRes(a, e) # NONE => FindRes(a, e) = e
    /\ e \notin Elems => FindRes(a, e) = NONE

\* the macro step is the iteration of insert: checked against Ins on the whole bounded universe
FillLaw == \A lo \in Elems, hi \in Elems, st \in 1 .. 2 : (lo <= hi /\ (IF a = <<>> THEN TRUE ELSE a[Len(a)] < lo)) =>
    LET RECURSIVE It(_, _)
        It(s, e) == IF e > hi THEN s ELSE It(Ins(s, e), e + st)
    IN  It(a, lo) = a \o FillSeq(lo, hi, st)

IterLaw == it # NIL => it <= Len(a) + 1
\* action properties (checked on every generated transition)
MutatorsOnly == [][ (a' # a \/ (bl /\ bl' /\ b' # b)) => NoIter ]_vars
\* C05: an action on one slot leaves the other unchanged while both are alive
SlotsIndependent == [][ (bl /\ bl') => (a' = a \/ b' = b) ]_vars
DupIsEqual == [][ (~bl /\ bl') => (b' = a /\ a' = a) ]_vars
================================================================================
