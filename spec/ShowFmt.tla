------------------------------- MODULE ShowFmt -------------------------------
(* Extension X02 (beyond the 20 listed properties): the `show` method of the object protocol.               *)
(*   show(self, name, buff, indent) renders the object as indented text lines, appends them to the str      *)
(*   buffer `buff` (a new one when buff is NULL) and returns the buffer.                                     *)
(* This module is the output GRAMMAR as a reference function of the abstract value:                         *)
(*   Lines(v, name, ind) = the sequence of line records of the rendering, pointers abstracted to tokens.    *)
(* A line record carries its kind `k`, its indentation `ind` (number of leading blanks) and the fields the  *)
(* kind needs; the concrete text of a kind is a fixed template (checks/x02.py: render_line), e.g.           *)
(*   open   <ind>(spif_<cls>_t) <name>:  P {            null  <ind>(spif_<cls>_t) <name>:  { ((spif_<cls>_t) NULL) } *)
(*   str    <ind>(spif_str_t) <name>:  P { "<text>", len <n>, size S }                     close <ind>}      *)
(* P = a non-NULL pointer, N = a NULL pointer, S = the capacity (representation detail, not part of the value). *)
(* `m` is the emission mode the mechanism uses for the line: "put" = NULL-safe (creates the buffer when it   *)
(* is NULL), "add" = appends to a buffer that must exist (see Run / AppendLaw).                             *)
(* Rule kinds (DESIGN.md 3): S = stated by the task, C = as-built convention (statement silent; strict),     *)
(* I = ideal (the as-built code plainly is not that; divergence is a finding, never encoded here).           *)
EXTENDS Integers, Sequences, FiniteSets, TLC, Json

CONSTANTS Values,        \* abstract values of the small universe
          Names,         \* names given by the caller
          Indents,
          Priors,        \* prior buffers: [some |-> FALSE, s |-> <<>>] (NULL) or [some |-> TRUE, s |-> text]
          BigValues, BigNames, BigIndents,      \* the memory-safety family (long names, large indents, long texts, deep nesting)
          Obs(_, _, _, _)

VARIABLES fam,           \* "small" | "big"
          v, name, ind, prior, done
vars == <<fam, v, name, ind, prior, done>>

-----------------------------------------------------------------------------------------
(* abstract values.  Texts / byte strings are sequences of codes `t` repeated `rep` times (rep > 1 only in   *)
(* the big family, so that a 5000-character text stays a small value).                                      *)
Null(c)        == [cls |-> c, nul |-> TRUE]
Txt(c, t, r)   == [cls |-> c, nul |-> FALSE, t |-> t, rep |-> r]
Str(t)         == Txt("str", t, 1)
Ustr(t)        == Txt("ustr", t, 1)
Mbuff(b)       == Txt("mbuff", b, 1)
Regexp(t)      == Txt("regexp", t, 1)
Obj            == [cls |-> "obj", nul |-> FALSE]
Pair(k, x)     == [cls |-> "objpair", nul |-> FALSE, kids |-> <<k, x>>]
Url(comps)     == [cls |-> "url", nul |-> FALSE, kids |-> comps]                 \* 7 components, each Null("str") or Str(..)
Tok(src, sep, ev) == [cls |-> "tok", nul |-> FALSE, kids |-> <<src, sep>>, n |-> ev]   \* ev = 1: evaluated (tokens exist)
Socket(l, r)   == [cls |-> "socket", nul |-> FALSE, kids |-> <<l, r>>]           \* never opened: scalar members are the constants of init
List(c, es)    == [cls |-> c, nul |-> FALSE, kids |-> es]                        \* c in array / linked_list / dlinked_list; Null("obj") = placeholder
Iter(l, pos)   == [cls |-> l.cls \o "_iterator", nul |-> FALSE, kids |-> <<l>>, n |-> pos]   \* pos elements already delivered

ListClasses == {"array", "linked_list", "dlinked_list"}
IterClasses == {"array_iterator", "linked_list_iterator", "dlinked_list_iterator"}
TextClasses == {"str", "ustr", "mbuff", "regexp"}
TLen(x) == Len(x.t) * x.rep
ByteAt(x, j) == x.t[(j % Len(x.t)) + 1]          \* j is 0-based

RECURSIVE Flat(_)
Flat(ss) == IF ss = <<>> THEN <<>> ELSE Head(ss) \o Flat(Tail(ss))
MinOf(a, b) == IF a < b THEN a ELSE b

\* C: tok_eval on texts without quote / escape characters: maximal runs of non-delimiters; delimiters are white
\* space when sep is NULL, the characters of sep otherwise
IsDelim(c, sep) == IF sep.nul THEN c \in {32, 9, 10, 11, 12, 13} ELSE \E q \in 1 .. Len(sep.t) : sep.t[q] = c
RECURSIVE WordsFrom(_, _, _, _)
WordsFrom(s, sep, i, cur) ==
    IF i > Len(s) THEN (IF cur = <<>> THEN <<>> ELSE <<cur>>)
    ELSE IF IsDelim(s[i], sep) THEN (IF cur = <<>> THEN <<>> ELSE <<cur>>) \o WordsFrom(s, sep, i + 1, <<>>)
    ELSE WordsFrom(s, sep, i + 1, Append(cur, s[i]))
TokensOf(x) == IF x.n = 1 THEN LET ws == WordsFrom(x.kids[1].t, x.kids[2], 1, <<>>) IN
                               List("dlinked_list", [q \in 1 .. Len(ws) |-> Str(ws[q])])
               ELSE Null("list")

-----------------------------------------------------------------------------------------
(* line records *)
NullLine(c, nm, i)     == [k |-> "null",  m |-> "put", ind |-> i, cls |-> c, name |-> nm]
OpenLine(c, nm, i)     == [k |-> "open",  m |-> "put", ind |-> i, cls |-> c, name |-> nm]
CloseLine(i)           == [k |-> "close", m |-> "add", ind |-> i]
StrLine(nm, i, x)      == [k |-> "str",   m |-> "put", ind |-> i, cls |-> x.cls, name |-> nm, t |-> x.t, rep |-> x.rep, n |-> TLen(x)]
ObjLine(c, nm, i)      == [k |-> "obj",   m |-> "put", ind |-> i, cls |-> c, name |-> nm, s |-> "!spif_" \o c \o "_t!"]
MbOpenLine(nm, i, x)   == [k |-> "mbopen", m |-> "put", ind |-> i, name |-> nm, n |-> TLen(x)]
DumpLine(i, off, bs)   == [k |-> "dump",  m |-> "add", ind |-> i, n |-> off, t |-> bs]
ChrLine(i, nm, c)      == [k |-> "chr",   m |-> "add", ind |-> i, name |-> nm, n |-> c]
LitLine(i, s)          == [k |-> "lit",   m |-> "add", ind |-> i, s |-> s]
LenLine(i, n)          == [k |-> "len",   m |-> "add", ind |-> i, n |-> n]
EmptyLine(i, star)     == [k |-> "empty", m |-> "add", ind |-> i, star |-> star]
IdxLine(i, n)          == [k |-> "idx",   m |-> "add", ind |-> i, n |-> n]
\* an item of a linked list: `(spif_<cls>_item_t) <name> (<pointers>):  ` followed, on the same text line, by the first line of
\* the element (d[1], its own indentation dropped) or by the NULL form of a placeholder
ItemLine(c, nm, i, p, d) == [k |-> "item", m |-> "put", ind |-> i, cls |-> c, name |-> nm, p |-> p, d |-> <<d>>]
NullInline             == [k |-> "nullobj", m |-> "add", ind |-> 0]

ItemName(q) == "item " \o ToString(q)
UrlNames == <<"proto", "user", "passwd", "host", "port", "path", "query">>
\* C: an unopened socket: the scalar members as spif_socket_init leaves them (fd -1, AF_INET = 2, SOCK_STREAM = 1)
SocketScalars == <<"(spif_sockfd_t) fd:  -1", "(spif_sockfamily_t) fam:  2", "(spif_socktype_t) type:  1",
                   "(spif_sockproto_t) proto:  0", "(spif_sockaddr_t) addr:       (nil)",
                   "(spif_sockaddr_len_t) len:  0", "(spif_uint32_t) flags:  0x00000000">>
\* pointers of item q of n: <<self, next>> (linked), <<prev, self, next>> (dlinked); N = NULL
ItemPtrs(c, q, n) == IF c = "linked_list" THEN <<"P", IF q = n THEN "N" ELSE "P">>
                     ELSE <<IF q = 1 THEN "N" ELSE "P", "P", IF q = n THEN "N" ELSE "P">>

-----------------------------------------------------------------------------------------
(* THE GRAMMAR.  S: header line at `ind`, member lines at ind + 2, nested objects rendered recursively by their *)
(* own show at ind + 2, NULL objects / members by the NULL form, closing brace at `ind`.                       *)
\* C: the NULL form of any iterator names the interface type
NullType(c) == IF c \in IterClasses THEN "iterator" ELSE c
RECURSIVE Lines(_, _, _)
\* the lines of element q of a linked list: the item prefix carries the first line of the element; the element's remaining
\* lines follow at the element's own indentation (I: rendered at the item's indentation i, like every nested object)
ItemLines(c, e, nm, i, p) ==
    IF e.nul THEN <<ItemLine(c, nm, i, p, NullInline)>>
    ELSE LET dl == Lines(e, "self->data", i) IN
         <<ItemLine(c, nm, i, p, [dl[1] EXCEPT !.ind = 0])>> \o Tail(dl)

Lines(x, nm, i) ==
    IF x.nul THEN <<NullLine(NullType(x.cls), nm, i)>>
    ELSE CASE x.cls \in {"str", "ustr"} ->
                \* C: one line: quoted text, length, capacity.  I (ustr): the text is shown, as for str
                <<StrLine(nm, i, x)>>
           [] x.cls = "obj" ->
                \* I: the class name text
                <<ObjLine("obj", nm, i)>>
           [] x.cls = "objpair" ->
                \* S: pairs show key and value
                <<OpenLine("objpair", nm, i)>> \o Lines(x.kids[1], "key", i + 2) \o Lines(x.kids[2], "value", i + 2) \o <<CloseLine(i)>>
           [] x.cls = "mbuff" ->
                \* C: hex dump, 8 bytes per row: offset, hex column, printable column (layout of the as-built row at indent 0)
                <<MbOpenLine(nm, i, x)>>
                \o [r \in 1 .. ((TLen(x) + 7) \div 8) |->
                        DumpLine(i + 2, 8 * (r - 1), [q \in 1 .. MinOf(8, TLen(x) - 8 * (r - 1)) |-> ByteAt(x, 8 * (r - 1) + q - 1)])]
                \o <<CloseLine(i)>>
           [] x.cls = "regexp" ->
                \* C: no members shown
                <<OpenLine("regexp", nm, i), CloseLine(i)>>
           [] x.cls = "url" ->
                <<OpenLine("url", nm, i)>> \o Flat([q \in 1 .. 7 |-> Lines(x.kids[q], UrlNames[q], i + 2)]) \o <<CloseLine(i)>>
           [] x.cls = "tok" ->
                <<OpenLine("tok", nm, i)>> \o Lines(x.kids[1], "src", i + 2) \o Lines(x.kids[2], "sep", i + 2)
                \o <<ChrLine(i + 2, "quote", 39), ChrLine(i + 2, "dquote", 34), ChrLine(i + 2, "escape", 92)>>
                \o Lines(TokensOf(x), "self->tokens", i + 2) \o <<CloseLine(i)>>
           [] x.cls = "socket" ->
                <<OpenLine("socket", nm, i)>> \o [q \in 1 .. 7 |-> LitLine(i + 2, SocketScalars[q])]
                \o Lines(x.kids[1], "local_url", i + 2) \o Lines(x.kids[2], "remote_url", i + 2) \o <<CloseLine(i)>>
           [] x.cls = "array" ->
                \* S: each element by its own show with name "item N"; a placeholder by the NULL form of obj.
                \* I: an empty container shows its NULL storage as ONE member line at ind + 2
                <<OpenLine("array", nm, i)>>
                \o (IF x.kids = <<>> THEN <<EmptyLine(i + 2, TRUE)>>
                    ELSE Flat([q \in 1 .. Len(x.kids) |-> Lines(x.kids[q], ItemName(q - 1), i + 2)]))
                \o <<CloseLine(i)>>
           [] x.cls \in {"linked_list", "dlinked_list"} ->
                <<OpenLine(x.cls, nm, i)>>
                \o (IF x.cls = "linked_list" THEN <<LenLine(i + 2, Len(x.kids))>> ELSE <<>>)       \* C: only linked_list shows len
                \o (IF x.kids = <<>> THEN <<EmptyLine(i + 2, FALSE)>>
                    ELSE Flat([q \in 1 .. Len(x.kids) |->
                                 ItemLines(x.cls, x.kids[q], ItemName(q - 1), i + 2, ItemPtrs(x.cls, q, Len(x.kids)))]))
                \o <<CloseLine(i)>>
           [] x.cls = "array_iterator" ->
                <<OpenLine(x.cls, nm, i)>> \o Lines(x.kids[1], "subject", i + 2) \o <<IdxLine(i + 2, x.n)>> \o <<CloseLine(i)>>
           [] x.cls \in {"linked_list_iterator", "dlinked_list_iterator"} ->
                LET l == x.kids[1]  n == Len(l.kids) IN
                <<OpenLine(x.cls, nm, i)>> \o Lines(l, "subject", i + 2)
                \o (IF x.n < n THEN ItemLines(l.cls, l.kids[x.n + 1], "current", i + 2, ItemPtrs(l.cls, x.n + 1, n))
                    ELSE <<NullLine(l.cls \o "_item", "current", i + 2)>>)
                \o <<CloseLine(i)>>

-----------------------------------------------------------------------------------------
(* the number of lines as a function of the value alone (written independently of Lines) *)
RECURSIVE NLines(_)
SumN(xs) == LET RECURSIVE S(_)  S(q) == IF q = 0 THEN 0 ELSE NLines(xs[q]) + S(q - 1) IN S(Len(xs))
NLines(x) ==
    IF x.nul THEN 1
    ELSE CASE x.cls \in {"str", "ustr", "obj"} -> 1
           [] x.cls = "objpair" -> 2 + SumN(x.kids)
           [] x.cls = "mbuff"   -> 2 + ((TLen(x) + 7) \div 8)
           [] x.cls = "regexp"  -> 2
           [] x.cls = "url"     -> 2 + SumN(x.kids)
           [] x.cls = "tok"     -> 2 + SumN(x.kids) + 3 + NLines(TokensOf(x))
           [] x.cls = "socket"  -> 2 + 7 + SumN(x.kids)
           [] x.cls \in ListClasses -> 2 + (IF x.cls = "linked_list" THEN 1 ELSE 0) + (IF x.kids = <<>> THEN 1 ELSE SumN(x.kids))
           [] x.cls = "array_iterator" -> 2 + NLines(x.kids[1]) + 1
           [] x.cls \in {"linked_list_iterator", "dlinked_list_iterator"} ->
                2 + NLines(x.kids[1]) + (IF x.n < Len(x.kids[1].kids) THEN NLines(x.kids[1].kids[x.n + 1]) ELSE 1)

-----------------------------------------------------------------------------------------
(* the buffer mechanism: show threads ONE buffer through all its emissions; the first emission of every show *)
(* routine creates the buffer when it is NULL, all later ones append to it.                                  *)
NoBuf == [some |-> FALSE, s |-> <<>>, ls |-> <<>>, bad |-> FALSE]
Buf(s) == [some |-> TRUE, s |-> s, ls |-> <<>>, bad |-> FALSE]
Emit(b, l) == IF l.m = "put" THEN [b EXCEPT !.some = TRUE, !.ls = Append(@, l)]
              ELSE IF b.some THEN [b EXCEPT !.ls = Append(@, l)]
              ELSE [b EXCEPT !.bad = TRUE]                       \* an append to a NULL buffer
RECURSIVE Run(_, _)
Run(b, ls) == IF ls = <<>> THEN b
              ELSE LET nb == Emit(b, Head(ls)) IN IF nb.bad THEN nb ELSE Run(nb, Tail(ls))      \* stops at the first append to NULL

-----------------------------------------------------------------------------------------
(* the model: one state per (value, name, indent, prior buffer), one evaluation step each *)
Init == /\ done = FALSE
        /\ \/ /\ fam = "small"
              /\ v \in Values /\ name \in Names /\ ind \in Indents /\ prior \in Priors
           \/ /\ fam = "big"
              /\ v \in BigValues /\ name \in BigNames /\ ind \in BigIndents /\ prior = [some |-> FALSE, s |-> <<>>]

Case(ls) == [fam |-> fam, v |-> v, name |-> name, ind |-> ind, prior |-> prior, lines |-> ls, nlines |-> NLines(v)]
OpShowSmall == /\ ~done /\ fam = "small" /\ done' = TRUE /\ UNCHANGED <<fam, v, name, ind, prior>>
               /\ Obs("show", <<v.cls, name, ind>>, Case(Lines(v, name, ind)), TRUE)
OpShowBig   == /\ ~done /\ fam = "big" /\ done' = TRUE /\ UNCHANGED <<fam, v, name, ind, prior>>
               /\ Obs("show", <<v.cls, name, ind>>, Case(Lines(v, name, ind)), TRUE)
Next == OpShowSmall \/ OpShowBig
Spec == Init /\ [][Next]_vars

-----------------------------------------------------------------------------------------
(* LAWS of the reference, checked on every case *)
Opens(l)  == l.k \in {"open", "mbopen"} \/ (l.k = "item" /\ l.d[1].k \in {"open", "mbopen"})
Closes(l) == l.k = "close"
\* D[q] = brace nesting depth after line q
RECURSIVE DepthFrom(_, _, _)
DepthFrom(ls, q, d) == IF q > Len(ls) THEN <<>>
                       ELSE LET e == d + (IF Opens(ls[q]) THEN 1 ELSE 0) - (IF Closes(ls[q]) THEN 1 ELSE 0) IN <<e>> \o DepthFrom(ls, q + 1, e)

\* every line starts with at least `ind` blanks; the first line has exactly `ind`, every other line of a multi-line rendering
\* except the closing brace at least ind + 2
IndentLawOf(ls) ==
    /\ ls[1].ind = ind
    /\ \A q \in 1 .. Len(ls) : ls[q].ind >= ind
    /\ Len(ls) > 1 => /\ ls[Len(ls)] = CloseLine(ind)
                      /\ \A q \in 2 .. (Len(ls) - 1) : ls[q].ind >= ind + 2
\* braces balance: the nesting depth never drops to 0 before the last line, and the closing brace of a block sits at the
\* indentation of the line that opened it
BraceLawOf(ls) ==
    LET D == DepthFrom(ls, 1, 0) IN
    /\ D[Len(ls)] = 0
    /\ \A q \in 1 .. (Len(ls) - 1) : D[q] >= 1
    /\ \A q \in 1 .. Len(ls) : Closes(ls[q]) =>
            \E o \in 1 .. (q - 1) : /\ Opens(ls[o]) /\ ls[o].ind = ls[q].ind /\ D[o] = D[q] + 1
                                    /\ \A z \in (o + 1) .. (q - 1) : D[z] >= D[o]
\* the number of lines is the stated function of the value (and does not depend on name, indent or buffer)
CountLawOf(ls) == Len(ls) = NLines(v)
\* show is a function of (value, name, indent): the indent only shifts, the name only labels the first line
ShiftLawOf(ls) == LET Z == Lines(v, name, 0) IN ls = [q \in 1 .. Len(Z) |-> [Z[q] EXCEPT !.ind = @ + ind]]
NameLawOf(ls)  == LET O == Lines(v, "other", ind) IN
                  /\ Len(O) = Len(ls) /\ O[1] = [ls[1] EXCEPT !.name = "other"]
                  /\ \A q \in 2 .. Len(ls) : O[q] = ls[q]
\* appending to an existing buffer = old text followed by the text produced with a NULL buffer; the result exists
AppendLawOf(ls) ==
    LET b0 == IF prior.some THEN Buf(prior.s) ELSE NoBuf
        r  == Run(b0, ls)
        f  == Run(NoBuf, ls) IN
    /\ ~r.bad /\ r.some /\ r.s = prior.s /\ r.ls = ls
    /\ f.ls = ls /\ ~f.bad /\ f.some
    /\ ls[1].m = "put"

IndentLaw == ~done => IndentLawOf(Lines(v, name, ind))
BraceLaw  == ~done => BraceLawOf(Lines(v, name, ind))
CountLaw  == ~done => CountLawOf(Lines(v, name, ind))
ShiftLaw  == ~done => ShiftLawOf(Lines(v, name, ind))
NameLaw   == ~done => NameLawOf(Lines(v, name, ind))
AppendLaw == ~done => AppendLawOf(Lines(v, name, ind))
\* all of them with one evaluation of the grammar (what the cfgs check)
Laws == ~done => LET ls == Lines(v, name, ind) IN
                 /\ IndentLawOf(ls) /\ BraceLawOf(ls) /\ CountLawOf(ls) /\ ShiftLawOf(ls) /\ NameLawOf(ls) /\ AppendLawOf(ls)
=============================================================================
