SPECIFICATION TraceSpec
CONSTANTS
  Variants = {1, 2, 3, 4, 5}
  Paths = {1, 2, 3, 4, 5, 6, 7, 8, 9, 11, 12, 13, 14, 15}
  Names = {1, 2}
  Slots = {1, 2}
  LoadFaults = {"none"}
  UnloadFaults = {"none"}
  RunFaults = {"none"}
  SymFaults = {"none"}
  Levels = {0}
  Indents = {0}
  Cap = 2
  AsBuilt = FALSE
  Bounded = FALSE
  TrackMain = FALSE
  Obs <- ObsTrace
POSTCONDITION TraceAccepted
CHECK_DEADLOCK FALSE
