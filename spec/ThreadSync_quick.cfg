\* one instance of the table in checks/x03.py (quick tier), for running TLC by hand:
\*   tlc -config ThreadSync_quick.cfg MC_ThreadSync.tla
SPECIFICATION FairSpec
CONSTANTS
  Thr = {0, 1, 2}
  Lk = {1, 2, 9}
  Cnd = {9}
  Impl = "ideal"
  Spurious = TRUE
  Pattern = "prodcons"
  NW = 2
  K = 2
  NP = 1
  Q = 2
  Obs <- ObsNone
INVARIANTS MCTypeOK QueuesDisjoint WaiterReleased OnlyLiveOwn BeliefSound MutualExclusion OneInCS CntNonNeg FinalCount JoinAfterFinish
PROPERTIES Termination NoLostWakeup
CHECK_DEADLOCK TRUE
