SPECIFICATION HSpec
CONSTANTS
  Alphabet <- Alpha7
  MaxLen = 0
  DelimSets <- Delims3
  HistSources <- Src3
  HistSeps <- Delims3
  HistMax = 3
  LongHistSources <- Src1
  LifeSources <- LifeSrc
  LifeSeps <- LifeSeps2
  CharChoices <- CustomAndStock
  Obs <- ObsEmitHist
INVARIANTS TokensOfCurrentSourceOnly StockObjectIsStockGrammar BlankSourceHasNoTokens HistoryIrrelevant DoneResets DoneLeavesBlank
CHECK_DEADLOCK FALSE
