SPECIFICATION Spec
CONSTANTS
  Ids = {1, 2, 3}
  Sizes = {0, 1, 8, 24}
  Sites = {1, 2, 3, 4}
  StrLens = {0, 5}
  CallocShapes <- ShapesThorough
  Levels = {0, 4, 5, 6}
  Obs <- ObsEmit
INVARIANTS TypeOK TableIsLiveSet UnknownPointerNoChange ReallocNullAllocates ReallocZeroFrees ReallocKeepsOthers
PROPERTY LevelConstant
CHECK_DEADLOCK FALSE
