#!/bin/sh
# usage: seedtest.sh <PROP> <seed-dir> [tier]   -- confirm a seeded change in a scratch copy and run the check against it in /repo
# 1. scratch copy: baseline with and without patch, demo with and without patch
# 2. /repo: apply, ./vcheck PROP quick, undo
PROP=$1; D=$2; TIER=${3:-quick}
S=/tmp/seedchk-$$
rm -rf $S; cp -a /repo $S
cd $S
echo "== unmodified: demo"
make -s -j8 >/dev/null 2>&1
gcc -w -DHAVE_CONFIG_H -I$S -I$S/include -I$S/include/libast $D/demo.c $S/src/.libs/libast.a -lpcre -lX11 -lm -ldl -o $S/demo0 && (timeout 60 $S/demo0 >/dev/null 2>&1; echo "demo exit (unmodified) = $?")
git apply $D/patch.diff || { echo "PATCH DOES NOT APPLY"; rm -rf $S; exit 3; }
echo "== patched: baseline + demo"
VERIF_REPO=$S /verif/tools/baseline.sh | tail -3
gcc -w -DHAVE_CONFIG_H -I$S -I$S/include -I$S/include/libast $D/demo.c $S/src/.libs/libast.a -lpcre -lX11 -lm -ldl -o $S/demo1 && (timeout 60 $S/demo1 >/dev/null 2>&1; echo "demo exit (patched) = $?")
cd /; rm -rf $S
echo "== /repo patched: ./vcheck $PROP $TIER"
git -C /repo apply $D/patch.diff || exit 3
cd /verif && ./vcheck $PROP $TIER 2>/dev/null | cut -c1-300 | head -8; echo "vcheck exit = $?"
git -C /repo checkout -- . 
git -C /repo status --short | head -3
