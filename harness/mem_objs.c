/* C15, configuration half: object workloads on a library built with a given compile-time DEBUG, run at a given
 * runtime level.  usage: mem_objs <runtime-level> <expect-active:0|1> <seed> <programs> <ops-per-program> [only-program]
 *
 * With tracking compiled in (DEBUG >= 5) and the runtime level at the memory level, after EVERY operation the
 * private table (LIBAST_VERIF accessor) must be exactly ASan's view of what the library holds:
 *   - every record names a live heap block whose allocation size is the recorded size, no address twice,
 *     a terminated file name of at most 20 characters,
 *   - the records account for every byte allocated since the program started (heap delta == sum of the
 *     recorded blocks + growth of the table array itself): no live block is missing from the table,
 *   - once every object has been deleted the table is empty and the heap is back where it started.
 * In every other configuration (tracking compiled out, or runtime level below the memory level) the table
 * must stay empty throughout.
 * Operations are deliberately mid-range (C01-C04 own the corner cases of these classes).
 * Output: "X <program> <op-index> <op> <what>" per failure, "P <program> <checks> <max-records>" per program,
 * "DONE <programs> <ops> <checks> <max-records> <active>".
 */
#include <config.h>
#include <libast.h>
#include <stdio.h>
#include <stdlib.h>
#include <string.h>
#include <sanitizer/allocator_interface.h>

extern spifmem_memrec_t *spifmem_verif_malloc_rec(void);

#define NSTR 6
static spif_str_t S[NSTR];
static spif_list_t L[3], LC;          /* LC: a copy */
static spif_vector_t V[3];
static spif_map_t M[3];
static spif_mbuff_t B;
static unsigned long rng;
static size_t h0, tab0;
static int active;
static long checks, maxrec;
static char what[256];

static unsigned rnd(unsigned n) {
    rng ^= rng << 13; rng ^= rng >> 7; rng ^= rng << 17;
    return (unsigned) ((rng >> 11) % n);
}

static const char *check_table(int quiescent) {
    spifmem_memrec_t *mr = spifmem_verif_malloc_rec();
    size_t k, j, sum = 0, tabbytes, now;
    checks++;
    if (!active) {
        if (mr->cnt != 0) { snprintf(what, sizeof(what), "table_has_%lu_records_although_tracking_is_off", (unsigned long) mr->cnt); return what; }
        return NULL;
    }
    if ((long) mr->cnt > maxrec) maxrec = (long) mr->cnt;
    for (k = 0; k < mr->cnt; k++) {
        spifmem_ptr_t *r = &mr->ptrs[k];
        size_t as;
        if (!r->ptr || !__sanitizer_get_ownership(r->ptr)) { snprintf(what, sizeof(what), "record_%lu_names_a_block_that_is_not_live", (unsigned long) k); return what; }
        as = __sanitizer_get_allocated_size(r->ptr);
        if (as != r->size && !(r->size == 0 && as == 1)) {
            snprintf(what, sizeof(what), "record_size_%lu_but_block_size_%lu(%s:%lu)", (unsigned long) r->size, (unsigned long) as, (char *) r->file, (unsigned long) r->line);
            return what;
        }
        if (!memchr(r->file, 0, sizeof(r->file))) return "file_name_not_terminated";
        if (strlen((char *) r->file) > SPIFMEM_FNAME_LEN || !r->file[0] || !r->line) return "file_or_line_implausible";
        for (j = 0; j < k; j++) if (mr->ptrs[j].ptr == r->ptr) return "address_recorded_twice";
        sum += as;
    }
    tabbytes = mr->ptrs ? __sanitizer_get_allocated_size(mr->ptrs) : 0;
    now = __sanitizer_get_current_allocated_bytes();
    if (now - h0 != sum + tabbytes - tab0) {
        snprintf(what, sizeof(what), "heap_delta_%ld_but_records_account_for_%ld", (long) (now - h0), (long) (sum + tabbytes - tab0));
        return what;
    }
    if (quiescent && mr->cnt != 0) { snprintf(what, sizeof(what), "table_has_%lu_records_at_quiescence", (unsigned long) mr->cnt); return what; }
    return NULL;
}

static spif_obj_t mkstr(void) {
    static const char *w[] = { "alpha", "beta", "gamma", "delta", "epsilon", "zeta", "eta", "theta" };
    return SPIF_OBJ(spif_str_new_from_ptr((spif_charptr_t) w[rnd(8)]));
}
static spif_list_t newlist(int c) { return c == 0 ? SPIF_LIST_NEW(array) : (c == 1 ? SPIF_LIST_NEW(linked_list) : SPIF_LIST_NEW(dlinked_list)); }
static spif_vector_t newvec(int c) { return c == 0 ? SPIF_VECTOR_NEW(array) : (c == 1 ? SPIF_VECTOR_NEW(linked_list) : SPIF_VECTOR_NEW(dlinked_list)); }
static spif_map_t newmap(int c) { return c == 0 ? SPIF_MAP_NEW(array) : (c == 1 ? SPIF_MAP_NEW(linked_list) : SPIF_MAP_NEW(dlinked_list)); }

static void del_list_items_and_list(spif_list_t l) { SPIF_LIST_DEL(l); }

static const char *opname = "-";
static void one_op(void) {
    unsigned k = rnd(26), c = rnd(3), i = rnd(NSTR);
    switch (k) {
    case 0: case 1:
        opname = "str_new";
        if (SPIF_STR_ISNULL(S[i])) S[i] = SPIF_STR(mkstr());
        break;
    case 2:
        opname = "str_append";
        if (!SPIF_STR_ISNULL(S[i]) && spif_str_get_len(S[i]) > 0 && spif_str_get_len(S[i]) < 200) spif_str_append_from_ptr(S[i], (spif_charptr_t) "-tail");
        break;
    case 3:
        opname = "str_dup";
        if (!SPIF_STR_ISNULL(S[i]) && spif_str_get_len(S[i]) > 0) { unsigned j = rnd(NSTR); if (SPIF_STR_ISNULL(S[j])) S[j] = spif_str_dup(S[i]); }
        break;
    case 4:
        opname = "str_del";
        if (!SPIF_STR_ISNULL(S[i])) { spif_str_del(S[i]); S[i] = (spif_str_t) NULL; }
        break;
    case 5:
        opname = "str_substr";
        if (!SPIF_STR_ISNULL(S[i]) && spif_str_get_len(S[i]) > 3) { unsigned j = rnd(NSTR); if (SPIF_STR_ISNULL(S[j])) S[j] = spif_str_substr(S[i], 1, 2); }
        break;
    case 6:
        opname = "str_substr_to_ptr";
        if (!SPIF_STR_ISNULL(S[i]) && spif_str_get_len(S[i]) > 3) { spif_charptr_t p = spif_str_substr_to_ptr(S[i], 0, 3); if (p) FREE(p); }
        break;
    case 7: case 8: case 9:
        opname = "list_append";
        if (SPIF_LIST_ISNULL(L[c])) L[c] = newlist((int) c);
        if (SPIF_LIST_COUNT(L[c]) < 12) { if (rnd(2)) SPIF_LIST_APPEND(L[c], mkstr()); else SPIF_LIST_PREPEND(L[c], mkstr()); }
        break;
    case 10:
        opname = "list_insert_at";
        if (!SPIF_LIST_ISNULL(L[c]) && SPIF_LIST_COUNT(L[c]) > 1 && SPIF_LIST_COUNT(L[c]) < 12) {
            spif_obj_t e = mkstr();
            if (!SPIF_LIST_INSERT_AT(L[c], e, (spif_listidx_t) (1 + rnd((unsigned) SPIF_LIST_COUNT(L[c]) - 1)))) SPIF_OBJ_DEL(e);
        }
        break;
    case 11: case 12:
        opname = "list_remove_at";
        if (!SPIF_LIST_ISNULL(L[c]) && SPIF_LIST_COUNT(L[c]) > 0) {
            spif_obj_t e = SPIF_LIST_REMOVE_AT(L[c], (spif_listidx_t) rnd((unsigned) SPIF_LIST_COUNT(L[c])));
            if (!SPIF_OBJ_ISNULL(e)) SPIF_OBJ_DEL(e);
        }
        break;
    case 13:
        opname = "list_to_array";
        if (!SPIF_LIST_ISNULL(L[c]) && SPIF_LIST_COUNT(L[c]) > 0) { spif_obj_t *a = SPIF_LIST_TO_ARRAY(L[c]); if (a) FREE(a); }
        break;
    case 14:
        opname = "list_iterate";
        if (!SPIF_LIST_ISNULL(L[c])) {
            spif_iterator_t it = SPIF_LIST_ITERATOR(L[c]);
            if (!SPIF_ITERATOR_ISNULL(it)) { while (SPIF_ITERATOR_HAS_NEXT(it)) (void) SPIF_ITERATOR_NEXT(it); SPIF_ITERATOR_DEL(it); }
        }
        break;
    case 15:
        opname = "list_dup_del";
        if (!SPIF_LIST_ISNULL(L[c]) && SPIF_LIST_COUNT(L[c]) > 0 && SPIF_LIST_ISNULL(LC)) LC = (spif_list_t) SPIF_OBJ_DUP(SPIF_OBJ(L[c]));
        else if (!SPIF_LIST_ISNULL(LC)) { del_list_items_and_list(LC); LC = (spif_list_t) NULL; }
        break;
    case 16:
        opname = "list_del";
        if (!SPIF_LIST_ISNULL(L[c]) && rnd(3) == 0) { del_list_items_and_list(L[c]); L[c] = (spif_list_t) NULL; }
        break;
    case 17: case 18:
        opname = "vector_insert";
        c %= 2;        /* dlinked_list vector insert of a duplicate of the last element dereferences NULL (C04's finding): not this check's business */
        if (SPIF_VECTOR_ISNULL(V[c])) V[c] = newvec((int) c);
        if (SPIF_VECTOR_COUNT(V[c]) < 12) SPIF_VECTOR_INSERT(V[c], mkstr());
        break;
    case 19:
        opname = "vector_remove";
        if (!SPIF_VECTOR_ISNULL(V[c]) && SPIF_VECTOR_COUNT(V[c]) > 0) {
            spif_obj_t probe = mkstr(), e = SPIF_VECTOR_REMOVE(V[c], probe);
            if (!SPIF_OBJ_ISNULL(e)) SPIF_OBJ_DEL(e);
            SPIF_OBJ_DEL(probe);
        }
        break;
    case 20:
        opname = "vector_del";
        if (!SPIF_VECTOR_ISNULL(V[c]) && rnd(3) == 0) { SPIF_VECTOR_DEL(V[c]); V[c] = (spif_vector_t) NULL; }
        break;
    case 21: case 22:
        opname = "map_set";
        if (SPIF_MAP_ISNULL(M[c])) M[c] = newmap((int) c);
        if (SPIF_MAP_COUNT(M[c]) < 10) { spif_obj_t key = mkstr(), val = mkstr(); SPIF_MAP_SET(M[c], key, val); SPIF_OBJ_DEL(key); SPIF_OBJ_DEL(val); }
        break;
    case 23:
        opname = "map_get";
        if (!SPIF_MAP_ISNULL(M[c]) && SPIF_MAP_COUNT(M[c]) > 0) { spif_obj_t key = mkstr(); (void) SPIF_MAP_GET(M[c], key); SPIF_OBJ_DEL(key); }
        break;
    case 24:
        opname = "map_del";
        if (!SPIF_MAP_ISNULL(M[c]) && rnd(3) == 0) { SPIF_MAP_DEL(M[c]); M[c] = (spif_map_t) NULL; }
        break;
    default:
        opname = "mbuff";
        if (SPIF_MBUFF_ISNULL(B)) B = spif_mbuff_new_from_ptr((spif_byteptr_t) "0123456789", 10);
        else if (rnd(2)) { spif_mbuff_t d = spif_mbuff_dup(B); if (!SPIF_MBUFF_ISNULL(d)) spif_mbuff_del(d); }
        else { spif_mbuff_del(B); B = (spif_mbuff_t) NULL; }
        break;
    }
}

static void delete_all(void) {
    int i;
    for (i = 0; i < NSTR; i++) if (!SPIF_STR_ISNULL(S[i])) { spif_str_del(S[i]); S[i] = (spif_str_t) NULL; }
    for (i = 0; i < 3; i++) {
        if (!SPIF_LIST_ISNULL(L[i])) { SPIF_LIST_DEL(L[i]); L[i] = (spif_list_t) NULL; }
        if (!SPIF_VECTOR_ISNULL(V[i])) { SPIF_VECTOR_DEL(V[i]); V[i] = (spif_vector_t) NULL; }
        if (!SPIF_MAP_ISNULL(M[i])) { SPIF_MAP_DEL(M[i]); M[i] = (spif_map_t) NULL; }
    }
    if (!SPIF_LIST_ISNULL(LC)) { SPIF_LIST_DEL(LC); LC = (spif_list_t) NULL; }
    if (!SPIF_MBUFF_ISNULL(B)) { spif_mbuff_del(B); B = (spif_mbuff_t) NULL; }
}

int main(int argc, char **argv) {
    static char nbuf[BUFSIZ], obuf[1 << 16];
    unsigned lvl; unsigned long seed; long nprog, nops, only = -1, p, o, total_ops = 0;
    FILE *n;
    if (argc < 6) { fprintf(stderr, "usage: %s <level> <expect-active> <seed> <programs> <ops> [only-program]\n", argv[0]); return 2; }
    lvl = (unsigned) atoi(argv[1]); active = atoi(argv[2]); seed = strtoul(argv[3], NULL, 10); nprog = atol(argv[4]); nops = atol(argv[5]);
    if (argc > 6) only = atol(argv[6]);
    setvbuf(stdout, obuf, _IOFBF, sizeof(obuf));
    n = fopen("/dev/null", "w");                  /* D_MEM / D_OBJ chatter of a DEBUG=5 build goes nowhere; ASan keeps fd 2 */
    if (n) { setvbuf(n, nbuf, _IOFBF, sizeof(nbuf)); stderr = n; }
    spifmem_init();
    libast_debug_level = lvl;
    for (p = 0; p < nprog; p++) {
        const char *bad = NULL;
        if (only >= 0 && p != only) continue;
        rng = (seed * 1000003UL + (unsigned long) p) * 2654435761UL + 88172645463325252UL;
        h0 = __sanitizer_get_current_allocated_bytes();
        tab0 = spifmem_verif_malloc_rec()->ptrs ? __sanitizer_get_allocated_size(spifmem_verif_malloc_rec()->ptrs) : 0;
        if ((bad = check_table(1)) != NULL) { printf("X %ld -1 begin %s\n", p, bad); spifmem_verif_malloc_rec()->cnt = 0; }
        for (o = 0; o < nops && !bad; o++) {
            one_op(); total_ops++;
            if ((bad = check_table(0)) != NULL) printf("X %ld %ld %s %s\n", p, o, opname, bad);
        }
        delete_all();
        if (!bad && (bad = check_table(1)) != NULL) printf("X %ld %ld delete_all %s\n", p, o, bad);
        if (!bad && __sanitizer_get_current_allocated_bytes() != h0) printf("X %ld %ld delete_all heap_not_back_to_start\n", p, o);
        printf("P %ld %ld %ld\n", p, checks, maxrec);
    }
    printf("DONE %ld %ld %ld %ld %d\n", nprog, total_ops, checks, maxrec, active);
    fflush(stdout);
    return 0;
}
