/* C05 comparison tables: evaluates a class's comp method on ALL ordered pairs of a universe of objects and
 * prints the table as one JSON line per class (input of spec/CmpLaws.tla).
 *
 * input (file argv[1]):
 *   class <cls> <kind>            cls: str ustr mbuff url regexp tok objpair array linked_list dlinked_list mix_str_url_regexp
 *   obj <T|F null> <k bytes> <v bytes>     bytes as [1,2,3]
 *   end
 * Each table row is computed in a forked child (8 MB stack, 5 s alarm): a comp that crashes or does not
 * terminate yields 99 in that cell (cells of a dead row are re-run one by one).
 */
#include "common.h"
#include <sys/wait.h>
#include <sys/resource.h>

static void vh_begin(void) {}
static const char *vh_step(const vh_step_t *st, vh_sb *ret, vh_sb *state) { (void) st; (void) ret; (void) state; return NULL; }
static void vh_end(void) {}

#define MAXOBJ 700
typedef struct { int null; unsigned char *k, *v; size_t kn, vn; int slack; char ktok[256], vtok[256]; } uobj_t;
static uobj_t U[MAXOBJ];
static spif_obj_t O[MAXOBJ];
static int NU;
static char cls[64], kind[64];
static spif_obj_t proto;   /* a live instance of the class: supplies the class table for NULL self */

static spif_obj_t mk_str1(unsigned char c) { char b[2]; b[0] = (char) c; b[1] = 0; return SPIF_OBJ(spif_str_new_from_ptr((spif_charptr_t) b)); }
static spif_list_t new_list(void) {
    if (!strcmp(cls, "array")) return SPIF_LIST_NEW(array);
    if (!strcmp(cls, "linked_list")) return SPIF_LIST_NEW(linked_list);
    return SPIF_LIST_NEW(dlinked_list);
}
static spif_obj_t build(const uobj_t *u) {
    if (u->null) return (spif_obj_t) NULL;
    /* slack > 0: the same VALUE in a representation with spare capacity (the order must not depend on it) */
    if (!strcmp(cls, "str")) return u->slack ? SPIF_OBJ(spif_str_new_from_buff((spif_charptr_t) u->v, (spif_stridx_t) (u->vn + 1 + u->slack)))
                                             : SPIF_OBJ(spif_str_new_from_ptr((spif_charptr_t) u->v));
    if (!strcmp(cls, "ustr")) return u->slack ? SPIF_OBJ(spif_ustr_new_from_buff((spif_charptr_t) u->v, (spif_ustridx_t) (u->vn + 1 + u->slack)))
                                              : SPIF_OBJ(spif_ustr_new_from_ptr((spif_charptr_t) u->v));
    if (!strcmp(cls, "str_nul") || !strcmp(cls, "ustr_nul")) {
        /* texts with embedded NUL characters (reachable through append_char(0), clear(0), binary descriptors): no particular
         * order is claimed for them (DESIGN.md 8a excludes NUL from str values), but comp must still be a consistent order */
        int u8 = (cls[0] == 'u'); size_t i;
        spif_obj_t o = u8 ? SPIF_OBJ(spif_ustr_new_from_ptr((spif_charptr_t) "")) : SPIF_OBJ(spif_str_new_from_ptr((spif_charptr_t) ""));
        for (i = 0; i < u->vn; i++) { if (u8) spif_ustr_append_char((spif_ustr_t) o, (spif_char_t) u->v[i]); else spif_str_append_char(SPIF_STR(o), (spif_char_t) u->v[i]); }
        return o;
    }
    if (!strncmp(cls, "mix", 3)) {
        /* the same texts as objects of three DIFFERENT comparison-compatible classes (url and regexp are subclasses of str and
         * compare by their text): slack selects the class; comp is dispatched on the class of the first non-NULL argument */
        return u->slack == 1 ? SPIF_OBJ(spif_url_new_from_ptr((spif_charptr_t) u->v))
             : u->slack == 2 ? SPIF_OBJ(spif_regexp_new_from_ptr((spif_charptr_t) u->v))
             : SPIF_OBJ(spif_str_new_from_ptr((spif_charptr_t) u->v));
    }
    if (!strcmp(cls, "mbuff")) return SPIF_OBJ(spif_mbuff_new_from_buff((spif_byteptr_t) u->v, (spif_memidx_t) u->vn, (spif_memidx_t) (u->vn + u->slack)));
    if (!strcmp(cls, "url")) return SPIF_OBJ(spif_url_new_from_ptr((spif_charptr_t) u->v));
    if (!strcmp(cls, "regexp")) return SPIF_OBJ(spif_regexp_new_from_ptr((spif_charptr_t) u->v));
    if (!strcmp(cls, "tok")) return SPIF_OBJ(spif_tok_new_from_ptr((spif_charptr_t) u->v));
    if (!strcmp(cls, "objpair")) {
        spif_str_t k = spif_str_new_from_ptr((spif_charptr_t) u->k), v = spif_str_new_from_ptr((spif_charptr_t) u->v);
        spif_objpair_t p = spif_objpair_new_from_both(SPIF_OBJ(k), SPIF_OBJ(v));
        spif_str_del(k); spif_str_del(v);
        return SPIF_OBJ(p);
    }
    {   /* list classes: v is the element sequence, 0 = NULL placeholder (made by insert_at padding) */
        spif_list_t l = new_list(); size_t i;
        for (i = 0; i < u->vn; i++) {
            if (u->v[i]) SPIF_LIST_INSERT_AT(l, mk_str1(u->v[i]), (spif_listidx_t) i);
        }
        return SPIF_OBJ(l);
    }
}
static int call_comp(spif_obj_t a, spif_obj_t b) {
    spif_obj_t t = !SPIF_OBJ_ISNULL(a) ? a : (!SPIF_OBJ_ISNULL(b) ? b : proto);
    spif_cmp_t r = (spif_cmp_t) (SPIF_OBJ_CALL_METHOD(t, comp)(a, b));
    return (r == SPIF_CMP_LESS) ? -1 : (r == SPIF_CMP_EQUAL) ? 0 : (r == SPIF_CMP_GREATER) ? 1 : 98;
}
/* runs fn(i, j0..j1) in a child, reads results; returns 0 when the child delivered everything */
static int row_in_child(int i, int j0, int j1, int *out, int keymode, spif_obj_t *keys) {
    int p[2], st, n = j1 - j0, got = 0; pid_t pid;
    if (pipe(p)) return -1;
    fflush(stdout);
    pid = fork();
    if (pid == 0) {
        int j; struct rlimit rl; signed char buf[MAXOBJ];
        close(p[0]);
        rl.rlim_cur = rl.rlim_max = 8u << 20; setrlimit(RLIMIT_STACK, &rl);
        signal(SIGALRM, SIG_DFL); alarm(5);
        vh_in_script = 0;
        for (j = j0; j < j1; j++) buf[j - j0] = (signed char) (keymode ? call_comp(O[i], keys[j]) : call_comp(O[i], O[j]));
        if (write(p[1], buf, (size_t) n) != n) _exit(9);
        _exit(0);
    }
    close(p[1]);
    {
        signed char buf[MAXOBJ]; ssize_t k;
        while (got < n && (k = read(p[0], buf + got, (size_t) (n - got))) > 0) got += (int) k;
        close(p[0]);
        waitpid(pid, &st, 0);
        if (got == n && WIFEXITED(st) && WEXITSTATUS(st) == 0) { int j; for (j = 0; j < n; j++) out[j0 + j] = buf[j]; return 0; }
    }
    return -1;
}

static void emit_class(void) {
    int i, j, first; static int tbl[MAXOBJ][MAXOBJ];
    uobj_t pu; memset(&pu, 0, sizeof(pu)); pu.k = (unsigned char *) "p"; pu.v = (unsigned char *) "p"; pu.kn = pu.vn = 1;
    proto = build(&pu);
    for (i = 0; i < NU; i++) O[i] = build(&U[i]);
    for (i = 0; i < NU; i++) {
        if (row_in_child(i, 0, NU, tbl[i], 0, NULL)) {
            for (j = 0; j < NU; j++) if (row_in_child(i, j, j + 1, tbl[i], 0, NULL)) tbl[i][j] = 99;
        }
    }
    printf("{\"cls\":\"%s\",\"kind\":\"%s\",\"objs\":[", cls, kind);
    for (i = 0; i < NU; i++) printf("%s{\"null\":%s,\"k\":%s,\"v\":%s,\"sel\":%d}", i ? "," : "", U[i].null ? "true" : "false", U[i].ktok, U[i].vtok, U[i].slack);
    printf("],\"tbl\":[");
    for (i = 0; i < NU; i++) {
        printf("%s[", i ? "," : "");
        for (j = 0; j < NU; j++) printf("%s%d", j ? "," : "", tbl[i][j]);
        printf("]");
    }
    printf("],\"keyrows\":[");
    first = 1;
    if (!strcmp(kind, "pair")) {
        /* pair vs bare key object: every pair against the distinct key texts of the universe */
        static spif_obj_t keys[MAXOBJ]; static int kidx[MAXOBJ]; int nk = 0, row[MAXOBJ];
        for (i = 0; i < NU; i++) {
            int dupk = 0;
            if (U[i].null) continue;
            for (j = 0; j < nk; j++) if (!strcmp(U[kidx[j]].ktok, U[i].ktok)) dupk = 1;
            if (!dupk) { kidx[nk] = i; keys[nk++] = SPIF_OBJ(spif_str_new_from_ptr((spif_charptr_t) U[i].k)); }
        }
        for (i = 0; i < NU; i++) {
            if (U[i].null) continue;
            if (row_in_child(i, 0, nk, row, 1, keys)) { for (j = 0; j < nk; j++) if (row_in_child(i, j, j + 1, row, 1, keys)) row[j] = 99; }
            for (j = 0; j < nk; j++) { printf("%s{\"i\":%d,\"key\":%s,\"r\":%d}", first ? "" : ",", i + 1, U[kidx[j]].ktok, row[j]); first = 0; }
        }
        for (j = 0; j < nk; j++) SPIF_OBJ_DEL(keys[j]);
    }
    printf("]}\n");
    fflush(stdout);
    for (i = 0; i < NU; i++) if (!SPIF_OBJ_ISNULL(O[i])) SPIF_OBJ_DEL(O[i]);
    SPIF_OBJ_DEL(proto);
}

/* dup of values held with spare capacity (incl. more than one 4096-byte chunk of it): the copy must own at least the
 * capacity it reports, equal the original, and survive every size-trusting mutator.  Runs in a forked child per case. */
static void dup_probe(const char *c) {
    static const int slacks[] = {0, 1, 19, 255, 4095, 4096, 4097, 9000};
    static const char *contents[] = {"ab", ""};          /* incl. the EMPTY value held in a buffer (len 0, capacity > 0) */
    unsigned k, ci;
    for (ci = 0; ci < 2; ci++)
    for (k = 0; k < sizeof(slacks) / sizeof(slacks[0]); k++) {
        int p[2], st; pid_t pid; char why[128] = "died"; ssize_t r;
        const char *txt = contents[ci]; int L = (int) strlen(txt);
        if (pipe(p)) return;
        fflush(stdout);
        pid = fork();
        if (pid == 0) {
            const char *msg = "ok"; int slack = slacks[k], i;
            close(p[0]); alarm(10);
            if (!strcmp(c, "mbuff")) {
                spif_mbuff_t a = spif_mbuff_new_from_buff((spif_byteptr_t) txt, L, L + slack), b = spif_mbuff_dup(a);
                if (!b || b == a || (a->buff && b->buff == a->buff)) msg = "copy_shares_storage";
                else if (b->len != L || (L && memcmp(b->buff, txt, L))) msg = "copy_differs";
#ifdef VH_ASAN
                else if (b->buff && __sanitizer_get_allocated_size(b->buff) < (size_t) b->size) msg = "copy_reports_more_capacity_than_it_owns";
#endif
                else { for (i = 0; i < slack + 2; i++) spif_mbuff_append_from_ptr(b, (spif_byteptr_t) "z", 1); spif_mbuff_clear(b, 'q'); spif_mbuff_del(a); if (b->len != L + slack + 2) msg = "copy_unusable_after_original_deleted"; spif_mbuff_del(b); }
            } else {
                int u8 = (c[0] == 'u');
                spif_str_t a = u8 ? (spif_str_t) spif_ustr_new_from_buff((spif_charptr_t) txt, L + 1 + slack) : spif_str_new_from_buff((spif_charptr_t) txt, L + 1 + slack);
                spif_str_t b = SPIF_STR(SPIF_OBJ_DUP(SPIF_OBJ(a)));
                if (!b || b == a || (a->s && b->s == a->s)) msg = "copy_shares_storage";
                else if (b->len != L || strcmp((char *) (b->s ? b->s : (spif_charptr_t) ""), txt)) msg = "copy_differs";
#ifdef VH_ASAN
                else if (b->s && __sanitizer_get_allocated_size(b->s) < (size_t) b->size) msg = "copy_reports_more_capacity_than_it_owns";
#endif
                else {
                    for (i = 0; i < slack + 2; i++) { if (u8) spif_ustr_append_char((spif_ustr_t) b, 'z'); else spif_str_append_char(b, 'z'); }
                    if (u8) spif_ustr_clear((spif_ustr_t) b, 'q'); else spif_str_clear(b, 'q');
                    SPIF_OBJ_DEL(SPIF_OBJ(a));
                    if (b->len != L + slack + 2 || strlen((char *) b->s) != (size_t) b->len) msg = "copy_unusable_after_original_deleted";
                    SPIF_OBJ_DEL(SPIF_OBJ(b));
                }
            }
            if (write(p[1], msg, strlen(msg)) < 0) { }
            _exit(0);
        }
        close(p[1]);
        r = read(p[0], why, sizeof(why) - 1);
        if (r > 0) why[r] = 0;
        close(p[0]);
        waitpid(pid, &st, 0);
        if (!(WIFEXITED(st) && WEXITSTATUS(st) == 0) && r <= 0) strcpy(why, "memory_fault_or_abort");
        printf("{\"dupprobe\":\"%s\",\"slack\":%d,\"content\":\"%s\",\"verdict\":\"%s\"}\n", c, slacks[k], L ? "text" : "empty", why);
        fflush(stdout);
    }
}

int main(int argc, char **argv) {
    size_t len; char *buf, *p; int slk = 0;
    if (argc < 2) return 2;
    libast_set_program_name("cmp_table");
    setvbuf(stdout, NULL, _IOLBF, 0);
    buf = vh_readfile(argv[1], &len);
    for (p = buf; *p; ) {
        char *nl = strchr(p, '\n'), a[64], b[300], c[300];
        if (nl) *nl = 0;
        if (sscanf(p, "class %63s %63s", cls, kind) == 2) { NU = 0; }
        else if (sscanf(p, "obj %63s %299s %299s %d", a, b, c, &slk) >= 3 && NU < MAXOBJ) {
            uobj_t *u = &U[NU++];
            u->slack = slk; slk = 0;
            u->null = (a[0] == 'T');
            u->k = vh_bytes(b, &u->kn, 1); u->v = vh_bytes(c, &u->vn, 1);
            snprintf(u->ktok, sizeof(u->ktok), "%s", b); snprintf(u->vtok, sizeof(u->vtok), "%s", c);
        } else if (!strncmp(p, "end", 3)) { emit_class(); if (!strcmp(cls, "str") || !strcmp(cls, "ustr") || !strcmp(cls, "mbuff")) dup_probe(cls); }
        p = nl ? nl + 1 : p + strlen(p);
    }
    return 0;
}
