"""C16: NULL-argument calls fail soft (NullGuard.tla + the committed contract table NullGuardTable)."""
import os, re, json, subprocess, glob
from vlib import build, objcheck
from vlib.core import VERIF, Broken, log
from vlib.tlc import run_tlc

PROPERTY = "C16"
LEVEL = "exploration"
LEVEL_TEXT = ("Exhaustive over a finite committed table: spec/NullGuardTable (one row per exported entry point or class-table slot x "
              "pointer-parameter position of str, ustr, mbuff, objpair, tok, url, regexp, socket, obj, the three container classes "
              "through their list/vector/map/iterator/item class tables, and the strings.c utilities; seeded once from the pinned "
              "sources' entry guards and reviewed) is paired by TLC with every runtime level in scope; a C file generated from the "
              "table calls every claimed row with NULL at the row's position and valid arguments elsewhere, in a forked child of an "
              "ASan build; return value class, how the call ended, the diagnostic, the heap delta and a value snapshot of the other "
              "arguments are recorded and every event is accepted or rejected by TLC evaluating NullGuardTrace.")
LEVEL_NOTE = ("The claim is about the rows marked claimed (documented entry guard, object argument of a method, comp slots); positions "
              "without a documented guard are listed, not judged. Public class methods are called by name, static container methods "
              "through their class-table slots. Compile-time DEBUG is the configured default (4). Entry points that exist in include/ "
              "but not in the table are reported as UNCLASSIFIED (informational). SPIF_DEFINE_PROPERTY_FUNC accessors, conf.c, "
              "options.c and the remaining free functions are not in the table yet. Trusted: the reviewed table, TLC, the generated "
              "harness (harness/null_guard_rt.h), ASan.")
TECHNIQUE = "TLA+ spec + committed contract table + TLC trace validation of one forked call per table row and level"
DESIGN_REF = "DESIGN.md section 6 C16"

TABLE = os.path.join(VERIF, "spec", "NullGuardTable.json")
OBJ_TYPES = {"spif_module_t", "spif_pthreads_t", "spif_pthreads_mutex_t", "spif_pthreads_condition_t", "spif_iterator_t", "spif_str_t", "spif_ustr_t", "spif_mbuff_t", "spif_obj_t", "spif_objpair_t", "spif_tok_t", "spif_url_t", "spif_regexp_t",
             "spif_socket_t", "spif_list_t", "spif_array_t", "spif_linked_list_t", "spif_dlinked_list_t", "spif_array_iterator_t",
             "spif_linked_list_iterator_t", "spif_dlinked_list_iterator_t", "spif_linked_list_item_t", "spif_dlinked_list_item_t"}
CHAR_TYPES = {"spif_charptr_t", "const spif_charptr_t", "char *", "const char *"}
INT_RET = {"spif_tls_handle_t", "spif_stridx_t", "spif_ustridx_t", "spif_memidx_t", "spif_listidx_t", "int", "long", "spif_int32_t"}
UINT_RET = {"unsigned char": "(unsigned char) -1", "size_t": "(size_t) -1", "unsigned long": "(unsigned long) -1", "spif_uint32_t": "(spif_uint32_t) -1"}


SIGNED_INT = {"spif_memidx_t", "spif_stridx_t", "spif_ustridx_t", "spif_listidx_t", "spif_int32_t", "int", "long", "spif_tls_handle_t",
              "short", "spif_int64_t", "spif_int16_t", "spif_int8_t"}
UNSIGNED_INT = {"size_t", "unsigned long", "unsigned short", "unsigned char", "unsigned int", "spif_uint8_t", "spif_uint32_t",
                "spif_sockport_t", "spif_uint16_t", "spif_uint64_t"}
VLETTER = {"mid": "m", "zero": "z", "neg": "n", "allnull": "a", "nullslots": "s", "prelude": "p", "count": "c", "beyond": "b", "empties": "e"}
INDEX_TYPES = ("spif_listidx_t", "spif_stridx_t", "spif_ustridx_t", "spif_memidx_t")


def int_kind(t, n):
    """same definition as tools/c16_gen_table.py: integer companion arguments that the variants set to 0 / -1"""
    t = re.sub(r"\b(register|const)\s+", "", t).strip()
    if n == "fd":
        return None
    return "s" if t in SIGNED_INT else ("u" if t in UNSIGNED_INT else None)


def variants_of(row):
    v = ["mid"]
    if row.get("nint", 0) > 0:
        v.append("zero")
    if row.get("nsigned", 0) > 0:
        v.append("neg")
    if row.get("allnull"):
        v.append("allnull")
    if row.get("haslist"):
        v.append("nullslots")
    if row.get("retchars"):
        v.append("prelude")
    if row.get("nidx", 0) > 0:
        v += ["count", "beyond"]
    if row.get("hasempty"):
        v.append("empties")
    return v


def is_pointer_type(t):
    return snapper(t) is not None or "*" in t or t in ("spif_class_t", "spif_ptr_t", "ctx_handler_t", "spifconf_func_ptr_t",
                                                       "spif_thread_func_t", "spif_thread_data_t", "spif_condition_t")


def ctype(t):
    t = re.sub(r"^register\s+", "", t)
    if t.endswith("_iterator_t") and t != "spif_iterator_t":
        return "spif_iterator_t"          # the concrete iterator structs are private to their .c files; same pointer ABI
    return t


def cls_index(t):
    return 0 if "array" in t else (2 if "dlinked" in t else (1 if "linked" in t else 0))


def factory(row, t, n):
    """C expression producing a valid, mid-range argument of type t (parameter name n) for this row."""
    t = ctype(t)
    iface = row.get("iface") or ""
    if t in ("spif_array_t", "spif_linked_list_t", "spif_dlinked_list_t"):
        k = cls_index(t)
        f = "ng_map" if iface == "mapclass" else ("ng_vector" if iface == "vectorclass" else "ng_list")
        return "(%s) %s(%d)" % (t, f, k)
    if t == "spif_iterator_t":
        return "ng_iter(%d)" % cls_index(row["classvar"] or "array")
    if t.endswith("_item_t"):
        return "(%s) ng_item(%d)" % (t, cls_index(t))
    simple = {"spif_str_t": "ng_str()", "spif_ustr_t": "ng_ustr()", "spif_mbuff_t": "ng_mbuff()", "spif_obj_t": "ng_obj()",
              "spif_objpair_t": "ng_pair()", "spif_tok_t": "ng_tok()", "spif_url_t": "ng_url()", "spif_regexp_t": "ng_regexp()",
              "spif_socket_t": "ng_socket()", "spif_list_t": "ng_list(0)", "spif_byteptr_t": "ng_bytes()", "FILE *": "ng_file()",
              "spif_class_t": "SPIF_CLASS_VAR(str)", "regex_t **": "ng_rexp_slot()", "spif_charptr_t *": "ng_strlist()",
              "spifmem_memrec_t *": "ng_memrec()", "spif_module_t": "spif_module_new()", "spif_pthreads_t": "spif_pthreads_new()",
              "spif_pthreads_mutex_t": "spif_pthreads_mutex_new()", "spif_pthreads_condition_t": "spif_pthreads_condition_new()",
              "spif_thread_func_t": "ng_thread_func", "spif_thread_data_t": "(spif_thread_data_t) ng_bytes()",
              "spif_condition_t": "(spif_condition_t) spif_pthreads_condition_new()", "spif_tls_handle_t": "0",
              "ctx_handler_t": "ng_ctx_handler", "spifconf_func_ptr_t": "ng_conf_builtin", "char **": "ng_argv()",
              "spif_ptr_t": "(spif_ptr_t) ng_bytes()", "unsigned char": "1",
              "void *": "(void *) ng_bytes()", "const void *": "(const void *) ng_bytes()", "spif_char_t": "'a'", "size_t": "4",
              "spif_uint8_t": "1", "unsigned short": "4", "spif_sockport_t": "80", "long": "10", "unsigned long": "10",
              "spif_int32_t": "2", "spif_stridx_t": "1", "spif_ustridx_t": "1", "spif_memidx_t": "1", "spif_listidx_t": "1",
              "spif_bool_t": "TRUE", "double": "1.0", "char": "'a'", "const char": "'a'", "unsigned int": "1", "spif_uint32_t": "1"}
    if t in CHAR_TYPES:
        return "(%s) ng_chars()" % t
    if t == "int":
        return "ng_fd()" if n == "fd" else "10"
    if t in simple:
        return simple[t]
    raise Broken("no factory for parameter type %r (%s %s)" % (t, row["key"], n))


def snapper(t):
    t = ctype(t)
    if t.endswith("_item_t"):
        return "ng_snap_item"
    if t in OBJ_TYPES:
        return "ng_snap_obj"
    if t in CHAR_TYPES:
        return "ng_snap_chars"
    if t in ("spif_byteptr_t", "void *", "const void *"):
        return "ng_snap_bytes"
    if t == "FILE *":
        return "ng_snap_file"
    if t == "spif_charptr_t *":
        return "ng_snap_strlist"
    return None


def accessor(row):
    if row["via"] == "direct":
        return row["func"]
    base = ["classname", "noo", "init", "done", "del", "show", "comp", "dup", "type"]
    if row["member"] in base and not row["classvar"].startswith("SPIF_CLASS_VAR"):
        return "SPIF_CLASS(%s)->%s" % (row["classvar"], row["member"])
    return "%s->%s" % (row["classvar"], row["member"])


def gen_case(row, variant="mid"):
    ps = [(ctype(t), n) for t, n in row["params"] if t != "..."]
    raw = [(t, n) for t, n in row["params"] if t != "..."]
    ret = ctype(row["ret"])
    lines = ["static void case_%d_%s(void) {   /* %s  %s  variant %s */" % (row["id"], VLETTER[variant], row["key"], row["func"], variant)]
    nulls = set()
    if variant == "nullslots":
        lines.append("    ng_nullslots = 1;")
    if variant == "empties":
        lines.append("    ng_empties = 1;")
    has_container = any(t in ("spif_array_t", "spif_linked_list_t", "spif_dlinked_list_t", "spif_list_t") for t, n in ps)
    count = 3 if has_container else 10         # elements of the factory lists / bytes of the factory strings and buffers
    for k, (t, n) in enumerate(ps):
        ik = int_kind(raw[k][0], n)
        if k == row["pos"] or (variant == "allnull" and ik is None and is_pointer_type(t)):
            val = "(%s) NULL" % t
            nulls.add(k)
        elif variant in ("count", "beyond") and re.sub(r"\b(register|const)\s+", "", raw[k][0]).strip() in INDEX_TYPES:
            val = str(count if variant == "count" else count + 2)
        elif variant == "zero" and ik:
            val = "0"
        elif variant == "neg" and ik == "s":
            val = "-1"
        else:
            val = factory(row, t, n)
        lines.append("    %s a%d = %s;" % (t, k, val))
    snaps = [("a%d" % k, snapper(t)) for k, (t, n) in enumerate(ps) if k not in nulls and snapper(t)]

    def call_of(prefix):
        args = ", ".join("%s%d" % (prefix, k) for k in range(len(ps)))
        if row["via"] == "direct":
            return "%s(%s)" % (row["func"], args)
        return "((%s (*)(%s)) %s)(%s)" % (ret, ", ".join(t for t, n in ps) or "void", accessor(row), args)
    if variant == "prelude":            # an earlier VALID call of the same function; its result is re-read after the refused call
        for k, (t, n) in enumerate(ps):
            lines.append("    %s b%d = %s;" % (t, k, factory(row, t, n)))
        lines.append("    %s r0 = %s;" % (ret, call_of("b")))
        snaps.append(("r0", "ng_snap_chars"))
    call = call_of("a")
    lines.append("    ng_snap_begin(0);" + "".join(" %s(%s);" % (s, k) for k, s in snaps))
    if ret == "void":
        lines.append("    NG_CALL_BEGIN(); %s; NG_CALL_END();" % call)
        lines.append("    ng_rv_void();")
    else:
        lines.append("    { %s rv; NG_CALL_BEGIN(); rv = %s; NG_CALL_END();" % (ret, call))
        if ret == "spif_bool_t":
            lines.append("      ng_rv_bool(rv); }")
        elif ret == "spif_cmp_t":
            lines.append("      ng_rv_cmp(rv); }")
        elif ret == "double":
            lines.append("      ng_rv_double(rv); }")
        elif ret in INT_RET:
            lines.append("      ng_rv_long((long) rv); }")
        elif ret in UINT_RET:
            lines.append("      ng_rv_ulong((unsigned long) rv, (unsigned long) (%s)); }" % UINT_RET[ret])
        elif ret == "spif_classname_t":
            lines.append("      ng_rv_typename((const char *) rv); }")
        else:
            lines.append("      ng_rv_ptr((const void *) rv); }")
    lines.append("    ng_snap_begin(1);" + "".join(" %s(%s);" % (s, k) for k, s in snaps))
    lines.append("}")
    return "\n".join(lines)


def gen_source(rows, path):
    with open(path, "w") as f:
        f.write("/* GENERATED by checks/c16.py from spec/NullGuardTable.json - one case per claimed row */\n")
        f.write('#include "null_guard_rt.h"\n\n')
        for cv in sorted({r["classvar"] for r in rows if r["classvar"]}):      # not every class table is declared in a header
            kind = re.match(r"SPIF_(\w*)CLASS_VAR", cv).group(1).lower()
            f.write("extern spif_%sclass_t %s;\n" % (kind, cv))
        f.write("\n")
        cases = [(r, v) for r in rows for v in variants_of(r)]
        for r, v in cases:
            f.write(gen_case(r, v) + "\n\n")
        f.write("static const struct ng_case NG_CASES[] = {\n")
        f.write(",\n".join("    { %d, '%s', case_%d_%s }" % (r["id"], VLETTER[v], r["id"], VLETTER[v]) for r, v in cases))
        f.write("\n};\n#define NG_MAIN\n#include \"null_guard_rt.h\"\n")


TABLE_EXTRA = {}


def load_table():
    t = json.load(open(TABLE))
    rows = t["rows"]
    TABLE_EXTRA["no_pointer_parameters"] = list(t.get("no_pointer_parameters", []))
    TABLE_EXTRA["excluded"] = list(t.get("excluded", []))
    twin = open(os.path.join(VERIF, "spec", "NullGuardTable.tla")).read()
    n = len(re.findall(r"\[id \|-> \d+,", twin))
    if n != len(rows):
        raise Broken("NullGuardTable.tla has %d rows, its JSON twin %d" % (n, len(rows)))
    for r in rows:
        if '[id |-> %d, key |-> "%s", fail |-> "%s", claimed |-> %s, guard |-> "%s", nint |-> %d, nsigned |-> %d, allnull |-> "%s", retchars |-> %s, haslist |-> %s, nidx |-> %d, hasempty |-> %s]' % (
                r["id"], r["key"], r["fail"] or "NONE", "TRUE" if r["claimed"] else "FALSE", (r["guard"] or "none").split(" ")[0], r["nint"], r["nsigned"],
                r["allnull"] or "NONE", "TRUE" if r["retchars"] else "FALSE", "TRUE" if r["haslist"] else "FALSE", r["nidx"], "TRUE" if r["hasempty"] else "FALSE") not in twin:
            raise Broken("row %d (%s) differs between NullGuardTable.tla and its JSON twin" % (r["id"], r["key"]))
    return rows


def header_scan(ctx, rows):
    """Entry points declared in include/ that the table does not know: UNCLASSIFIED (informational)."""
    known = {r["func"] for r in rows} | set(TABLE_EXTRA.get("no_pointer_parameters", [])) | {e["name"] for e in TABLE_EXTRA.get("excluded", [])}
    decl = {}
    hs = [os.path.join(ctx.repo, "include", "libast.h")] + sorted(glob.glob(os.path.join(ctx.repo, "include", "libast", "*.h")))
    for h in hs:
        txt = re.sub(r"/\*.*?\*/", "", open(h, errors="replace").read(), flags=re.S)
        for m in re.finditer(r"^extern\s+[^;(]*?\b(\w+)\s*\(([^;]*?)\)\s*;", txt, re.M | re.S):
            if not re.fullmatch(r"[A-Z_0-9]+", m.group(1)):        # SPIF_CLASS_VAR(x) ...: variable declarations through macros
                decl[m.group(1)] = (os.path.basename(h), " ".join(m.group(2).split()))
    unc = sorted(n for n in decl if n not in known)
    withptr = [n for n in unc if re.search(r"\*|_t\b", decl[n][1]) and decl[n][1] != "void"]
    gone = sorted(n for n in known if n not in decl and any(r["func"] == n and r["via"] == "direct" for r in rows))
    ctx.cov["unclassified_entry_points"] = {"count": len(unc), "with_parameters": len(withptr), "names": unc[:400]}
    ctx.cov["table_functions_no_longer_declared"] = gone
    ctx.cov["entry_points_without_pointer_parameters"] = len(TABLE_EXTRA.get("no_pointer_parameters", []))
    ctx.cov["entry_points_excluded_with_reason"] = {e["name"]: e["reason"] for e in TABLE_EXTRA.get("excluded", [])}
    for n in unc[:12]:
        print("UNCLASSIFIED: %s (%s) is declared in include/ but has no row in spec/NullGuardTable" % (n, decl[n][0]))
    if len(unc) > 12:
        print("UNCLASSIFIED: ... and %d more (all listed in evidence/C16.json)" % (len(unc) - 12))
    return unc


def run_cases(ctx, exe, pairs, tag, verbose=False):
    path = os.path.join(ctx.rundir, "cases-%s.txt" % tag)
    with open(path, "w") as f:
        for pr in pairs:
            rid, lv, v = pr[:3]
            f.write("%d %s %d %s\n" % (rid, VLETTER[v], lv, pr[3] if len(pr) > 3 else "default"))
    from vlib.replay import ASAN_OPTS
    env = dict(os.environ, ASAN_OPTIONS=ASAN_OPTS, LC_ALL="C")
    if verbose:
        env["NG_VERBOSE"] = "1"
    try:
        r = subprocess.run([exe, path], capture_output=True, env=env, timeout=900, cwd=ctx.rundir)
    except subprocess.TimeoutExpired:
        raise Broken("null_guard harness timed out")
    if verbose:
        print(r.stderr.decode("latin-1")[:6000])
    out = r.stdout.decode("latin-1").splitlines()
    if r.returncode != 0 or not out or out[-1] != "DONE":
        raise Broken("null_guard harness failed rc=%s: %s %s" % (r.returncode, out[-2:], r.stderr.decode("latin-1")[-600:]))
    events = []
    for line in out:
        if not line.startswith("E "):
            continue
        f = dict(x.split("=", 1) for x in line.split()[1:])
        events.append({"op": "call", "row": int(f["row"]), "variant": {v: k for k, v in VLETTER.items()}[f["variant"]], "level": int(f["level"]), "env": f.get("env", "default"), "prefix": f.get("prefix", "na"), "ended": f["ended"], "rv": f.get("rv", "-"),
                       "changed": f.get("changed") == "1", "heapdelta": int(f.get("heapdelta", "0")), "diag": f.get("diag", "-"),
                       "status": int(f.get("status", "0")), "info": f.get("info", "-")})
    if len(events) != len(pairs):
        raise Broken("null_guard harness: %d cases asked, %d events" % (len(pairs), len(events)))
    return events


def validate(ctx, events, tag="t"):
    """TLC judges every event (NullGuardTrace); returns the set of rejected event indexes (0-based)."""
    path = os.path.join(ctx.rundir, "trace-%s-%d.ndjson" % (tag, os.getpid()))
    with open(path, "w") as f:
        for e in events:
            f.write(json.dumps(e, separators=(",", ":")) + "\n")
    rej = []
    res = run_tlc("NullGuardTrace.tla", "NullGuardTrace.cfg", ctx.rundir, on_edge=lambda d: rej.append(d), workers=1, timeout=900,
                  env={"TRACE": path}, coverage=False)
    if not res.ok:
        raise Broken("trace validation did not consume the trace: %s" % "\n".join(res.tail[-15:]))
    return {d["rejected"] - 1 for d in rej if "rejected" in d}, path


def describe(e):
    return "ended=%s rv=%s changed=%s heapdelta=%d diag=%s prefix=%s status=%d" % (e["ended"], e["rv"], e["changed"], e["heapdelta"], e["diag"],
                                                                                  e.get("prefix", "na"), e["status"])


NAME_LENGTHS = [0, 1, 255, 256, 1011, 1012, 1013, 1014, 1015, 1016, 1023, 1024, 1025, 1100, 2047, 2048, 2049, 4000]
N_FMT_NAMES = 6          # harness/null_guard_rt.h NG_FMT_NAMES


def global_settings():
    """Adversarial values of the client-controlled globals behind every guard diagnostic."""
    env = ["nameL%d" % n for n in NAME_LENGTHS] + ["nameF%d" % k for k in range(N_FMT_NAMES)]
    env += ["verL%d" % n for n in (0, 1024, 4000)] + ["verF%d" % k for k in (0, 1)]
    return env


def env_class(env):
    if env == "default":
        return ""
    what = "program-name" if env.startswith("name") else "program-version"
    rest = env[4:] if env.startswith("name") else env[3:]
    if rest[0] == "F":
        return " %s-with-printf-conversions" % what
    n = int(rest[1:])
    return " %s-%s" % (what, "empty" if n == 0 else ("short" if n < 1000 else "long(>=1000 bytes)"))


def expected(row, variant):
    return row["allnull"] if variant == "allnull" else row["fail"]


def failure_class(e, row):
    if e["ended"] in ("crash", "signal"):
        m = re.search(r"AddressSanitizer:_(\S+?)_", e["info"] + "_")
        return "memory-fault/%s" % (m.group(1) if m else e["ended"])
    if e["ended"] == "exit":
        return "exit-at-level-0" if (e["level"] == 0 and e["diag"] == "fatal") else "exit-without-fatal-diagnostic/%s" % e["diag"]
    if e.get("prefix") == "bad":
        return "diagnostic-without-the-program-name-prefix"
    if e["rv"] != expected(row, e["variant"]):
        return "returns-%s-not-%s" % (re.sub(r"\d+", "N", e["rv"]), expected(row, e["variant"]))
    if e["changed"]:
        return "changes-another-argument"
    if e["heapdelta"]:
        return "heap-delta"
    return "diagnostic-%s" % e["diag"]


def run(ctx):
    rows = load_table()
    byid = {r["id"]: r for r in rows}
    cfg = "NullGuard_quick.cfg" if ctx.tier == "quick" else "NullGuard_thorough.cfg"
    g, res = objcheck.tlc_graph(ctx, "MC_NullGuard.tla", cfg, workers=2)
    allowed = {}
    for _, _, e in g.edges:
        if e["op"] == "call":
            allowed.setdefault((e["args"][0], e["pre"]["level"], e["args"][2]), set()).add(e["ret"])
    claimed = [r for r in rows if r["claimed"]]
    levels = sorted({lv for _, lv, _ in allowed})
    if {(rid, v) for rid, _, v in allowed} != {(r["id"], v) for r in claimed for v in variants_of(r)}:
        raise Broken("TLC paired %d (row, variant) cases, the table has %d" % (len({(rid, v) for rid, _, v in allowed}),
                                                                              sum(len(variants_of(r)) for r in claimed)))
    unc = header_scan(ctx, rows)
    # the generated harness: one case per claimed row
    src = os.path.join(ctx.rundir, "null_guard_cases.c")
    gen_source(claimed, src)
    libdir, cflags = build.build_lib(ctx.repo)
    try:
        exe = build.build_harness("null_guard", [src], libdir, cflags)
    except Broken as b:
        raise Broken("the generated case file does not compile against the current headers (table out of date?): %s" % str(b)[-1500:])
    pairs = sorted(allowed)
    # the same guard events under adversarial global settings (program name / version): the rows' "mid" variant at levels 0 and 1
    # (warning path and fatal path); quick: one representative row per (source file, guard macro, failure class), thorough: every row
    reps, seen_cls = [], set()
    for r in claimed:
        k = (r["file"], r["guard"], r["fail"])
        if ctx.tier != "quick" or k not in seen_cls:
            seen_cls.add(k)
            reps.append(r["id"])
    envs = global_settings()
    env_pairs = [(rid, lv, "mid", env) for env in envs for rid in reps for lv in (0, 1) if (rid, lv, "mid") in allowed]
    events = run_cases(ctx, exe, pairs + env_pairs, "all")
    rejected, tpath = validate(ctx, events)
    seen = 0
    for k in sorted(rejected):
        e = events[k]
        # determinism: a rejected case is run once more in isolation
        e2 = run_cases(ctx, exe, [(e["row"], e["level"], e["variant"], e["env"])], "again")[0]
        if describe(e2) != describe(e):
            raise Broken("case %s at level %d does not repeat: %s / %s" % (byid[e["row"]]["key"], e["level"], describe(e), describe(e2)))
        row = byid[e["row"]]
        vtag = {"mid": "", "zero": " ints=0", "neg": " ints=-1", "allnull": " all-pointers-NULL", "nullslots": " lists-with-NULL-slot",
                "prelude": " after-a-valid-call", "count": " idx=count", "beyond": " idx>count", "empties": " others-empty"}[e["variant"]]
        vtag += env_class(e["env"])
        key = "%s%s level%s %s" % (row["key"], vtag, "=0" if e["level"] == 0 else (">=1" if e["level"] == 1 else ">=2"), failure_class(e, row))
        what = ("%s (%s, owner %s) with NULL for parameter %d '%s'%s at runtime level %d: %s; contract: %s%s. %s" % (
            row["func"], row["file"], row["owner"], row["pos"], row["pname"], vtag, e["level"], describe(e), expected(row, e["variant"]),
            " or the fatal-error path" if e["level"] >= 1 else "", e["info"][:160]))
        ctx.report(key, what, {"row": row["id"], "key": row["key"], "level": e["level"], "variant": e["variant"], "env": e["env"], "event": e, "table_row": row})
        seen += 1
    nontrivial = {(e["row"], e["level"], e["variant"], e["env"]) for e in events}
    ctx.cov["global_settings"] = {"settings": len(envs), "rows_per_setting": len(reps), "events": len(env_pairs)}
    ctx.add("evaluations", len(events))
    ctx.cov["distinct_nontrivial"] = len(nontrivial)
    ctx.cov["events_validated_by_tlc"] = len(events)
    ctx.cov["events_rejected"] = len(rejected)
    ctx.cov["rows_in_table"] = len(rows)
    ctx.cov["rows_claimed"] = len(claimed)
    ctx.cov["rows_not_claimed"] = len(rows) - len(claimed)
    ctx.cov["levels"] = levels
    by = {}
    for e in events:
        k = "fatal" if e["ended"] == "exit" and e["diag"] == "fatal" else ("soft" if e["ended"] == "returned" else e["ended"])
        by["level%d:%s" % (e["level"], k)] = by.get("level%d:%s" % (e["level"], k), 0) + 1
    ctx.cov["outcomes"] = by
    ctx.cov["exhaustive"] = True
    ctx.cov["rule"] = ("every claimed row of the committed table x every runtime level in scope is executed once in a forked child (NULL at "
                       "the row's position, factory-made valid arguments elsewhere) and the recorded event is judged by TLC; every case "
                       "is a distinct (row, level) pair and non-trivial (it exercises a distinct guard or its absence)")
    for e in events[:2] + events[len(events) // 2: len(events) // 2 + 2]:
        ctx.sample({"row": byid[e["row"]]["key"], "variant": e["variant"], "level": e["level"], "observed": describe(e),
                    "contract": expected(byid[e["row"]], e["variant"])})
    ctx.assumptions += ["spec/NullGuardTable.json/.tla is the reviewed contract (seeded from the pinned sources, rules R1-R6 in tools/c16_gen_table.py)",
                        "ASan build of the current tree, compile-time DEBUG as configured (4)"]


def replay(ctx, path):
    rp = (json.load(open(path)).get("replay") or {})
    rows = load_table()
    byid = {r["id"]: r for r in rows}
    row = byid[rp["row"]]
    src = os.path.join(ctx.rundir, "null_guard_cases.c")
    gen_source([r for r in rows if r["claimed"]], src)
    libdir, cflags = build.build_lib(ctx.repo)
    exe = build.build_harness("null_guard", [src], libdir, cflags)
    e = run_cases(ctx, exe, [(rp["row"], rp["level"], rp.get("variant", "mid"), rp.get("env", "default"))], "replay", verbose=True)[0]
    rejected, _ = validate(ctx, [e], tag="replay")
    print("%s variant %s level %d: %s  (%s)" % (row["key"], rp.get("variant", "mid"), rp["level"], describe(e), e["info"]))
    print("REPRODUCED (rejected by NullGuardTrace)" if rejected else "not reproduced: event accepted")
    return 1 if rejected else 0
