"""Shared helpers of the C09/C11 checks (config parser): materialising the abstract file trees of
ConfParse.tla, turning behaviours into harness scripts, building the harness."""
import os, json, re
from . import build
from .core import tok

MAGIC = b"<libast-0.8.1>\n"


def line_bytes(l):
    """A line of the spec [x |-> n, t |-> chars] = n times 'x' followed by the characters."""
    return b"x" * l["x"] + bytes(l["t"])


def file_bytes(f):
    """ok: magic line + newline-terminated lines; badmagic: the same without the magic line; empty: no bytes."""
    body = b"".join(line_bytes(l) + b"\n" for l in f["lines"])
    k = f["kind"]
    if k == "ok":
        m = f.get("magic")
        return (MAGIC if m is None else b"<" + bytes(m) + b"-0.8.1>\n") + body
    if k == "badmagic":
        return b"<notlibast-1.0>\n" + body
    if k == "empty":
        return b""
    return None          # missing


def blist(b):
    return "[" + ",".join(str(c) for c in b) + "]"


def behaviour_script(sid, beh):
    """beh = one JSON object printed by MC_ConfParse!ObsEmit.  Returns the harness script text."""
    inp, post = beh["input"], beh["post"]
    out = ["S %d" % sid, "prog %s = T -" % blist(inp["cfg"]["prog"]), "init = T -"]
    for f in inp["files"]:
        data = file_bytes(f)
        if data is not None:
            out.append("file %s %s = T -" % (blist(f["name"]), blist(data)))
    for i, nm in enumerate(inp["reg"]):
        out.append("reg %s %d = * -" % (blist(nm), i + 1))
    calls = [[c["h"], c["k"], c["x"] if c["k"] == "L" else 0, c["t"] if c["k"] == "L" else [], c["si"], c["so"]]
             for c in post["calls"] if c["h"] != 0]
    state = {"calls": calls, "fds": post["fds"], "snap": post["snap"]}
    ret = tok(beh["ret"]) if beh["ret"] else "-"
    out.append("parse %s = %s %s" % (blist(inp["files"][0]["name"]), ret, tok(state)))
    out.append("E")
    return "\n".join(out) + "\n"


def cfg_tag(cfg):
    t = "fam=%s" % cfg["fam"]
    if cfg["fam"] == "enum":
        t += "/%s" % cfg["alpha"]
    if cfg["fam"] in ("nest", "unbal", "chain", "long"):
        t += " n=%d" % cfg["n"]
    t += " reg=%s" % cfg["regfam"]
    if cfg["regfam"] == "many":
        t += "%d" % cfg["nreg"]
    t += " null=%s" % cfg["nullmode"]
    return t


def harness(ctx, wrap=False):
    libdir, cflags = build.build_lib(ctx.repo)
    if wrap:
        return build.build_harness("conf_drive", ["conf_replay.c"], libdir, cflags, extra=["-DCONF_WRAP"],
                                   ldflags=["-Wl,--wrap=system,--wrap=fork,--wrap=vfork,--wrap=execve,--wrap=popen,"
                                            "--wrap=spiftool_temp_file,--wrap=malloc,--wrap=realloc,--wrap=free,--wrap=strdup"])
    return build.build_harness("conf_replay", ["conf_replay.c"], libdir, cflags)
