---------------------------------- MODULE Cmp ----------------------------------
(* C05, comparison half: the reference orders of the value classes and the order laws.           *)
(*                                                                                                *)
(* Classes whose order the property (with C01/C07) STATES: text classes (str, ustr and the        *)
(* classes that are a str with extras: url, regexp; tok orders by its source text): unsigned      *)
(* lexicographic order of the characters, a proper prefix is smaller ("equal-prefix buffers of    *)
(* different length are not equal"); mbuff: the same on bytes incl. NUL; objpair: order of keys   *)
(* (the value does not take part), and a pair compares with a bare key object as its key does.    *)
(* NULL is below every object.  For the container classes the property states only the LAWS      *)
(* (terminates, reflexive, antisymmetric, transitive, NULL first), see CmpLaws.tla.               *)
EXTENDS CmpRef, TLC, Json

CONSTANTS Alpha,      \* character / byte codes of the bounded universe
          MaxLen,     \* longest text / buffer
          Kinds       \* subset of {"text", "pair"}

VARIABLES kind, x, y, z
vars == <<kind, x, y, z>>

Texts == UNION {[1 .. n -> Alpha] : n \in 0 .. MaxLen}

\* objects: [null |-> TRUE] is the NULL object; text objects carry v; pairs carry k and v
NullObj == [null |-> TRUE, k |-> <<>>, v |-> <<>>]
TextObjs == {[null |-> FALSE, k |-> <<>>, v |-> t] : t \in Texts}
ShortTexts == {t \in Texts : Len(t) <= 1}
PairObjs == {[null |-> FALSE, k |-> kk, v |-> vv] : kk \in {t \in Texts : Len(t) <= 2}, vv \in ShortTexts}
Universe(kd) == {NullObj} \cup (IF kd = "text" THEN TextObjs ELSE PairObjs)

Init == /\ kind \in Kinds /\ x \in Universe(kind) /\ y \in Universe(kind) /\ z \in Universe(kind)
Next == UNCHANGED vars
Spec == Init /\ [][Next]_vars

C(p, q) == RefCmp(kind, p, q)
Reflexive     == C(x, x) = 0
Antisymmetric == C(x, y) = -C(y, x)
Transitive    == (C(x, y) <= 0 /\ C(y, z) <= 0) => C(x, z) <= 0
TransitiveEq  == (C(x, y) = 0 /\ C(y, z) = 0) => C(x, z) = 0
NullLeast     == (x.null /\ ~y.null) => C(x, y) = -1
Total         == C(x, y) \in {-1, 0, 1}
\* STATED: a proper prefix is smaller, so buffers that agree on the shorter length are not equal
IsProperPrefix(s, t) == Len(s) < Len(t) /\ SubSeq(t, 1, Len(s)) = s
PrefixIsLess  == (kind = "text" /\ ~x.null /\ ~y.null /\ IsProperPrefix(x.v, y.v)) => C(x, y) = -1
EqualIffSameValue == (kind = "text") => ((C(x, y) = 0) <=> (x = y))
PairIgnoresValue  == (kind = "pair" /\ ~x.null /\ ~y.null /\ x.k = y.k) => C(x, y) = 0
================================================================================
