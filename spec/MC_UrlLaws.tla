------------------------------ MODULE MC_UrlLaws ------------------------------
(* Universes for the law runs of UrlObj (LawSpec): no edges are emitted, so the universe can be larger than    *)
(* the one replayed on the implementation.  Kept apart from MC_UrlObj because TLC evaluates every constant     *)
(* definition at start-up (the text sets of MC_UrlObj over this universe would take minutes).                  *)
EXTENDS UrlObj
PartsLawsQuick == [proto  |-> {<<97, 98>>, <<99, 49>>},                                \* ab  c1
                   user   |-> {<<117>>, <<109, 101>>, <<118, 58>>},                    \* u  me  v:
                   passwd |-> {<<112, 119>>, <<112, 58, 119>>, <<112, 64>>},           \* pw  p:w  p@
                   host   |-> {<<104>>, <<108, 111>>},                                 \* h  lo
                   port   |-> {<<56, 48>>, <<120>>, <<56, 58, 49>>},                   \* 80  x  8:1
                   path   |-> {<<47, 112>>, <<47, 97, 64, 98>>, <<47, 97, 63, 98>>},   \* /p  /a@b  /a?b
                   query  |-> {<<113>>, <<120, 47, 121, 64, 122, 58, 119>>}]           \* q   x/y@z:w
\* laws only (no edges): a larger universe, four texts for most parts
PartsLaws     == [proto  |-> {<<97, 98>>, <<99, 49>>, <<100>>, <<>>},                     \* ab c1 d (empty)
              user   |-> {<<117>>, <<109, 101>>, <<118, 58>>, <<>>},                  \* u me v: (empty)
              passwd |-> {<<112, 119>>, <<112, 58, 119>>, <<112, 64>>, <<>>},         \* pw p:w p@ (empty)
              host   |-> {<<104>>, <<108, 111>>, <<104, 46, 120>>, <<104, 64>>},      \* h lo h.x h@
              port   |-> {<<56, 48>>, <<120>>, <<56, 58, 49>>, <<>>},                 \* 80 x 8:1 (empty)
              path   |-> {<<47, 112>>, <<47, 97, 64, 98>>, <<47, 97, 63, 98>>, <<47>>, <<47, 47, 120>>},   \* /p /a@b /a?b / //x
              query  |-> {<<113>>, <<120, 47, 121, 64, 122, 58, 119>>, <<107, 61, 118, 63>>, <<>>}]   \* q x/y@z:w k=v? (empty)
NoTexts == {}
LookupsQuick    == {<<"ip", 0>>, <<"no", 0>>, <<"tcp", 80>>, <<"udp", 8080>>}
LookupsThorough == {<<"ip", 0>>, <<"no", 0>>, <<"tcp", 80>>, <<"udp", 8080>>, <<"tcp", 65535>>, <<"udp", 7>>}
ObsNone(op, args, ret, post) == TRUE
================================================================================
