SPECIFICATION Spec
CONSTANTS
  NK = 5
  NV = 3
  Shades = 2
  BDepth = 1
  Obs <- ObsEmit
INVARIANTS TypeOK SortedNoDup GetAfterSet RemoveOnce FillLaw ExactValueLaw IterLaw
PROPERTIES MutatorsOnly SlotsIndependent DupIsEqual
CHECK_DEADLOCK FALSE
