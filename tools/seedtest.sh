#!/bin/sh
# usage: seedtest.sh <PROP> <seed-dir> [tier]
# Confirms a seeded change in a scratch copy of /repo (demo passes unmodified; with the patch the repository's baseline still
# passes and the demo fails) and runs the property's check against the patched copy (VERIF_REPO), i.e. exactly what
# `git -C /repo apply` + ./vcheck + `git checkout` would do, without touching /repo (so several can run in parallel).
PROP=$1; D=$2; TIER=${3:-quick}
S=/tmp/seedchk-$$
WRAP=$(python3 -c "
import json,re,sys
try:
    m=json.load(open('$D/meta.json')); print(' '.join(sorted(set(re.findall(r'-Wl,--wrap=[A-Za-z_,=\\-]+', json.dumps(m)) + re.findall(r'(?<= )-O[0-3s]\\b', str(m.get('compile', '')))))))
except Exception: pass" 2>/dev/null)
rm -rf $S; cp -a /repo $S
cd $S
# SEED_BASE=<commit>: judge the seed on an earlier tree (when a later repair removed the defect the seeded change relied on)
[ -n "$SEED_BASE" ] && { git checkout -q $SEED_BASE && echo "base tree: $SEED_BASE"; }
make -s -j4 >/dev/null 2>&1
gcc -w -DHAVE_CONFIG_H -I$S -I$S/include -I$S/include/libast $D/demo.c $S/src/.libs/libast.a -lpcre -lX11 -lm -ldl $WRAP -o $S/demo0 2>/dev/null && (cd $S; timeout 120 $S/demo0 >/dev/null 2>&1; echo "demo exit (unmodified) = $?")
PATCH=$D/patch.diff
# a repair of a genuine defect may have rewritten the lines a seeded change touches: patch_rebased.diff is the same change
# carried over to the repaired lines by hand (meta.json says so)
[ -f $D/patch_rebased.diff ] && PATCH=$D/patch_rebased.diff && echo "using patch_rebased.diff"
git apply $PATCH || { echo "PATCH DOES NOT APPLY"; rm -rf $S; exit 3; }
VERIF_REPO=$S /verif/tools/baseline.sh | tail -2
gcc -w -DHAVE_CONFIG_H -I$S -I$S/include -I$S/include/libast $D/demo.c $S/src/.libs/libast.a -lpcre -lX11 -lm -ldl $WRAP -o $S/demo1 2>/dev/null && (cd $S; timeout 120 $S/demo1 >/dev/null 2>&1; echo "demo exit (patched) = $?")
cd /verif && VERIF_REPO=$S VERIF_JOBS=4 ./vcheck $PROP $TIER > $S.out 2>$S.err; rc=$?
[ $rc -ge 2 ] && { echo "vcheck stderr tail:"; tail -n 15 $S.err | cut -c1-500; }
echo "vcheck $PROP $TIER on patched copy: exit=$rc violations=$(grep -c '^VIOLATION' $S.out)"
grep '^VIOLATION' $S.out | head -${SEED_SHOW:-3} | cut -c1-330
rm -rf $S $S.out $S.err
