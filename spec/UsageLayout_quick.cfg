SPECIFICATION Spec
CONSTANTS
  LongLens = {1, 2, 5}
  DescLens = {0, 3, 4, 9}
  TypeBits = {1, 32, 64, 128, 2049, 2176}
  MaxOpts = 2
  Names <- NamesQuick
  Obs <- ObsEmit
CHECK_DEADLOCK FALSE
