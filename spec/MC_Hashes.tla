------------------------------ MODULE MC_Hashes ------------------------------
(* Bounded model of Hashes for TLC: the key universe (all lengths 0..MaxLen over structured and   *)
(* seeded pseudo-random contents), the seed universe, and the vector emitter (one JSON line per   *)
(* generated transition = one (function, key, seed, expected) vector).                            *)
(* The pseudo-random contents are generated HERE, deterministically from env C18_SEED, so every   *)
(* key and every expected value comes out of TLC.                                                 *)
EXTENDS Hashes, IOUtils
CONSTANTS MaxLen,      \* keys of every length 0 .. MaxLen
          NRand,       \* pseudo-random keys per length
          BitStep,     \* single-bit keys: every BitStep-th bit position (plus the first and the last bit)
          NRandSeeds,  \* pseudo-random seeds in addition to 0, 1, 0xFFFFFFFF
          ByteLens     \* full-range value family: every byte value 0..255 at the first, the last, the middle and the 12th
                       \* (block boundary) position of keys of these lengths

SeedN == (IF "C18_SEED" \in DOMAIN IOEnv THEN atoi(IOEnv.C18_SEED) ELSE 20261003) % 65537
Lcg(x) == (x * 75 + 74) % 65537                     \* Lehmer-style generator, period 65536
\* the first n+1 generator states from x0 (strict fold, no deep recursion)
LcgStates(x0, n) == FoldLeft(LAMBDA acc, i : Append(acc, Lcg(acc[Len(acc)])), <<x0>>, [i \in 1 .. n |-> i])

AllZero(L)   == [i \in 1 .. L |-> 0]
AllFF(L)     == [i \in 1 .. L |-> 255]
Counting(L)  == [i \in 1 .. L |-> i - 1]
CountDown(L) == [i \in 1 .. L |-> 256 - i]
SingleBit(L, p) == [i \in 1 .. L |-> IF i = (p \div 8) + 1 THEN 2 ^ (p % 8) ELSE 0]
RandKey(L, j) == LET x0 == (SeedN + 977 * j + 131 * L) % 65537 xs == LcgStates(x0, L + 4) IN [i \in 1 .. L |-> xs[i + 4] % 256]
RandSeed(j)   == LET x0 == (SeedN + 7919 * j) % 65537 xs == LcgStates(x0, 6) IN <<xs[6] % 65536, xs[7] % 65536>>

BitPos(L) == IF L = 0 THEN {} ELSE {p \in 0 .. (8 * L - 1) : p % BitStep = (L % BitStep) \/ p = 0 \/ p = 8 * L - 1}
ByteAt(L, pos, v) == [i \in 1 .. L |-> IF i = pos THEN v ELSE (i * 37) % 256]
BytePos(L) == {1, L, (L + 1) \div 2} \cup (IF L >= 12 THEN {12} ELSE {})
ByteFamily == UNION {{ByteAt(L, pos, v) : pos \in BytePos(L), v \in 0 .. 255} : L \in ByteLens}
MCKeys == ByteFamily \cup UNION {   {AllZero(L), AllFF(L), Counting(L), CountDown(L)}
               \cup {SingleBit(L, p) : p \in BitPos(L)}
               \cup {RandKey(L, j) : j \in 1 .. NRand}   : L \in 0 .. MaxLen }
MCSeeds == {ZERO, <<0, 1>>, <<65535, 65535>>, <<32768, 0>>} \cup {RandSeed(j) : j \in 1 .. NRandSeeds}

ObsEmit(op, args, ret, post) == PrintT(ToJson([act |-> post.act, op |-> op, args |-> args, ret |-> ret]))
================================================================================
