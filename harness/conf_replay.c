/* C09 / C11: drives the config-file subsystem of libast (src/conf.c, src/file.c).
 *
 * usage: conf_replay <scriptfile> [first]
 * Built twice: plain (C09 replay of ConfParse.tla behaviours) and with -DCONF_WRAP plus
 * -Wl,--wrap=system,--wrap=fork,--wrap=vfork,--wrap=execve,--wrap=popen,--wrap=spiftool_temp_file,--wrap=malloc,
 * --wrap=realloc,--wrap=free,--wrap=strdup (C11 driver: process creation is logged and refused, temp files are observed,
 * allocation sites between init and free are remembered, 5 s CPU watchdog per input).
 *
 * Every script runs in a fresh private directory below the current directory (the run dir).
 * Steps (byte strings travel as [n,n,...], "-" = NULL):
 *   init                          spifconf_init_subsystem()
 *   free                          spifconf_free_subsystem()        ret = heap bytes still allocated since init
 *                                 (CONF_WRAP: state = {leaks=[functions that allocated them],snap={..}})
 *   file <name> <bytes>           creates a file with exactly these bytes
 *   mkdir <name>
 *   setenv <name> <value|->
 *   chdir <name> / rmdir <name>   working directory games ("@W" in any name = absolute path of the private directory)
 *   prog <name>                   libast_set_program_name()  (outside init..free: the name string is the program's)
 *   reg <name> <h>                spifconf_register_context(name, handler number h)
 *   regbi <name>                  spifconf_register_builtin(name, harness built-in)
 *   parse <name> [<dir> <path>]   spifconf_parse(); ret = returned string
 *                                 state = {calls=[[h,k,x,[t],si,so]..],fds=<open descriptors after - before>,snap={..}}
 *                                 (k = B|E|L, text as x leading 'x' characters then the bytes t; tokens count 1,2,3.. per script)
 *   expand <bytes>                spifconf_shell_expand() on a CONFIG_BUFF sized heap copy; ret = result
 *   find <file> <dir> <path>      spifconf_find_file(); ret = result
 *   temp <template> <len>         spiftool_temp_file(); ret = T/F; state = {mode=..,fresh=T|F,inbuf=T|F}
 * With CONF_WRAP the state of parse/expand is {fds=..,ncalls=..,snap={..},spawn=[[cmd]..],temp=[[mode,fresh]..]}.
 */
#include "common.h"
#include <stdint.h>
#include <dirent.h>
#include <fcntl.h>
#include <sys/stat.h>
#include <sys/time.h>
#include <sys/resource.h>

struct spifconf_verif {
    unsigned int ctx_idx, ctx_cnt;
    unsigned int ctx_state_idx, ctx_state_cnt;
    unsigned int fstate_idx, fstate_cnt;
    unsigned int builtin_idx, builtin_cnt;
    unsigned int nvars;
    unsigned int tables;
};
extern void spifconf_verif_snapshot(struct spifconf_verif *);

/* ---- recorder -------------------------------------------------------------------------------- */
typedef struct { int h; char k; long x; unsigned char *t; size_t tn; unsigned long si, so; } call_t;
static call_t *calls; static size_t ncalls, capcalls;
static unsigned long token;
static const char *inv_fail;
static char invbuf[256];
static int inited;

static void calls_reset(void) {
#ifndef CONF_WRAP
    size_t i;
    for (i = 0; i < ncalls; i++) free(calls[i].t);
#endif
    ncalls = 0;
}
static void check_caps(const char *where) {
    struct spifconf_verif v;
    if (inv_fail) return;
    spifconf_verif_snapshot(&v);
    if (v.ctx_idx >= v.ctx_cnt || v.ctx_state_idx >= v.ctx_state_cnt || v.fstate_idx >= v.fstate_cnt || v.builtin_idx >= v.builtin_cnt) {
        snprintf(invbuf, sizeof(invbuf), "IndexBelowCapacity:%s:ctx=%u/%u,ctx_state=%u/%u,fstate=%u/%u,builtin=%u/%u", where,
                 v.ctx_idx, v.ctx_cnt, v.ctx_state_idx, v.ctx_state_cnt, v.fstate_idx, v.fstate_cnt, v.builtin_idx, v.builtin_cnt);
        inv_fail = invbuf;
    }
}
static void *record(int h, char *buff, void *state) {
    call_t *c;
#ifdef CONF_WRAP
    /* the C11 driver only counts deliveries (and must not allocate between init and free: heap balance is measured) */
    ncalls++;
    if (buff[0] != SPIFCONF_BEGIN_CHAR && buff[0] != SPIFCONF_END_CHAR && !strcmp(buff, "skipme")) file_skip_to_end();
    check_caps("handler");
    return (void *) (uintptr_t) (++token);
#endif
    if (ncalls == capcalls) { capcalls = capcalls ? capcalls * 2 : 256; calls = (call_t *) realloc(calls, capcalls * sizeof(call_t)); }
    c = &calls[ncalls++];
    c->h = h; c->si = (unsigned long) (uintptr_t) state; c->so = ++token; c->x = 0; c->t = NULL; c->tn = 0;
    if (buff[0] == SPIFCONF_BEGIN_CHAR) c->k = 'B';
    else if (buff[0] == SPIFCONF_END_CHAR) c->k = 'E';
    else {
        size_t n = strlen(buff), x = 0;
        c->k = 'L';
        while (x < n && buff[x] == 'x') x++;
        c->x = (long) x; c->tn = n - x;
        c->t = (unsigned char *) malloc(c->tn + 1);
        memcpy(c->t, buff + x, c->tn + 1);
        if (!strcmp(buff, "skipme")) file_skip_to_end();      /* a handler asking to skip the rest of its context */
    }
    check_caps("handler");
    return (void *) (uintptr_t) c->so;
}
#define H1(n) static void *hnd##n(spif_charptr_t b, void *s) { return record(n, (char *) b, s); }
#define H10(p) H1(p##0) H1(p##1) H1(p##2) H1(p##3) H1(p##4) H1(p##5) H1(p##6) H1(p##7) H1(p##8) H1(p##9)
H1(0) H1(1) H1(2) H1(3) H1(4) H1(5) H1(6) H1(7) H1(8) H1(9)
H10(1) H10(2) H10(3) H10(4) H10(5) H10(6) H10(7) H10(8) H10(9)
H10(10) H10(11) H10(12) H10(13) H10(14) H10(15) H10(16) H10(17) H10(18) H10(19)
H10(20) H10(21) H10(22) H10(23) H10(24) H10(25)
#define P1(n) hnd##n,
#define P10(p) P1(p##0) P1(p##1) P1(p##2) P1(p##3) P1(p##4) P1(p##5) P1(p##6) P1(p##7) P1(p##8) P1(p##9)
static ctx_handler_t handlers[] = {
    P1(0) P1(1) P1(2) P1(3) P1(4) P1(5) P1(6) P1(7) P1(8) P1(9)
    P10(1) P10(2) P10(3) P10(4) P10(5) P10(6) P10(7) P10(8) P10(9)
    P10(10) P10(11) P10(12) P10(13) P10(14) P10(15) P10(16) P10(17) P10(18) P10(19)
    P10(20) P10(21) P10(22) P10(23) P10(24) P10(25)
};
#define NHANDLERS ((int) (sizeof(handlers) / sizeof(handlers[0])))

static spif_charptr_t bi_word(spif_charptr_t param) { (void) param; return (spif_charptr_t) strdup("w"); }

/* ---- spawn / temp-file observation (C11 build) -------------------------------------------------- */
typedef struct { char s[48]; } ev_t;
static ev_t spawns[64]; static int nspawn;
static struct { unsigned mode; int fresh; } temps[64]; static int ntemp;
static char seen_names[4096][40]; static int nseen;       /* tails of the temp-file names seen so far (no heap use) */
static void log_spawn(const char *kind, const char *cmd) {
    if (nspawn < 64) snprintf(spawns[nspawn].s, sizeof(spawns[nspawn].s), "%s:%s", kind, cmd ? cmd : "");
    nspawn++;
}
static int name_fresh(const char *name) {
    int i; size_t n = strlen(name);
    const char *tail = n > 39 ? name + n - 39 : name;
    for (i = 0; i < nseen; i++) if (!strcmp(seen_names[i], tail)) return 0;
    if (nseen < 4096) strcpy(seen_names[nseen++], tail);
    return 1;
}
#ifdef CONF_WRAP
int __wrap_system(const char *cmd) { log_spawn("system", cmd); errno = EAGAIN; return -1; }
pid_t __wrap_fork(void) { log_spawn("fork", ""); errno = EAGAIN; return -1; }
pid_t __wrap_vfork(void) { log_spawn("vfork", ""); errno = EAGAIN; return -1; }
int __wrap_execve(const char *p, char *const a[], char *const e[]) { (void) a; (void) e; log_spawn("execve", p); errno = EACCES; return -1; }
FILE *__wrap_popen(const char *cmd, const char *m) { (void) m; log_spawn("popen", cmd); errno = EAGAIN; return NULL; }
extern int __real_spiftool_temp_file(spif_charptr_t, size_t);
int __wrap_spiftool_temp_file(spif_charptr_t t, size_t len) {
    int fd = __real_spiftool_temp_file(t, len);
    if (fd >= 0) {
        struct stat st; char link[64], path[PATH_MAX]; ssize_t n;
        unsigned mode = 07777;
        if (!fstat(fd, &st)) mode = st.st_mode & 07777;
        snprintf(link, sizeof(link), "/proc/self/fd/%d", fd);
        n = readlink(link, path, sizeof(path) - 1);
        path[n > 0 ? n : 0] = 0;
        if (ntemp < 64) { temps[ntemp].mode = mode; temps[ntemp].fresh = name_fresh(path); }
        ntemp++;
    }
    return fd;
}
/* allocation-site tracking between init and free: who allocated what spifconf_free_subsystem() left behind
 * (malloc/realloc/free/strdup of the library and harness objects are wrapped at link time; the verdict itself is the
 * allocator's byte count, this table only names the origin for the finding key) */
#define LT_SIZE 65536
static struct { void *p; void *ra[5]; } lt[LT_SIZE];
static int lt_on, lt_count;
extern void *__real_malloc(size_t); extern void *__real_realloc(void *, size_t); extern void __real_free(void *); extern char *__real_strdup(const char *);
static void lt_add(void *p, void **fp) {
    unsigned h = (unsigned) (((uintptr_t) p >> 4) * 2654435761u) % LT_SIZE; int i, k;
    if (!p || !lt_on || lt_count > LT_SIZE / 2) return;
    for (i = 0; i < LT_SIZE && lt[h].p; i++) h = (h + 1) % LT_SIZE;
    lt[h].p = p; lt_count++;
    for (k = 0; k < 5; k++) {
        void **next;
        lt[h].ra[k] = NULL;
        if (!fp) continue;
        lt[h].ra[k] = fp[1];
        next = (void **) fp[0];
        fp = (next > fp && (char *) next - (char *) fp < (1 << 20)) ? next : NULL;
    }
}
static void lt_del(void *p) {
    unsigned h = (unsigned) (((uintptr_t) p >> 4) * 2654435761u) % LT_SIZE; int i;
    if (!p || !lt_count) return;
    for (i = 0; i < LT_SIZE && lt[h].p; i++, h = (h + 1) % LT_SIZE) {
        if (lt[h].p == p) {                       /* delete and re-insert the rest of the cluster */
            unsigned j = (h + 1) % LT_SIZE;
            lt[h].p = NULL; lt_count--;
            while (lt[j].p) {
                void *q = lt[j].p; void *ra[5]; unsigned g; int k;
                memcpy(ra, lt[j].ra, sizeof(ra));
                lt[j].p = NULL;
                g = (unsigned) (((uintptr_t) q >> 4) * 2654435761u) % LT_SIZE;
                while (lt[g].p) g = (g + 1) % LT_SIZE;
                lt[g].p = q; for (k = 0; k < 5; k++) lt[g].ra[k] = ra[k];
                j = (j + 1) % LT_SIZE;
            }
            return;
        }
    }
}
void *__wrap_malloc(size_t n) { void *p = __real_malloc(n); lt_add(p, (void **) __builtin_frame_address(0)); return p; }
char *__wrap_strdup(const char *s) { char *p = __real_strdup(s); lt_add(p, (void **) __builtin_frame_address(0)); return p; }
void *__wrap_realloc(void *o, size_t n) { void *p; lt_del(o); p = __real_realloc(o, n); lt_add(p, (void **) __builtin_frame_address(0)); return p; }
void __wrap_free(void *p) { lt_del(p); __real_free(p); }
/* allocation stacks (module offsets of up to 5 return addresses) of the blocks still live: "[[o1,o2,..],..]", at most 16
 * different ones; the check symbolises them in one batch */
static void sb_leaks(vh_sb *b) {
    static unsigned long st[16][5]; int nn = 0, i, k, j;
    for (i = 0; i < LT_SIZE && nn < 16; i++) {
        unsigned long cur[5];
        if (!lt[i].p) continue;
        for (k = 0; k < 5; k++) {
            char mod[512]; void *off = NULL;
            cur[k] = 0;
            if (lt[i].ra[k] && __sanitizer_get_module_and_offset_for_pc(lt[i].ra[k], mod, sizeof(mod), &off)) cur[k] = (unsigned long) (uintptr_t) off;
        }
        for (j = 0; j < nn; j++) if (!memcmp(st[j], cur, sizeof(cur))) break;
        if (j == nn) memcpy(st[nn++], cur, sizeof(cur));
    }
    sb_putc(b, '[');
    for (i = 0; i < nn; i++) {
        if (i) sb_putc(b, ',');
        sb_putc(b, '[');
        for (k = 0; k < 5; k++) { if (k) sb_putc(b, ','); sb_printf(b, "%lu", st[i][k]); }
        sb_putc(b, ']');
    }
    sb_putc(b, ']');
    memset(lt, 0, sizeof(lt)); lt_count = 0;
}
static void cpu_alarm(int sig) { (void) sig; vh_emit_raw('H'); _exit(3); }
static void cpu_watch(int secs) {
    struct itimerval it;
    memset(&it, 0, sizeof(it));
    it.it_value.tv_sec = secs;
    signal(SIGPROF, cpu_alarm);
    setitimer(ITIMER_PROF, &it, NULL);
}
#else
static void cpu_watch(int secs) { (void) secs; }
#endif

/* ---- helpers ------------------------------------------------------------------------------------- */
static size_t heap_at_init;

/* fills 64 kB of stack below the caller with a non-zero pattern so that uninitialised locals of the library are
 * not accidentally zero (or accidentally a previous magic line) */
static void __attribute__((noinline)) dirty_stack(unsigned char pat) {
    volatile unsigned char a[65536];
    memset((void *) a, pat, sizeof(a));
    __asm__ volatile("" : : "r"(a) : "memory");
}
static int count_fds(void) {
    DIR *d = opendir("/proc/self/fd"); struct dirent *e; int n = 0;
    if (!d) return -1;
    while ((e = readdir(d))) if (e->d_name[0] != '.') n++;
    closedir(d);
    return n;
}
static void rm_rf(const char *path) {
    DIR *d = opendir(path); struct dirent *e; char p[PATH_MAX];
    if (d) {
        while ((e = readdir(d))) {
            if (!strcmp(e->d_name, ".") || !strcmp(e->d_name, "..")) continue;
            snprintf(p, sizeof(p), "%s/%s", path, e->d_name);
            if (unlink(p)) rm_rf(p);
        }
        closedir(d);
    }
    rmdir(path);
}
/* "[97,98]" -> exact-size heap block (any length; common.h's vh_bytes is limited to 65536 bytes) */
static unsigned char *cr_bytes(const char *t, size_t *len, int nul) {
    size_t n = 0, cap = strlen(t) / 2 + 2; const char *p = t;
    unsigned char *tmp = (unsigned char *) malloc(cap), *out;
    if (*p == '[') p++;
    while (*p && *p != ']') {
        char *e; long v = strtol(p, &e, 10);
        if (e == p) break;
        tmp[n++] = (unsigned char) v;
        p = e;
        if (*p == ',') p++;
    }
    out = (unsigned char *) malloc(n + (nul ? 1 : (n ? 0 : 1)));
    memcpy(out, tmp, n);
    if (nul) out[n] = 0;
    free(tmp);
    if (len) *len = n;
    return out;
}
static char topdir[PATH_MAX], workdir[PATH_MAX];
/* exact-size heap copy; NULL for "-"; every "@W" in the text stands for the absolute path of the script's private directory */
static char *argstr(const char *tok) {
    char *s, *at, *out; size_t wl;
    if (!strcmp(tok, "-")) return NULL;
    s = (char *) cr_bytes(tok, NULL, 1);
    if (!strstr(s, "@W")) return s;
    wl = strlen(workdir);
    out = (char *) malloc(strlen(s) / 2 * wl + strlen(s) + 1);
    out[0] = 0;
    {
        char *p = s, *o = out;
        while ((at = strstr(p, "@W"))) { memcpy(o, p, (size_t) (at - p)); o += at - p; memcpy(o, workdir, wl); o += wl; p = at + 2; }
        strcpy(o, p);
    }
    free(s);
    s = strdup(out);                 /* exact size again */
    free(out);
    return s;
}
static int same_dir(const struct stat *a, const struct stat *b) { return a->st_dev == b->st_dev && a->st_ino == b->st_ino; }
static void sb_snap(vh_sb *b) {
    struct spifconf_verif v;
    spifconf_verif_snapshot(&v);
#ifdef CONF_WRAP
    sb_printf(b, "{b_cnt=%u,b_idx=%u,c_cnt=%u,c_idx=%u,cs_cnt=%u,cs_idx=%u,f_cnt=%u,f_idx=%u,nvars=%u,tables=%u}",
              v.builtin_cnt, v.builtin_idx, v.ctx_cnt, v.ctx_idx, v.ctx_state_cnt, v.ctx_state_idx, v.fstate_cnt, v.fstate_idx, v.nvars, v.tables);
#else
    sb_printf(b, "{c_cnt=%u,c_idx=%u,cs_cnt=%u,cs_idx=%u,f_cnt=%u,f_idx=%u,nvars=%u}",
              v.ctx_cnt, v.ctx_idx, v.ctx_state_cnt, v.ctx_state_idx, v.fstate_cnt, v.fstate_idx, v.nvars);
#endif
}
static void sb_cstr(vh_sb *b, const char *s) {
    if (!s) sb_putc(b, '-'); else sb_bytes(b, (const unsigned char *) s, strlen(s));
}
static void sb_events(vh_sb *state) {
    int i;
    sb_puts(state, ",spawn=[");
    for (i = 0; i < nspawn && i < 64; i++) { if (i) sb_putc(state, ','); sb_bytes(state, (unsigned char *) spawns[i].s, strlen(spawns[i].s) > 40 ? 40 : strlen(spawns[i].s)); }
    sb_puts(state, "],temp=[");
    for (i = 0; i < ntemp && i < 64; i++) { if (i) sb_putc(state, ','); sb_printf(state, "[%u,%c]", temps[i].mode, temps[i].fresh ? 'T' : 'F'); }
    sb_puts(state, "]");
    nspawn = ntemp = 0;
}

/* one private directory per process; the files and directories a script creates are removed at its end */
static char madepool[1 << 20]; static size_t madeused;
static char *made[8192]; static int nmade;
static void made_add(const char *name) {
    size_t n = strlen(name) + 1;
    if (nmade < 8192 && madeused + n <= sizeof(madepool)) { made[nmade] = madepool + madeused; memcpy(made[nmade++], name, n); madeused += n; }
}
static void cleanup_workdir(void) { if (workdir[0] && !chdir(topdir)) rm_rf(workdir); }
static void vh_begin(void) {
    if (!topdir[0]) {
        if (!getcwd(topdir, sizeof(topdir))) { perror("getcwd"); exit(2); }
        snprintf(workdir, sizeof(workdir), "%s/conf-%d-XXXXXX", topdir, (int) getpid());
        if (!mkdtemp(workdir)) { perror("mkdtemp"); exit(2); }
        atexit(cleanup_workdir);
    }
    if (chdir(workdir)) { perror("chdir"); exit(2); }
    calls_reset(); token = 0; inv_fail = NULL; inited = 0;
    nspawn = ntemp = 0;
}

static void vh_end(void) {
    if (inited) { spifconf_free_subsystem(); inited = 0; }
    calls_reset();
    if (chdir(workdir)) { perror("chdir"); exit(2); }
    while (nmade > 0) {
        char *n = made[--nmade];
        if (unlink(n)) rm_rf(n);
    }
    madeused = 0;
}

static const char *vh_step(const vh_step_t *st, vh_sb *ret, vh_sb *state) {
    const char *op = st->op;
    sb_putc(state, '-');
    if (!strcmp(op, "init")) {
        heap_at_init = vh_heap();
#ifdef CONF_WRAP
        memset(lt, 0, sizeof(lt)); lt_count = 0; lt_on = 1;
#endif
        spifconf_init_subsystem();
        inited = 1;
        sb_bool(ret, 1);
#ifdef CONF_WRAP
        sb_reset(state); sb_snap(state);
#endif
    } else if (!strcmp(op, "free")) {
        spifconf_free_subsystem();
        inited = 0;
        sb_int(ret, (long) vh_heap() - (long) heap_at_init);
#ifdef CONF_WRAP
        lt_on = 0;
        sb_reset(state); sb_puts(state, "{leaks="); sb_leaks(state); sb_puts(state, ",snap="); sb_snap(state); sb_putc(state, '}');
#endif
    } else if (!strcmp(op, "file")) {
        size_t n; char *name = argstr(st->args[0]); unsigned char *data = cr_bytes(st->args[1], &n, 0);
        int fd = open(name, O_WRONLY | O_CREAT | O_TRUNC, 0644);
        if (fd < 0 || write(fd, data, n) != (ssize_t) n) { perror(name); exit(2); }
        close(fd);
        made_add(name);
        free(name); free(data);
        sb_bool(ret, 1);
    } else if (!strcmp(op, "mkdir")) {
        char *name = argstr(st->args[0]);
        sb_bool(ret, mkdir(name, 0755) == 0);
        made_add(name);
        free(name);
    } else if (!strcmp(op, "chdir")) {                /* process-wide: the working directory (vh_end goes back to the private directory) */
        char *name = argstr(st->args[0]);
        sb_bool(ret, chdir(name) == 0);
        free(name);
    } else if (!strcmp(op, "rmdir")) {
        char *name = argstr(st->args[0]);
        sb_bool(ret, rmdir(name) == 0);
        free(name);
    } else if (!strcmp(op, "prog")) {                 /* process-wide setting: the program name (magic line of config files) */
        char *name = argstr(st->args[0]);
        libast_set_program_name(name);
        free(name);
        sb_bool(ret, 1);
    } else if (!strcmp(op, "setenv")) {
        char *name = argstr(st->args[0]), *val = argstr(st->args[1]);
        if (val) setenv(name, val, 1); else unsetenv(name);
        free(name); free(val);
        sb_bool(ret, 1);
    } else if (!strcmp(op, "reg")) {
        char *name = argstr(st->args[0]); long h = vh_int(st->args[1]);
        if (h < 0 || h >= NHANDLERS) return "bad-handler-number";
        sb_int(ret, (long) spifconf_register_context((spif_charptr_t) name, handlers[h]));
        free(name);
#ifdef CONF_WRAP
        sb_reset(state); sb_snap(state);
#endif
        check_caps("register_context");
    } else if (!strcmp(op, "regbi")) {
        char *name = argstr(st->args[0]);
        sb_int(ret, (long) spifconf_register_builtin(name, bi_word));
        free(name);
#ifdef CONF_WRAP
        sb_reset(state); sb_snap(state);
#endif
        check_caps("register_builtin");
    } else if (!strcmp(op, "parse")) {
        char *name = argstr(st->args[0]);
        char *dir = st->nargs > 1 ? argstr(st->args[1]) : NULL, *path = st->nargs > 2 ? argstr(st->args[2]) : NULL;
        int fd0 = count_fds(), fd1; size_t i;
        struct stat cw0, cw1; int cwd_same;
        spif_charptr_t r;
        if (stat(".", &cw0)) memset(&cw0, 0, sizeof(cw0));
        calls_reset();
        dirty_stack(0xAA);
        cpu_watch(5);
        r = spifconf_parse((spif_charptr_t) name, (spif_charptr_t) dir, (spif_charptr_t) path);
        cpu_watch(0);
        fd1 = count_fds();
        if (stat(".", &cw1)) memset(&cw1, 0xff, sizeof(cw1));
        cwd_same = same_dir(&cw0, &cw1);
        {   /* later steps of the script expect the private directory if that is where the call was made */
            struct stat ws;
            if (!cwd_same && !stat(workdir, &ws) && same_dir(&ws, &cw0) && chdir(workdir)) { }
        }
        sb_cstr(ret, (const char *) r);
        if (r) free(r);
        sb_reset(state);
#ifdef CONF_WRAP
        sb_printf(state, "{cwd=%c,fds=%d,ncalls=%lu,snap=", cwd_same ? 'T' : 'F', fd1 - fd0, (unsigned long) ncalls);
        sb_snap(state);
        sb_events(state);
        sb_putc(state, '}');
        (void) i;
#else
        sb_puts(state, "{calls=[");
        for (i = 0; i < ncalls; i++) {
            call_t *c = &calls[i];
            if (i) sb_putc(state, ',');
            sb_printf(state, "[%d,%c,%ld,", c->h, c->k, c->x);
            sb_bytes(state, c->t ? c->t : (const unsigned char *) "", c->tn);
            sb_printf(state, ",%lu,%lu]", c->si, c->so);
        }
        sb_printf(state, "],fds=%d,snap=", fd1 - fd0);
        sb_snap(state);
        sb_putc(state, '}');
#endif
        free(name); free(dir); free(path);
        check_caps("after-parse");
    } else if (!strcmp(op, "expand")) {
        size_t n; unsigned char *data = cr_bytes(st->args[0], &n, 1);
        char *buf = (char *) malloc(CONFIG_BUFF); spif_charptr_t r;
        int fd0 = count_fds(), fd1;
        if (n >= CONFIG_BUFF) n = CONFIG_BUFF - 1;
        memcpy(buf, data, n); buf[n] = 0;
        dirty_stack(0xAA);
        cpu_watch(5);
        r = spifconf_shell_expand((spif_charptr_t) buf);
        cpu_watch(0);
        fd1 = count_fds();
        if (r) sb_int(ret, (long) strlen((const char *) r)); else sb_putc(ret, '-');     /* length only: keeps the token small */
        sb_reset(state);
        sb_printf(state, "{cwd=T,fds=%d,ncalls=0,snap=", fd1 - fd0);
        sb_snap(state);
        sb_events(state);
        sb_putc(state, '}');
        free(buf); free(data);
    } else if (!strcmp(op, "find")) {
        char *file = argstr(st->args[0]), *dir = argstr(st->args[1]), *path = argstr(st->args[2]);
        spif_charptr_t r;
        dirty_stack(0xAA);
        cpu_watch(5);
        r = spifconf_find_file((spif_charptr_t) file, (spif_charptr_t) dir, (spif_charptr_t) path);
        cpu_watch(0);
        sb_cstr(ret, (const char *) r);
        free(file); free(dir); free(path);
    } else if (!strcmp(op, "temp")) {
        size_t n; unsigned char *tpl = cr_bytes(st->args[0], &n, 1);
        long len = vh_int(st->args[1]);
        /* caller's buffer of exactly len bytes (redzone behind it), holding the template */
        char *buf = (char *) malloc(len > 0 ? (size_t) len : 1);
        int fd;
        if ((size_t) len <= n) { free(buf); free(tpl); return "template-does-not-fit"; }
        memcpy(buf, tpl, n + 1);
        fd = spiftool_temp_file((spif_charptr_t) buf, (size_t) len);
        sb_bool(ret, fd >= 0);
        sb_reset(state);
        if (fd >= 0) {
            struct stat sst; char link[64], path[PATH_MAX]; ssize_t k; unsigned mode = 07777; int inbuf, created_here = 0;
            if (!fstat(fd, &sst)) mode = sst.st_mode & 07777;
            snprintf(link, sizeof(link), "/proc/self/fd/%d", fd);
            k = readlink(link, path, sizeof(path) - 1);
            path[k > 0 ? k : 0] = 0;
            /* the name handed back is the path of the file (if the caller's buffer was too small it is a truncated copy, which
             * cannot be checked beyond being terminated inside the buffer - ASan watches the bytes behind it) */
            {
                struct stat nst;
                if (strlen(buf) < (size_t) len - 1) inbuf = (!stat(buf, &nst) && nst.st_ino == sst.st_ino && nst.st_dev == sst.st_dev);
                else inbuf = 1;
            }
            created_here = (sst.st_size == 0 && sst.st_nlink == 1);
#ifdef CONF_WRAP
            sb_printf(state, "{created=%c,inbuf=%c,mode=%u,fresh=%c}", created_here ? 'T' : 'F', inbuf ? 'T' : 'F', mode, temps[ntemp > 0 ? (ntemp - 1) % 64 : 0].fresh ? 'T' : 'F');
            nspawn = ntemp = 0;
#else
            sb_printf(state, "{created=%c,inbuf=%c,mode=%u,fresh=%c}", created_here ? 'T' : 'F', inbuf ? 'T' : 'F', mode, name_fresh(path) ? 'T' : 'F');
#endif
            close(fd);
            unlink(path);
        } else sb_putc(state, '-');
        free(buf); free(tpl);
    } else {
        return "unknown-op";
    }
    return inv_fail;
}

int main(int argc, char **argv) {
    if (argc < 2) { fprintf(stderr, "usage: %s <scripts> [first]\n", argv[0]); return 2; }
    DEBUG_LEVEL = 0;
#ifdef CONF_WRAP
    { struct rlimit rl; rl.rlim_cur = rl.rlim_max = 600; setrlimit(RLIMIT_NOFILE, &rl); }   /* runaway %include recursion ends soon */
#endif
    vh_check_heap = 0;        /* heap balance is judged per init..free cycle (C11), not per script */
    return vh_main(argc, argv, 1);
}
