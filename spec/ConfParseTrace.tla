---------------------------- MODULE ConfParseTrace ----------------------------
(* Direction B for C09: executions of spifconf_parse() recorded on larger, seeded random file     *)
(* trees are validated against ConfParse.  The file named by env TRACE holds one JSON object per  *)
(* execution: {cfg: the input itself (registered contexts, file tree), ret, post: {calls, snap,   *)
(* fds}} as observed on the implementation.  TLC runs the SAME actions of ConfParse on the input  *)
(* (they are deterministic once the files are given) and the observation at OpReturn/OpOpenFail   *)
(* must equal the recorded one; then the next execution starts.  TLC register 1 counts the        *)
(* accepted executions.                                                                           *)
EXTENDS ConfParse, IOUtils, Json
VARIABLE l
Tr == ndJsonDeserialize(IOEnv.TRACE)
TraceConfigs == {Tr[k].cfg : k \in 1 .. Len(Tr)}

\* The scanner tabulated once over the lines that occur in the trace.  TLC does not cache constant definitions that
\* are reached through a substituted constant operator, so the table is parked in TLC register 2 (single worker).
TraceLines == UNION {UNION {{c[i] : i \in 1 .. Len(c)} : c \in {Tr[k].cfg.content[f] : f \in 1 .. Len(Tr[k].cfg.content)}} : k \in 1 .. Len(Tr)}
ScTrace(ln) == TLCGet(2)[ln]                                   \* = Scan(ln)

NoAlpha(a, f) == {}
SelfLine(e) == e
NoFixedLen(c, f) == 0
NoFixedLine(c, f, i) == 0
Observed(cs) == SelectSeq(cs, LAMBDA c : c.h # 0)
Shown(cs) == [i \in 1 .. Len(cs) |-> [h |-> cs[i].h, k |-> cs[i].k, x |-> IF cs[i].k = "L" THEN cs[i].x ELSE 0,
                                      t |-> IF cs[i].k = "L" THEN cs[i].t ELSE <<>>, si |-> cs[i].si, so |-> cs[i].so]]
ObsTrace(op, input, ret, post) ==
    \/ op = "unjudged" /\ TLCSet(1, l)          \* an execution that leaves the universe of the statement (X rules) is not judged
    \/ /\ op = "parse" /\ ret = Tr[l].ret
       /\ Shown(Observed(post.calls)) = Tr[l].post.calls
       /\ post.snap = Tr[l].post.snap
       /\ post.fds = Tr[l].post.fds
       /\ TLCSet(1, l)

TraceInit == TLCSet(2, [ln \in TraceLines |-> Scan(ln)] @@ <<>>) /\ Init /\ cfg = Tr[1].cfg /\ l = 1 /\ TLCSet(1, 0)
NextExec ==
    /\ phase \in {"done", "unjudged"} /\ l < Len(Tr)
    /\ l' = l + 1
    /\ cfg' = Tr[l + 1].cfg
    /\ phase' = "setup" /\ regpos' = 0
    /\ content' = Tr[l + 1].cfg.content /\ closed' = {0}
    /\ ctab' = <<[name |-> S_null, h |-> 0]>> /\ c_idx' = 0 /\ c_cnt' = 20
    /\ cst' = <<[id |-> 0, st |-> 0]>> /\ cs_idx' = 0 /\ cs_cnt' = 20
    /\ fst' = <<>> /\ f_idx' = 0 /\ f_cnt' = 10
    /\ vars' = {} /\ tokc' = 0 /\ calls' = <<>> /\ retnull' = FALSE /\ skipUsed' = FALSE /\ acts' = {}
\* an execution that leaves the universe of the statement (X rules of ConfParse) is not judged
TraceStep == \/ phase \notin {"done", "unjudged"} /\ Next /\ l' = l
             \/ NextExec
TraceSpec == TraceInit /\ [][TraceStep]_<<vars_all, l>>
TraceAccepted == \/ TLCGet(1) = Len(Tr)
                 \/ PrintT(<<"TRACE_REJECTED_AFTER", TLCGet(1), "OF", Len(Tr)>>) /\ FALSE
================================================================================
