/* C18 replay harness: evaluates TLC-generated hash vectors on the real spifhash_* functions.
 *
 * Script step:   <fn> <key> <seed> = <expected> same
 *   fn       jenkins | jenkinsLE | jenkins32 | rotating | one_at_a_time | fnv
 *   key      [b0,b1,...] bytes; for jenkins32 [[hi,lo],...] = the 32-bit words (two 16-bit limbs each)
 *   seed     [hi,lo]
 *   expected [hi,lo]  (or ? to record the value: trace validation)
 *
 * Every vector is evaluated at all 8 start alignments (address mod 8 = 0..7) in these placements:
 *   E   exact-size heap block of a+len bytes, key in its last len bytes: the key ENDS at the ASan redzone
 *       (a = 0: it also STARTS right behind the left redzone); the a bytes before the key hold 0xA5
 *   E2  (a > 0) the same with 0x5A before the key: a value that depends on bytes before the key shows up
 *   M   block of 8+a+len+tail bytes whose first 8-byte granule is poisoned by hand: for a = 0 the key starts right
 *       behind a poisoned granule at an address that is 8 mod 16; foreign bytes on both sides
 *   P   purity under an adversarial prelude: the function is first called on the SAME address and length holding the
 *       complemented bytes (a cache keyed by address+length would now be stale), errno is preset to ERANGE, then the
 *       real key is written to the same place and hashed (at odd alignments with the run-time debug level raised
 *       to 5): the value must be the same as everywhere else
 *   N   (empty key only) the key given as (NULL, 0, seed): the definitions never touch the key when the length is 0,
 *       so NULL is one more legitimate place for the empty key
 * ASan therefore sees any read outside [key, key+len); the returned token is the value of the first
 * placement, the state token is "same" iff every placement returned that value.
 */
#include "common.h"
#include <stdint.h>

typedef spif_uint32_t (*hfn_t)(spif_uint8_t *, spif_uint32_t, spif_uint32_t);
#define H_CALLS_PER_VECTOR 39          /* E:8 E2:7 M:8 P:8x2 */
#define H_EXTRA_CALLS_EMPTY_KEY 2       /* N at run-time debug level 0 and 5 */

static int key_modified = 0;
static volatile spif_uint32_t prelude_sink = 0;
static void vh_begin(void) { key_modified = 0; }
static void vh_end(void) { }

static void die_machinery(const char *msg) {
    fprintf(stderr, "hash_replay: machinery error: %s\n", msg);
    fflush(stderr);
    vh_in_script = 0;
    _exit(2);
}

/* all unsigned integers of a token, brackets and commas ignored */
static size_t all_ints(const char *t, unsigned long *out, size_t max) {
    size_t n = 0; const char *p = t;
    while (*p) {
        if (*p >= '0' && *p <= '9') {
            char *e; unsigned long v = strtoul(p, &e, 10);
            if (n < max) out[n] = v;
            n++; p = e;
        } else p++;
    }
    return n;
}

static hfn_t lookup(const char *op, int *words) {
    *words = 0;
    if (!strcmp(op, "jenkins")) return spifhash_jenkins;
    if (!strcmp(op, "jenkinsLE")) return spifhash_jenkinsLE;
    if (!strcmp(op, "jenkins32")) { *words = 1; return spifhash_jenkins32; }
    if (!strcmp(op, "rotating")) return spifhash_rotating;
    if (!strcmp(op, "one_at_a_time")) return spifhash_one_at_a_time;
    if (!strcmp(op, "fnv")) return spifhash_fnv;
    return NULL;
}

/* one evaluation: key bytes copied to blk+off, blk of exactly total bytes, optional poisoned first granule */
static spif_uint32_t eval_at(hfn_t fn, const unsigned char *kb, size_t nbytes, spif_uint32_t lenarg, spif_uint32_t seed,
                             size_t off, size_t tail, unsigned char fill, int poison_first, unsigned want_align, int prelude)
{
    size_t total = off + nbytes + tail, i;
    unsigned char *blk = (unsigned char *) malloc(total ? total : 1);
    unsigned char *key;
    spif_uint32_t r;

    if (!blk) die_machinery("malloc failed");
    if (((uintptr_t) blk) & 15) die_machinery("allocator does not return 16-byte aligned blocks");
    for (i = 0; i < off; i++) blk[i] = (unsigned char) (fill + (poison_first ? i * 29 : 0));
    for (i = 0; i < tail; i++) blk[off + nbytes + i] = (unsigned char) (~fill + i * 31);
    key = blk + off;
    if (nbytes) memcpy(key, kb, nbytes);
    if ((((uintptr_t) key) & 7) != want_align) die_machinery("key alignment is not the requested one");
#ifdef VH_ASAN
    if (total == 0) __asan_poison_memory_region(blk, 1);           /* len 0 at the block start: nothing is readable */
    if (poison_first) __asan_poison_memory_region(blk, 8);
#endif
    if (prelude) {
        for (i = 0; i < nbytes; i++) key[i] = (unsigned char) ~kb[i];
        prelude_sink ^= fn((spif_uint8_t *) key, lenarg, seed);
        if (nbytes) memcpy(key, kb, nbytes);
        errno = ERANGE;
        if (want_align & 1) libast_debug_level = 5;     /* the value must not depend on the run-time debug level either */
    }
    r = fn((spif_uint8_t *) key, lenarg, seed);
    libast_debug_level = 0;
#ifdef VH_ASAN
    if (total == 0) __asan_unpoison_memory_region(blk, 1);
    if (poison_first) __asan_unpoison_memory_region(blk, 8);
#endif
    /* the key must be untouched (the functions take a non-const pointer) */
    if (nbytes && memcmp(key, kb, nbytes)) key_modified = 1;
    free(blk);
    return r;
}

static const char *vh_step(const vh_step_t *st, vh_sb *ret, vh_sb *state)
{
    static unsigned long nums[1 << 16];
    static unsigned char kb[1 << 17];
    unsigned long sd[2];
    int words; size_t n, nbytes, i; unsigned a;
    hfn_t fn = lookup(st->op, &words);
    spif_uint32_t seed, lenarg, first = 0, v; int have = 0, calls = 0;
    char diff[160]; diff[0] = 0;

    if (!fn || st->nargs != 2) die_machinery("bad step");
    n = all_ints(st->args[0], nums, sizeof(nums) / sizeof(nums[0]));
    if (n > sizeof(nums) / sizeof(nums[0])) die_machinery("key too long");
    if (all_ints(st->args[1], sd, 2) != 2) die_machinery("bad seed");
    seed = (spif_uint32_t) ((sd[0] << 16) | sd[1]);
    if (words) {
        if (n % 2) die_machinery("odd limb count");
        nbytes = (n / 2) * 4; lenarg = (spif_uint32_t) (n / 2);
        for (i = 0; i < n / 2; i++) {           /* the words as this host stores them */
            spif_uint32_t w = (spif_uint32_t) ((nums[2 * i] << 16) | nums[2 * i + 1]);
            memcpy(kb + 4 * i, &w, 4);
        }
    } else {
        nbytes = n; lenarg = (spif_uint32_t) n;
        for (i = 0; i < n; i++) kb[i] = (unsigned char) nums[i];
    }

#define NOTE(TAG) do { \
        if (!have) { first = v; have = 1; } \
        else if (v != first && !diff[0]) \
            snprintf(diff, sizeof(diff), "differs:align=%u,place=%s,got=[%u,%u]", a, TAG, (unsigned) (v >> 16), (unsigned) (v & 0xffff)); \
    } while (0)
#define ONE(OFF, TAIL, FILL, POISON, PRELUDE, TAG) do { \
        v = eval_at(fn, kb, nbytes, lenarg, seed, (OFF), (TAIL), (FILL), (POISON), a, (PRELUDE)); calls += 1 + (PRELUDE); \
        if (!have) { first = v; have = 1; } \
        else if (v != first && !diff[0]) \
            snprintf(diff, sizeof(diff), "differs:align=%u,place=%s,got=[%u,%u]", a, TAG, (unsigned) (v >> 16), (unsigned) (v & 0xffff)); \
    } while (0)

    for (a = 0; a < 8; a++) {
        ONE(a, 0, 0xA5, 0, 0, "E");
        if (a) ONE(a, 0, 0x5A, 0, 0, "E2");
        ONE(8 + a, 5 + a, 0x3C, 1, 0, "M");
        ONE(a, 0, 0xC3, 0, 1, "P");
    }
    if (nbytes == 0) {
        a = 0; v = fn((spif_uint8_t *) NULL, lenarg, seed); calls++;
        NOTE("NULL");
        calls++;
        if (!diff[0]) {     /* (a difference is already on record: report that rather than a possible exit) */
            libast_debug_level = 5; v = fn((spif_uint8_t *) NULL, lenarg, seed); libast_debug_level = 0;
            NOTE("NULL,debug=5");
        }
    }
    if (calls != H_CALLS_PER_VECTOR + (nbytes == 0 ? H_EXTRA_CALLS_EMPTY_KEY : 0)) die_machinery("placement count");
    sb_printf(ret, "[%u,%u]", (unsigned) (first >> 16), (unsigned) (first & 0xffff));
    sb_puts(state, diff[0] ? diff : "same");
    if (key_modified) return "key-bytes-modified";
    return NULL;
}

int main(int argc, char **argv)
{
    /* the reference vectors are those of a little-endian host (the property's stated assumption) */
    { spif_uint32_t one = 1; if (*(unsigned char *) &one != 1) die_machinery("big-endian host: vectors do not apply"); }
    if (argc > 1 && !strcmp(argv[1], "--calls-per-vector")) { printf("%d %d\n", H_CALLS_PER_VECTOR, H_EXTRA_CALLS_EMPTY_KEY); return 0; }
    return vh_main(argc, argv, 1);
}
