-------------------------------- MODULE Hashes --------------------------------
(* C18: the built-in hash functions of libast as executable references, written from the       *)
(* PUBLISHED definitions, not from src/builtin_hashes.c:                                        *)
(*   - Bob Jenkins, lookup2.c (December 1996): mix(), hash() [byte-wise], hash2() [ub4 words],  *)
(*     hash3() [little-endian word reads when the key is 4-byte aligned];                       *)
(*   - Bob Jenkins, "Hash Functions", Dr. Dobb's Journal Sept. 1997 (doobs.html): the rotating  *)
(*     hash (with the article's "hash ^ (hash>>10) ^ (hash>>20)" replacement for "% prime") and *)
(*     the one-at-a-time hash;                                                                  *)
(*   - Fowler/Noll/Vo, isthe.com/chongo/tech/comp/fnv: FNV-1 and FNV-1a, 32 bit, prime 16777619, *)
(*     offset basis 2166136261.                                                                 *)
(* A 32-bit unsigned value is a pair <<hi, lo>> of 16-bit limbs (TLC integers are 32-bit        *)
(* signed and trap on overflow).  Keys are sequences of bytes 0..255.                           *)
(*                                                                                              *)
(* Rule kinds (DESIGN.md 3): S = stated by the published definition / the property,             *)
(* L = the library's documented parameter choice inside the freedom the definition leaves       *)
(* ("a = b = the golden ratio; an arbitrary value", "seed: an arbitrary seed value").           *)
EXTENDS Integers, Sequences, SequencesExt, TLC, Json, Bitwise

CONSTANTS Keys,            \* the byte sequences evaluated in the bounded model
          Seeds,           \* the seeds (pairs of limbs)
          Obs(_, _, _, _)  \* observation hook (op, args, ret, post): MC_Hashes prints the vector as JSON,
                           \* HashesTrace compares it with the value recorded from the implementation

VARIABLES key, seed, fresh      \* the current case; fresh = no function evaluated on it yet
vars == <<key, seed, fresh>>

---------------------------------------------------------------------------------
(* 32-bit unsigned arithmetic on two 16-bit limbs *)
W16   == 65536
P2    == [n \in 0 .. 16 |-> 2 ^ n]
U(n)  == <<n \div W16, n % W16>>                    \* 0 <= n < 2^31
ZERO  == <<0, 0>>
IsU32(x) == x[1] \in 0 .. 65535 /\ x[2] \in 0 .. 65535

Add(x, y) == LET s == x[2] + y[2] IN <<(x[1] + y[1] + (s \div W16)) % W16, s % W16>>
Sub(x, y) == LET d == x[2] - y[2] + W16                     \* 1 .. 2^17-1 ; borrow iff d < 2^16
             IN <<(x[1] - y[1] - (1 - (d \div W16)) + W16) % W16, d % W16>>
BXor(x, y) == <<x[1] ^^ y[1], x[2] ^^ y[2]>>
Shl(x, n) ==                                                \* 1 <= n <= 31, bits shifted out are lost
    IF n < 16 THEN <<((x[1] * P2[n]) % W16) + (x[2] \div P2[16 - n]), (x[2] * P2[n]) % W16>>
              ELSE <<(x[2] * P2[n - 16]) % W16, 0>>
Shr(x, n) ==                                                \* 1 <= n <= 31, zeros shifted in
    IF n < 16 THEN <<x[1] \div P2[n], (x[2] \div P2[n]) + ((x[1] % P2[n]) * P2[16 - n])>>
              ELSE <<0, x[1] \div P2[n - 16]>>
\* (a * b) mod 2^16 for 16-bit a, b without leaving 31 bits: split b into bytes
MulLo16(a, b) == ((a * (b % 256)) + (((a * (b \div 256)) % 256) * 256)) % W16
\* (a * b) div 2^16 for 16-bit a, b (the carry into the high limb)
MulHi16(a, b) == LET t0 == a * (b % 256)                    \* < 2^24
                     t1 == a * (b \div 256)                 \* < 2^24 ; a*b = t0 + 256*t1
                 IN ((t0 \div 256) + t1) \div 256
Mul(x, y) == <<(MulHi16(x[2], y[2]) + MulLo16(x[1], y[2]) + MulLo16(x[2], y[1])) % W16, MulLo16(x[2], y[2])>>
Byte(v)   == <<0, v>>

---------------------------------------------------------------------------------
(* lookup2.c *)
GOLDEN == <<40503, 31161>>      \* 0x9e3779b9 "the golden ratio; an arbitrary value" (lookup2.c)

\* S: #define mix(a,b,c) of lookup2.c
Mix(a0, b0, c0) ==
    LET a1 == BXor(Sub(Sub(a0, b0), c0), Shr(c0, 13))
        b1 == BXor(Sub(Sub(b0, c0), a1), Shl(a1, 8))
        c1 == BXor(Sub(Sub(c0, a1), b1), Shr(b1, 13))
        a2 == BXor(Sub(Sub(a1, b1), c1), Shr(c1, 12))
        b2 == BXor(Sub(Sub(b1, c1), a2), Shl(a2, 16))
        c2 == BXor(Sub(Sub(c1, a2), b2), Shr(b2, 5))
        a3 == BXor(Sub(Sub(a2, b2), c2), Shr(c2, 3))
        b3 == BXor(Sub(Sub(b2, c2), a3), Shl(a3, 10))
        c3 == BXor(Sub(Sub(c2, a3), b3), Shr(b3, 15))
    IN <<a3, b3, c3>>
\* lookup2.c: "mix 3 32-bit values reversibly" - the inverse, used only by the law MixReversible
UnMix(a3, b3, c3) ==
    LET c2 == Add(Add(BXor(c3, Shr(b3, 15)), b3), a3)
        b2 == Add(Add(BXor(b3, Shl(a3, 10)), a3), c2)
        a2 == Add(Add(BXor(a3, Shr(c2, 3)), c2), b2)
        c1 == Add(Add(BXor(c2, Shr(b2, 5)), b2), a2)
        b1 == Add(Add(BXor(b2, Shl(a2, 16)), a2), c1)
        a1 == Add(Add(BXor(a2, Shr(c1, 12)), c1), b1)
        c0 == Add(Add(BXor(c1, Shr(b1, 13)), b1), a1)
        b0 == Add(Add(BXor(b1, Shl(a1, 8)), a1), c0)
        a0 == Add(Add(BXor(a1, Shr(c0, 13)), c0), b0)
    IN <<a0, b0, c0>>

\* k[p+0] + (k[p+1]<<8) + (k[p+2]<<16) + (k[p+3]<<24), p 0-based
WordLE(k, p) == <<k[p + 4] * 256 + k[p + 3], k[p + 2] * 256 + k[p + 1]>>
\* what *(ub4 *)(k+p) yields on a big-endian host
WordBE(k, p) == <<k[p + 1] * 256 + k[p + 2], k[p + 3] * 256 + k[p + 4]>>
\* how a 12-byte block is read: "bytes" = assembled byte by byte (hash(), and hash3() on an unaligned key),
\* "le" / "be" = three native word reads (hash3() on an aligned key) on a little- / big-endian host
BlockWord(k, p, how) == IF how = "be" THEN WordBE(k, p) ELSE WordLE(k, p)

\* while (len >= 12) { a += ...; b += ...; c += ...; mix(a,b,c); k += 12; len -= 12; }
\* (loops are folds over the block offsets / the bytes: FoldLeft evaluates strictly, left to right)
BlockOffsets(n, size) == [j \in 1 .. (n \div size) |-> size * (j - 1)]
L2Blocks(k, how, st0) ==
    FoldLeft(LAMBDA st, p : Mix(Add(st[1], BlockWord(k, p, how)), Add(st[2], BlockWord(k, p + 4, how)), Add(st[3], BlockWord(k, p + 8, how))),
             st0, BlockOffsets(Len(k), 12))

\* S: the tail switch of hash()/hash3(): "all the case statements fall through", so case n runs iff rem >= n.
\* "the first byte of c is reserved for the length"
L2Tail(k, p, st) ==
    LET rem == Len(k) - p
        B(i) == Byte(k[p + i + 1])
        c11 == IF rem >= 11 THEN Add(st[3], Shl(B(10), 24)) ELSE st[3]
        c10 == IF rem >= 10 THEN Add(c11, Shl(B(9), 16)) ELSE c11
        c9  == IF rem >= 9  THEN Add(c10, Shl(B(8), 8)) ELSE c10
        b8  == IF rem >= 8  THEN Add(st[2], Shl(B(7), 24)) ELSE st[2]
        b7  == IF rem >= 7  THEN Add(b8, Shl(B(6), 16)) ELSE b8
        b6  == IF rem >= 6  THEN Add(b7, Shl(B(5), 8)) ELSE b7
        b5  == IF rem >= 5  THEN Add(b6, B(4)) ELSE b6
        a4  == IF rem >= 4  THEN Add(st[1], Shl(B(3), 24)) ELSE st[1]
        a3  == IF rem >= 3  THEN Add(a4, Shl(B(2), 16)) ELSE a4
        a2  == IF rem >= 2  THEN Add(a3, Shl(B(1), 8)) ELSE a3
        a1  == IF rem >= 1  THEN Add(a2, B(0)) ELSE a2
    IN <<a1, b5, c9>>

\* S: hash(k, length, initval) of lookup2.c with the arbitrary internal-state value g, block reads `how`,
\* and the length term lt (hash(): the length in bytes)
Lookup2Gen(k, init, g, how, lt) ==
    LET s1 == L2Blocks(k, how, <<g, g, init>>)
        p  == (Len(k) \div 12) * 12
        s2 == <<s1[1], s1[2], Add(s1[3], lt)>>                \* c += length
        s3 == L2Tail(k, p, s2)
    IN Mix(s3[1], s3[2], s3[3])[3]                           \* mix(a,b,c); return c
Lookup2Hash(k, init, g)            == Lookup2Gen(k, init, g, "bytes", U(Len(k)))       \* hash()
Lookup2Hash3(k, init, g, aligned, bigendian) ==                                     \* hash3()
    Lookup2Gen(k, init, g, IF aligned THEN (IF bigendian THEN "be" ELSE "le") ELSE "bytes", U(Len(k)))

\* S: hash2(k, length, initval) of lookup2.c: k is an array of ub4, length counts ub4s
H2Blocks(w, st0) ==                                         \* while (len >= 3) { a += k[0]; b += k[1]; c += k[2]; mix(a,b,c); k += 3; len -= 3; }
    FoldLeft(LAMBDA st, p : Mix(Add(st[1], w[p + 1]), Add(st[2], w[p + 2]), Add(st[3], w[p + 3])), st0, BlockOffsets(Len(w), 3))
Lookup2Hash2(w, init, g) ==
    LET s1  == H2Blocks(w, <<g, g, init>>)
        p   == (Len(w) \div 3) * 3
        rem == Len(w) - p
        c   == Add(s1[3], U(Len(w)))                          \* c += length   ("c is reserved for the length")
        b   == IF rem >= 2 THEN Add(s1[2], w[p + 2]) ELSE s1[2]   \* case 2 : b+=k[1];
        a   == IF rem >= 1 THEN Add(s1[1], w[p + 1]) ELSE s1[1]   \* case 1 : a+=k[0];
    IN Mix(a, b, c)[3]

\* the ub4 array whose little-endian memory image is the byte sequence k (Len(k) a multiple of 4)
WordsOf(k) == [i \in 1 .. (Len(k) \div 4) |-> WordLE(k, 4 * (i - 1))]

---------------------------------------------------------------------------------
(* doobs.html *)
\* S: for (hash=<init>, i=0; i<len; ++i) hash = (hash<<4)^(hash>>28)^key[i];
\*    return (hash ^ (hash>>10) ^ (hash>>20))   [& mask left to the caller, as in the library]
\* (the article starts from hash=len; the start value is a parameter here, see LibStart)
RotStep(h, byte) == BXor(BXor(Shl(h, 4), Shr(h, 28)), Byte(byte))
RotFin(h)        == BXor(BXor(h, Shr(h, 10)), Shr(h, 20))
RotLoop(k, init) == FoldLeft(RotStep, init, k)
Rotating(k, init) == RotFin(RotLoop(k, init))

\* S: for (hash=<init>, i=0; i<len; ++i) { hash += key[i]; hash += (hash << 10); hash ^= (hash >> 6); }
\*    hash += (hash << 3); hash ^= (hash >> 11); hash += (hash << 15);     (the article starts from hash=0)
OaatStep(h, byte) == LET h1 == Add(h, Byte(byte))
                         h2 == Add(h1, Shl(h1, 10))
                     IN BXor(h2, Shr(h2, 6))
OaatLoop(k, init) == FoldLeft(OaatStep, init, k)
OaatFin(h0) ==
    LET h1 == Add(h0, Shl(h0, 3))
        h2 == BXor(h1, Shr(h1, 11))
    IN Add(h2, Shl(h2, 15))
OneAtATime(k, init) == OaatFin(OaatLoop(k, init))

---------------------------------------------------------------------------------
(* FNV *)
FNV_PRIME == <<256, 403>>          \* 16777619 = 0x01000193 = 2^24 + 2^8 + 0x93
FNV_BASIS == <<33052, 40389>>      \* 2166136261 = 0x811c9dc5
Fnv1aStep(h, byte) == Mul(BXor(h, Byte(byte)), FNV_PRIME)                                     \* xor, then multiply
Fnv1a(k, hval) == FoldLeft(Fnv1aStep, hval, k)
Fnv1(k, hval)  == FoldLeft(LAMBDA h, byte : BXor(Mul(h, FNV_PRIME), Byte(byte)), hval, k)     \* multiply, then xor

---------------------------------------------------------------------------------
(* the library's parameter choices (L) *)
LIB_RANDOM == <<63265, 46669>>      \* BUILTIN_RANDOM_SEED 0xf721b64d: "This can be any 32-bit value." for a = b
LibStart(s) == IF s = ZERO THEN LIB_RANDOM ELSE s       \* rotating / one-at-a-time: seed 0 selects the built-in start value
LibFnvStart(s) == IF s = ZERO THEN FNV_BASIS ELSE s     \* FNV: seed 0 selects the FNV-1a offset basis

RefJenkins(k, s)       == Lookup2Hash(k, s, LIB_RANDOM)
RefJenkinsLE(k, s, al) == Lookup2Hash3(k, s, LIB_RANDOM, al, FALSE)     \* little-endian host
RefJenkins32(w, s)     == Lookup2Hash2(w, s, LIB_RANDOM)
RefRotating(k, s)      == Rotating(k, LibStart(s))
RefOneAtATime(k, s)    == OneAtATime(k, LibStart(s))
RefFnv(k, s)           == Fnv1a(k, LibFnvStart(s))

---------------------------------------------------------------------------------
(* anchors: the published test values reproduced by this transcription (evaluated once by TLC) *)
Foobar == <<102, 111, 111, 98, 97, 114>>
\* "The quick brown fox jumps over the lazy dog"
Fox == <<84,104,101,32,113,117,105,99,107,32,98,114,111,119,110,32,102,111,120,32,106,117,109,112,115,32,
         111,118,101,114,32,116,104,101,32,108,97,122,121,32,100,111,103>>
H(h, l) == <<h, l>>
ASSUME AnchorFnv ==
    /\ Fnv1a(<<>>, FNV_BASIS)   = H(33052, 40389)     \* 0x811c9dc5
    /\ Fnv1a(<<97>>, FNV_BASIS) = H(58380, 10540)     \* 0xe40c292c
    /\ Fnv1a(<<98>>, FNV_BASIS) = H(59148, 11749)     \* 0xe70c2de5
    /\ Fnv1a(Foobar, FNV_BASIS) = H(49052, 63848)     \* 0xbf9cf968
    /\ Fnv1(<<97>>, FNV_BASIS)  = H(1292, 23934)      \* 0x050c5d7e
    /\ Fnv1(Foobar, FNV_BASIS)  = H(12784, 45666)     \* 0x31f0b262
ASSUME AnchorOneAtATime ==
    /\ OneAtATime(<<97>>, ZERO) = H(51758, 37954)     \* 0xca2e9442
    /\ OneAtATime(Fox, ZERO)    = H(20894, 37365)     \* 0x519e91f5
\* the limb arithmetic against TLC's own integers where those do not overflow, and the wrap-around corners
Small == {0, 1, 2, 3, 255, 256, 65535, 65536, 65537, 1000003, 16777619, 1073741823}
ASSUME AnchorArith ==
    /\ \A x \in Small, y \in Small : /\ Add(U(x), U(y)) = U(x + y)
                                     /\ (x >= y => Sub(U(x), U(y)) = U(x - y))
                                     /\ Sub(Add(U(x), U(y)), U(y)) = U(x)
                                     /\ Add(Sub(U(x), U(y)), U(y)) = U(x)
                                     /\ Mul(U(x), U(y)) = Mul(U(y), U(x))
    /\ \A x \in Small, y \in {0, 1, 2, 3, 255, 256, 403, 1000} : (y = 0 \/ x <= 2147483647 \div y) => Mul(U(x), U(y)) = U(x * y)
    /\ \A x \in Small, n \in 1 .. 31 : /\ Shr(U(x), n) = (IF n = 31 THEN ZERO ELSE U(x \div (2 ^ n)))
                                       /\ (n <= 30 /\ x < 2 ^ (30 - n) => Shl(U(x), n) = U(x * (2 ^ n)))
    /\ Add(<<65535, 65535>>, <<0, 1>>) = ZERO /\ Sub(ZERO, <<0, 1>>) = <<65535, 65535>>
    /\ Shl(<<32768, 1>>, 1) = <<0, 2>> /\ Shl(<<0, 1>>, 31) = <<32768, 0>> /\ Shr(<<32768, 0>>, 31) = <<0, 1>>
    /\ Shl(<<4660, 22136>>, 4) = <<9029, 26496>>      \* 0x12345678 << 4 = 0x23456780
    /\ Shr(<<4660, 22136>>, 4) = <<291, 17767>>       \* 0x12345678 >> 4 = 0x01234567
    /\ Shl(<<4660, 22136>>, 20) = <<26496, 0>>        \* 0x67800000
    /\ Shr(<<4660, 22136>>, 20) = <<0, 291>>          \* 0x00000123
    /\ Mul(<<65535, 65535>>, <<65535, 65535>>) = <<0, 1>>            \* (-1)*(-1)
    /\ Mul(<<4660, 22136>>, <<256, 403>>) = <<8292, 7912>>          \* 0x12345678 * 0x01000193 = 0x20641ee8 (mod 2^32)
    /\ BXor(<<65535, 0>>, <<21845, 21845>>) = <<43690, 21845>>
\* the definitions distinguish the endianness of the host: on a big-endian host the aligned path of hash3() is another function
ASSUME EndianMatters ==
    LET k == [i \in 1 .. 12 |-> i] IN Lookup2Hash3(k, ZERO, GOLDEN, TRUE, TRUE) # Lookup2Hash(k, ZERO, GOLDEN)

---------------------------------------------------------------------------------
(* one action per library call: evaluate the reference on the current case and observe the value *)
Eval(act, op, args, ret) == /\ fresh /\ fresh' = FALSE /\ UNCHANGED <<key, seed>>
                            /\ Obs(op, args, ret, [act |-> act])       \* post: the case is consumed; carries the action's name
Args == [key |-> key, seed |-> seed]

OpJenkins     == Eval("OpJenkins", "jenkins", Args, RefJenkins(key, seed))
OpJenkinsLE   == Eval("OpJenkinsLE", "jenkinsLE", Args, RefJenkinsLE(key, seed, TRUE))        \* law JenkinsSame: the unaligned path is the same value
OpJenkins32   == /\ Len(key) % 4 = 0
                 /\ Eval("OpJenkins32", "jenkins32", [key |-> WordsOf(key), seed |-> seed], RefJenkins32(WordsOf(key), seed))
OpRotating    == Eval("OpRotating", "rotating", Args, RefRotating(key, seed))
\* the article's own start value hash=len is reachable through the seed argument (len > 0): the published function itself
OpRotatingPublished == /\ seed = ZERO /\ Len(key) > 0
                       /\ Eval("OpRotatingPublished", "rotating", [key |-> key, seed |-> U(Len(key))], Rotating(key, U(Len(key))))
OpOneAtATime  == Eval("OpOneAtATime", "one_at_a_time", Args, RefOneAtATime(key, seed))
OpFnv         == Eval("OpFnv", "fnv", Args, RefFnv(key, seed))

Init == key \in Keys /\ seed \in Seeds /\ fresh = TRUE
\* the step / finish operators themselves (the ones the folds above are made of), on 32-bit values derived from the case.
\* hash_replay.c evaluates keys of 2^31 .. 2^32 bytes, which TLC cannot enumerate, by folding native copies of exactly these
\* operators over the mapping; this action binds those native copies to the operators, law FoldLaw justifies the folding.
StepArgs == <<seed, RefFnv(key, seed), RefRotating(key, seed), Byte(IF Len(key) > 0 THEN key[Len(key)] ELSE 0)>>
OpSteps == LET a == StepArgs[1] b == StepArgs[2] c == StepArgs[3] byte == StepArgs[4][2] m == Mix(a, b, c) IN
           Eval("OpSteps", "steps", [key |-> StepArgs, seed |-> seed],
                <<m[1], m[2], m[3], OaatStep(b, byte), OaatFin(c), RotStep(b, byte), RotFin(c), Fnv1aStep(b, byte)>>)

Next == OpJenkins \/ OpJenkinsLE \/ OpJenkins32 \/ OpRotating \/ OpRotatingPublished \/ OpOneAtATime \/ OpFnv \/ OpSteps
Spec == Init /\ [][Next]_vars

---------------------------------------------------------------------------------
(* laws of the references themselves, decided by TLC on every case of the bounded model *)
TypeOK == /\ key \in Seq(0 .. 255) /\ IsU32(seed) /\ fresh \in BOOLEAN
\* S (property statement): "On little-endian hosts the byte-wise and word-wise Jenkins variants are the same function"
JenkinsSame == ~fresh => /\ RefJenkinsLE(key, seed, TRUE) = RefJenkins(key, seed)
                         /\ RefJenkinsLE(key, seed, FALSE) = RefJenkins(key, seed)
\* hash2() over the ub4 array equals hash() over its little-endian memory image EXCEPT for the length term:
\* hash2 adds the number of words, hash the number of bytes (lookup2.c: "the length has to be measured in ub4s")
Jenkins32Law == (~fresh /\ Len(key) % 4 = 0) =>
                    RefJenkins32(WordsOf(key), seed) = Lookup2Gen(key, seed, LIB_RANDOM, "bytes", U(Len(key) \div 4))
\* lookup2.c: mix is reversible
MixReversible == ~fresh => LET a == seed b == RefFnv(key, seed) c == RefRotating(key, seed) m == Mix(a, b, c)
                           IN UnMix(m[1], m[2], m[3]) = <<a, b, c>>
\* the GNUC shift-add form quoted by the FNV page equals the multiplication by the prime
FnvShiftAdd == ~fresh => LET h == RefOneAtATime(key, seed)
                         IN Mul(h, FNV_PRIME) = Add(h, Add(Add(Add(Add(Shl(h, 1), Shl(h, 4)), Shl(h, 7)), Shl(h, 8)), Shl(h, 24)))
\* compositionality: every reference is a left fold of its step operator, so the state after k1 \o k2 is the state after k2
\* started from the state after k1 (for lookup2: k1 a whole number of 12-byte blocks).  This is what allows a key of any
\* length to be evaluated piecewise from the step operators.
FoldLaw == ~fresh =>
    LET n == Len(key) m == n \div 2 m12 == (m \div 12) * 12
        k1 == SubSeq(key, 1, m) k2 == SubSeq(key, m + 1, n)
        j1 == SubSeq(key, 1, m12) j2 == SubSeq(key, m12 + 1, n)
        st0 == <<LIB_RANDOM, LIB_RANDOM, seed>>
    IN /\ OaatLoop(key, seed) = OaatLoop(k2, OaatLoop(k1, seed))
       /\ RotLoop(key, seed) = RotLoop(k2, RotLoop(k1, seed))
       /\ Fnv1a(key, seed) = Fnv1a(k2, Fnv1a(k1, seed))
       /\ L2Blocks(key, "bytes", st0) = L2Blocks(j2, "bytes", L2Blocks(j1, "bytes", st0))
\* every reference value is a 32-bit value
RangeOK == ~fresh => /\ IsU32(RefJenkins(key, seed)) /\ IsU32(RefRotating(key, seed))
                     /\ IsU32(RefOneAtATime(key, seed)) /\ IsU32(RefFnv(key, seed))
================================================================================
