------------------------------ MODULE MC_Ownership ------------------------------
EXTENDS Ownership
ObsEmit(op, args, ret, post) ==
    PrintT(ToJson([pre |-> Pre, op |-> op, args |-> args, ret |-> ret, post |-> post]))
\* value tables: two of the handles carry EQUAL values (identity vs equality), one a different value
Val2 == <<1, 1>>
Val3 == <<1, 1, 2>>
Val4 == <<1, 1, 2, 2>>
ObsNone(op, args, ret, post) == TRUE
================================================================================
