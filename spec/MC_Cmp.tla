-------------------------------- MODULE MC_Cmp --------------------------------
EXTENDS Cmp
\* emit each object of the universe once (from the diagonal states) so the harness builds the same universe
EmitUniverse == (x = y /\ y = z) => PrintT(ToJson([kind |-> kind, obj |-> x]))
================================================================================
