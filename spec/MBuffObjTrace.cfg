SPECIFICATION TraceSpec
CONSTANTS
  Bytes = {0}
  Texts = {}
  TextsB = {}
  MaxLenA = 10000000
  MaxLenB = 10000000
  Idx = {0}
  Cnt = {0}
  NCnt = {0}
  Obs <- ObsTrace
POSTCONDITION TraceAccepted
CHECK_DEADLOCK FALSE
