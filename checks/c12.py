"""C12: split, tok and the word utilities implement one quoting grammar (spec/Quote.tla)."""
import os, json, random
from vlib import build, x_c12
from vlib.core import tok, untok, Broken, log

PROPERTY = "C12"
LEVEL = "model_checking"
LEVEL_TEXT = ("TLC runs the character-level scanner of Quote.tla over ALL input strings up to length 5 (quick) / 6 (thorough) over "
              "{a, b, space, ':', single quote, double quote, backslash} with three delimiter sets (white space, ':', ': '), one action "
              "per scanner step, checking the reference laws (position never behind the terminator, split(join(plain tokens)) = tokens, "
              "tok = split modulo trim, delimiter runs separate, quotes group and are removed, the stated examples, word utilities "
              "mutually consistent). Every finished scan is emitted as an (input -> expected outputs) case and executed on the real "
              "spiftool_split, spif_tok_eval (with and without separator object), num_words/get_word/get_pword and join in an ASan build of "
              "the current tree with exact-size heap inputs. Long random inputs (50-5000 characters) are recorded from the real code and "
              "validated by TLC running the same scanner over them (trace validation). The tok OBJECT is additionally explored with a "
              "history (TokObj.tla): every pair of (separator, source) evaluations over all sources up to 2 (quick) / 3 (thorough) characters and "
              "every short triple is executed on ONE object through set_src / set_sep, the token list compared after each evaluation. "
              "Families beyond the small universe (recorded and validated by TLC on the same spec): input sizes n-1, n, n+1 for n = 8..4096, "
              "delimiter sets of 7..257 characters, every byte value 1..255 in every syntactic position, words/join on long inputs; every "
              "split / word-utility call is repeated after an adversarial prelude on the same buffer (different content, errno preset) and must "
              "return the fresh result. "
              "Every case is executed at each run-time debug level of the specification's DebugLevels (0, 1, 3, 5) with identical results required; "
              "the tok object's life cycle (setters of its special characters, done(), reuse without init) is part of TokObj.tla with the characters read back after every step; every byte value as the only delimiter; long COUNTS (n-1, n, n+1 tokens / words around 2^8 and 2^16) are specified by the repeat laws of Quote.tla and executed on repeated blocks; "
              "huge word indices (2^31 .. ULONG_MAX) must find no word.")
LEVEL_NOTE = ("Exhaustive only up to the length bound and over that 7-character alphabet / those 3 delimiter sets; beyond it a few dozen "
              "long random strings. Delimiter sets containing a quote or backslash, and the empty delimiter string, are outside the "
              "universe. get_word/get_pword are claimed for indices 1..num_words only (0 and num_words+1.. are run for memory safety). "
              "Where the statement is silent the reference follows the as-built convention (marked C in Quote.tla). Memory safety = "
              "no ASan report on what was executed. Trusted: TLC, ASan, harness/quote_replay.c.")
TECHNIQUE = "TLA+ scanner spec + TLC exhaustive input enumeration replayed on the implementation + TLC trace validation of long inputs"
DESIGN_REF = "DESIGN.md section 6 C12"

ACTIONS = ["SkipDelim", "OpenQuote", "CloseQuote", "OtherQuoteLiteral", "EscapedDelimOrQuote", "Plain", "EndToken", "Finish"]
SQ, DQ, BS = 39, 34, 92
ENV = {}        # harness environment (VH_LEVELS) taken from the specification's DebugLevels at the first emitted case
SAMPLE_INPUTS = {tuple(ord(c) for c in s) for s in ('a\\ b', '"a \'b', '"\\"a')}


def harness(ctx):
    libdir, cflags = build.build_lib(ctx.repo)
    return build.build_harness("quote_replay", ["quote_replay.c"], libdir, cflags)


def feats(s):
    f = []
    if SQ in s and DQ in s:
        f.append("both-quotes")
    elif SQ in s or DQ in s:
        f.append("quotes")
    if any(s[i] == s[i + 1] and s[i] in (SQ, DQ) for i in range(len(s) - 1)):
        f.append("empty-quoted")
    if BS in s:
        f.append("bs-end" if s[-1] == BS else "backslash")
    return ",".join(f) or "plain"


def dclass(d):
    return "default" if not d else "explicit"


def diff_class(exp, got):
    """what kind of value difference (token lists)"""
    try:
        e, g = untok(exp), untok(got)
    except Exception:
        return "value"
    if isinstance(e, dict) and isinstance(g, dict):
        return "differs:" + ",".join(k for k in sorted(e) if e.get(k) != g.get(k))
    if not isinstance(e, list) or not isinstance(g, list):
        return "value"
    if len(e) != len(g):
        return "token-count"
    for a, b in zip(e, g):
        if a != b:
            if a == [] and isinstance(b, list) and b and all(c in (32, 9, 10, 11, 12, 13) for c in b):
                return "blank-token-not-trimmed"
            if b is None:
                return "null-token"
            return "token-text"
    return "value"


def keyfn(c, at, f):
    op, args, exp, _ = c.steps[at]
    m = c.meta
    k = "%s d=%s [%s] %s" % (op, dclass(m["d"]), feats(m["s"]), x_c12.fail_class(f))
    if f.kind == "ret":
        k += "/" + diff_class(f.exp, f.got)
    return k


def mk_case(sid, r):
    d, s = r["d"], r["s"]
    dt = tok(d) if d else "-"
    st = tok(s)
    steps = [("split", [dt, st], tok(r["split"]), None), ("tok", [dt, st], tok(r["tok"]), None)]
    if not d:
        steps.append(("words", [st], tok({"n": r["nw"], "p": r["pw"], "w": r["words"]}), None))
        if r["split"]:
            steps.append(("join", [tok(r["split"])], tok(r["join"]), None))
    return x_c12.Case(sid, steps, {"d": d, "s": s})


def txt(codes):
    return "".join(chr(c) if 32 <= c < 127 else "\\x%02x" % c for c in codes)


def exhaustive(ctx, exe):
    cfg = "Quote_quick.cfg" if ctx.tier == "quick" else "Quote_thorough.cfg"
    cfg = os.environ.get("VERIF_C12_CFG", cfg)      # development knob (smaller scope); not used by the registered commands
    stats = {"n": 0, "nontrivial": 0}
    cs = x_c12.CaseStream(ctx, exe, [], keyfn, "exhaustive_cases")

    def on_case(r):
        if cs.env is None:
            cs.env = x_c12.levels_env(r["lv"])         # the specification's DebugLevels: every case runs at each of them
            ENV.update(cs.env)
            ctx.cov["debug_levels"] = list(r["lv"])
        stats["n"] += 1
        s = r["s"]
        if SQ in s or DQ in s or BS in s or len(r["split"]) >= 2:
            stats["nontrivial"] += 1
        if tuple(s) in SAMPLE_INPUTS:        # chosen by content, so the evidence does not depend on TLC's emission order
            ctx.sample({"delims": txt(r["d"]) if r["d"] else "(white space)", "input": txt(s), "split": [txt(t) for t in r["split"]],
                        "tok": [txt(t) for t in r["tok"]], "num_words": r["nw"], "words": [txt(t) for t in r["words"]], "pword_offsets": r["pw"]})
        cs.add(mk_case(stats["n"], r))

    try:
        res = x_c12.tlc_cases(ctx, "MC_Quote.tla", cfg, ACTIONS, on_case)
    finally:
        tot = cs.close()
    if res.ok and tot["scripts"] != res.edges:
        raise Broken("emitted %d cases but replayed %d scripts" % (res.edges, tot["scripts"]))
    ctx.add("distinct_nontrivial", stats["nontrivial"])
    return res


HIST_ACTIONS = ["OpEvalFresh", "OpEvalAgain", "OpEvalAgainNewSep", "OpLifeEvalFresh", "OpLifeEvalKeepSep", "OpLifeEvalNewSep",
                "OpSetQuote", "OpSetDQuote", "OpSetEscape", "OpDone"]
STOCK = [SQ, DQ, BS]
STEP_OP = {"eval": "tok_eval", "setq": "tok_setq", "setdq": "tok_setdq", "setesc": "tok_setesc", "done": "tok_done"}


def hist_key(c, at, f):
    """history step: what the object went through before, what the new source yields, whether the separator changed"""
    h = c.meta["h"]
    e = h[at]
    before = [x["op"] for x in h[:at]]
    life = []
    if "done" in before:
        life.append("after-done")
    if any(x["ch"] != STOCK for x in h[:at]):
        life.append("custom-chars-before")
    if e["ch"] != STOCK:
        life.append("custom-chars-now")
    if e["op"] != "eval":
        return "tok_%s(history) [%s] %s" % (e["op"], ",".join(life) or "stock", x_c12.fail_class(f))
    evs = [x for x in h[:at] if x["op"] == "eval"]
    now = "blank-source" if not e["toks"] else "tokens"
    prev = "fresh" if not evs else ("after-blank-source" if not evs[-1]["toks"] else "after-tokens")
    sep = "" if not evs or e["d"] == evs[-1]["d"] else ",sep-changed"
    k = "tok_eval(history) d=%s [%s,%s%s%s] %s" % (dclass(e["d"]), prev, now, sep, "".join("," + x for x in life), x_c12.fail_class(f))
    if f.kind == "ret":
        k += "/" + diff_class(f.exp, f.got)
    return k


def histories(ctx, exe):
    """The tok OBJECT with a history and a life cycle (spec/TokObj.tla): every pair of evaluations (and the short triples) on ONE
    object through set_src / set_sep, and [setters] eval [done] [setters] eval with custom special characters; after each step the
    object's special characters are read back, after each evaluation the list must be the scanner's result for the current
    source, separator and special characters alone."""
    cfg = "TokObj_quick.cfg" if ctx.tier == "quick" else "TokObj_thorough.cfg"
    cs = x_c12.CaseStream(ctx, exe, [], hist_key, "tok_histories", whole_script=True)
    st = {"n": 0, "steps": 0, "nonblank_then_blank": 0, "blank_then_nonblank": 0, "sep_changes": 0, "triples": 0,
          "life": 0, "reuse_after_done": 0, "reuse_after_done_of_customised": 0, "custom_evals": 0, "keep_sep_evals": 0}

    def on_hist(r):
        if cs.env is None:
            cs.env = x_c12.levels_env(r["lv"])
        h = r["h"]
        st["n"] += 1
        st["steps"] += len(h)
        ev = [e for e in h if e["op"] == "eval"]
        st["triples"] += len(ev) >= 3
        for a, b in zip(ev, ev[1:]):
            st["nonblank_then_blank"] += bool(a["toks"]) and not b["toks"]
            st["blank_then_nonblank"] += (not a["toks"]) and bool(b["toks"])
            st["sep_changes"] += a["d"] != b["d"]
        ops = [e["op"] for e in h]
        if len(ev) != len(h):
            st["life"] += 1
        if "done" in ops and ops[-1] == "eval":
            st["reuse_after_done"] += 1
            st["reuse_after_done_of_customised"] += any(e["ch"] != STOCK for e in h[:ops.index("done")])
        st["custom_evals"] += sum(1 for e in ev if e["ch"] != STOCK)
        st["keep_sep_evals"] += sum(1 for e in ev if e["keep"])
        if len(ev) == len(h) and [tuple(e["s"]) for e in h] in ([(97, 32), (32,)], [(97, 58), (58, 58)]) and len({tuple(e["d"]) for e in h}) == 1:
            ctx.sample({"one_tok_object": [{"sep": txt(e["d"]) if e["d"] else "(white space)", "src": txt(e["s"]),
                                            "tokens_after_eval": [txt(x) for x in e["toks"]]} for e in h]})
        if ops == ["setesc", "eval", "done", "eval"] and h[1]["s"] == [97, 94, 32, 98] and h[3]["s"] == [97, 94, 32, 98] and not h[1]["d"] and not h[3]["d"]:
            ctx.sample({"one_tok_object_life_cycle": [dict(op=e["op"], **({"char": chr(e["c"])} if e["c"] else {}),
                                                           **({"src": txt(e["s"]), "tokens_after_eval": [txt(x) for x in e["toks"]]} if e["op"] == "eval" else {}),
                                                           special_chars_after="".join(map(chr, e["ch"]))) for e in h]})
        steps = []
        for e in h:
            if e["op"] == "eval":
                steps.append(("tok_eval", ["~" if e["keep"] else (tok(e["d"]) if e["d"] else "-"), tok(e["s"])], tok(e["toks"]), None, tok(e["ch"])))
            elif e["op"] == "done":
                steps.append(("tok_done", [], "T", None, tok(e["ch"])))
            else:
                steps.append((STEP_OP[e["op"]], [str(e["c"])], "T", None, tok(e["ch"])))
        cs.add(x_c12.Case(st["n"], steps, {"h": h}))
    try:
        res = x_c12.tlc_cases(ctx, "MC_TokObj.tla", cfg, HIST_ACTIONS, on_hist)
    finally:
        tot = cs.close()
    if res.ok and tot["scripts"] != res.edges:
        raise Broken("emitted %d histories but replayed %d scripts" % (res.edges, tot["scripts"]))
    if res.ok and not all(st[k] for k in st):
        raise Broken("vacuity: history classes missing: %s" % st)
    ctx.cov["tok_histories"] = {"histories": st["n"], "steps_on_shared_objects": st["steps"], "triples": st["triples"],
                                "steps_tokens_then_blank_source": st["nonblank_then_blank"],
                                "steps_blank_source_then_tokens": st["blank_then_nonblank"], "steps_with_separator_change": st["sep_changes"],
                                "life_cycle_histories": st["life"], "reuse_after_done": st["reuse_after_done"],
                                "reuse_after_done_of_a_customised_object": st["reuse_after_done_of_customised"],
                                "evaluations_with_custom_special_characters": st["custom_evals"],
                                "evaluations_that_leave_the_separator_alone": st["keep_sep_evals"]}
    ctx.add("distinct_nontrivial", st["n"])


SWEEP = (8, 16, 32, 64, 128, 256, 512, 1024, 2048, 4096)
WORDS_MAX, JOIN_MAX = 600, 1100        # the word / join operators of the spec are recursive: TLC evaluates them up to these sizes


def rnd_text(rnd, ln, pop, few_quotes=False):
    s = [rnd.choice(pop) for _ in range(ln)]
    if few_quotes:
        s = [97 if c in (SQ, DQ) and rnd.random() < 0.8 else c for c in s]
    return s


def gen_long(rnd, tier):
    """(family, delims, text): the families a small exhaustive universe cannot reach"""
    weights = [(97, 14), (98, 12), (99, 10), (100, 8), (101, 8), (32, 15), (9, 2), (10, 1), (58, 7), (SQ, 6), (DQ, 6), (BS, 9), (45, 2)]
    pop = [c for c, w in weights for _ in range(w)]
    dsets = [[], [58], [58, 32]]
    out = []
    # (1) size sweep of the input: n-1, n, n+1 around the powers of two (+ the 127/128-byte and 4096-byte constants of the library)
    sizes = sorted({m for n in SWEEP for m in (n - 1, n, n + 1)} | {126, 5000})
    for k, ln in enumerate(sizes):
        s = rnd_text(rnd, ln, pop, few_quotes=(k % 4 == 3))
        if k % 5 == 0:
            s[-1] = BS
        if k % 7 == 0:
            s[-1] = rnd.choice([SQ, DQ])
        out.append(("size-sweep", dsets[k % 3], s))
    # (2) seeded random lengths
    for k in range(6 if tier == "quick" else 48):
        out.append(("random", dsets[k % 3], rnd_text(rnd, rnd.randint(50, 5000), pop, few_quotes=(k % 4 == 3))))
    # (3) size sweep of the DELIMITER SET: 7..257 delimiter characters (distinct while the pool lasts), inputs that use delimiters
    #     from every part of the set together with quotes and backslash escapes
    dpool = [c for c in range(33, 127) if c not in (SQ, DQ, BS) and not (97 <= c <= 101)] + list(range(128, 256))
    for dl in sorted({m for n in (8, 16, 32, 64, 128, 256) for m in (n - 1, n, n + 1)} | set(range(27, 34))):
        d = [dpool[i % len(dpool)] for i in range(dl)]
        s = []
        while len(s) < 140:
            r = rnd.random()
            if r < 0.45:
                s.append(rnd.choice([97, 98, 99, 100, 101]))
            elif r < 0.65:
                s.append(d[rnd.choice([0, dl - 1, dl // 2, rnd.randrange(dl)])])
            elif r < 0.78:
                s += [BS, rnd.choice([d[-1], d[0], d[rnd.randrange(dl)], SQ, DQ, 97])]
            elif r < 0.90:
                q = rnd.choice([SQ, DQ])
                s += [q, 97, d[rnd.randrange(dl)], BS, q, 98, q]
            else:
                s.append(32)
        out.append(("delimiter-size-sweep", d, s))
    # (4) every byte value 1..255: plain, escaped, quoted, after a blank, first and last
    for lo in range(1, 256, 51):
        s = []
        for b in range(lo, min(lo + 51, 256)):
            s += [b, 32, BS, b, 32, DQ, b, DQ, 32, 97, b, 32]
        for d in dsets:
            out.append(("byte-values", d, s))
        out.append(("byte-values", [58], [min(lo + 50, 255)] + s[:-1]))
    # (5) every byte value 1..255 (but the quotes and the backslash, which the property keeps out of delimiter sets) as the ONLY
    #     delimiter and as one of several: between words, doubled, escaped, inside quotes, first and last
    for b in range(1, 256):
        if b in (SQ, DQ, BS):
            continue
        x, y = (97, 98) if b not in (97, 98) else (99, 100)
        body = [x, b, y, b, b, x, BS, b, y, b, DQ, x, b, y, DQ, b, x, SQ, b, SQ]
        out.append(("delimiter-byte-values", [b], body if b % 2 else [b] + body + [b]))
        out.append(("delimiter-byte-values", [58, b] if b != 58 else [b, 44], body + [58, y]))
        if b % 4 == 0:
            out.append(("delimiter-byte-values", [b, 58, 32] if b not in (58, 32) else [b, 44, 59], [32] + body + [58, y, 32]))
    return out


def count_sweep(ctx, exe):
    """Long COUNTS (round-4 class 1): a block B that ends with a free delimiter, repeated K times, so that the number of tokens /
    words is n-1, n, n+1 around 2^8 and 2^16 (the 16-bit counter threshold).  The real function gets B^K; TLC scans B alone and the
    law RepeatLaw / WordsRepeatLaw of Quote.tla (checked on the bounded universe) gives the expectation.  Returns (events, index)."""
    from vlib.replay import ASAN_OPTS
    quoted = [97, 32, DQ, 98, 32, 99, DQ, 32]            # a "b c"   (2 tokens / 2 words / 3 white-space words per block)
    plan = []
    for k in (255, 256, 257):
        plan += [("split_rep", [], quoted, k), ("tok_rep", [], quoted, k), ("split_rep", [58], [97, 58, SQ, 58, SQ, 58], k)]
    for j, k in enumerate((65535, 65536, 65537)):
        plan += [("split_rep", [] if j % 2 == 0 else [58], [97, 32] if j % 2 == 0 else [97, 58], k),
                 ("tok_rep", [58] if j % 2 == 0 else [], [97, 58] if j % 2 == 0 else [97, 32], k)]
    if ctx.tier != "quick":
        for k in (32767, 32768, 32769, 33000):
            plan += [("split_rep", [], quoted, k), ("tok_rep", [58, 32], quoted, k)]
        plan += [("split_rep", [], [97, 32], 131073), ("tok_rep", [], [97, 32], 131073)]
    cases = []
    for n, (op, d, b, k) in enumerate(plan):
        cases.append(x_c12.Case(n + 1, [(op, [tok(d) if d else "-", tok(b), str(k)], "?", None)],
                                {"d": d, "s": b, "k": k, "family": "count-sweep", "tokens": k * (2 if b == quoted else 1), "env": {"VH_WATCHDOG": "600"}}))
    widx = [1, 2, 3, 255, 256, 257, 65535, 65536]
    for k in (128, 32768) + ((65536,) if ctx.tier != "quick" else ()):
        cases.append(x_c12.Case(len(cases) + 1, [("words_rep", [tok(quoted), str(k), tok([i for i in widx if i <= 2 * k])], "?", None)],
                                {"d": [], "s": quoted, "k": k, "family": "count-sweep", "tokens": 2 * k, "idx": [i for i in widx if i <= 2 * k], "env": {"VH_WATCHDOG": "600"}}))
    env = dict(ENV)
    lv = [int(x) for x in ENV.get("VH_LEVELS", "0").split(",")]
    env.update({"VH_LEVELS": ",".join(map(str, lv)), "VH_WATCHDOG": "600", "ASAN_OPTIONS": ASAN_OPTS + ":quarantine_size_mb=4"})
    got = {}

    def ckey(c, at, f):
        return "long-input[count-sweep] %s d=%s tokens%s %s" % (c.steps[at][0], dclass(c.meta["d"]),
                                                                 ">=65536" if c.meta["tokens"] >= 65536 else "<65536", x_c12.fail_class(f))
    rec = lambda c, at, ret: got.__setitem__(c.sid, untok(ret))
    if ctx.tier == "quick":
        # the 2^16 cases take seconds per call under ASan: level 0 only in quick (all levels in thorough); small counts at all levels
        big = [c for c in cases if c.meta["tokens"] >= 60000]
        small = [c for c in cases if c.meta["tokens"] < 60000]
        x_c12.run_cases(ctx, exe, [], small, ckey, "count_sweep_small", env=dict(env, VH_LEVELS=ENV.get("VH_LEVELS", "0")), recorder=rec)
        x_c12.run_cases(ctx, exe, [], big, ckey, "count_sweep", env=dict(env, VH_LEVELS="0"), recorder=rec)
        lv = [0]
    else:
        # thorough: the exact 2^16 cases at every level, the other long ones at the first two levels (seconds per call and level)
        exact = [c for c in cases if c.meta["tokens"] == 65536 or c.meta["tokens"] < 60000]
        rest = [c for c in cases if c not in exact]
        x_c12.run_cases(ctx, exe, [], exact, ckey, "count_sweep", env=env, recorder=rec)
        x_c12.run_cases(ctx, exe, [], rest, ckey, "count_sweep_rest", env=dict(env, VH_LEVELS=",".join(map(str, lv[:2]))), recorder=rec)
    events, index = [], []
    for c in cases:
        if c.sid not in got:
            continue
        op = c.steps[0][0]
        ret = got[c.sid]
        if op == "words_rep" and any(w is None for w in ret.get("w", [])):
            ctx.report("long-input[count-sweep] words_rep ret/null-word", "get_word(i) returned NULL for an i <= num_words of a repeated block",
                       {"harness_args": [], "script_text": c.text(), "recorded": ret, "env": env})
            continue
        e = {"op": op, "d": c.meta["d"], "s": c.meta["s"], "k": c.meta["k"], "ret": ret}
        if op == "words_rep":
            e["idx"] = c.meta["idx"]
        events.append(e)
        index.append((c, 0, "count-sweep"))
    ctx.cov["count_sweep"] = {"cases": len(cases), "max_tokens": max(c.meta["tokens"] for c in cases), "debug_levels_of_the_2^16_cases": lv,
                              "counts": sorted({c.meta["tokens"] for c in cases})}
    return events, index


def long_inputs(ctx, exe):
    rnd = random.Random(ctx.seed)
    inputs = gen_long(rnd, ctx.tier)
    cases = []
    for k, (fam, d, s) in enumerate(inputs):
        dt = tok(d) if d else "-"
        steps = [("split", [dt, tok(s)], "?", None), ("tok", [dt, tok(s)], "?", None)]
        if not d and len(s) <= WORDS_MAX:
            steps.append(("words", [tok(s)], "?", None))
        cases.append(x_c12.Case(k + 1, steps, {"d": d, "s": s, "family": fam}))
    got = {}

    def recorder(c, at, ret):
        got[(c.sid, at)] = untok(ret)
    lkey = lambda c, at, f: "long-input[%s] %s" % (c.meta["family"], keyfn(c, at, f))
    x_c12.run_cases(ctx, exe, [], cases, lkey, "long_inputs", recorder=recorder, env=dict(ENV))
    # join on the token lists that split returned (second pass: the tokens are only known now)
    jcases = []
    for c in cases:
        ts = got.get((c.sid, 0))
        if ts and len(c.meta["s"]) <= JOIN_MAX and all(isinstance(x, list) for x in ts):
            jcases.append(x_c12.Case(c.sid, [("join", [tok(ts)], "?", None)], dict(c.meta, toks=ts)))
    jgot = {}
    x_c12.run_cases(ctx, exe, [], jcases, lkey, "long_inputs_join", env=dict(ENV), recorder=lambda c, at, ret: jgot.__setitem__(c.sid, untok(ret)))
    events, index = [], []
    blank = lambda t: isinstance(t, list) and len(t) > 0 and all(ch in (32, 9, 10, 11, 12, 13) for ch in t)
    for c in cases:
        fam = c.meta["family"]
        for at, (op, args, _, _) in enumerate(c.steps):
            if (c.sid, at) not in got:
                continue
            ret = got[(c.sid, at)]
            if op == "tok" and any(blank(t) for t in ret):
                # A trimmed token is empty or starts and ends with a non-blank (law TokAgreesWithSplitModuloTrim of the
                # reference), so an all-blank token is a violation by itself.  It is reported under its own key and the
                # token is normalised so that TLC still validates everything else in this event.
                ctx.report("long-input tok d=%s ret/blank-token-not-trimmed" % dclass(c.meta["d"]),
                           "tok on a %d-character input returned an all-blank token (a trimmed token is empty or has non-blank ends)" % len(c.meta["s"]),
                           {"harness_args": [], "script_text": x_c12.Case(1, [("tok", args, tok([[] if blank(t) else t for t in ret]), None)]).text(),
                            "note": "expected value = recorded value with the all-blank tokens emptied"})
                ret = [[] if blank(t) else t for t in ret]
            if op == "words":
                if not isinstance(ret, dict) or any(w is None for w in ret.get("w", [None])):
                    ctx.report("long-input[%s] words ret/null-word" % fam, "get_word(i) returned NULL for an i <= num_words on a %d-character input" % len(c.meta["s"]),
                               {"harness_args": [], "script_text": x_c12.Case(1, [c.steps[at]]).text(), "recorded": ret})
                    continue
            events.append({"op": op, "d": c.meta["d"], "s": c.meta["s"], "ret": ret})
            index.append((c, at, fam))
    for c in jcases:
        if c.sid in jgot and all(isinstance(x, list) for x in jgot[c.sid]):
            events.append({"op": "join", "d": [], "s": [], "toks": c.meta["toks"], "ret": jgot[c.sid]})
            index.append((c, 0, c.meta["family"]))
    ce, ci = count_sweep(ctx, exe)
    events += ce
    index += ci
    if not events:
        raise Broken("no long input could be recorded")
    byfam = {}
    for _, _, fam in index:
        byfam[fam] = byfam.get(fam, 0) + 1
    # validation; a rejected event is reported and taken out so that the events behind it are still validated
    accepted = 0
    states = 0
    wall = 0.0
    first_ok = None
    for attempt in range(8):
        ok, pos, path, res = x_c12.validate_trace(ctx, "QuoteTrace.tla", "QuoteTrace.cfg", events, tag="long%d" % attempt)
        states += res.distinct
        wall += res.wall
        if ok:
            accepted += len(events)
            first_ok = next((e for e in events if e["op"] in ("split", "tok")), None)
            break
        accepted += pos
        c, at, fam = index[pos]
        e = events[pos]
        ctx.report("long-input[%s] trace-rejected %s d=%s%s" % (fam, e["op"], dclass(e["d"]) if e["op"] != "join" else "-",
                                                                  "" if fam != "count-sweep" else (" tokens>=65536" if c.meta["tokens"] >= 65536 else " tokens<65536")),
                   "TLC rejects the recorded result of %s on a %d-character input with %d delimiter characters: the reference of Quote.tla yields a different result"
                   % (e["op"], len(e["s"]), len(e["d"])),
                   {"harness_args": [], "script_text": x_c12.Case(1, [(c.steps[at][0], c.steps[at][1], "?", None)]).text(),
                    "event": e if len(json.dumps(e)) < 20000 else "(long)", "env": c.meta.get("env", {})})
        events = events[pos + 1:]
        index = index[pos + 1:]
        if not events:
            break
    else:
        ctx.notes.append("trace validation stopped after 8 rejected events; %d events not validated" % len(events))
    ctx.add("trace_events_validated", accepted)
    ctx.add("trace_scanner_steps", states)
    ctx.cov["long_inputs"] = {"strings": len(inputs), "events_recorded": sum(byfam.values()), "events_accepted": accepted, "events_by_family": byfam,
                              "min_len": min(len(s) for _, _, s in inputs), "max_len": max(len(s) for _, _, s in inputs),
                              "max_delimiter_set": max(len(d) for _, d, _ in inputs), "tlc_states": states, "tlc_wall_s": round(wall, 1)}
    if first_ok is not None:
        e = first_ok
        ctx.sample({"long_input_len": len(e["s"]), "op": e["op"], "delims": txt(e["d"]), "first_60_chars": txt(e["s"][:60]),
                    "tokens": len(e["ret"]), "first_tokens": [txt(t) for t in e["ret"][:3]]})
        negative_control(ctx, [e for e in events if e["op"] in ("split", "tok")])
    return events


def negative_control(ctx, events):
    """Vacuity guard for direction (B): one character of one logged token is changed; TLC must reject exactly that event."""
    import copy
    small = sorted((e for e in events if e["ret"] and any(e["ret"])), key=lambda e: len(e["s"]))[:3]
    if len(small) < 3:
        raise Broken("negative control: not enough recorded events")
    bad = copy.deepcopy(small)
    toks = bad[1]["ret"]
    k = next(i for i, t in enumerate(toks) if t)
    toks[k][len(toks[k]) // 2] = 122 if toks[k][len(toks[k]) // 2] != 122 else 121      # one character of one token
    ok, pos, path, res = x_c12.validate_trace(ctx, "QuoteTrace.tla", "QuoteTrace.cfg", bad, tag="negctl")
    if ok or pos != 1:
        raise Broken("negative control: a corrupted token list was not rejected at the corrupted event (accepted=%s, position=%s)" % (ok, pos))
    ctx.cov["long_inputs"]["negative_control"] = "one character of a logged token changed in event 1 of 3: rejected by TLC at event 1"


def run(ctx):
    exe = harness(ctx)
    exhaustive(ctx, exe)
    histories(ctx, exe)
    long_inputs(ctx, exe)
    ctx.cov["samples"].sort(key=lambda s: json.dumps(s, sort_keys=True))
    ctx.cov["exhaustive"] = True
    ctx.cov["rule"] = ("every input string up to the length bound over the 7-character alphabet x 3 delimiter sets is scanned by TLC and its "
                       "expected outputs are compared with split, tok, num_words/get_word/get_pword and join of the implementation; a case is "
                       "counted non-trivial when the input holds a quote or a backslash or yields at least two tokens (cases are distinct by "
                       "construction: one per (input, delimiter set)); plus every generated evaluation history of one tok object")
    ctx.assumptions += ["ASan build of the current tree (clang -O1)", "C locale",
                        "delimiter sets do not contain quote characters or the backslash"]


def replay(ctx, path):
    return x_c12.replay_file(harness(ctx), [], path, ctx.rundir)
