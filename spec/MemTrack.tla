------------------------------- MODULE MemTrack -------------------------------
(* C15: the debug memory tracker of libast (src/mem.c) mirrors the live allocation set.        *)
(*                                                                                             *)
(* Two levels in one module (DESIGN.md section 2):                                             *)
(*   reference  - st, req : what the property statement talks about: which blocks of the pool  *)
(*                are live and what was last requested for each (size, file truncated to 20,   *)
(*                line).  Updated by the STATED rules only (libc semantics of the untracked    *)
(*                macros: realloc(NULL,n) allocates, realloc(p,0) frees, an unknown pointer    *)
(*                changes nothing).                                                            *)
(*   mechanism  - table : the tracker's private array of records, edited in place the way the  *)
(*                code edits it (append / find first / remove with shift / change in place).   *)
(* TLC checks that the mechanism refines the reference (TableIsLiveSet ...) over every history *)
(* of the five operations on a pool of block addresses; the harness then executes every        *)
(* generated transition on spifmem_* and compares the real table (through the LIBAST_VERIF     *)
(* accessor) and the allocator-side view of the pool with the emitted post-state.              *)
(*                                                                                             *)
(* Pointers: block addresses are the ids 1..N of a pool.  Which address the allocator hands    *)
(* out, and whether a realloc moves, is an ENVIRONMENT choice (parameter t of the allocating   *)
(* actions): the lowest address never used so far or any address already freed (address        *)
(* reuse).  NULLP is NULL, FOREIGN a valid heap pointer that never went through the tracker.   *)
(* A freed id used as an argument is a stale pointer.                                          *)
(* Rule kinds: S = stated by the property, C = as-built convention.                            *)
EXTENDS Integers, Sequences, FiniteSets, TLC, Json

CONSTANTS Ids,            \* pool of block addresses, 1 .. N
          Sizes,          \* sizes offered to malloc / realloc (contains 0)
          Sites,          \* call sites (index into SiteFile / SiteLine)
          StrLens,        \* lengths of the strings offered to strdup
          CallocShapes,   \* <<count, element size>> pairs offered to calloc
          SrcOffsets,     \* offsets inside a tracked source block offered to strdup (0 = its base address)
          CallocWraps,    \* <<count code, element size>> whose mathematical product exceeds SIZE_MAX (see OpCallocRefused)
          HugeSizes,      \* codes of sizes no allocator can satisfy (-1 = SIZE_MAX, -2 = 2^62, -3 = PTRDIFF_MAX + 1; TLC integers are 32 bit)
          Levels,         \* runtime debug levels explored (one per behaviour)
          Obs(_, _, _, _) \* observation hook (op, args, ret, post-state)

MemLevel  == 5            \* S: DEBUG_MEM
FnameLen  == 20           \* S: "20-character-truncated file name"
NULLP     == 0
FOREIGN   == -1           \* argument: heap pointer unknown to the tracker
UNTRACKED == -1           \* result: non-NULL pointer the tracker knows nothing about (realloc of an unknown pointer)

VARIABLES level,          \* runtime debug level (constant along a behaviour)
          st,             \* reference: [Ids -> "never" | "live" | "freed"]
          req,            \* reference: last request of every live block
          table,          \* mechanism: Seq([id, size, file, line])
          after           \* "ok" | "refused": whether the PREVIOUS call was a refused request (every action is explored after one)
vars == <<level, st, req, table, after>>

-------------------------------------------------------------------------------
(* call sites: file name as character codes, line number *)
SiteFile(s) ==
    CASE s = 1 -> <<109,46,99>>                                                                  \* "m.c"
      [] s = 2 -> <<97,98,99,100,101,102,103,104,105,106,107,108,109,110,111,112,113,114,46,99>>  \* exactly 20 characters
      [] s = 3 -> <<97,98,99,100,101,102,103,104,105,106,107,108,109,110,111,112,113,114,115,46,99>>  \* 21 characters
      \* near-miss sites: they differ from site 1 ("m.c", line 7) in ONE component only - a record must carry the site of the LAST
      \* (re)allocation even when the new site has the same line and a name that extends / is a prefix of the stored one
      [] s = 5 -> <<109,46,99,46,105,110>>                                                        \* "m.c.in" (line 7)
      [] s = 6 -> <<109,46,99>>                                                                  \* "m.c"    (line 8)
      [] s = 7 -> <<109>>                                                                        \* "m"      (line 7)
      [] OTHER -> <<118,101,114,105,102,95,108,111,110,103,95,115,111,117,114,99,101,95,102,105,108,101,95,110,97,109,101,46,99>> \* 29
SiteLine(s) == CASE s = 1 -> 7 [] s = 2 -> 4096 [] s = 3 -> 12 [] s = 5 -> 7 [] s = 6 -> 8 [] s = 7 -> 7 [] OTHER -> 70000
Trunc(f) == SubSeq(f, 1, IF Len(f) < FnameLen THEN Len(f) ELSE FnameLen)       \* S

\* (below the memory level nothing records file and line, so the reference keeps only the size there: fewer states, same claims)
Req(size, s) == IF level >= MemLevel THEN [size |-> size, file |-> Trunc(SiteFile(s)), line |-> SiteLine(s)]
                ELSE [size |-> size, file |-> <<>>, line |-> 0]
NoReq        == [size |-> 0, file |-> <<>>, line |-> 0]
Rec(i, r)    == [id |-> i, size |-> r.size, file |-> r.file, line |-> r.line]

Active == level >= MemLevel          \* S: below the memory level the wrappers leave the table alone
Live   == {i \in Ids : st[i] = "live"}
Freed  == {i \in Ids : st[i] = "freed"}
Never  == {i \in Ids : st[i] = "never"}
MinOf(S) == CHOOSE x \in S : \A y \in S : x <= y
\* environment: addresses the allocator may hand out next (fresh ones in ascending order: symmetry breaking only)
Avail  == Freed \cup (IF Never = {} THEN {} ELSE {MinOf(Never)})
PtrArgs == {NULLP, FOREIGN} \cup Live \cup Freed

-------------------------------------------------------------------------------
(* mechanism: the table edit primitives (memrec_add_var / find_var / rem_var / chg_var) *)
TabFind(tab, i) == IF \E k \in 1 .. Len(tab) : tab[k].id = i
                   THEN CHOOSE k \in 1 .. Len(tab) : tab[k].id = i /\ \A j \in 1 .. (k - 1) : tab[j].id # i
                   ELSE 0
TabAdd(tab, i, r) == Append(tab, Rec(i, r))
TabRem(tab, i) == LET k == TabFind(tab, i) IN
                  IF k = 0 THEN tab ELSE SubSeq(tab, 1, k - 1) \o SubSeq(tab, k + 1, Len(tab))
TabChg(tab, old, new, r) == LET k == TabFind(tab, old) IN
                            IF k = 0 THEN tab ELSE [tab EXCEPT ![k] = Rec(new, r)]
SumSizes(tab) == LET S[k \in 0 .. Len(tab)] == IF k = 0 THEN 0 ELSE S[k - 1] + tab[k].size IN S[Len(tab)]

-------------------------------------------------------------------------------
(* results of the five calls as functions of the current state: [st, req, table, ret] *)
R(s, q, tab, ret) == [st |-> s, req |-> q, table |-> tab, ret |-> ret]

AllocRes(t, r) ==                                   \* malloc / calloc / strdup / realloc(NULL, n>0) returning address t
    R([st EXCEPT ![t] = "live"], [req EXCEPT ![t] = r],
      IF Active THEN TabAdd(table, t, r) ELSE table, t)

FreeRes(p) ==                                       \* S: unknown pointer (NULL, stale, foreign) -> nothing changes
    IF p \in Live
    THEN R([st EXCEPT ![p] = "freed"], [req EXCEPT ![p] = NoReq],
           IF Active THEN TabRem(table, p) ELSE table, TRUE)
    ELSE R(st, req, table, TRUE)

ReallocRes(p, size, s, t) ==
    IF size = 0 THEN [FreeRes(p) EXCEPT !.ret = NULLP]                  \* S: realloc to size 0 frees (NULL: nothing), yields NULL
    ELSE IF p = NULLP THEN AllocRes(t, Req(size, s))                    \* S: realloc of NULL allocates
    ELSE IF p \in Live
    THEN R([st EXCEPT ![p] = "freed", ![t] = "live"],                   \* t = p: resized in place; t # p: moved
           [req EXCEPT ![p] = NoReq, ![t] = Req(size, s)],
           IF Active THEN TabChg(table, p, t, Req(size, s)) ELSE table, t)
    ELSE R(st, req, table, UNTRACKED)                                   \* S: unknown pointer -> table unchanged

Targets(p, size) == IF size > 0 /\ p = NULLP THEN Avail
                    ELSE IF size > 0 /\ p \in Live THEN Avail \cup {p}
                    ELSE {0}

-------------------------------------------------------------------------------
\* sizes: the allocator-side size of every live block (observable at every level, tracked or not)
View(l, s, q, tab, a) == [level |-> l, blocks |-> s, sizes |-> [i \in Ids |-> IF s[i] = "live" THEN q[i].size ELSE 0], table |-> tab,
                          after |-> a]
Pre == View(level, st, req, table, after)
StepA(op, args, r, a) ==
    /\ st' = r.st /\ req' = r.req /\ table' = r.table /\ level' = level /\ after' = a
    /\ Obs(op, args, r.ret, View(level, r.st, r.req, r.table, a))
Step(op, args, r) == StepA(op, args, r, "ok")

OpMalloc(t, size, s) ==
    /\ t \in Avail
    /\ Step("malloc", <<t, size, SiteFile(s), SiteLine(s)>>, AllocRes(t, Req(size, s)))
OpCalloc(t, sh, s) ==
    /\ t \in Avail
    /\ Step("calloc", <<t, sh[1], sh[2], SiteFile(s), SiteLine(s)>>, AllocRes(t, Req(sh[1] * sh[2], s)))
\* src = 0: the source string is ordinary memory; src \in Live: the source string sits in (at offset off of) a live TRACKED block
\* that is larger than the string - where the text comes from must not matter (S: "most recently requested size" = length + 1)
OpStrdup(t, n, s, src, off) ==                                          \* S: size = length + 1 (NUL copied also)
    /\ t \in Avail
    /\ \/ src = 0 /\ off = 0
       \/ src \in Live /\ src # t /\ off \in SrcOffsets /\ req[src].size >= n + 1 + off
    /\ Step("strdup", <<t, n, SiteFile(s), SiteLine(s), src, off>>, AllocRes(t, Req(n + 1, s)))
\* A request the allocator REFUSES (size beyond anything it can give: HugeSizes).  S (libc semantics of the untracked macros):
\* the call yields NULL and nothing else happens - in particular realloc leaves the old block allocated, live and tracked.
\* Only at runtime level 0: from level 1 on the library's own ASSERT on the NULL result ends the process (C20), outside this model.
RefusedRes == R(st, req, table, NULLP)
\* calloc(count, size) whose product does not fit size_t is refused whatever the wrapped product looks like.  Count codes (the
\* element size is the second component): -11: wraps to exactly one element (>= size), -12: wraps to 0, -13: wraps to three
\* elements, -14: wraps to less than one element (size 3: 3 * ceil(2^64 / 3) = 2^64 + 2).
OpMallocRefused(h, s) == /\ level = 0 /\ StepA("malloc", <<0, h, SiteFile(s), SiteLine(s)>>, RefusedRes, "refused")
OpCallocRefused(h, es, s) == /\ level = 0 /\ StepA("calloc", <<0, h, es, SiteFile(s), SiteLine(s)>>, RefusedRes, "refused")
OpReallocRefused(p, h, s) ==
    /\ level = 0 /\ p \in {NULLP} \cup Live
    /\ StepA("realloc", <<p, h, 0, SiteFile(s), SiteLine(s)>>, RefusedRes, "refused")
OpRealloc(p, size, s, t) ==
    /\ p \in PtrArgs /\ t \in Targets(p, size)
    /\ Step("realloc", <<p, size, t, SiteFile(s), SiteLine(s)>>, ReallocRes(p, size, s, t))
OpFree(p) ==
    /\ p \in PtrArgs
    /\ Step("free", <<p>>, FreeRes(p))
OpDump ==                                                               \* MALLOC_DUMP(): "<n> pointers stored", "Total allocated memory: <bytes>"
    Step("dump", <<>>, R(st, req, table, [cnt |-> Len(table), total |-> SumSizes(table)]))

Init == /\ level \in Levels
        /\ st = [i \in Ids |-> "never"] /\ req = [i \in Ids |-> NoReq] /\ table = <<>> /\ after = "ok"

Next == \/ \E t \in Ids, size \in Sizes, s \in Sites : OpMalloc(t, size, s)
        \/ \E t \in Ids, sh \in CallocShapes, s \in Sites : OpCalloc(t, sh, s)
        \/ \E t \in Ids, n \in StrLens, s \in Sites, src \in Ids \cup {0}, off \in SrcOffsets \cup {0} : OpStrdup(t, n, s, src, off)
        \/ \E h \in HugeSizes, s \in Sites : OpMallocRefused(h, s) \/ OpCallocRefused(h, 8, s)
        \/ \E w \in CallocWraps, s \in Sites : OpCallocRefused(w[1], w[2], s)
        \/ \E p \in PtrArgs, h \in HugeSizes, s \in Sites : OpReallocRefused(p, h, s)
        \/ \E p \in PtrArgs, size \in Sizes, s \in Sites, t \in Ids \cup {0} : OpRealloc(p, size, s, t)
        \/ \E p \in PtrArgs : OpFree(p)
        \/ OpDump

Spec == Init /\ [][Next]_vars

-------------------------------------------------------------------------------
(* properties: the mechanism mirrors the reference *)
TypeOK == /\ level \in Levels
          /\ st \in [Ids -> {"never", "live", "freed"}]
          /\ \A i \in Ids : st[i] # "live" => req[i] = NoReq
          /\ \A k \in 1 .. Len(table) : table[k].id \in Ids

\* S: one record per live block and no others, each with the block's current address, the most recently
\*    requested size and the truncated file / line of the last (re)allocation; below the memory level: empty
TableIsLiveSet ==
    IF Active
    THEN /\ \A k1, k2 \in 1 .. Len(table) : k1 # k2 => table[k1].id # table[k2].id
         /\ {table[k].id : k \in 1 .. Len(table)} = Live
         /\ \A k \in 1 .. Len(table) : table[k] = Rec(table[k].id, req[table[k].id])
         /\ \A k \in 1 .. Len(table) : Len(table[k].file) <= FnameLen
    ELSE table = <<>>

Unknown == PtrArgs \ Live
\* S: freeing or reallocating an unknown pointer leaves the table (and the live set) unchanged
UnknownPointerNoChange ==
    \A p \in Unknown :
       /\ FreeRes(p).table = table /\ FreeRes(p).st = st
       /\ \A size \in Sizes, s \in Sites :
            (size = 0 \/ p # NULLP) => /\ ReallocRes(p, size, s, 0).table = table
                                       /\ ReallocRes(p, size, s, 0).st = st
\* S: realloc of NULL allocates
ReallocNullAllocates ==
    \A size \in Sizes \ {0}, s \in Sites, t \in Avail :
       LET r == ReallocRes(NULLP, size, s, t) IN
       /\ r.ret = t /\ r.st[t] = "live" /\ r.req[t] = Req(size, s)
       /\ Active => (Len(r.table) = Len(table) + 1 /\ r.table[Len(r.table)] = Rec(t, Req(size, s)))
\* S: realloc to size 0 frees
ReallocZeroFrees ==
    \A p \in Live, s \in Sites :
       LET r == ReallocRes(p, 0, s, 0) IN
       /\ r.ret = NULLP /\ r.st[p] = "freed"
       /\ TabFind(r.table, p) = 0
       /\ Active => Len(r.table) = Len(table) - 1
\* S: a realloc of a live block re-labels exactly that record (moved or not) and leaves every other record alone
ReallocKeepsOthers ==
    \A p \in Live, size \in Sizes \ {0}, s \in Sites : \A t \in Avail \cup {p} :
       LET r == ReallocRes(p, size, s, t) IN
       Active => /\ Len(r.table) = Len(table)
                 /\ \A k \in 1 .. Len(table) : IF table[k].id = p THEN r.table[k] = Rec(t, Req(size, s))
                                                                 ELSE r.table[k] = table[k]
\* S: a refused request changes nothing (the old block of a refused realloc stays live and tracked)
RefusedChangesNothing == RefusedRes.st = st /\ RefusedRes.table = table /\ RefusedRes.ret = NULLP
\* the level is a configuration, not something the tracked calls change
LevelConstant == [][level' = level]_vars
================================================================================
