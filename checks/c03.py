"""C03: every map implementation is the same finite dictionary (MapDict.tla)."""
import re, json
from vlib import build, objcheck
from vlib.core import tok

PROPERTY = "C03"
LEVEL = "model_checking"
LEVEL_TEXT = ("TLC explores MapDict.tla exhaustively in a small scope (all histories over 3-5 keys x 2-3 values with probes below "
              "the minimum and above the maximum, a live copy, an iterator and caller-held argument objects) checking the "
              "dictionary laws (SortedNoDup, GetAfterSet, RemoveOnce, slot independence); EVERY transition TLC generates is then "
              "executed on each of the three map classes (ASan build of the current tree) with a full read-back (get/has_key of "
              "every key, has_value, the three listings, a fresh iterator), the link/allocation/order invariants of the public "
              "structs and the heap balance compared after every step, plus random walks and TLC trace validation of long "
              "recorded histories on maps of up to 200 keys.")
LEVEL_NOTE = ("Bounded scope for the exhaustive part (thorough: copy and original differ in at most one key while both live); "
              "beyond it sampled histories only. Trusted: TLC, the harness projection (harness/map_replay.c), ASan. Keys and "
              "values are spif_str objects; set(k, NULL) and NULL keys are outside the argument universe (DESIGN.md 8a).")
TECHNIQUE = "TLA+ spec + TLC exhaustive transition cover replayed on the implementation + TLC trace validation"
DESIGN_REF = "DESIGN.md section 6 C03"
CLASSES = ["array", "linked_list", "dlinked_list"]
INIT = {"a": [], "b": {"live": False, "s": []}, "it": -1, "held": 0}
SCOPE = {"quick": (3, 2), "thorough": (5, 3)}      # NK, NV of the cfg files
BIG = (253, 7)                                      # NK, NV of direction B: keys 0..254 get first/last bytes 1..255
SWEEP_SIZES = {"quick": [8, 16, 32, 64, 128, 256, 512, 1024], "thorough": [8, 16, 32, 64, 128, 256, 512, 1024, 2048, 4096]}
SWEEP_CFG = {"quick": ("MapDictSweep.cfg", 2400), "thorough": ("MapDictSweepBig.cfg", 8600)}   # cfg, NK


def argclass(e):
    """Coarse but specific description of where in the argument/state space an edge lies."""
    op = e["op"]
    onb = op.startswith("b_")
    s = e["pre"]["b"]["s"] if onb else e["pre"]["a"]
    keys = [p[0] for p in s]
    n = len(keys)
    parts = ["size=0" if n == 0 else ("size=1" if n == 1 else "size>1")]
    if e["pre"]["b"]["live"] and not onb:
        parts.append("copy-live")
    if op in ("set", "set_pair", "set_keep", "remove", "get", "has_key", "b_set", "b_remove", "b_get", "set_from", "set_own_pair",
              "set_own_key", "remove_own_key", "set_component"):
        k = e["args"][0]
        if k in keys:
            pos = "only" if n == 1 else ("smallest" if k == keys[0] else ("largest" if k == keys[-1] else "inner"))
        elif not keys:
            pos = "absent"
        elif k < keys[0]:
            pos = "absent-below-min"
        elif k > keys[-1]:
            pos = "absent-above-max"
        else:
            pos = "absent-between"
        parts.append("key:" + pos)
        if op in ("set_from", "set_component"):
            parts.append("value-of-same-key" if e["args"][1] == k else "value-of-other-key")
    ncls = {"set": 2, "set_pair": 2, "set_keep": 2, "set_own_key": 1, "remove": 1, "get": 1, "has_key": 1, "has_value": 1}.get(op, 0)
    if ncls and 2 in e["args"][-ncls:]:
        parts.append("url-arg:" + "".join("su"[c - 1] for c in e["args"][-ncls:]))
    if op in ("get_keys", "get_values", "get_pairs"):
        np_, dc, reps = e["args"]
        parts.append("dest=NULL" if np_ < 0 else "dest=%s,prior=%d" % (["", "array", "linked_list", "dlinked_list"][dc], np_))
        if reps == 2:
            parts.append("twice")
    return ",".join(parts)


def keyfn(variant, e, f):
    d = ""
    if f.kind == "inv":
        d = re.sub(r"\d+", "N", f.got)
    elif f.kind in ("crash", "hang", "exit"):
        d = f.sig
    op = e["op"] if e else f.op
    return "%s.%s [%s] %s%s" % (variant, op, argclass(e) if e else "-", f.kind, ("/" + d) if d else "")


def harness(ctx):
    libdir, cflags = build.build_lib(ctx.repo)
    return build.build_harness("map_replay", ["map_replay.c"], libdir, cflags)


def gen_history(rnd, nops, nk, nv):
    """A random program over the map API on a large key universe.  The mirror below only steers the choice of
    arguments and keeps the caller's discipline (no mutation while an iterator lives ...); it is NOT the oracle -
    TLC evaluating MapDictTrace is."""
    have = set()        # rough mirror of the keys of A
    bhave = None        # rough mirror of the keys of B (None: no copy)
    it = False
    held = 0
    lines = []
    fill = rnd.random() < 0.7       # most executions first grow towards the full universe
    target = rnd.choice([nk, nk, nk - 1, nk // 2, 20])
    while len(lines) < nops:
        r = rnd.random()
        k = rnd.randint(1, nk)
        if have and rnd.random() < 0.5:
            k = rnd.choice([min(have), max(have), rnd.choice(sorted(have))])
        v = rnd.randint(1, nv)
        pk = rnd.choice([0, nk + 1, k, k, rnd.randint(0, nk + 1)])
        if it:
            c = rnd.choice(["iter_next", "iter_next", "iter_next", "iter_has_next", "iter_del", "get %d" % pk])
            if c == "iter_del":
                it = False
            lines.append(c)
            continue
        if held:
            c = rnd.choice(["caller_mutates" if held == 1 else "caller_deletes", "caller_deletes", "get %d" % pk,
                            "has_value %d" % rnd.randint(1, nv + 1)])
            if c == "caller_mutates":
                held = 2
            elif c == "caller_deletes":
                held = 0
            lines.append(c)
            continue
        if fill and len(have) < target and r < 0.85:
            for _ in range(12):                      # prefer a key the mirror has not seen yet
                k = rnd.randint(1, nk)
                if k not in have:
                    break
            c = rnd.choice(["set %d %d", "set %d %d", "set %d %d", "set_pair %d %d"]) % (k, v)
            have.add(k)
        elif r < 0.30:
            c = rnd.choice(["set %d %d", "set %d %d", "set_pair %d %d", "set_keep %d %d"]) % (k, v)
            if c.startswith("set_keep"):
                if bhave is not None:
                    c = "set %d %d" % (k, v)
                else:
                    held = 1
            have.add(k)
        elif r < 0.36 and have and bhave is None:
            # aliased arguments: objects the map itself owns
            j = rnd.choice([min(have), max(have), rnd.choice(sorted(have))])
            c = rnd.choice(["set_from %d %d" % (j, j), "set_from %d %d" % (k, j), "set_own_pair %d" % j, "set_own_key %d %d" % (j, v),
                            "set_component %d %d" % (j, j), "set_component %d %d" % (k, j),
                            "remove_own_key %d" % j])
            if c.startswith("set_from") or c.startswith("set_component"):
                have.add(int(c.split()[1]))
            elif c.startswith("remove_own_key"):
                have.discard(j)
        elif r < 0.55:
            c = "remove %d" % pk
            have.discard(pk)
            if len(have) < target // 2:
                fill = rnd.random() < 0.5
        elif r < 0.56:
            c = "done"
            have = set()
        elif r < 0.80:
            c = rnd.choice(["get %d" % pk, "has_key %d" % pk, "has_value %d" % rnd.randint(1, nv + 1), "count"] + ["%s %s %d" % (rnd.choice(["get_keys", "get_values", "get_pairs"]),
                                                  rnd.choice(["-1 0", "-1 0"] + (["%d %d" % (rnd.randint(0, 3), rnd.randint(1, 3))] * 4 if bhave is None else [])),
                                                  rnd.randint(1, 2)) for _ in range(6)])
        elif r < 0.84:
            if bhave is None:
                c = "iter_new"
                it = True
            else:
                c = "b_get %d" % pk
        elif r < 0.92:
            if bhave is None:
                c = "dup"
                bhave = set(have)
            else:
                c = rnd.choice(["b_del", "adopt", "b_set %d %d" % (k, v), "b_remove %d" % pk, "b_remove %d" % (max(bhave) if bhave else 0),
                                "b_remove %d" % (min(bhave) if bhave else 0)])
                if c == "b_del":
                    bhave = None
                elif c == "adopt":
                    have, bhave = bhave, None
                elif c.startswith("b_set"):
                    bhave.add(k)
                elif c.startswith("b_remove"):
                    bhave.discard(int(c.split()[1]))
        else:
            c = "count"
        lines.append(c)
    from vlib import x_c03
    return x_c03.add_classes(lines, lambda: rnd.randint(1, 2))


def gen_sweep(sizes, nk, nv):
    """Size-sweep family (direction B, deterministic): ONE execution that grows a map through the sizes n-1, n, n+1 for every
    n in `sizes` and at each of these sizes runs every operation of the model at the position classes smallest / second /
    middle / next-to-largest / largest / absent (below, between, above).  `have` mirrors the key set only to pick
    arguments; TLC evaluating MapDictTrace on the recorded events is the oracle."""
    lines = []
    have = set()
    base = 200
    state = {"nextfill": base, "front": base - 1, "v": 0}

    def val():
        state["v"] = state["v"] % nv + 1
        return state["v"]

    def battery():
        ks = sorted(have)
        n = len(ks)
        pos = [ks[0], ks[min(1, n - 1)], ks[n // 2], ks[max(0, n - 2)], ks[-1]]
        gap = next((k + 1 for k in ks if k + 1 not in have and k + 1 < ks[-1]), None)
        absent = [0, nk + 1, ks[0] - 1, ks[-1] + 1] + ([gap] if gap else [])
        out = []
        for k in pos + absent:
            out += ["get %d" % k, "has_key %d" % k]
        out += ["count", "has_value %d" % (nv + 1), "has_value 1", "get_keys -1 0 1", "get_pairs 2 %d 1" % (1 + n % 3),
                "get_values 3 %d 2" % (1 + (n + 1) % 3)]
        # every mutator at the position classes; the key set is restored each time
        for k in (pos[0], pos[2], pos[4]):
            out += ["set %d %d" % (k, val()), "set_pair %d %d" % (k, val()), "set_from %d %d" % (k, k), "set_component %d %d" % (k, k),
                    "set_own_pair %d" % k,
                    "set_own_key %d %d" % (k, val()), "remove %d" % k, "get %d" % k, "set %d %d" % (k, val()),
                    "remove_own_key %d" % k, "set_pair %d %d" % (k, val())]
        out += ["set_from %d %d" % (pos[4], pos[0]), "set_component %d %d" % (pos[0], pos[4])]
        for k in absent:
            out += ["remove %d" % k]
        out += ["set_keep %d %d" % (pos[4], val()), "get %d" % pos[4], "caller_mutates", "get %d" % pos[4], "caller_deletes"]
        out += ["iter_new", "iter_next", "iter_has_next", "iter_next", "get %d" % pos[4], "iter_del"]
        out += ["dup", "b_get %d" % pos[4], "b_remove %d" % pos[4], "b_get %d" % pos[4], "get %d" % pos[4], "b_set %d %d" % (pos[4], val()),
                "b_remove %d" % pos[0], "b_set %d %d" % (pos[0], val())]
        out += ["adopt"] if n % 2 else ["b_del"]
        return out

    for n in sizes:
        need = (n - 2) - len(have)
        if need > 0:
            lo = state["nextfill"]
            hi = lo + 2 * (need - 1)
            lines.append("fill_set %d %d 2 %d" % (lo, hi, val()))
            have |= set(range(lo, hi + 1, 2))
            state["nextfill"] = hi + 2
        for where in ("front", "middle", "back"):
            ks = sorted(have)
            if where == "front" or not ks:
                k = state["front"]
                state["front"] -= 1
            elif where == "middle":
                k = next(x + 1 for x in ks[len(ks) // 2:] if x + 1 not in have)
            else:
                k = state["nextfill"]
                state["nextfill"] += 2
            lines.append("set %d %d" % (k, val()))
            have.add(k)
            lines += battery()
    assert max(have) + 2 <= nk and state["front"] > 1
    from vlib import x_c03
    import itertools
    rot = itertools.cycle([1, 2, 2, 1, 2, 1, 1])          # deterministic, period prime to the battery's patterns
    return x_c03.add_classes(lines, lambda: next(rot))


def trace_validation(ctx, exe, corrupt=None, sweep=True):
    """Direction (B): long random histories on maps of up to 253 keys (three text families of the key/value objects:
    digits, first byte sweeping 1..255, last byte sweeping 1..255 - chosen per history) and the size sweep, recorded on
    each class and validated by TLC."""
    import random, time
    from vlib import x_c03
    rnd = random.Random(ctx.seed)
    nk, nv = BIG
    nexec, nops = (6, 500) if ctx.tier == "quick" else (18, 900)
    hist = [gen_history(rnd, nops, nk, nv) for k in range(nexec)]
    scfg, snk = SWEEP_CFG[ctx.tier]
    sweep_hist = [gen_sweep(SWEEP_SIZES[ctx.tier], snk, nv)]
    total = 0
    maxsize = 0
    t0 = time.time()
    for cls in CLASSES:
        n, mx, ok = x_c03.record_validate(ctx, exe, cls, [cls, str(nk), str(nv), "-1", "full,shades"], hist, INIT, "MapDictTrace.tla",
                                          "MapDictTrace.cfg", corrupt=corrupt)
        total += n
        maxsize = max(maxsize, mx)
    ctx.cov["trace_max_map_size"] = maxsize
    ctx.cov["trace_wall_s"] = round(time.time() - t0, 1)
    if sweep:
        t1 = time.time()
        smax = 0
        for ci, cls in enumerate(CLASSES):
            # the sweep runs with first-byte family 1 (keys straddle 0x80) for two classes and digits for one, rotating with the seed
            enc = "1" if (ci + ctx.seed) % 3 else "0"
            n, mx, ok = x_c03.record_validate(ctx, exe, cls, [cls, str(snk), str(nv), enc, "compact,shades"], sweep_hist, INIT,
                                              "MapDictTrace.tla", scfg, tag="sweep-" + cls, env={"VH_WATCHDOG": "1500"})      # one long script: the per-script watchdog of 20 s does not fit
            total += n
            smax = max(smax, mx)
        ctx.cov["sweep_sizes"] = [m for n_ in SWEEP_SIZES[ctx.tier] for m in (n_ - 1, n_, n_ + 1)]
        ctx.cov["sweep_max_map_size"] = smax
        ctx.cov["sweep_wall_s"] = round(time.time() - t1, 1)
    ctx.add("trace_events_validated", total)
    ctx.add("traces_validated_against_impl", (nexec + (1 if sweep else 0)) * len(CLASSES))


def run(ctx):
    exe = harness(ctx)
    nk, nv = SCOPE[ctx.tier]
    walks = (300, 40) if ctx.tier == "quick" else (2000, 60)
    if ctx.tier == "quick":
        # two graphs: values all different under comp (plain str values), and values in groups of two that compare EQUAL yet
        # are different values (objpair(text, shade): comp sees the key only) - has_value answers differ between the two
        g, res = objcheck.tlc_graph(ctx, "MC_MapDict.tla", "MapDict_quick.cfg", workers=4)
        g2, res2 = objcheck.tlc_graph(ctx, "MC_MapDict.tla", "MapDict_quick_shades.cfg", workers=4)
        plain_mode = "full"
    else:
        # one graph (NV = 3, groups {1,2} and {3}); both covers run with shaded values
        g, res = objcheck.tlc_graph(ctx, "MC_MapDict.tla", "MapDict_thorough.cfg", workers=4)
        g2 = g
        plain_mode = "full,shades"
    for ci, cls in enumerate(CLASSES):
        # the 2-step cover enumerates every (move, successor edge) pair of the graph before sampling: on the thorough graph
        # (1.3 million edges) that costs ~4 min per class, so thorough runs it on ONE class, rotating with the seed
        npairs = 40000 if ctx.tier == "quick" else (60000 if (ci + ctx.seed) % 3 == 0 else 0)
        # cover 1: text family 0 (digits); cover 2: family 1 (first bytes 0x40 / 0x80 / 0xbf ...: ASCII and high-bit keys mixed)
        # with shaded values
        objcheck.replay_cover(ctx, g, [tok(INIT)], exe, cls, [cls, str(nk), str(nv), "0", plain_mode], keyfn, walks=walks, jobs=4,
                              pairs=npairs)
        objcheck.replay_cover(ctx, g2, [tok(INIT)], exe, cls + "/highbit-keys", [cls, str(nk), str(nv), "1", "full,shades"], keyfn,
                              walks=(walks if ctx.tier == "quick" else (500, 60)), jobs=4)
    trace_validation(ctx, exe)
    ctx.cov["exhaustive"] = True
    ctx.cov["rule"] = ("every transition TLC generates for MapDict in the bounded scope is executed once per class and per key text family "
                       "(digits / mixed ASCII and high-bit first bytes; plain values / values that compare EQUAL in pairs yet differ) as "
                       "the last step of a script whose prefix consists of already verified transitions; state (full read-back of the "
                       "observable value, not comp), return value, representation invariants and heap balance are compared after every "
                       "step; plus random walks over verified transitions, TLC-validated recorded histories on 253-key maps whose keys "
                       "use every byte value 1..255 as first / as last byte, and a TLC-validated size sweep (every operation at sizes "
                       "n-1, n, n+1 for n = 8 .. 1024 (thorough .. 4096) at the position classes)")
    ctx.assumptions += ["keys are spif_str / spif_url objects, values spif_str / spif_url objects or objpairs keyed by one; key order is spif_str_comp (strcmp, unsigned bytes) on texts that order like the numbers",
                        "ASan build of the current tree (clang -O1)"]


def replay(ctx, path):
    rp = json.load(open(path)).get("replay") or {}
    if "history" in rp:          # a rejected recorded execution: record it again and let TLC judge it again
        from vlib import x_c03
        return x_c03.replay_trace(ctx, harness(ctx), rp)
    return objcheck.replay_file(harness(ctx), [], path, ctx.rundir)
