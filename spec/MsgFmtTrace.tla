------------------------------ MODULE MsgFmtTrace ------------------------------
(* Trace validation for X04 / MsgFmt: every recorded call of the real library (operation, arguments, what it wrote and     *)
(* returned, the projected state afterwards) must be a step of MsgFmt.  The file named by env TRACE holds one JSON object    *)
(* per line; {"op":"reset"} starts a new execution.  The actions are those of MsgFmt, unchanged.                            *)
EXTENDS MsgFmt, IOUtils
VARIABLE l
Tr == ndJsonDeserialize(IOEnv.TRACE)

ObsTrace(op, args, ret, post) ==
    /\ op = Tr[l].op /\ args = Tr[l].args /\ ret = Tr[l].ret /\ post = Tr[l].post

TraceInit == Init /\ l = 1
ev == Tr[l]
TraceStep ==
    /\ l <= Len(Tr)
    /\ l' = l + 1
    /\ \/ ev.op = "reset" /\ name' = DefName /\ nst' = "static" /\ ver' = DefVer /\ vst' = "static" /\ silent' = FALSE
                          /\ level' = 0 /\ bad' = "none"
       \/ ev.op = "set_name" /\ OpSetName(ev.args[1])
       \/ ev.op = "set_name_null" /\ OpSetNameNull
       \/ ev.op = "set_name_alias" /\ (IF ev.args[1] = 0 THEN OpSetNameAlias ELSE OpSetNameSuffix(ev.args[1]))
       \/ ev.op = "unset_name" /\ OpUnsetName
       \/ ev.op = "set_ver" /\ OpSetVer(ev.args[1])
       \/ ev.op = "set_ver_null" /\ OpSetVerNull
       \/ ev.op = "set_ver_alias" /\ (IF ev.args[1] = 0 THEN OpSetVerAlias ELSE OpSetVerSuffix(ev.args[1]))
       \/ ev.op = "unset_ver" /\ OpUnsetVer
       \/ ev.op = "set_silent" /\ OpSetSilent(ev.args[1])
       \/ ev.op = "set_level" /\ OpSetLevel(ev.args[1])
       \/ ev.op = "dprintf" /\ OpDprintf(ev.args[1])
       \/ ev.op = "print_error" /\ OpPrintError(ev.args[1])
       \/ ev.op = "print_warning" /\ OpPrintWarning(ev.args[1])
       \/ ev.op = "fatal_error" /\ OpFatalError(ev.args[1])
       \/ ev.op = "macro" /\ OpMacro(ev.args[1], ev.args[2], ev.args[3], ev.args[4])
TraceSpec == TraceInit /\ [][TraceStep]_<<vars, l>>
TraceAccepted == \/ TLCGet("stats").diameter - 1 = Len(Tr)
                 \/ PrintT(<<"TRACE_REJECTED_AFTER", TLCGet("stats").diameter - 1, "OF", Len(Tr)>>) /\ FALSE
===============================================================================
