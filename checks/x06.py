"""X06 (extension beyond the 20 listed properties, DESIGN.md section 10): the built-in help handler spifopt_usage() -
the part of the option subsystem that C08 leaves out.  Not registered in MANIFEST.json (the property list is fixed);
run with ./vcheck X06 quick|thorough.

spec/UsageLayout.tla is the column arithmetic as a reference function Lines(table, name/version); TLC enumerates every
option table of a bounded universe, checks the layout laws on the reference text (RowsAligned, RuleCoversRows,
SomeRowFillsRule, HeaderFitsRuleWhenWide, LineCount), refutes the ideal law HeaderFitsRule on the as-built arithmetic by
itself, and emits each table with its expected text; harness/usage_replay.c registers the same table, calls
spifopt_usage() in a child process with fd 1 captured, and the bytes and the exit status are compared."""
import random
from vlib import build, x_c12
from vlib.core import Broken

PROPERTY = "X06"
LEVEL = "model_checking"
LEVEL_TEXT = ("TLC checks the layout laws of UsageLayout.tla over every option table of the bounded universe (0..2 options; thorough adds every "
              "table of 0..3 options over a smaller alphabet; short letter present or not; long-name and description lengths around the header-word widths; every type word, "
              "with and without a modifier bit) and emits the expected text; every table is registered with the real option subsystem "
              "and spifopt_usage() runs in a child process of an ASan build: output bytes and exit status (EXIT_FAILURE) are compared.  "
              "A second configuration of the same module sweeps long-name / description lengths 0..70 (one-option tables): the "
              "expected text always comes from TLC's evaluation of the specification, never from a second implementation.")
LEVEL_NOTE = ("extension, not one of the 20 properties.  Texts contain no newline; NULL long names / descriptions and tables of more than "
              "65535 characters per text (the uint16 column counters) are not covered.  Trusted: TLC, ASan, harness/usage_replay.c.")
TECHNIQUE = "TLA+ reference function + TLC law checking; every emitted case replayed on the implementation under ASan"
DESIGN_REF = "DESIGN.md section 10"
ACTIONS = ["EvalTable"]


def B(s):
    return "[" + ",".join(str(ord(c)) for c in s) + "]"


def to_case(sid, r):
    args = [B(r["nm"][0]), B(r["nm"][1]), str(len(r["opts"]))]
    for sh, lg, fl, ds in r["opts"]:
        args += ["-" if sh == "-" else B(sh), B(lg), str(fl), B(ds)]
    text = "".join(l + "\n" for l in r["lines"])
    return x_c12.Case(sid, [("usage", args, "{exit=1,out=%s}" % B(text), r)])


def keyfn(case, at, f):
    r = case.steps[at][3]
    cls = "empty-table" if not r["opts"] else ("narrow-desc" if max(len(o[3]) for o in r["opts"]) < 4 else "wide-desc")
    d = f.sig if f.kind in ("crash", "hang", "exit") else ""
    return "usage [%s] %s%s" % (cls, f.kind, ("/" + d) if d else "")


def what_fn(case, at, f):
    r = case.steps[at][3]
    return "spifopt_usage() on table %s: expected %r" % (r["opts"], r["lines"])


def run(ctx):
    libdir, cflags = build.build_lib(ctx.repo)
    exe = build.build_harness("usage_replay", ["usage_replay.c"], libdir, cflags)
    # the ideal law on the as-built arithmetic: TLC itself must find the counterexample (design-level information)
    res0 = x_c12.run_tlc("MC_UsageLayout.tla", "UsageLayout_ideal.cfg", ctx.rundir, workers=1, coverage=False)
    ctx.cov["ideal_HeaderFitsRule_refuted_by_tlc"] = bool(res0.violation and "HeaderFitsRule" in res0.violation)
    if not ctx.cov["ideal_HeaderFitsRule_refuted_by_tlc"]:
        raise Broken("TLC no longer refutes HeaderFitsRule on the as-built arithmetic: %s" % (res0.violation or "")[:300])
    cases = []
    n = [0]

    def on_case(r):
        n[0] += 1
        cases.append(to_case(n[0], r))
    for cfg in ["UsageLayout_quick.cfg"] + (["UsageLayout_thorough.cfg"] if ctx.tier != "quick" else []):
        res = x_c12.tlc_cases(ctx, "MC_UsageLayout.tla", cfg, ACTIONS, on_case, coverage=False, taken=lambda: {"EvalTable": n[0]}, workers=2)
        if not res.ok:
            return
    # length sweep through the same operators (one option pair per length; UsageLayout_sweep.cfg)
    res2 = x_c12.tlc_cases(ctx, "MC_UsageLayout.tla", "UsageLayout_sweep.cfg", ACTIONS, on_case, coverage=False,
                           taken=lambda: {"EvalTable": n[0]}, workers=2)
    if not res2.ok:
        return
    random.Random(ctx.seed).shuffle(cases)
    ns, nt, nf = x_c12.run_cases(ctx, exe, ["-"], cases, keyfn, "usage_tables", what_fn=what_fn)
    ctx.add("tables_executed", ns)
    ctx.add("distinct_nontrivial", sum(1 for c in cases if c.steps[0][3]["opts"]))
    by = {}
    for c in cases:
        k = len(c.steps[0][3]["opts"])
        by[k] = by.get(k, 0) + 1
    ctx.cov["tables_by_option_count"] = by
    ctx.cov["exhaustive"] = True
    ctx.cov["rule"] = "every option table TLC enumerated is executed on spifopt_usage() in a child process; bytes of fd 1 and exit status compared"
    c = cases[0].steps[0][3]
    ctx.sample({"table": c["opts"], "expected_lines": c["lines"]})
    ctx.assumptions += ["ASan build of the current tree (clang -O1)", "C locale", "stdout of the child is a regular file (fully buffered)"]


def replay(ctx, path):
    libdir, cflags = build.build_lib(ctx.repo)
    exe = build.build_harness("usage_replay", ["usage_replay.c"], libdir, cflags)
    return x_c12.replay_file(exe, ["-"], path, ctx.rundir)
