SPECIFICATION Spec
CONSTANTS
  Alphabet <- Alpha7
  MaxLen = 3
  DelimSets <- Delims3
  Obs <- ObsEmit
INVARIANTS PosInBounds ScanIsSplit SplitJoinIdentity TokAgreesWithSplitModuloTrim DelimRunsSeparate QuotesGroupAndAreRemoved StatedExamples WordsConsistent
CHECK_DEADLOCK FALSE
