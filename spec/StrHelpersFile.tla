---------------------------- MODULE StrHelpersFile ----------------------------
(* C13, argument tuples given in a file (env CASES, one JSON object per line): the families that a small        *)
(* exhaustive universe cannot reach - size sweeps around 8 .. 1024 bytes, every ordered pair of byte values,    *)
(* all byte values 1..255.  TLC evaluates the SAME reference operators of StrHelpers on them and emits the      *)
(* expected results; the laws are re-checked on every tuple of moderate size.                                   *)
(*   {"k":"inplace","s":[..]}   {"k":"copy","size":n,"src":[..],"pre":[..]}   {"k":"substr","s":[..],"idx":i,"cnt":c} *)
(*   {"k":"roomy","size":N,"src":[..],"pre":[..]}   N anywhere up to INT_MAX, N >= pre + src + 1 (class "roomy")      *)
(* Extreme integer arguments (INT_MAX, INT_MAX-k, INT_MIN, INT_MIN+k, 2^30, 65535..65537, ...) of substr come through *)
(* the "substr" rows as numbers: the reference's arithmetic on them never leaves 32 bits (it adds a length <= Len(s)  *)
(* to a negative number or takes a minimum), which is itself part of what the reference says.                          *)
EXTENDS StrHelpers, IOUtils
Cases == ndJsonDeserialize(IOEnv.CASES)
Row == x.idx
C == Cases[Row]

\* the n for which safe_str(s, n) is asked: both ends and the neighbours of the word sizes
\* (n is an unsigned short in the implementation: 65535 is its extreme value)
SafeNs(len) == {n \in {0, 1, 7, 8, 9, 15, 16, 17, 31, 32, 33, len - 9, len - 8, len - 7, len - 1, len, 65534, 65535} :
                    n >= 0 /\ n <= len /\ n <= 65535}
SetToSortedSeq(S) == LET RECURSIVE F(_) F(T) == IF T = {} THEN <<>> ELSE LET m == Min(T) IN <<m>> \o F(T \ {m}) IN F(S)
InPlaceSome(s) == LET ns == SetToSortedSeq(SafeNs(Len(s))) IN
                  [chomp |-> Chomp(s).result, condense |-> Condense(s).result, down |-> Downcase(s).result,
                   up |-> Upcase(s).result, rev |-> Strrev(s).result, ns |-> ns,
                   safe |-> [k \in 1 .. Len(ns) |-> SafeStr(s, ns[k]).result]]

FileInit == /\ done = FALSE /\ fam = "file" /\ \E i \in 1 .. Len(Cases) : x = [X0 EXCEPT !.idx = i]
EvalFileInPlace == /\ ~done /\ fam = "file" /\ C.k = "inplace" /\ done' = TRUE /\ UNCHANGED <<fam, x>>
                   /\ Obs("inplace", <<Row>>, InPlaceSome(C.s), TRUE)
EvalFileCopy    == /\ ~done /\ fam = "file" /\ C.k = "copy" /\ done' = TRUE /\ UNCHANGED <<fam, x>>
                   /\ LET b == Buffer(C.size, C.pre) IN
                      Obs("copy", <<Row, b>>, [cpy |-> SafeStrncpy(C.size, C.src, b), cat |-> SafeStrncat(C.size, C.src, b)], TRUE)
EvalFileRoomy   == /\ ~done /\ fam = "file" /\ C.k = "roomy" /\ done' = TRUE /\ UNCHANGED <<fam, x>>
                   /\ Assert(C.size >= Len(C.pre) + Len(C.src) + 1, <<"not a roomy size", Row>>)
                   /\ Obs("roomy", <<Row>>, RoomyCopy(C.src, C.pre), TRUE)
\*   {"k":"alias","s":[..],"off":k,"size":n}   safe_strncpy(buf, buf + k, n) on the buffer that holds s (sizes of the sweep families)
EvalFileAlias   == /\ ~done /\ fam = "file" /\ C.k = "alias" /\ done' = TRUE /\ UNCHANGED <<fam, x>>
                   /\ LET m == AliasMem(C.s, C.size) IN Obs("alias", <<Row, m>>, AliasedStrncpy(m, C.off, C.size), TRUE)
EvalFileSubstr  == /\ ~done /\ fam = "file" /\ C.k = "substr" /\ done' = TRUE /\ UNCHANGED <<fam, x>>
                   /\ Obs("substr", <<Row>>, Substr(C.s, C.idx, C.cnt), TRUE)
FileNext == EvalFileInPlace \/ EvalFileCopy \/ EvalFileRoomy \/ EvalFileAlias \/ EvalFileSubstr
FileSpec == FileInit /\ [][FileNext]_vars

\* the laws of StrHelpers on the file tuples (texts up to 40 bytes: the quadratic law formulas; copies and slices of any size)
FileLaws == (fam = "file" /\ ~done) =>
               /\ (C.k = "inplace" /\ Len(C.s) <= 40) => InPlaceLawsOf(C.s)
               /\ (C.k = "copy") => CopyLawsOf(C.size, C.src, C.pre)
               /\ (C.k = "substr") => SubstrLawsOf(C.s, C.idx, C.cnt)
               /\ (C.k = "alias") => AliasLawsOf(C.s, C.off, C.size)
ObsEmitFile(op, args, ret, post) == PrintT(ToJson([op |-> op, args |-> args, exp |-> ret, lv |-> DebugLevels]))
================================================================================
