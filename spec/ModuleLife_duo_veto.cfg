SPECIFICATION Spec
CONSTANTS
  Variants = {1, 5}
  Paths = {1, 5}
  Names = {}
  Slots = {1, 2}
  LoadFaults = {"none"}
  UnloadFaults = {"none"}
  RunFaults = {"none"}
  SymFaults = {"none"}
  Levels = {0}
  Indents = {0}
  Cap = 1
  AsBuilt = FALSE
  Bounded = TRUE
  TrackMain = FALSE
  Obs <- ObsEmit
INVARIANTS TypeOK RefsMatchHolders QuiescenceClosed MainMatches NoStaleUse LoaderSane
PROPERTIES OwnHooksOnly HookPairsWithRefs RefusedChangesNothing
VIEW View
CHECK_DEADLOCK FALSE
