SPECIFICATION Spec
CONSTANTS
  Part = "cond"
  Obs <- ObsEmit
INVARIANTS TypeOK WellFormed Separate
CHECK_DEADLOCK FALSE
