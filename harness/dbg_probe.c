/* C20: one function per statement of the debug / assertion family, compiled against the current headers with the
 * compile-time DEBUG of the build under test (shim config.h) and linked with the current msgs.c / debug.c built the
 * same way.  usage: dbg_probe <scriptfile>
 * Script lines:   L <n>          libast_debug_level = n
 *                 S <0|1>        libast_set_silent(flag)              -> "S <flag> <returned>"
 *                 Y <statement>  as X, but one earlier write on stderr has FAILED in that child (fd 2 pointed at a full non-blocking
 *                                pipe for one fputs(), then fd 2 is restored; clearerr() is NOT called): history must not matter
 *                 R <statement>  as X, after libast_dprintf / print_error / print_warning were refused for want of a program name
 *                 W <statement> alone 0 <k> <kind>  as X with a write fault on the diagnostic stream: the k-th write fails with
 *                                EINTR (kind 1) / EAGAIN (2) before any byte or is short (3); garbled=1 when an accepted piece is
 *                                not a piece of the fault-free output of the same statement
 *                 A <statement>  as X, but executed by an atexit handler while the exit() of an earlier libast_fatal_error is running
 *                 X <statement> [<context> [<message size>]]  run the statement in a forked child with fd 2 captured;
 *                                context = alone | braced | then_true | then_false | loop2 (the statement as the unbraced then-arm
 *                                of an if/else with the outer condition true / false, as the unbraced body of a 2-iteration loop);
 *                                message size = length of the %s argument of the message (D_*, DPRINTFn, printers)
 *                                -> "X <statement> <context> <size> out=<none|debug|warning|error|fatal> eval=<n> ctl=<falls|returns|exits|signal:N>
 *                                    val=<n> status=<n> bytes=<n> text=<0|1>"
 *   eval  = how often the argument expression (message argument / asserted condition) was evaluated
 *   ctl   = fell through the statement / the enclosing function returned at the statement / the process ended
 *   val   = value returned by the enclosing function (7 = the stated failure value, 1000 = fell through)
 *   bytes = bytes written to the stream; text = the statement's own message is among them - for ASSERT/REQUIRE the marker
 *           AND the text of the failed expression verbatim (the _pct probes use expressions containing "% s" and "%d")
 *   count = how often the complete message appears; else = the else arm of the enclosing if was executed
 *   ferr  = (Y only) the failed write did set the stream's error indicator, i.e. the history was really provoked
 */
#define _GNU_SOURCE
#include <config.h>
#include <libast.h>
#include <stdio.h>
#include <stdlib.h>
#include <string.h>
#include <unistd.h>
#include <signal.h>
#include <sys/wait.h>

#include <sys/mman.h>
static int *shared;                 /* shared with the parent, so the count survives a statement that ends the process */
#define counter (shared[0])
static int fell;
static int bump(void) { counter++; return 42; }
static int cond_fail(void) { counter++; return 0; }
static int cond_hold(void) { counter++; return 1; }
static int pct_fail(int a, int b) { counter++; (void) a; (void) b; return 0; }
static int total = 7, s = 4, n = 9, d = 2;       /* names chosen so that the expression text reads like printf conversions */

static volatile int outer = 1;       /* condition of the enclosing if of the then-arm context */
static const char *big = "";         /* message argument of the requested length (size sweep) */
#define ELSE_TAKEN (shared[2])
#define MSG ("PAYLOAD %d %s\n", bump(), big)

/* every statement in four syntactic contexts: stand-alone, braced, unbraced then-arm of an if/else, unbraced loop body */
#define STMT(tag, stmt) \
    static int f_##tag##_alone(void)  { stmt; return 1000; } \
    static int f_##tag##_braced(void) { { stmt; } return 1000; } \
    static int f_##tag##_then(void)   { if (outer) stmt; else ELSE_TAKEN = 1; return 1000; } \
    static int f_##tag##_loop(void)   { int i; for (i = 0; i < 2; i++) stmt; return 1000; }
/* the void forms (ASSERT / REQUIRE) return from a void function: "fell" tells whether control came out at the bottom */
#define VSTMT(tag, stmt) \
    static void v_##tag##_alone(void)  { stmt; fell = 1; } \
    static void v_##tag##_braced(void) { { stmt; } fell = 1; } \
    static void v_##tag##_then(void)   { if (outer) stmt; else ELSE_TAKEN = 1; fell = 1; } \
    static void v_##tag##_loop(void)   { int i; for (i = 0; i < 2; i++) stmt; fell = 1; } \
    static int f_##tag##_alone(void)  { fell = 0; v_##tag##_alone(); return fell ? 1000 : 7; } \
    static int f_##tag##_braced(void) { fell = 0; v_##tag##_braced(); return fell ? 1000 : 7; } \
    static int f_##tag##_then(void)   { fell = 0; v_##tag##_then(); return fell ? 1000 : 7; } \
    static int f_##tag##_loop(void)   { fell = 0; v_##tag##_loop(); return fell ? 1000 : 7; }

STMT(D_OPTIONS, D_OPTIONS(MSG)) STMT(D_OBJ, D_OBJ(MSG)) STMT(D_CONF, D_CONF(MSG)) STMT(D_MEM, D_MEM(MSG))
STMT(D_STRINGS, D_STRINGS(MSG)) STMT(D_PARSE, D_PARSE(MSG))
STMT(DPRINTF1, DPRINTF1(MSG)) STMT(DPRINTF2, DPRINTF2(MSG)) STMT(DPRINTF3, DPRINTF3(MSG))
STMT(DPRINTF4, DPRINTF4(MSG)) STMT(DPRINTF5, DPRINTF5(MSG)) STMT(DPRINTF6, DPRINTF6(MSG))
VSTMT(ASSERT_hold, ASSERT(cond_hold())) VSTMT(ASSERT_fail, ASSERT(cond_fail()))
VSTMT(REQUIRE_hold, REQUIRE(cond_hold())) VSTMT(REQUIRE_fail, REQUIRE(cond_fail()))
STMT(ASSERT_RVAL_hold, ASSERT_RVAL(cond_hold(), 7)) STMT(ASSERT_RVAL_fail, ASSERT_RVAL(cond_fail(), 7))
STMT(REQUIRE_RVAL_hold, REQUIRE_RVAL(cond_hold(), 7)) STMT(REQUIRE_RVAL_fail, REQUIRE_RVAL(cond_fail(), 7))
VSTMT(ASSERT_fail_pct, ASSERT(pct_fail(total % s, n %d))) VSTMT(REQUIRE_fail_pct, REQUIRE(pct_fail(total % s, n %d)))
STMT(ASSERT_RVAL_fail_pct, ASSERT_RVAL(pct_fail(total % s, n %d), 7)) STMT(REQUIRE_RVAL_fail_pct, REQUIRE_RVAL(pct_fail(total % s, n %d), 7))
STMT(print_warning, libast_print_warning MSG) STMT(print_error, libast_print_error MSG)
STMT(dprintf, libast_dprintf MSG) STMT(fatal_error, libast_fatal_error MSG)

/* the asserted / required expression in every scalar type: truth value as C's !(x) sees it */
struct bf { unsigned f : 3; };
static struct bf bf_hold = { 4 }, bf_fail = { 0 };
static struct bf *hb(void) { counter++; return &bf_hold; }
static struct bf *fb(void) { counter++; return &bf_fail; }
#define TYPED(ty, CT, H, F) \
    static CT th_##ty(void) { counter++; return H; } \
    static CT tf_##ty(void) { counter++; return F; } \
    VSTMT(ASSERT_hold_##ty, ASSERT(th_##ty())) VSTMT(ASSERT_fail_##ty, ASSERT(tf_##ty())) \
    VSTMT(REQUIRE_hold_##ty, REQUIRE(th_##ty())) VSTMT(REQUIRE_fail_##ty, REQUIRE(tf_##ty())) \
    STMT(ASSERT_RVAL_hold_##ty, ASSERT_RVAL(th_##ty(), 7)) STMT(ASSERT_RVAL_fail_##ty, ASSERT_RVAL(tf_##ty(), 7)) \
    STMT(REQUIRE_RVAL_hold_##ty, REQUIRE_RVAL(th_##ty(), 7)) STMT(REQUIRE_RVAL_fail_##ty, REQUIRE_RVAL(tf_##ty(), 7))
TYPED(double, double, 0.5, 0.0)
TYPED(float, float, 0.25f, 0.0f)
TYPED(longdouble, long double, 0.001L, 0.0L)
TYPED(negdouble, double, -0.5, -0.0)
TYPED(longlong, long long, (1LL << 40), 0LL)
TYPED(pointer, void *, (void *) &total, NULL)
TYPED(bool, _Bool, 1, 0)
TYPED(uchar, unsigned char, 128, 0)
VSTMT(ASSERT_hold_bitfield, ASSERT(hb()->f)) VSTMT(ASSERT_fail_bitfield, ASSERT(fb()->f))
VSTMT(REQUIRE_hold_bitfield, REQUIRE(hb()->f)) VSTMT(REQUIRE_fail_bitfield, REQUIRE(fb()->f))
STMT(ASSERT_RVAL_hold_bitfield, ASSERT_RVAL(hb()->f, 7)) STMT(ASSERT_RVAL_fail_bitfield, ASSERT_RVAL(fb()->f, 7))
STMT(REQUIRE_RVAL_hold_bitfield, REQUIRE_RVAL(hb()->f, 7)) STMT(REQUIRE_RVAL_fail_bitfield, REQUIRE_RVAL(fb()->f, 7))

static struct { const char *name; int (*fn[4])(void); const char *text; const char *expr; } T[] = {
#define E(n, t) { #n, { f_##n##_alone, f_##n##_braced, f_##n##_then, f_##n##_loop }, t, NULL }
#define X(n, t, e) { #n, { f_##n##_alone, f_##n##_braced, f_##n##_then, f_##n##_loop }, t, e }
    E(D_OPTIONS, "PAYLOAD 42"), E(D_OBJ, "PAYLOAD 42"), E(D_CONF, "PAYLOAD 42"), E(D_MEM, "PAYLOAD 42"), E(D_STRINGS, "PAYLOAD 42"), E(D_PARSE, "PAYLOAD 42"),
    E(DPRINTF1, "PAYLOAD 42"), E(DPRINTF2, "PAYLOAD 42"), E(DPRINTF3, "PAYLOAD 42"), E(DPRINTF4, "PAYLOAD 42"), E(DPRINTF5, "PAYLOAD 42"), E(DPRINTF6, "PAYLOAD 42"),
    X(ASSERT_hold, "ASSERT failed", "cond_hold()"), X(ASSERT_fail, "ASSERT failed", "cond_fail()"),
    X(ASSERT_RVAL_hold, "ASSERT failed", "cond_hold()"), X(ASSERT_RVAL_fail, "ASSERT failed", "cond_fail()"),
    X(REQUIRE_hold, "REQUIRE failed", "cond_hold()"), X(REQUIRE_fail, "REQUIRE failed", "cond_fail()"),
    X(REQUIRE_RVAL_hold, "REQUIRE failed", "cond_hold()"), X(REQUIRE_RVAL_fail, "REQUIRE failed", "cond_fail()"),
    X(ASSERT_fail_pct, "ASSERT failed", "pct_fail(total % s, n %d)"), X(ASSERT_RVAL_fail_pct, "ASSERT failed", "pct_fail(total % s, n %d)"),
    X(REQUIRE_fail_pct, "REQUIRE failed", "pct_fail(total % s, n %d)"), X(REQUIRE_RVAL_fail_pct, "REQUIRE failed", "pct_fail(total % s, n %d)"),
    E(print_warning, "PAYLOAD 42"), E(print_error, "PAYLOAD 42"), E(dprintf, "PAYLOAD 42"), E(fatal_error, "PAYLOAD 42"),
#define TY(ty, h, f) \
    X(ASSERT_hold_##ty, "ASSERT failed", h), X(ASSERT_fail_##ty, "ASSERT failed", f), \
    X(ASSERT_RVAL_hold_##ty, "ASSERT failed", h), X(ASSERT_RVAL_fail_##ty, "ASSERT failed", f), \
    X(REQUIRE_hold_##ty, "REQUIRE failed", h), X(REQUIRE_fail_##ty, "REQUIRE failed", f), \
    X(REQUIRE_RVAL_hold_##ty, "REQUIRE failed", h), X(REQUIRE_RVAL_fail_##ty, "REQUIRE failed", f)
    TY(double, "th_double()", "tf_double()"), TY(float, "th_float()", "tf_float()"), TY(longdouble, "th_longdouble()", "tf_longdouble()"),
    TY(negdouble, "th_negdouble()", "tf_negdouble()"), TY(longlong, "th_longlong()", "tf_longlong()"),
    TY(pointer, "th_pointer()", "tf_pointer()"), TY(bool, "th_bool()", "tf_bool()"), TY(uchar, "th_uchar()", "tf_uchar()"),
    TY(bitfield, "hb()->f", "fb()->f"),
    { NULL, { NULL, NULL, NULL, NULL }, NULL, NULL }
};
static const char *CTX[] = { "alone", "braced", "then_true", "then_false", "loop2", NULL };

#include <fcntl.h>
#include <errno.h>
/* child side: make exactly one write on stderr fail (EAGAIN on a full non-blocking pipe), then give fd 2 back */
static int provoke_failed_write(int capture_fd) {
    int p[2], fl; char fill[4096];
    if (pipe(p)) return 0;
    fl = fcntl(p[1], F_GETFL); fcntl(p[1], F_SETFL, fl | O_NONBLOCK);
    memset(fill, 'f', sizeof(fill));
    while (write(p[1], fill, sizeof(fill)) > 0) ;
    while (write(p[1], fill, 1) > 0) ;
    dup2(p[1], 2);
    fputs("this write fails\n", stderr); fflush(stderr);
    dup2(capture_fd, 2);
    close(p[0]); close(p[1]);
    return ferror(stderr) != 0;
}

static char *make_big(size_t size) {          /* `size` bytes, no '%', no newline, position-dependent so that a shifted copy differs */
    char *b = (char *) malloc(size + 1); size_t k;
    for (k = 0; k < size; k++) b[k] = (char) ('A' + (k * 7 + k / 26) % 26);
    b[size] = 0;
    return b;
}

/* write-fault schedule on the diagnostic stream: stderr is replaced (in the child) by a cookie stream whose k-th write fails with
 * EINTR / EAGAIN before any byte, or accepts only half; every accepted piece goes to fd 2 behind a 0x1e separator */
#define _GNU_SOURCE_FOR_COOKIE 1
static int wf_k, wf_kind, wf_calls;              /* kind: 1 EINTR, 2 EAGAIN, 3 short */
static ssize_t wf_write(void *cookie, const char *b, size_t len) {
    (void) cookie;
    wf_calls++;
    if (wf_calls == wf_k) {
        if (wf_kind == 1) { errno = EINTR; return 0; }
        if (wf_kind == 2) { errno = EAGAIN; return 0; }
        len = len / 2;
        if (!len) { errno = EAGAIN; return 0; }
    }
    if (write(2, "\x1e", 1) < 0 || write(2, b, len) < 0) { }
    return (ssize_t) len;
}
static void install_fault_stream(void) {
    cookie_io_functions_t io = { NULL, wf_write, NULL, NULL };
    FILE *f = fopencookie(NULL, "w", io);
    if (f) { setvbuf(f, NULL, _IONBF, 0); stderr = f; }
}
/* "[<digits>]" time stamps differ between two runs of the same statement */
static void normalise(char *t) {
    char *r = t, *w = t;
    while (*r) {
        if (*r == '[' && r[1] >= '0' && r[1] <= '9') {
            char *q = r + 1;
            while (*q >= '0' && *q <= '9') q++;
            if (*q == ']') { *w++ = '['; *w++ = 'T'; *w++ = ']'; r = q + 1; continue; }
        }
        *w++ = *r++;
    }
    *w = 0;
}
extern spif_charptr_t libast_program_name;
static char clean_text[1 << 16]; static int clean_epoch = -1, clean_k = -1, epoch;

/* history 2: the statement runs inside a client atexit handler while the exit() of an earlier fatal error is in progress */
static int ax_k, ax_fn, ax_fd;
static void ax_handler(void) {
    int res[2];
    res[0] = T[ax_k].fn[ax_fn](); res[1] = 0;
    fflush(stderr);
    if (write(ax_fd, res, sizeof(res)) < 0) { }
}

static void run_cell(int k, int hist, int ctx, size_t size, int fk, int fkind, int quiet) {
    int ep[2], rp[2], status = 0, res[2] = { -1, -1 }, got = 0, text, count = 0, garbled = 0;
    static char buf[1 << 18], tmp[1 << 16]; size_t n = 0, total = 0; ssize_t c; pid_t pid;
    const char *cls, *ctl; char sig[32]; char *bigarg = make_big(size);
    if (pipe(ep) || pipe(rp)) { perror("pipe"); exit(2); }
    fflush(stdout);
    counter = 0; shared[1] = 0; ELSE_TAKEN = 0;
    pid = fork();
    if (pid < 0) { perror("fork"); exit(2); }
    if (pid == 0) {
        int v;
        close(ep[0]); close(rp[0]);
        dup2(ep[1], 2);
        setvbuf(stderr, NULL, _IONBF, 0);
        alarm(10);
        if (hist == 1) shared[1] = provoke_failed_write(ep[1]);
        if (hist == 3) {                      /* printing calls REFUSED for want of a program name (level 0: nothing is logged) */
            spif_charptr_t keep = libast_program_name; unsigned lv = libast_debug_level;
            libast_program_name = (spif_charptr_t) NULL; libast_debug_level = 0;
            libast_dprintf("refused %d\n", 1); libast_print_error("refused %d\n", 2); libast_print_warning("refused %d\n", 3);
            libast_program_name = keep; libast_debug_level = lv;
        }
        if (hist == 4) {                      /* the same statement once before, its output discarded; the process carries on */
            int nf = open("/dev/null", O_WRONLY);
            big = bigarg; outer = (ctx != 3);
            if (nf >= 0) { dup2(nf, 2); close(nf); }
            (void) T[k].fn[ctx == 0 ? 0 : (ctx == 1 ? 1 : (ctx == 4 ? 3 : 2))]();
            fflush(stderr);
            dup2(ep[1], 2);
            counter = 0; ELSE_TAKEN = 0;
        }
        if (fk) { wf_k = fk; wf_kind = fkind; wf_calls = 0; install_fault_stream(); }
        close(ep[1]);
        big = bigarg;
        outer = (ctx != 3);
        if (hist == 2) {
            ax_k = k; ax_fn = ctx == 0 ? 0 : (ctx == 1 ? 1 : (ctx == 4 ? 3 : 2)); ax_fd = rp[1];
            atexit(ax_handler);
            libast_fatal_error("FIRST\n");
            _exit(99);                        /* not reached */
        }
        v = T[k].fn[ctx == 0 ? 0 : (ctx == 1 ? 1 : (ctx == 4 ? 3 : 2))]();
        fflush(stderr);
        res[0] = v; res[1] = 0;
        if (write(rp[1], res, sizeof(res)) < 0) { }
        _exit(0);
    }
    close(ep[1]); close(rp[1]);
    while ((c = read(ep[0], tmp, sizeof(tmp))) > 0) {                   /* keep the first 256 KiB, drain the rest */
        size_t room = sizeof(buf) - 1 - n, take = (size_t) c < room ? (size_t) c : room;
        memcpy(buf + n, tmp, take); n += take;
        total += (size_t) c;
        if (total > (64u << 20)) { kill(pid, SIGKILL); break; }
    }
    buf[n] = 0;
    if (hist == 2) {                          /* the first fatal error's own line is not part of the observed statement */
        char *q = strstr(buf, "FATAL:  FIRST\n");
        if (q && q - buf < 200) { size_t cut = (size_t) (q - buf) + 14; memmove(buf, buf + cut, n - cut + 1); n -= cut; total -= cut; }
    }
    got = (read(rp[0], res, sizeof(res)) == (ssize_t) sizeof(res));
    close(ep[0]); close(rp[0]);
    waitpid(pid, &status, 0);
    if (!fk && hist == 0 && ctx == 0 && size == 0 && n < sizeof(clean_text)) {      /* fault-free reference of this statement here */
        memcpy(clean_text, buf, n + 1); normalise(clean_text); clean_epoch = epoch; clean_k = k;
    }
    if (quiet) { free(bigarg); return; }
    if (fk) {                                 /* every accepted piece must be a piece of the fault-free output */
        char *p = buf, *q; size_t w = 0;
        while (p < buf + n) {
            if (*p != 0x1e) { garbled = 1; break; }            /* bytes that did not come through the stream (a crash report) */
            q = memchr(p + 1, 0x1e, (size_t) (buf + n - p - 1));
            if (!q) q = buf + n;
            { char piece[4096]; size_t l = (size_t) (q - p - 1);
              if (l >= sizeof(piece)) l = sizeof(piece) - 1;
              memcpy(piece, p + 1, l); piece[l] = 0; normalise(piece);
              if (piece[0] && !strstr(clean_text, piece)) garbled = 1; }
            memmove(buf + w, p + 1, (size_t) (q - p - 1)); w += (size_t) (q - p - 1);
            p = q;
        }
        if (!garbled) { n = w; buf[n] = 0; total = n; }
    }
    if (total == 0) cls = "none";
    else if (strstr(buf, "FATAL:")) cls = "fatal";
    else if (strstr(buf, "Warning:")) cls = "warning";
    else if (strstr(buf, "Error:")) cls = "error";
    else cls = "debug";
    if (WIFSIGNALED(status)) { snprintf(sig, sizeof(sig), "signal:%d", WTERMSIG(status)); ctl = sig; }
    else if (!got) ctl = "exits";
    else ctl = (res[0] == 1000) ? "falls" : "returns";
    if (T[k].expr) {
        const char *q = buf;
        text = strstr(buf, T[k].text) != NULL && strstr(buf, T[k].expr) != NULL;
        while ((q = strstr(q, T[k].text)) != NULL) { count++; q++; }
    } else {                                    /* the complete message, byte for byte: "PAYLOAD 42 <size bytes>\n" */
        size_t need = strlen(T[k].text) + 1 + size + 1; char *msg = (char *) malloc(need + 1); const char *q = buf;
        snprintf(msg, need + 1, "%s %s\n", T[k].text, bigarg);
        text = strstr(buf, msg) != NULL;
        while ((q = strstr(q, msg)) != NULL) { count++; q += need; }
        free(msg);
    }
    printf("%c %s %s %lu out=%s eval=%d ctl=%s val=%d status=%d bytes=%lu text=%d count=%d else=%d ferr=%d garbled=%d fault=%d/%d\n",
           fk ? 'W' : (hist == 4 ? 'P' : (hist == 3 ? 'R' : (hist == 2 ? 'A' : (hist ? 'Y' : 'X')))), T[k].name,
           CTX[ctx], (unsigned long) size, cls, counter, ctl, got ? res[0] : -1, WIFEXITED(status) ? WEXITSTATUS(status) : -1,
           (unsigned long) total, text, count, ELSE_TAKEN, shared[1], garbled, fk, fkind);
    free(bigarg);
}

int main(int argc, char **argv) {
    FILE *f; char *text, *line, *save = NULL; long sz;
    if (argc < 2 || !(f = fopen(argv[1], "r"))) { fprintf(stderr, "usage: %s <scriptfile>\n", argv[0]); return 2; }
    /* the whole script is read first: a child that ends through exit() would otherwise rewind the shared file offset */
    fseek(f, 0, SEEK_END); sz = ftell(f); rewind(f);
    text = (char *) malloc((size_t) sz + 1);
    if (fread(text, 1, (size_t) sz, f) != (size_t) sz) { perror("read"); return 2; }
    text[sz] = 0;
    fclose(f);
    shared = (int *) mmap(NULL, 4096, PROT_READ | PROT_WRITE, MAP_SHARED | MAP_ANONYMOUS, -1, 0);
    if (shared == MAP_FAILED) { perror("mmap"); return 2; }
    setvbuf(stdout, NULL, _IOLBF, 0);
    printf("BUILD DEBUG=%d\n", (int) DEBUG);
    for (line = strtok_r(text, "\n", &save); line; line = strtok_r(NULL, "\n", &save)) {
        int k;
        if (line[0] == 'L' || line[0] == 'S') epoch++;
        if (line[0] == 'L') { libast_debug_level = (unsigned) atoi(line + 2); printf("L %u\n", libast_debug_level); }
        else if (line[0] == 'S') { int b = atoi(line + 2); printf("S %d %d\n", b, (int) libast_set_silent(b ? TRUE : FALSE)); }
        else if (line[0] == 'X' || line[0] == 'Y' || line[0] == 'A' || line[0] == 'R' || line[0] == 'P' || line[0] == 'W') {
            char nm[64], cx[32]; unsigned long size = 0; int ctx, fk = 0, fkind = 0;
            cx[0] = 0;
            if (sscanf(line + 2, "%63s %31s %lu %d %d", nm, cx, &size, &fk, &fkind) < 1) continue;
            if (!cx[0]) strcpy(cx, "alone");
            for (k = 0; T[k].name && strcmp(T[k].name, nm); k++) ;
            for (ctx = 0; CTX[ctx] && strcmp(CTX[ctx], cx); ctx++) ;
            if (!T[k].name || !CTX[ctx]) { printf("X %s unknown\n", line + 2); continue; }
            if (line[0] == 'W') {
                if (clean_epoch != epoch || clean_k != k) run_cell(k, 0, 0, 0, 0, 0, 1);      /* the fault-free reference first */
                run_cell(k, 0, ctx, 0, fk, fkind, 0);
            } else
                run_cell(k, line[0] == 'P' ? 4 : (line[0] == 'R' ? 3 : (line[0] == 'A' ? 2 : (line[0] == 'Y'))), ctx, (size_t) size, 0, 0, 0);
        }
    }
    free(text);
    printf("DONE\n");
    return 0;
}
