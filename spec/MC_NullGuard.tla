------------------------------ MODULE MC_NullGuard ------------------------------
EXTENDS NullGuard
ObsEmit(op, args, ret, post) ==
    PrintT(ToJson([pre |-> Pre, op |-> op, args |-> args, ret |-> ret, post |-> post]))
================================================================================
