---------------------------- MODULE MC_UsageLayout ----------------------------
EXTENDS UsageLayout
ObsEmit(nm, opts, lines) == PrintT(ToJson([op |-> "usage", nm |-> nm, opts |-> opts, lines |-> lines]))
ObsNone(nm, opts, lines) == TRUE
NamesQuick == {<<"prog", "1.0">>}
NamesThorough == {<<"prog", "1.0">>, <<"a-much-longer-program-name", "">>}
================================================================================
