#!/usr/bin/env python3
"""Generates spec/MC_OptParse.tla (the bounded model of OptParse.tla) from readable definitions:
the two option tables and the token alphabet.  Run:  python3 spec/gen_mc_optparse.py  (writes next to itself).
Texts become sequences of character codes; the harness receives the same tables from TLC's header line, so
this file is the single place where they are defined."""
import os

# ---- option tables: (short, long, kind, pre-parse, bit, deprecated) ---------------------------------------
T1 = [  # modelled on test_options/opts1: everything in the normal pass except -v
    ("a", "agony", "bool", False, 0, False),
    ("b", "bogus", "bool", False, 1, False),
    ("",  "dill",  "bool", False, 3, False),      # long-only
    ("e", "exec",  "args", False, 0, False),
    ("f", "file",  "str",  False, 0, False),
    ("n", "num",   "int",  False, 0, False),
    ("v", "verb",  "bool", True,  4, False),
    ("t", "theme", "abst", False, 0, False),
    ("k", "kount", "cnt",  False, 0, False),
    ("",  "color", "int",  False, 0, False),      # long-only
]
T2 = [  # modelled on opts2: long-only value option first, value options in the pre-parse pass, one deprecated;
        # prefix-related long names in both orders: colormap before color (longer first), num before numeric
    ("",  "colormap", "str", False, 0, False),
    ("",  "color", "int",  False, 0, False),
    ("f", "file",  "str",  True,  0, False),
    ("e", "exec",  "args", True,  0, False),
    ("a", "agony", "bool", True,  0, False),
    ("b", "bogus", "bool", False, 1, True),
    ("t", "theme", "abst", True,  0, False),
    ("",  "dill",  "bool", False, 3, False),
    ("n", "num",   "int",  False, 0, False),
    ("v", "verb",  "bool", False, 4, False),
    ("",  "numeric", "int", False, 0, False),
]
# table 3: the modifier lattice.  Every subset of the modifier bits {PREPARSE, DEPRECATED, ARRAY} on the kinds for which
# ARRAY has no bearing on the value (boolean, abstract - "entirely client-handled" says the header), every subset of
# {PREPARSE, DEPRECATED} on the value kinds (an ARRAY of values is documented but has no implementation and no defined
# target layout: not in the universe).  Tuples: (short, long, kind, pre-parse, bit, deprecated, array)
def _lattice():
    t = []
    letters = iter("ABCDEFGHIJKLMNOPQRSTUVWXYZyw")
    bit = 8
    for kind, with_arr in (("bool", True), ("int", False), ("str", False), ("args", False), ("abst", True)):
        for arr in ((False, True) if with_arr else (False,)):
            for dep in (False, True):
                for pp in (False, True):
                    c = next(letters)
                    t.append((c, "l" + c.lower() + ("x" if c.islower() else ""), kind, pp, bit if kind == "bool" else 0, dep, arr))
                    if kind == "bool":
                        bit += 1
    return t
T3 = _lattice()
TABLES = [T1, T2, T3]

# ---- token alphabet ------------------------------------------------------------------------------------------
TOKENS = [
    "x", "on", "0", "7",                       # 1-4   plain word, boolean words, integer
    "-a", "-ab", "-bf", "-n7", "-f", "-n",     # 5-10  flag, bundle, bundle ending in a value option, attached, next value
    "--agony", "--agony=0", "--file=x", "--num",   # 11-14
    "-e", "--exec=x 7", "--exec='x 7' y", "--exec=",   # 15-18 argument lists
    "-t", "--theme=x", "-tx",                  # 19-21 abstract
    "-z", "-az", "--zap", "-", "--",           # 22-26 unknown, lone dash
    "--dill", "-v", "-k", "--color=7", "--exec", "--file=", "-vb", "--verb",   # 27-34
    "-ex",                                     # 35 argument list with attached first word
]
FULL = list(TOKENS)                            # the general alphabet (all pairs in both tiers, sampling)
# all triples (thorough2): the general alphabet without seven spellings whose reading is local and covered by the pairs
# and by the boolean family
FULL3 = [t for t in FULL if t not in ("--agony=0", "--file=", "--verb", "-vb", "--color=7", "0", "--")]
# family: every boolean word the code accepts (and two case variants), bare and =attached to a long boolean
BOOLWORDS = ["1", "on", "yes", "true", "0", "off", "no", "false", "ON", "False"]
BOOLFAM = ["x", "-a", "--agony", "--Agony"] + BOOLWORDS + ["--agony=" + w for w in BOOLWORDS]
# family: long names that are prefixes of each other / of the typed name (table 2: colormap, color, num, numeric)
PREFIXFAM = ["x", "7", "--num", "--numeric", "--num=7", "--numeric=7", "--numx=7", "--nu=7", "--color=7", "--colormap=x",
             "--colorm=7"]
# family: one spelling per option of the lattice table
LATTICEFAM = ["x", "7"] + ["-" + o[0] + {"bool": "", "int": "7", "str": "x", "args": "", "abst": "x"}[o[2]] for o in T3]
# family: call histories (3+ calls over the same argv): removed / kept / unknown / abstract words
HISTFAM = ["x", "-ab", "-n7", "-t", "-z"]
HISTFAMQ = ["x", "-ab", "-t", "-z"]            # quick tier
for _t in BOOLFAM + PREFIXFAM + LATTICEFAM + HISTFAM:
    if _t not in TOKENS:
        TOKENS.append(_t)
CORE = ["x", "on", "7", "-ab", "-bf", "-n7", "--agony", "--file=x", "--num",
        "-e", "--exec=x 7", "-t", "-z", "-v", "-ex"]     # 15 tokens for N=3 (quick); "-" and =WORD are in quick2 / the boolean family
CORE4 = ["x", "on", "-ab", "-bf", "-n7", "--agony", "--num", "-e", "-t", "-z", "-v"]   # 11 tokens for N=4 (thorough); "--num 7" is read at N<=3


def codes(s):
    return "<<" + ", ".join(str(ord(c)) for c in s) + ">>"


def opt(o):
    sh, lg, kind, pp, bit, dep = o[:6]
    arr = o[6] if len(o) > 6 else False
    return '[sh |-> %d, lg |-> %s, kind |-> "%s", pp |-> %s, bit |-> %d, dep |-> %s, arr |-> %s]' % (
        ord(sh) if sh else 0, codes(lg), kind, "TRUE" if pp else "FALSE", bit, "TRUE" if dep else "FALSE",
        "TRUE" if arr else "FALSE")


def idxset(names, table):
    out = []
    for n in names:
        out.append(TOKENS.index(n) + 1)
    return "{" + ", ".join(str(x) for x in sorted(out)) + "}"


def main():
    L = []
    L.append("------------------------------ MODULE MC_OptParse ------------------------------")
    L.append("(* GENERATED by spec/gen_mc_optparse.py - do not edit by hand.                                   *)")
    L.append("(* Bounded model of OptParse: the option tables, the token alphabet, the scopes and the emitter. *)")
    L.append("EXTENDS OptParse, Json")
    L.append("")
    for n, t in enumerate(TABLES, 1):
        L.append("Table%d == <<" % n)
        L.append(",\n".join("    " + opt(o) for o in t))
        L.append(">>")
    L.append("MCTables == <<" + ", ".join("Table%d" % (n + 1) for n in range(len(TABLES))) + ">>")
    L.append("")
    L.append("MCTokText == <<")
    L.append(",\n".join("    %s" % codes(t) for t in TOKENS))
    L.append(">>")
    L.append("\\* " + "  ".join("%d:%s" % (k + 1, t.replace(" ", "_")) for k, t in enumerate(TOKENS)))
    L.append("TokFull == <<%s, %s, %s>>" % ((idxset(FULL, T1),) * 3))
    L.append("TokFull3 == <<%s, %s, %s>>" % ((idxset(FULL3, T1),) * 3))
    L.append("TokBool == <<%s, %s, %s>>" % ((idxset(BOOLFAM, T1),) * 3))
    L.append("TokPrefix == <<%s, %s, %s>>" % ((idxset(PREFIXFAM, T1),) * 3))
    L.append("TokCore == <<%s, %s, %s>>" % ((idxset(CORE, T1),) * 3))
    L.append("TokCore4 == <<%s, %s, %s>>" % ((idxset(CORE4, T1),) * 3))
    L.append("TokLattice == <<%s, %s, %s>>" % ((idxset(LATTICEFAM, T1),) * 3))
    L.append("TokHist == <<%s, %s, %s>>" % ((idxset(HISTFAM, T1),) * 3))
    L.append("TokHistQ == <<%s, %s, %s>>" % ((idxset(HISTFAMQ, T1),) * 3))
    L.append("TS12 == {1, 2}")
    L.append("TS1  == {1}")
    L.append("TS3  == {3}")
    L.append('Settings == SUBSET {"PRE", "REM"}')
    L.append("\\* the four usual histories: one normal pass, with or without removal; pre-parse pass + normal pass")
    L.append('HistCanon == { <<{}>>, <<{"REM"}>>, <<{"PRE"}, {}>>, <<{"PRE", "REM"}, {"REM"}>> }')
    L.append("\\* every history of 3 (4) calls with every settings combination per call")
    L.append("Hist3 == [1 .. 3 -> Settings]")
    L.append("Hist4 == [1 .. 4 -> Settings]")
    owned = {0, 1, 3, 4}
    f1 = sorted({1} | {b for b in range(64) if b not in owned})                 # every foreign bit 1
    f2 = sorted({1} | {b for b in range(64) if b not in owned and b % 2 == 0})  # foreign bits alternate 1/0
    owned3 = {o[4] for o in T3 if o[2] == "bool"}
    f3 = sorted({min(owned3) + 1} | {b for b in range(64) if b not in owned3 and b % 2 == 1})
    L.append("\\* bit 1 (-b) starts set; the bits no option owns (2, 5..63 of the unsigned long) are all ones in table 1,")
    L.append("\\* alternating in tables 2 and 3, so a stray set AND a stray clear are both visible, also above bit 31")
    L.append("MCFlags0 == <<{%s},\n             {%s},\n             {%s}>>" % (
        ", ".join(map(str, f1)), ", ".join(map(str, f2)), ", ".join(map(str, f3))))
    L.append("MCInt0   == 5")
    L.append("")
    L.append("\\* one JSON line per finished behaviour; the header line hands tables and initial values to the harness")
    L.append("EmitJson(r) == PrintT(ToJson(r))")
    L.append("ASSUME PrintT(ToJson([header |-> TRUE, tables |-> MCTables, toktext |-> MCTokText, nfull |-> %d, flags0 |-> MCFlags0, int0 |-> MCInt0]))" % len(FULL))
    L.append("================================================================================")
    here = os.path.dirname(os.path.abspath(__file__))
    with open(os.path.join(here, "MC_OptParse.tla"), "w") as f:
        f.write("\n".join(L) + "\n")


if __name__ == "__main__":
    main()
