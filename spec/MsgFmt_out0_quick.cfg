SPECIFICATION Spec
CONSTANTS
  Names <- NamesOne
  Vers = {}
  Msgs <- MsgsFew
  MacroMsgs <- MacroMsgsQuick
  Levels <- LevelsQuick
  Clocks <- ClocksQuick
  Sites <- SitesOne
  Macros <- MacrosAll
  D = 0
  Extras = TRUE
  AsBuilt = FALSE
  Obs <- ObsEmit
INVARIANTS TypeOK OwnershipSound NoLeak NoNullDeref NoUseAfterFree NoRecursion SetIdempotent SilentWritesNothing PrefixLaw GateLaw ControlLaw FormatLaws MacroFormats
CHECK_DEADLOCK FALSE
