------------------------------ MODULE MC_MBuffObj ------------------------------
(* Bounded models of MBuffObj for TLC (negative literals and tuples are easier here than in a .cfg) *)
(* and the edge emitter: one JSON line per generated transition.                                   *)
EXTENDS MBuffObj

\* quick: 3 byte values incl. NUL, white space and a high-bit byte; A <= 4 bytes, B <= 2 bytes
BytesQuick   == {0, 32, 233}
TextsQuick   == {<<>>, <<233>>, <<32, 0>>, <<0, 233, 32>>}
TextsBQuick  == {<<>>, <<233>>, <<0, 32>>}
IdxQuick     == -6 .. 6
CntQuick     == -2 .. 5
NCntQuick    == 0 .. 5

\* thorough: 4 byte values, longer argument texts, wider index/count ranges
BytesThorough  == {0, 32, 97, 233}
TextsThorough  == {<<>>, <<97>>, <<233, 0>>, <<32, 97>>, <<0, 233, 32>>, <<97, 32, 97, 0>>}
TextsBThorough == {<<>>, <<97>>, <<0, 32>>, <<233, 97>>}
IdxThorough    == -6 .. 6
CntThorough    == -5 .. 6
NCntThorough   == 0 .. 5

\* thorough, second scope: 3 byte values, buffers up to 5 bytes, a one-byte B, indices/counts further out
TextsLen5    == {<<>>, <<233>>, <<32, 0>>, <<0, 233, 32>>, <<233, 0, 0, 32, 233>>}
TextsBLen5   == {<<>>, <<0>>, <<233>>}
IdxLen5      == -7 .. 7
CntLen5      == -3 .. 7
NCntLen5     == 0 .. 6

ObsEmit(op, args, ret, anyret, post) ==
    PrintT(ToJson([pre |-> Pre, op |-> op, args |-> args, ret |-> IF anyret THEN "*" ELSE ret, post |-> post]))
================================================================================
