SPECIFICATION TraceSpec
CONSTANTS
  Parts <- NoPartsT
  Texts <- NoTextsT
  Lookups <- NoTextsT
  WithBuild = TRUE
  Obs <- ObsTrace
POSTCONDITION TraceAccepted
CHECK_DEADLOCK FALSE
