#!/bin/sh
# usage: mkseed2.sh <ID>  -- second-round seeding worktree /tmp/seed2-<ID> + out dir with PROPERTY.txt and AVOID.txt
ID=$1
git -C /repo worktree add -q /tmp/seed2-$ID HEAD || exit 1
rsync -a --ignore-existing --exclude .git /repo/ /tmp/seed2-$ID/
(cd /tmp/seed2-$ID && touch src/*.c && make -j4 >/dev/null 2>&1 && make -C test libast-test >/dev/null 2>&1)
mkdir -p /tmp/seed2-$ID-out
python3 - $ID <<'PY'
import json,sys,glob,re
ID=sys.argv[1]
for l in open('/verif/properties.jsonl'):
    d=json.loads(l)
    if d['id']==ID:
        open('/tmp/seed2-%s-out/PROPERTY.txt'%ID,'w').write("%s: %s\n\nStatement: %s\n\nQuantifier: %s\n\nSource files it is anchored in: %s\n" % (d['id'], d['title'], d['statement'], d['quantifier']['text'], ", ".join(d['anchors']['files'])))
out=[]
for f in sorted(glob.glob('/verif/seeded/%s-*/meta.json'%ID)):
    m=json.load(open(f)); out.append("- "+re.sub(r"\s+"," ",str(m.get('summary','')))[:400])
open('/tmp/seed2-%s-out/AVOID.txt'%ID,'w').write("Bugs of these kinds were already tried in an earlier round; do something different in kind and location:\n"+"\n".join(out)+"\n")
PY
echo "ready /tmp/seed2-$ID"
