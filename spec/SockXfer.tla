-------------------------------- MODULE SockXfer --------------------------------
(* C19, transfer half (mechanism level): one payload of Len bytes goes through spif_socket_send on the      *)
(* client and is collected by spif_socket_recv on the accepted peer (the descriptor reader of str.c).       *)
(* The loops are modelled the way the code runs them, one action per system call; bytes are counted, not     *)
(* enumerated (the harness uses payload bytes 1..255 cyclically, so any displacement of the cursor shows).   *)
(*                                                                                                           *)
(* Environment: for the first KW write calls one of  ok (everything asked for) | sh n (short: 1, half,       *)
(* all-1) | ei (EINTR) | ea (EAGAIN);  for the first KR read calls  ok | sh n | ei.  Later calls are benign. *)
(* Long transfers: instead of choosing the first K outcomes freely, the environment may follow a cyclic PATTERN     *)
(* for the whole transfer (wp for write calls, rp for read calls; <<>> = no pattern), e.g. <<sh 5, ei>> = "5 bytes,     *)
(* then an interrupted call" over and over: hundreds of faults spread over one transfer.  The properties do not         *)
(* depend on the size.                                                                                                  *)
(* Setting up the pair: listener and client are made from the same URL; each builds its sockaddr_un from the URL's    *)
(* path (plen characters; 0 = the driver's short default path) by the same rule - a path longer than sun_path is cut     *)
(* to SunPathMax characters, never extended - so both ends name the same socket and the pair is established whatever     *)
(* the length (PairEstablished).  The kernel name is observable (getsockname / the file on disk) and is compared.        *)
(* The client has sent everything before the peer starts reading (single-threaded driver); the peer's last    *)
(* read returns 0 (mode "eof": the client was closed) or fails with EAGAIN (mode "nbio").                    *)
(*                                                                                                           *)
(* SendMech / RecvMech select the mechanism:  "asbuilt" = the loops of the pinned tree (TLC finds "short     *)
(* write accepted as complete", the EINTR arithmetic, the stale cursor and the stale-errno spin by itself -   *)
(* cfg SockXfer_asbuilt*.cfg, expected to FAIL), "repaired" = the loops as repaired; the conformance runs     *)
(* use "repaired" to predict every schedule's outcome.                                                        *)
EXTENDS Integers, Sequences, TLC, Json

CONSTANTS Lens,        \* payload lengths
          Modes,       \* subset of {"eof", "nbio"}
          KW, KR,      \* number of leading write / read calls whose outcome the environment chooses
          WPats, RPats,   \* cyclic outcome patterns offered for a whole transfer; {<<>>} = none (free choice of the first K)
          PathLens,    \* lengths of the socket path (0 = default)
          SunPathMax,  \* longest name sun_path can hold (sizeof(sun_path) - 1 = 107)
          QueueCap,    \* writes the socket can hold unread (the driver is single-threaded: nobody reads while the client sends)
          Chunk,       \* read chunk of the descriptor reader (4096)
          SendMech, RecvMech,
          Obs(_)       \* observation of a completed behaviour

VARIABLES ph,          \* "setup" | "send" | "recv" | "done" ("nopair": the two ends named different sockets)
          plen,        \* length of the URL's path
          lname, cname,   \* length of the name the listener bound / the client connected to (-1 = not yet)
          len, mode,
          off,         \* sender: bytes accepted by the kernel so far (repaired loop: the offset it continues from)
          retries,     \* sender: back-off sleeps taken
          wcalls, sret,
          chan,        \* bytes in the socket: written and not yet read
          bufsz, cur, total,   \* receiver: allocation size, cursor (offset of p in the block it points into), bytes stored
          stale,       \* receiver: p points into a block that realloc has released
          errno,       \* receiver: errno as left by the last FAILING call ("none" | "EINTR" | "EAGAIN")
          spin,        \* receiver: the loop went on after read() returned 0
          rcalls, rlen,
          hw, hr,      \* the schedule of this behaviour: outcomes of the scheduled calls, in order
          wp, rp       \* the cyclic patterns of this behaviour (<<>> = none)
vars == <<plen, lname, cname, ph, len, mode, off, retries, wcalls, sret, chan, bufsz, cur, total, stale, errno, spin, rcalls, rlen, hw, hr, wp, rp>>

Min(x, y) == IF x < y THEN x ELSE y
\* the short counts offered for a call that could move r bytes: 1, half, all but one
Shorts(r) == {n \in {1, r \div 2, r - 1} : n >= 1 /\ n < r}

\* number of write calls that carry data when pattern p is followed for l bytes
DataWrites(l, p) == LET sh == {p[i][2] : i \in {j \in 1 .. Len(p) : p[j][1] = "sh"}} IN
                    IF sh = {} THEN 1 ELSE (l \div (CHOOSE m \in sh : \A k \in sh : m <= k)) + 1
\* C: the name handed to the kernel is the path, cut to what sun_path holds
KName(l) == Min(l, SunPathMax)
Init == /\ len \in Lens /\ mode \in Modes /\ wp \in WPats /\ rp \in RPats /\ plen \in PathLens
        /\ (wp # <<>> => DataWrites(len, wp) <= QueueCap)
        /\ lname = -1 /\ cname = -1
        /\ ph = "setup" /\ off = 0 /\ retries = 0 /\ wcalls = 0 /\ sret = FALSE /\ chan = 0
        /\ bufsz = Chunk /\ cur = 0 /\ total = 0 /\ stale = FALSE /\ errno = "none" /\ spin = FALSE
        /\ rcalls = 0 /\ rlen = 0 /\ hw = <<>> /\ hr = <<>>

------------------------------------------------------------------------------------------
(* setup: bind() + listen() of the listener, connect() of the client, accept() *)
Setup == /\ ph = "setup"
         /\ lname' = KName(plen) /\ cname' = KName(plen)
         /\ ph' = IF KName(plen) = KName(plen) THEN "send" ELSE "nopair"
         /\ UNCHANGED <<plen, len, mode, off, retries, wcalls, sret, chan, bufsz, cur, total, stale, errno, spin, rcalls, rlen, hw, hr, wp, rp>>

(* sender: one action per write() call *)
\* what the call asks for: the as-built loop always offers the whole payload again, the repaired one the rest
WReq == IF SendMech = "asbuilt" THEN len ELSE len - off
\* outcomes the environment may choose for this call
WOutcomes == IF wp # <<>>
             THEN LET e == wp[(wcalls % Len(wp)) + 1] IN        \* pattern entry: ei | ea | ok | sh n (at most n bytes)
                  {IF e[1] \in {"ei", "ea"} THEN e ELSE IF e[1] = "sh" THEN <<"sh", Min(e[2], WReq)>> ELSE <<"ok", WReq>>}
             ELSE IF wcalls < KW
             THEN {<<"ok", WReq>>, <<"ei", 0>>, <<"ea", 0>>} \cup {<<"sh", n>> : n \in Shorts(WReq)}
             ELSE {<<"ok", WReq>>}
SendCall(o) ==
    /\ ph = "send" /\ o \in WOutcomes
    /\ wcalls' = wcalls + 1
    /\ hw' = IF wp = <<>> /\ wcalls < KW THEN Append(hw, o) ELSE hw
    /\ IF o[1] \in {"ei", "ea"}
       THEN \* both mechanisms: sleep a little longer each time and try again
            /\ retries' = retries + 1
            /\ UNCHANGED <<ph, off, sret, chan>>
       ELSE /\ retries' = retries
            /\ chan' = chan + o[2]
            /\ off' = off + o[2]
            /\ IF SendMech = "asbuilt"
               THEN \* AS BUILT: any count >= 0 ends the call with success
                    /\ sret' = TRUE /\ ph' = "recv"
               ELSE \* REPAIRED: carry on behind the bytes the kernel took until nothing is left
                    /\ sret' = (off + o[2] = len)
                    /\ ph' = IF off + o[2] = len THEN "recv" ELSE "send"
    /\ UNCHANGED <<plen, lname, cname, len, mode, bufsz, cur, total, stale, errno, spin, rcalls, rlen, hr, wp, rp>>

------------------------------------------------------------------------------------------
(* receiver: one action per read() call; every call asks for Chunk bytes at the cursor *)
Avail == Min(chan, Chunk)
ROutcomes == IF rp # <<>>
             THEN LET e == rp[(rcalls % Len(rp)) + 1] IN
                  {IF e[1] = "ei" THEN e ELSE IF chan = 0 THEN <<"end", 0>>
                   ELSE IF e[1] = "sh" THEN <<"sh", Min(e[2], Avail)>> ELSE <<"ok", Avail>>}
             ELSE IF rcalls < KR
             THEN (IF chan > 0 THEN {<<"ok", Avail>>} \cup {<<"sh", n>> : n \in Shorts(Avail)} ELSE {<<"end", 0>>})
                  \cup {<<"ei", 0>>}
             ELSE (IF chan > 0 THEN {<<"ok", Avail>>} ELSE {<<"end", 0>>})
\* the loop is over: what the object reports as its length
Finish(l) == /\ ph' = "done" /\ rlen' = l
RecvCall(o, moved) ==
    /\ ph = "recv" /\ o \in ROutcomes
    /\ rcalls' = rcalls + 1
    /\ hr' = IF rp = <<>> /\ rcalls < KR THEN Append(hr, o) ELSE hr
    /\ IF RecvMech = "asbuilt"
       THEN \* AS BUILT:  for (p = s; (n = read(fd, p, 4096)) > 0 || errno == EINTR;) { size += n; s = REALLOC(s, size); p += n; }
            \*            len = size - 4096
            CASE o[1] \in {"ok", "sh"} ->
                   /\ chan' = chan - o[2] /\ total' = total + o[2]
                   /\ bufsz' = bufsz + o[2] /\ cur' = cur + o[2]
                   /\ stale' = (stale \/ moved)                        \* p is not re-derived from the new block
                   /\ UNCHANGED <<errno, spin, ph, rlen>>
              [] o[1] = "ei" ->
                   /\ bufsz' = bufsz - 1 /\ cur' = cur - 1 /\ errno' = "EINTR"      \* n = -1 is added like a byte count
                   /\ stale' = (stale \/ moved)
                   /\ UNCHANGED <<chan, total, spin, ph, rlen>>
              [] o[1] = "end" ->
                   \* mode eof: read() == 0 and errno is whatever an earlier failing call left; mode nbio: -1 / EAGAIN
                   LET e == IF mode = "nbio" THEN "EAGAIN" ELSE errno IN
                   /\ errno' = e
                   /\ IF e = "EINTR"
                      THEN /\ spin' = TRUE /\ UNCHANGED <<ph, rlen>>               \* the condition still holds: read again
                      ELSE /\ Finish(bufsz - Chunk) /\ UNCHANGED spin
                   /\ UNCHANGED <<chan, total, cur, stale, bufsz>>
       ELSE \* REPAIRED: the cursor is an offset (re-derived from the block after every reallocation), advanced only by
            \*           bytes actually read; errno is looked at only when the call failed
            CASE o[1] \in {"ok", "sh"} ->
                   /\ chan' = chan - o[2] /\ total' = total + o[2]
                   /\ cur' = cur + o[2] /\ bufsz' = total + o[2] + Chunk
                   /\ UNCHANGED <<stale, errno, spin, ph, rlen>>
              [] o[1] = "ei" ->
                   /\ errno' = "EINTR" /\ UNCHANGED <<chan, total, cur, bufsz, stale, spin, ph, rlen>>
              [] o[1] = "end" ->
                   /\ Finish(total)
                   /\ errno' = IF mode = "nbio" THEN "EAGAIN" ELSE errno
                   /\ UNCHANGED <<chan, total, cur, bufsz, stale, spin>>
    /\ UNCHANGED <<plen, lname, cname, len, mode, off, retries, wcalls, sret, hw, wp, rp>>

Done == /\ ph = "done"
        /\ Obs([plen |-> plen, name |-> lname, len |-> len, mode |-> mode, w |-> hw, r |-> hr, wp |-> wp, rp |-> rp, send |-> sret, rlen |-> rlen,
                wcalls |-> wcalls, rcalls |-> rcalls, retries |-> retries])
        /\ UNCHANGED vars

Next == \/ Setup
        \/ \E o \in WOutcomes : SendCall(o)
        \/ \E o \in ROutcomes : \E moved \in (IF RecvMech = "asbuilt" THEN BOOLEAN ELSE {FALSE}) : RecvCall(o, moved)
        \/ Done
Spec == Init /\ [][Next]_vars

------------------------------------------------------------------------------------------
(* properties *)
TypeOK == /\ ph \in {"setup", "send", "recv", "done", "nopair"} /\ off \in 0 .. len /\ chan \in 0 .. len
          /\ wcalls >= 0 /\ rcalls >= 0 /\ retries <= wcalls
\* both ends name the same socket: the pair is established for every path length
PairEstablished == /\ ph # "nopair"
                   /\ (ph # "setup" => (lname = cname /\ lname <= SunPathMax /\ (plen <= SunPathMax => lname = plen)))
\* every read() writes inside the block the object owns
CursorInsideBuffer == (ph = "recv") => (~stale /\ cur >= 0 /\ cur + Chunk <= bufsz)
\* there is always room for a full chunk behind the data already stored
SizeNeverShrinksBelowData == (ph = "recv") => bufsz >= total + Chunk
\* the cursor stands right behind the data: nothing is overwritten, no gap is left
CursorTracksData == (ph = "recv") => cur = total
\* read() == 0 ends the loop
EofEndsLoop == ~spin
\* the sender reports success only when the kernel has taken every byte
SendCompleteMeansAll == (ph \notin {"setup", "send"}) => (sret /\ off = len)
\* at completion: received = sent
ReceivedEqualsSent == (ph = "done") => (sret /\ total = len /\ rlen = len /\ chan = 0)
\* every schedule runs to completion within the obvious call budget (no livelock)
CallBudget == /\ wcalls <= KW + (len + 1) * (Len(wp) + 1)
              /\ rcalls <= KR + (len + 1) * (Len(rp) + 1) + 1
================================================================================
