SPECIFICATION Spec
CONSTANTS
  NK = 3
  NV = 2
  Shades = 1
  BDepth = 4
  Obs <- ObsEmit
INVARIANTS TypeOK SortedNoDup GetAfterSet RemoveOnce FillLaw ExactValueLaw IterLaw
PROPERTIES MutatorsOnly SlotsIndependent DupIsEqual
CHECK_DEADLOCK FALSE
