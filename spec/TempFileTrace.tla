------------------------------ MODULE TempFileTrace ------------------------------
(* Trace validation for X04 / TempFile: every recorded call (operation, arguments, observed result, projected state) must be *)
(* a step of TempFile.  env TRACE names the ndjson file; {"op":"reset"} starts a new execution.                               *)
EXTENDS TempFile, IOUtils
VARIABLE l
Tr == ndJsonDeserialize(IOEnv.TRACE)
ObsTrace(op, args, ret, post) ==
    /\ op = Tr[l].op /\ args = Tr[l].args /\ ret = Tr[l].ret /\ post = Tr[l].post
TraceInit == Init /\ l = 1
ev == Tr[l]
TraceStep ==
    /\ l <= Len(Tr)
    /\ l' = l + 1
    /\ \/ ev.op = "reset" /\ tmpdir' = "unset" /\ tmp' = "unset" /\ umask' = 18 /\ level' = 0 /\ live' = <<>>
       \/ ev.op = "temp_file" /\ OpTempFile(ev.args[1], ev.args[3], ev.args[4])
       \/ ev.op = "temp_file_zero" /\ OpTempFileZero(ev.args[1])
       \/ ev.op = "remove" /\ OpRemove(ev.args[1])
       \/ ev.op = "set_env" /\ OpSetEnv(ev.args[1], ev.args[2])
       \/ ev.op = "set_umask" /\ OpUmask(ev.args[1])
       \/ ev.op = "set_level" /\ OpSetLevel(ev.args[1])
TraceSpec == TraceInit /\ [][TraceStep]_<<vars, l>>
TraceAccepted == \/ TLCGet("stats").diameter - 1 = Len(Tr)
                 \/ PrintT(<<"TRACE_REJECTED_AFTER", TLCGet("stats").diameter - 1, "OF", Len(Tr)>>) /\ FALSE
===============================================================================
