-------------------------------- MODULE SockLife --------------------------------
(* C19, lifecycle half (mechanism level): descriptor ownership of libast socket objects across any history   *)
(* of open / accept / send / recv / close / dup / delete, including failed opens, accepts and sends.         *)
(*                                                                                                           *)
(* Objects (slots): lis - listener made from a local URL; cli - client made from a remote URL; acc - the      *)
(* object returned by accept; cp - one copy (spif_socket_dup) of any of them.                                *)
(* Kernel side: desc maps every descriptor the library has open to the socket it refers to (a socket stays    *)
(* alive while some descriptor refers to it); lsock is the socket bound to the path (lstn: which sockets listen); pend   *)
(* its queue of not yet accepted connections; conn records, per client socket, its listener, its accepted      *)
(* peer and the bytes in flight in both directions.  This ghost part decides which calls succeed for real;     *)
(* failures are injected at the named system call (the interposed call fails without reaching the kernel).     *)
(*                                                                                                           *)
(* Mech = "repaired": what the property demands (and the repaired code does).  Mech = "asbuilt": the pinned    *)
(* tree - accept leaves the duplicate of the listener's descriptor open, a send failing with an error other    *)
(* than EPIPE/EIO forgets the descriptor without closing it; TLC then refutes NoOrphanDescriptor by itself     *)
(* (SockLife_asbuilt.cfg, expected to FAIL).                                                                  *)
EXTENDS Integers, Sequences, FiniteSets, TLC, Json

CONSTANTS MaxD,       \* descriptors 1..MaxD (the lowest free one is handed out, like the kernel does)
          MaxS,       \* bound on the number of sockets ever created (model bound)
          MaxMsgs,    \* bound on messages in flight per direction (model bound)
          Mech,
          NbSlots,    \* slots on which set_nbio / clear_nbio are offered (model bound: {} = the mode dimension is switched off)
          Outs,       \* outcomes offered (model bound: lets a configuration leave out the injected failures)
          RecvToggles,\* TRUE: recv is offered as the driver's  set_nbio ; recv ; clear_nbio  (op "recvt") on any descriptor;
                      \* FALSE: plain recv, offered only when the descriptor really is non-blocking
          Obs(_, _, _, _)

VARIABLES obj,      \* slot -> [ex |-> BOOLEAN, fd |-> -1 or a descriptor, nb |-> the object's NBIO flag (a cache of the mode)]
          desc,     \* open descriptor -> socket
          ns,       \* sockets created so far
          lsock,    \* socket bound to the path, 0 = none
          lstn,     \* set of sockets that are listening
          pend,     \* client sockets queued on lsock, oldest first
          conn,     \* client socket -> [home, peer, toS, toC]
          nbm       \* sockets whose open file description really is in O_NONBLOCK mode (shared by all dup()ed descriptors)
vars == <<obj, desc, ns, lsock, lstn, pend, conn, nbm>>

Slots == {"lis", "cli", "acc", "cp"}
SlotSeq == <<"lis", "cli", "acc", "cp">>
NoObj == [ex |-> FALSE, fd |-> -1, nb |-> FALSE]
Open == DOMAIN desc
FreeD == {d \in 1 .. MaxD : d \notin Open}
NewD == CHOOSE d \in FreeD : \A e \in FreeD : d <= e
Alive(s) == \E d \in Open : desc[d] = s
Owned == {obj[x].fd : x \in {y \in Slots : obj[y].ex /\ obj[y].fd >= 0}}
WithDesc(f, d, s) == [e \in (DOMAIN f) \cup {d} |-> IF e = d THEN s ELSE f[e]]
WithoutDesc(f, d) == [e \in (DOMAIN f) \ {d} |-> f[e]]
SockOf(x) == IF obj[x].ex /\ obj[x].fd \in Open THEN desc[obj[x].fd] ELSE 0

\* what the implementation shows: per slot existence and whether it holds a descriptor, which slots share a socket
\* (class numbers in slot order), how many library descriptors are open and how many of them no object owns
\* representative of the socket a slot refers to: the first slot (in slot order) referring to the same socket, 0 = none
SkOf(o, dsc, i) == LET fdi == o[SlotSeq[i]].fd IN
                   IF ~(o[SlotSeq[i]].ex /\ fdi \in DOMAIN dsc) THEN 0
                   ELSE CHOOSE j \in 1 .. 4 :
                          /\ o[SlotSeq[j]].ex /\ o[SlotSeq[j]].fd \in DOMAIN dsc /\ dsc[o[SlotSeq[j]].fd] = dsc[fdi]
                          /\ \A k \in 1 .. (j - 1) : ~(o[SlotSeq[k]].ex /\ o[SlotSeq[k]].fd \in DOMAIN dsc /\ dsc[o[SlotSeq[k]].fd] = dsc[fdi])
\* nb = the objects' NBIO flags, rm = the real mode of the descriptor each object holds (fcntl(F_GETFL) & O_NONBLOCK)
ViewO(o, dsc, m) ==
                 [ex   |-> [i \in 1 .. 4 |-> o[SlotSeq[i]].ex],
                  nb   |-> [i \in 1 .. 4 |-> o[SlotSeq[i]].nb],
                  rm   |-> [i \in 1 .. 4 |-> o[SlotSeq[i]].ex /\ o[SlotSeq[i]].fd \in DOMAIN dsc /\ dsc[o[SlotSeq[i]].fd] \in m],
                  fd   |-> [i \in 1 .. 4 |-> o[SlotSeq[i]].ex /\ o[SlotSeq[i]].fd >= 0],
                  sk   |-> [i \in 1 .. 4 |-> SkOf(o, dsc, i)],
                  nopen |-> Cardinality(DOMAIN dsc),
                  orph |-> Cardinality((DOMAIN dsc) \ {o[x].fd : x \in {y \in Slots : o[y].ex}})]
Ghost(o, dsc, n, ls, lt, pe, cn, m) ==
    [nbm |-> m, fd |-> [i \in 1 .. 4 |-> o[SlotSeq[i]].fd], desc |-> {<<d, dsc[d]>> : d \in DOMAIN dsc}, ns |-> n, lsock |-> ls,
     lstn |-> lt, pend |-> pe, conn |-> {<<c, cn[c].home, cn[c].peer, cn[c].toS, cn[c].toC>> : c \in DOMAIN cn}]
St(o, dsc, n, ls, lt, pe, cn, m) == [g |-> Ghost(o, dsc, n, ls, lt, pe, cn, m), o |-> ViewO(o, dsc, m)]
Pre == St(obj, desc, ns, lsock, lstn, pend, conn, nbm)
\* a step that says what becomes of the real modes
StepM(op, args, ret, o, dsc, n, ls, lt, pe, cn, m) ==
    /\ obj' = o /\ desc' = dsc /\ ns' = n /\ lsock' = ls /\ lstn' = lt /\ pend' = pe /\ conn' = cn /\ nbm' = m
    /\ Obs(op, args, ret, St(o, dsc, n, ls, lt, pe, cn, m))
\* a step that does not touch any mode: the modes of the sockets that are still open stay (a new socket starts blocking)
Kept(dsc) == {s \in nbm : \E d \in DOMAIN dsc : dsc[d] = s}
Step(op, args, ret, o, dsc, n, ls, lt, pe, cn) == StepM(op, args, ret, o, dsc, n, ls, lt, pe, cn, Kept(dsc))
\* every path on which an object forgets its descriptor also clears its I/O state flags, NBIO among them
SetFd(x, d) == [obj EXCEPT ![x].fd = d, ![x].nb = IF d = -1 THEN FALSE ELSE @]

------------------------------------------------------------------------------------------
OpNew(x) == /\ x \in {"lis", "cli"} /\ ~obj[x].ex
            /\ Step("new", <<x>>, TRUE, [obj EXCEPT ![x] = [ex |-> TRUE, fd |-> -1, nb |-> FALSE]], desc, ns, lsock, lstn, pend, conn)

\* something listens behind the path: a client's connect() gets through
ListenerUp == lsock # 0 /\ lsock \in lstn /\ Alive(lsock)
\* open of the listener.
\*  - The object holds no descriptor (fresh, closed before, or its last open failed in socket()): socket(), bind(), listen().
\*    The driver removes the path first, so whatever was bound there is unreachable afterwards; lsock = the socket bound
\*    to the path now ("listen": bound but not listening; "socket"/"bind": nothing bound).
\*  - The object still holds the descriptor of an earlier open (which failed in bind() or listen(), or succeeded): open
\*    must NOT create another descriptor; it goes straight to listen() on the one it has: "ok" if that socket is bound
\*    to the path, "unbound" = the kernel refuses listen() on a socket whose bind() failed, "listen" = injected failure.
OpOpenLis(out) ==
    /\ obj["lis"].ex /\ out \in {"ok", "socket", "bind", "listen", "unbound"}
    /\ IF obj["lis"].fd = -1
       THEN /\ out # "unbound"
            /\ IF out = "socket"
               THEN Step("open", <<"lis", out>>, FALSE, obj, desc, ns, 0, lstn, <<>>, conn)
               ELSE /\ FreeD # {} /\ ns < MaxS
                    /\ LET d == NewD  s == ns + 1 IN
                       Step("open", <<"lis", out>>, out = "ok", SetFd("lis", d), WithDesc(desc, d, s), s,
                            IF out = "bind" THEN 0 ELSE s, IF out = "ok" THEN lstn \cup {s} ELSE lstn, <<>>, conn)
       ELSE LET s == SockOf("lis") IN
            /\ out \in {"ok", "listen", "unbound"}
            /\ (out = "unbound") = (out # "listen" /\ s # lsock)
            /\ Step("open", <<"lis", out>>, out = "ok", obj, desc, ns, lsock,
                    IF out = "ok" THEN lstn \cup {s} ELSE lstn, pend, conn)
\* open of the client: socket() unless the object still holds a descriptor, then connect().
\* "nolistener" is the kernel's own refusal (nothing listens behind the path), "isconn" its refusal to connect a
\* connected socket again; "socket" / "connect" are injected failures.
OpOpenCli(out) ==
    /\ obj["cli"].ex /\ out \in {"ok", "socket", "connect", "nolistener", "isconn"}
    /\ IF obj["cli"].fd = -1
       THEN /\ out # "isconn"
            /\ (out = "nolistener") = (out \notin {"socket", "connect"} /\ ~ListenerUp)
            /\ (out = "ok") => Len(pend) < 4
            /\ IF out = "socket"
               THEN Step("open", <<"cli", out>>, FALSE, obj, desc, ns, lsock, lstn, pend, conn)
               ELSE /\ FreeD # {} /\ ns < MaxS
                    /\ LET d == NewD  s == ns + 1 IN
                       IF out = "ok"
                       THEN Step("open", <<"cli", out>>, TRUE, SetFd("cli", d), WithDesc(desc, d, s), s, lsock, lstn, Append(pend, s),
                                 [c \in (DOMAIN conn) \cup {s} |-> IF c = s THEN [home |-> lsock, peer |-> 0, toS |-> 0, toC |-> 0] ELSE conn[c]])
                       ELSE Step("open", <<"cli", out>>, FALSE, SetFd("cli", d), WithDesc(desc, d, s), s, lsock, lstn, pend, conn)
       ELSE LET s == SockOf("cli")
                o2 == [obj EXCEPT !["cli"].nb = FALSE] IN       \* open puts the client's descriptor into blocking mode before connect()
            /\ out # "socket"
            /\ (out = "isconn") = (s \in DOMAIN conn)
            /\ (out = "nolistener") = (out # "connect" /\ s \notin DOMAIN conn /\ ~ListenerUp)
            /\ (out = "ok") => Len(pend) < 4
            /\ IF out = "ok"
               THEN StepM("open", <<"cli", out>>, TRUE, o2, desc, ns, lsock, lstn, Append(pend, s),
                          [c \in (DOMAIN conn) \cup {s} |-> IF c = s THEN [home |-> lsock, peer |-> 0, toS |-> 0, toC |-> 0] ELSE conn[c]],
                          nbm \ {s})
               ELSE StepM("open", <<"cli", out>>, FALSE, o2, desc, ns, lsock, lstn, pend, conn, nbm \ {s})

\* accept: "ok" needs a queued connection (the listener is blocking); "eagain" = accept() answers EAGAIN once and succeeds
\* when called again; "dupfail" = the dup() the library performs internally fails with EMFILE while accept() itself succeeds;
\* "eintr" = accept() fails with EINTR; "bad" = the listener holds no listening descriptor: the kernel refuses.
\* The accepted object inherits the listener's NBIO flag and its descriptor is really put into that mode.
OpAccept(out) ==
    /\ obj["lis"].ex /\ ~obj["acc"].ex /\ out \in {"ok", "eagain", "dupfail", "eintr", "bad"}
    /\ LET ls == SockOf("lis")  good == out \in {"ok", "eagain", "dupfail"} IN
       /\ (out = "bad") = ~(ls # 0 /\ ls \in lstn)
       /\ good => (ls = lsock /\ pend # <<>>)
       /\ (out = "eintr") => (ls # 0 /\ ls \in lstn)
       /\ IF ~good
          THEN Step("accept", <<out>>, FALSE, obj, desc, ns, lsock, lstn, pend, conn)
          ELSE /\ FreeD # {} /\ ns < MaxS
               /\ LET d == NewD  s == ns + 1  c == Head(pend)
                      d2 == CHOOSE e \in FreeD \ {d} : \A f \in FreeD \ {d} : e <= f
                      o2 == [obj EXCEPT !["acc"] = [ex |-> TRUE, fd |-> d, nb |-> obj["lis"].nb]]
                      cn == [conn EXCEPT ![c].peer = s]
                      m2 == IF obj["lis"].nb THEN nbm \cup {s} ELSE nbm IN
                  IF Mech = "asbuilt" /\ out # "dupfail"
                  THEN \* AS BUILT: the new object is a dup of the listener (dup()s its descriptor), then fd is overwritten
                       /\ Cardinality(FreeD) >= 2
                       /\ StepM("accept", <<out>>, TRUE, o2, WithDesc(WithDesc(desc, d, s), d2, ls), s, lsock, lstn, Tail(pend), cn, m2)
                  ELSE StepM("accept", <<out>>, TRUE, o2, WithDesc(desc, d, s), s, lsock, lstn, Tail(pend), cn, m2)

\* the connection a data slot takes part in: <<client socket, TRUE iff the slot is the client side>>
Side(x) == LET s == SockOf(x) IN
           IF s = 0 THEN <<0, FALSE>>
           ELSE IF s \in DOMAIN conn THEN <<s, TRUE>>
           ELSE IF \E c \in DOMAIN conn : conn[c].peer = s THEN <<CHOOSE c \in DOMAIN conn : conn[c].peer = s, FALSE>>
           ELSE <<0, FALSE>>
PeerAlive(x) == LET sd == Side(x) c == sd[1] IN
                /\ c # 0
                /\ IF sd[2] THEN (IF conn[c].peer # 0 THEN Alive(conn[c].peer) ELSE Alive(conn[c].home))
                            ELSE Alive(c)
\* send: "ok"; injected "epipe" / "reset" (write fails with EPIPE / ECONNRESET); the kernel's own refusals:
\* "badfd" (object holds no descriptor), "notconn" (socket never connected), "peerdead" (other end closed)
OpSend(x, out) ==
    /\ x \in {"cli", "acc"} /\ obj[x].ex /\ out \in {"ok", "epipe", "reset", "badfd", "notconn", "peerdead"}
    /\ (out = "badfd") = (obj[x].fd = -1)
    /\ (out = "notconn") = (obj[x].fd >= 0 /\ Side(x)[1] = 0)
    /\ (out = "peerdead") => (obj[x].fd >= 0 /\ Side(x)[1] # 0 /\ ~PeerAlive(x))
    /\ (out \in {"ok", "epipe", "reset"}) => (obj[x].fd >= 0 /\ Side(x)[1] # 0 /\ PeerAlive(x))
    /\ LET sd == Side(x) c == sd[1] IN
       CASE out = "ok" ->
              /\ (IF sd[2] THEN conn[c].toS ELSE conn[c].toC) < MaxMsgs
              /\ Step("send", <<x, out>>, TRUE, obj, desc, ns, lsock, lstn, pend,
                      IF sd[2] THEN [conn EXCEPT ![c].toS = @ + 1] ELSE [conn EXCEPT ![c].toC = @ + 1])
         [] out = "badfd" ->
              Step("send", <<x, out>>, FALSE, obj, desc, ns, lsock, lstn, pend, conn)
         [] out \in {"epipe", "peerdead"} ->
              \* both mechanisms: the descriptor is closed and forgotten
              Step("send", <<x, out>>, FALSE, SetFd(x, -1), WithoutDesc(desc, obj[x].fd), ns, lsock, lstn, pend, conn)
         [] out \in {"reset", "notconn"} ->
              IF Mech = "asbuilt"
              THEN \* AS BUILT: fd = -1 without close()
                   Step("send", <<x, out>>, FALSE, SetFd(x, -1), desc, ns, lsock, lstn, pend, conn)
              ELSE Step("send", <<x, out>>, FALSE, SetFd(x, -1), WithoutDesc(desc, obj[x].fd), ns, lsock, lstn, pend, conn)

\* recv reads until the kernel says "nothing more": plain recv is offered when the descriptor really is non-blocking (or
\* absent); "recvt" is the driver's set_nbio ; recv ; clear_nbio, which leaves flag and descriptor in blocking mode.
\* Either delivers everything in flight towards x, in order.
OpRecv(x) ==
    /\ x \in {"cli", "acc"} /\ obj[x].ex /\ (RecvToggles \/ obj[x].fd = -1 \/ SockOf(x) \in nbm)
    /\ LET sd == Side(x) c == sd[1]
           op == IF RecvToggles THEN "recvt" ELSE "recv"
           o2 == IF RecvToggles /\ obj[x].fd >= 0 THEN [obj EXCEPT ![x].nb = FALSE] ELSE obj
           m2 == IF RecvToggles THEN nbm \ {SockOf(x)} ELSE nbm IN
       IF obj[x].fd = -1 THEN StepM(op, <<x>>, -1, o2, desc, ns, lsock, lstn, pend, conn, m2)          \* refused: NULL
       ELSE IF c = 0 THEN StepM(op, <<x>>, 0, o2, desc, ns, lsock, lstn, pend, conn, m2)               \* nothing can arrive
       ELSE IF sd[2] THEN StepM(op, <<x>>, conn[c].toC, o2, desc, ns, lsock, lstn, pend, [conn EXCEPT ![c].toC = 0], m2)
       ELSE StepM(op, <<x>>, conn[c].toS, o2, desc, ns, lsock, lstn, pend, [conn EXCEPT ![c].toS = 0], m2)

\* close: "ok"; "eintr" = the first close() fails with EINTR leaving the descriptor open, the retry succeeds
OpClose(x, out) ==
    /\ obj[x].ex /\ out \in {"ok", "eintr"}
    /\ IF obj[x].fd = -1
       THEN out = "ok" /\ Step("close", <<x, out>>, FALSE, obj, desc, ns, lsock, lstn, pend, conn)
       ELSE Step("close", <<x, out>>, TRUE, SetFd(x, -1), WithoutDesc(desc, obj[x].fd), ns, lsock, lstn, pend, conn)

\* dup: the copy carries the original's flags and a dup()ed descriptor (same open file description: same real mode);
\* "fail" = dup() fails with EMFILE: the copy holds no descriptor (its flags are copied all the same)
OpDup(x, out) ==
    /\ x \in {"lis", "cli", "acc"} /\ obj[x].ex /\ ~obj["cp"].ex /\ out \in {"ok", "fail"}
    /\ IF obj[x].fd = -1 \/ out = "fail"
       THEN /\ (out = "fail") => obj[x].fd >= 0
            /\ Step("dup", <<x, out>>, TRUE, [obj EXCEPT !["cp"] = [ex |-> TRUE, fd |-> -1, nb |-> obj[x].nb]], desc, ns, lsock, lstn, pend, conn)
       ELSE /\ FreeD # {}
            /\ Step("dup", <<x, out>>, TRUE, [obj EXCEPT !["cp"] = [ex |-> TRUE, fd |-> NewD, nb |-> obj[x].nb]],
                    WithDesc(desc, NewD, desc[obj[x].fd]), ns, lsock, lstn, pend, conn)

\* set_nbio / clear_nbio: refused without a descriptor; otherwise the descriptor REALLY changes mode (whatever the flag
\* said before: the flag is only a cache and other copies of the descriptor may have changed the shared mode) and the flag follows
OpSetNbio(x) ==
    /\ obj[x].ex
    /\ IF obj[x].fd = -1 THEN Step("set_nbio", <<x>>, FALSE, obj, desc, ns, lsock, lstn, pend, conn)
       ELSE StepM("set_nbio", <<x>>, TRUE, [obj EXCEPT ![x].nb = TRUE], desc, ns, lsock, lstn, pend, conn, nbm \cup {SockOf(x)})
OpClearNbio(x) ==
    /\ obj[x].ex
    /\ IF obj[x].fd = -1 THEN Step("clear_nbio", <<x>>, FALSE, obj, desc, ns, lsock, lstn, pend, conn)
       ELSE StepM("clear_nbio", <<x>>, TRUE, [obj EXCEPT ![x].nb = FALSE], desc, ns, lsock, lstn, pend, conn, nbm \ {SockOf(x)})

OpDel(x) ==
    /\ obj[x].ex
    /\ Step("del", <<x>>, TRUE, [obj EXCEPT ![x] = NoObj],
            IF obj[x].fd >= 0 /\ obj[x].fd \in Open THEN WithoutDesc(desc, obj[x].fd) ELSE desc, ns, lsock, lstn, pend, conn)

Init == /\ obj = [x \in Slots |-> NoObj] /\ desc = <<>> /\ ns = 0 /\ lsock = 0 /\ lstn = {} /\ pend = <<>> /\ conn = <<>> /\ nbm = {}
Next == \/ \E x \in Slots : OpNew(x) \/ OpRecv(x) \/ OpDel(x)
        \/ \E x \in NbSlots : OpSetNbio(x) \/ OpClearNbio(x)
        \/ \E x \in Slots, out \in {"ok", "fail"} \cap Outs : OpDup(x, out)
        \/ \E out \in {"ok", "socket", "bind", "listen", "unbound"} \cap Outs : OpOpenLis(out)
        \/ \E out \in {"ok", "socket", "connect", "nolistener", "isconn"} \cap Outs : OpOpenCli(out)
        \/ \E out \in {"ok", "eagain", "dupfail", "eintr", "bad"} \cap Outs : OpAccept(out)
        \/ \E x \in Slots, out \in {"ok", "epipe", "reset", "badfd", "notconn", "peerdead"} \cap Outs : OpSend(x, out)
        \/ \E x \in Slots, out \in {"ok", "eintr"} \cap Outs : OpClose(x, out)
Spec == Init /\ [][Next]_vars

------------------------------------------------------------------------------------------
\* no object refers to a descriptor that is closed
FdFieldValidOrMinus1 == \A x \in Slots : obj[x].ex => (obj[x].fd = -1 \/ obj[x].fd \in Open)
OneOwnerPerDescriptor == \A x, y \in Slots : (x # y /\ obj[x].ex /\ obj[y].ex /\ obj[x].fd >= 0) => obj[x].fd # obj[y].fd
\* every descriptor the library has open belongs to an object (so deleting the objects closes them all)
NoOrphanDescriptor == Open \subseteq Owned
\* only open sockets have a mode; an object without a descriptor that is not a failed copy claims nothing
ModesOfOpenSocketsOnly == \A s \in nbm : Alive(s)
AllDeletedMeansAllClosed == (\A x \in Slots : ~obj[x].ex) => Open = {}
================================================================================
