--------------------------------- MODULE TokObj ---------------------------------
(* C12, the tok OBJECT with a history and a life cycle: one spif_tok_t is given a source (spif_tok_set_src), possibly        *)
(* another separator (spif_tok_set_sep), possibly its own special characters (spif_tok_set_quote / _set_dquote /              *)
(* _set_escape), is evaluated, finished with spif_tok_done() and REUSED without an init call - again and again.               *)
(* STATED: the tok class produces exactly the token list of the quoting grammar for its input, i.e. after every evaluation    *)
(* the token list is that of the CURRENT separator, source and special characters alone (TokEvalC of Quote.tla) and nothing    *)
(* of an earlier source or life survives.  C: spif_tok_done() releases source, separator and tokens and puts the stock         *)
(* special characters back (as every initialiser does), so a finished object that is reused tokenises like a new one.          *)
(* State: the object (osep, osrc, otoks, oev, och) and the history of steps so far (hist), which is the replay script:         *)
(* every generated history is executed on ONE real object; after every step the object's special characters are read back       *)
(* and compared (state token), after every evaluation the token list.  The scanner variables of Quote.tla stay idle here.       *)
EXTENDS Quote

CONSTANTS HistSources,      \* source texts offered to set_src
          HistSeps,         \* separator strings offered (<<>> = none: white space)
          HistMax,          \* evaluations per object (histories without life-cycle steps)
          LongHistSources,  \* sources offered when a history grows beyond two evaluations
          LifeSources,      \* sources offered in life-cycle histories (they use the stock AND the custom special characters)
          LifeSeps,
          CharChoices       \* [q |-> {..}, dq |-> {..}, esc |-> {..}]: values offered to the three setters

VARIABLES osep, osrc,       \* the object's current separator and source
          otoks,            \* its token list
          oev,              \* it has been evaluated at least once
          och,              \* its special characters [q, dq, esc]
          life,             \* this history may use setters and done() (chosen at the start; keeps the plain pair/triple histories small)
          lastkind,         \* life-cycle histories: setters come in the order quote < dquote < escape between two other steps
          nev, ndone,       \* evaluations / done() calls so far
          hist              \* the steps so far: [op, d, s, keep, toks, c, ch] (fields a step does not use are <<>> / 0 / FALSE)
ovars == <<osep, osrc, otoks, oev, och, life, lastkind, nev, ndone, hist>>

Idle == /\ s = <<>> /\ d = <<>> /\ pos = 1 /\ quote = 0 /\ cur = <<>> /\ toks = <<>> /\ intok = FALSE /\ done = FALSE

HInit == /\ Idle /\ osep = <<>> /\ osrc = <<>> /\ otoks = <<>> /\ oev = FALSE /\ och = StockChars
         /\ life \in BOOLEAN /\ lastkind = 0 /\ nev = 0 /\ ndone = 0 /\ hist = <<>>

StepRec(op, dd, ss, keep, ts, c, ch) == [op |-> op, d |-> dd, s |-> ss, keep |-> keep, toks |-> ts, c |-> c, ch |-> <<ch.q, ch.dq, ch.esc>>]

\* set_src(ss) [+ set_sep(dd) unless keep] + eval on the same object.
\* plain histories: long = this is the third or a later evaluation (then only the short sources, and only for short histories)
EvalWith(dd, ss, keep, long) ==
    LET ts == TokEvalC(och, dd, ss) IN
    /\ IF life THEN ~long /\ nev < 2
               ELSE (nev >= 2) = long /\ nev < HistMax /\ (long => \A k \in 1 .. Len(hist) : hist[k].s \in LongHistSources)
    /\ osep' = dd /\ osrc' = ss /\ otoks' = ts /\ oev' = TRUE /\ nev' = nev + 1 /\ lastkind' = 0
    /\ hist' = Append(hist, StepRec("eval", dd, ss, keep, ts, 0, och))
    /\ UNCHANGED <<vars, och, life, ndone>>
    /\ (Len(hist) >= 1 => Obs("history", hist', ts, TRUE))
OpEvalFresh(dd, ss)             == ~oev /\ ~life /\ EvalWith(dd, ss, FALSE, FALSE)          \* first evaluation of a new object
OpEvalAgain(ss, long)           == oev /\ ~life /\ EvalWith(osep, ss, TRUE, long)           \* new source, separator left alone
OpEvalAgainNewSep(dd, ss, long) == oev /\ ~life /\ dd # osep /\ EvalWith(dd, ss, FALSE, long)   \* new source and new separator
\* the same three in life-cycle histories (their own, smaller alphabets)
OpLifeEvalFresh(dd, ss)         == ~oev /\ life /\ EvalWith(dd, ss, FALSE, FALSE)
OpLifeEvalKeepSep(ss)           == oev /\ life /\ EvalWith(osep, ss, TRUE, FALSE)           \* after done() the separator is "none"
OpLifeEvalNewSep(dd, ss)        == oev /\ life /\ dd # osep /\ EvalWith(dd, ss, FALSE, FALSE)

\* the setters of the special characters
SetChar(op, kind, ch) ==
    /\ life /\ nev < 2 /\ kind > lastkind
    /\ och' = ch /\ lastkind' = kind
    /\ hist' = Append(hist, StepRec(op, <<>>, <<>>, FALSE, <<>>, IF kind = 1 THEN ch.q ELSE IF kind = 2 THEN ch.dq ELSE ch.esc, ch))
    /\ UNCHANGED <<vars, osep, osrc, otoks, oev, life, nev, ndone>>
OpSetQuote(c)  == c # och.dq /\ c # och.esc /\ SetChar("setq", 1, [och EXCEPT !.q = c])
OpSetDQuote(c) == c # och.q /\ c # och.esc /\ SetChar("setdq", 2, [och EXCEPT !.dq = c])
OpSetEscape(c) == c # och.q /\ c # och.dq /\ SetChar("setesc", 3, [och EXCEPT !.esc = c])
\* C: done() releases source, separator and token list and restores the stock special characters; the object stays usable
OpDone ==
    /\ life /\ oev /\ ndone = 0 /\ nev < 2
    /\ hist[Len(hist)].op = "eval"          \* (setters directly in front of done() would be undone by it: not generated)
    /\ osep' = <<>> /\ osrc' = <<>> /\ otoks' = <<>> /\ och' = StockChars /\ ndone' = 1 /\ lastkind' = 0
    /\ hist' = Append(hist, StepRec("done", <<>>, <<>>, FALSE, <<>>, 0, StockChars))
    /\ UNCHANGED <<vars, oev, life, nev>>

\* (disjuncts over CONSTANT sets, so that TLC reports one coverage count per action)
HNext == \/ \E ss \in HistSources : \/ OpEvalAgain(ss, FALSE)
                                     \/ \E dd \in HistSeps : OpEvalFresh(dd, ss) \/ OpEvalAgainNewSep(dd, ss, FALSE)
         \/ \E ss \in LongHistSources : OpEvalAgain(ss, TRUE) \/ \E dd \in HistSeps : OpEvalAgainNewSep(dd, ss, TRUE)
         \/ \E ss \in LifeSources : OpLifeEvalKeepSep(ss) \/ \E dd \in LifeSeps : OpLifeEvalFresh(dd, ss) \/ OpLifeEvalNewSep(dd, ss)
         \/ \E c \in CharChoices.q : OpSetQuote(c)
         \/ \E c \in CharChoices.dq : OpSetDQuote(c)
         \/ \E c \in CharChoices.esc : OpSetEscape(c)
         \/ OpDone
HSpec == HInit /\ [][HNext]_<<vars, ovars>>

(* laws *)
OnlyDelims(dd, ss) == \A k \in 1 .. Len(ss) : IsDelim(dd, ss[k])
Evals == {k \in 1 .. Len(hist) : hist[k].op = "eval"}
\* S: the token list is a function of the CURRENT separator, source and special characters alone
\* (right after an evaluation: a setter changes the characters, the list stays that of the last evaluation until the next one)
TokensOfCurrentSourceOnly == (Len(hist) > 0 /\ hist[Len(hist)].op = "eval") => otoks = TokEvalC(och, osep, osrc)
\* S: with the stock characters that is the grammar of split (TokEval of Quote.tla), whatever the object went through before
StockObjectIsStockGrammar == \A k \in Evals : hist[k].ch = <<SQ, DQ, BS>> => hist[k].toks = TokEval(hist[k].d, hist[k].s)
\* S: an empty or all-delimiter source has no tokens, whatever was evaluated before
BlankSourceHasNoTokens == (oev /\ hist[Len(hist)].op = "eval" /\ OnlyDelims(osep, osrc)) => otoks = <<>>
\* the same (separator, source, special characters) gives the same list at every place of a history
HistoryIrrelevant == \A i \in Evals, j \in Evals :
                        (hist[i].d = hist[j].d /\ hist[i].s = hist[j].s /\ hist[i].ch = hist[j].ch) => hist[i].toks = hist[j].toks
\* C: done() leaves a blank object with the stock configuration
DoneResets == \A k \in 1 .. Len(hist) : hist[k].op = "done" => hist[k].ch = <<SQ, DQ, BS>>
DoneLeavesBlank == (Len(hist) > 0 /\ hist[Len(hist)].op = "done") => (osep = <<>> /\ osrc = <<>> /\ otoks = <<>> /\ och = StockChars)
================================================================================
