------------------------------ MODULE MBuffObjTrace ------------------------------
(* Trace validation for C07: every recorded call on real mbuff objects (op, args, returned value, projected     *)
(* bytes of both objects) must be a step of MBuffObj - the SAME actions, without the model-size restrictions of  *)
(* MBuffObj!Next.  The file named by env TRACE holds one JSON object per line; {"op":"reset"} starts a new      *)
(* execution.  To keep traces of 20000-byte buffers small an event carries the bytes of a slot only when they    *)
(* changed (ca / cb say whether slot A / B changed; pa / pb are then the new slot views).                       *)
EXTENDS MBuffObj, IOUtils
VARIABLE l
Tr == ndJsonDeserialize(IOEnv.TRACE)
ev == Tr[l]

\* The value is compared first: an action with several allowed outcomes (fault schedules) is pinned to the recorded one.
FaultOps == {"new_fault", "reinit_fault"}
ObsTrace(op, args, ret, anyret, post) ==
    /\ op = ev.op /\ args = ev.args
    /\ post.a = (IF ev.ca THEN ev.pa ELSE Pre.a)
    /\ post.b = (IF ev.cb THEN ev.pb ELSE Pre.b)
    \* E: return value not claimed.  A differing return value does not stop the validation (the VALUE is what later
    \* steps depend on): it is printed and reported by the check as a violation of its own.  (Fault operations: the
    \* return value selects the outcome, so it is compared strictly.)
    /\ IF op \in FaultOps THEN ret = ev.ret
       ELSE (anyret \/ ret = ev.ret \/ PrintT(ToJson([ret_mismatch |-> l])))
    \* Conv_CmpWithPtrCountBeyondLength: where the return value of (n)cmp_with_ptr is E, it is EQUAL or LESS, nothing else
    /\ ((anyret /\ op \in {"cmp_with_ptr", "ncmp_with_ptr"}) => (ev.ret \in {0, 0 - 1} \/ PrintT(ToJson([ret_mismatch |-> l]))))

TraceInit == Init /\ l = 1
A1 == ev.args[1]
A2 == ev.args[2]
A3 == ev.args[3]
TraceStep ==
    /\ l <= Len(Tr)
    /\ l' = l + 1
    /\ \/ ev.op = "reset" /\ a' = <<>> /\ al' = FALSE /\ b' = <<>> /\ bl' = FALSE
       \/ ev.op = "new" /\ OpNew
       \/ ev.op = "new_from_ptr" /\ OpNewFromPtr(A1)
       \/ ev.op = "new_from_ptr_null" /\ OpNewFromPtrNull(A1)
       \/ ev.op = "new_from_buff" /\ OpNewFromBuff(A1, A2)
       \/ ev.op = "new_from_buff_null" /\ OpNewFromBuffNull(A1, A2)
       \/ ev.op = "new_from_fp" /\ A1 \in Kinds /\ OpNewFromFp(A1, A2)
       \/ ev.op = "new_from_fd" /\ A1 \in Kinds /\ OpNewFromFd(A1, A2)
       \/ ev.op = "new_fault" /\ OpNewFault(A1, A2, A3, ev.args[4], ev.args[5], ev.args[6], ev.args[7])
       \/ ev.op = "reinit_fault" /\ OpReinitFault(A1, A2, A3, ev.args[4], ev.args[5], ev.args[6], ev.args[7])
       \/ ev.op = "append" /\ OpAppend(A1)
       \/ ev.op = "append_from_ptr" /\ OpAppendFromPtr(A1)
       \/ ev.op = "append_from_ptr_null" /\ OpAppendFromPtrNull(A1)
       \/ ev.op = "prepend" /\ OpPrepend(A1)
       \/ ev.op = "prepend_from_ptr" /\ OpPrependFromPtr(A1)
       \/ ev.op = "prepend_from_ptr_null" /\ OpPrependFromPtrNull(A1)
       \/ ev.op = "splice" /\ OpSplice(A1, A2, A3)
       \/ ev.op = "splice_from_ptr" /\ OpSpliceFromPtr(A1, A2, A3)
       \/ ev.op = "splice_from_ptr_null" /\ OpSpliceFromPtrNull(A1, A2, A3)
       \/ ev.op = "trim" /\ OpTrim
       \/ ev.op = "reverse" /\ OpReverse
       \/ ev.op = "clear" /\ OpClear(A1)
       \/ ev.op = "sprintf" /\ A1 \in {"lit", "s", "d", "sd"} /\ OpSprintf(A1, A2, A3)
       \/ ev.op = "done" /\ OpDone
       \/ ev.op = "reinit" /\ OpReinit(A1, A2, A3)
       \/ ev.op = "del" /\ OpDel
       \/ ev.op = "index" /\ OpIndex(A1)
       \/ ev.op = "rindex" /\ OpRindex(A1)
       \/ ev.op = "find" /\ OpFind(A1)
       \/ ev.op = "find_from_ptr" /\ OpFindFromPtr(A1)
       \/ ev.op = "cmp" /\ OpCmp(A1)
       \/ ev.op = "cmp_with_ptr" /\ OpCmpWithPtr(A1)
       \/ ev.op = "ncmp" /\ OpNcmp(A1, A2)
       \/ ev.op = "ncmp_with_ptr" /\ OpNcmpWithPtr(A1, A2)
       \/ ev.op = "subbuff_to_ptr" /\ OpSubbuffToPtr(A1, A2)
       \/ ev.op = "subbuff" /\ OpSubbuff(A1, A2)
       \/ ev.op = "dup" /\ OpDup
       \/ ev.op = "b_new_from_ptr" /\ OpBNewFromPtr(A1)
       \/ ev.op = "b_del" /\ OpBDel
       \/ ev.op = "b_append_from_ptr" /\ OpBAppendFromPtr(A1)
       \/ ev.op = "b_append_a" /\ OpBAppendA
       \/ ev.op = "b_clear" /\ OpBClear(A1)
       \/ ev.op = "b_reverse" /\ OpBReverse
       \/ ev.op = "b_trim" /\ OpBTrim
       \/ ev.op = "b_cmp_a" /\ OpBCmpA
       \/ ev.op = "b_dup_to_a" /\ OpBDupToA
TraceSpec == TraceInit /\ [][TraceStep]_<<vars, l>>
\* accepted iff every line was consumed: diameter counts the initial state plus one state per line
\* (verdict lines are printed as JSON so that they survive the state dump TLC prints after a false postcondition)
TraceAccepted == \/ TLCGet("stats").diameter - 1 = Len(Tr)
                 \/ PrintT(ToJson([rejected_after |-> TLCGet("stats").diameter - 1, of |-> Len(Tr)])) /\ FALSE
================================================================================
