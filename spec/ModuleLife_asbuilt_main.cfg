SPECIFICATION Spec
CONSTANTS
  Variants = {1}
  Paths = {1}
  Names = {}
  Slots = {1, 2}
  LoadFaults = {"none"}
  UnloadFaults = {"none"}
  RunFaults = {}
  SymFaults = {}
  Levels = {}
  Indents = {}
  Cap = 1
  AsBuilt = TRUE
  Bounded = TRUE
  TrackMain = TRUE
  Obs <- ObsNone
INVARIANT MainMatches
VIEW View
CHECK_DEADLOCK FALSE
