"""Pipeline for the pure-function properties (C12, C13, C17): TLC enumerates all inputs of a bounded universe,
checks the laws of the reference and emits one JSON line per (input -> expected outputs) case; the cases become
replay scripts (a few independent steps each) that a harness runs on the real functions under ASan.

Local work-arounds for shared code (see notes/C12.md):
  * vlib.tlc._RE_COV does not match coverage lines that carry a parenthesised location, so most actions are
    missing from res.coverage; a corrected pattern is installed into the module at import (no file edited).
  * TLC under -XX:+UseParallelGC starts one GC thread per core; on the shared machine that costs 3x wall time.
    JAVA_TOOL_OPTIONS caps it at 2 threads for the TLC runs started from here.
"""
import os, re, json, time
from . import tlc as _tlc
from .tlc import run_tlc
from .replay import run_scripts
from .core import Broken, log

_tlc._RE_COV = re.compile(r"^<(\w+) line \d+, col \d+ to line \d+, col \d+ of module (\w+)(?: \([\d ]+\))?>: (\d+):(\d+)")

TLC_ENV = {"JAVA_TOOL_OPTIONS": "-XX:ParallelGCThreads=2"}
JOBS = max(1, min(4, int(os.environ.get("VERIF_JOBS", "4"))))


def tlc_cases(ctx, module, cfg, actions, on_case, workers=4, timeout=3000, env=None, heap="8g", coverage=True, taken=None):
    """Runs TLC exhaustively on module/cfg; every emitted JSON line goes to on_case(dict).
    `actions`: names that must have been taken at least once (vacuity guard).  With coverage=False (TLC's
    coverage instrumentation triples the run time of evaluation-heavy models) the caller supplies taken():
    {action: number of emitted cases of that action}, counted from what the actions themselves emitted.
    Returns TlcResult."""
    e = dict(TLC_ENV)
    e.update(env or {})
    res = run_tlc(module, cfg, ctx.rundir, on_edge=on_case, workers=workers, timeout=timeout, env=e, heap=heap, coverage=coverage)
    if not coverage:
        res.coverage = {a: (n, n) for a, n in (taken() if taken else {}).items()}
    ctx.add("states", res.distinct)
    ctx.add("transitions", res.generated)
    ctx.add("cases_emitted", res.edges)
    ctx.cov.setdefault("tlc_runs", []).append({
        "module": module, "cfg": cfg, "distinct_states": res.distinct, "states_generated": res.generated,
        "depth": res.depth, "cases_emitted": res.edges, "wall_s": round(res.wall, 1),
        "actions": {a: list(res.coverage[a]) for a in sorted(res.coverage) if a in actions}})
    if not res.ok:
        ctx.report("spec:%s" % cfg, "TLC reports a violated law of the reference specification itself: %s" % (res.violation or "")[:900],
                   {"tlc": res.violation, "cfg": cfg, "module": module})
        return res
    missing = [a for a in actions if a not in res.coverage]
    if missing:
        raise Broken("vacuity: no coverage line for actions %s of %s/%s (have %s)" % (missing, module, cfg, sorted(res.coverage)))
    unt = [a for a in actions if res.coverage[a][1] == 0]
    if unt:
        raise Broken("vacuity: actions never taken in %s/%s: %s" % (module, cfg, unt))
    if res.edges == 0:
        raise Broken("no cases emitted by %s/%s" % (module, cfg))
    return res


class Case:
    """One replay script: a list of independent steps (op, args-tokens, expected-ret token, meta)."""
    __slots__ = ("sid", "steps", "meta")

    def __init__(self, sid, steps, meta=None):
        self.sid, self.steps, self.meta = sid, steps, meta

    def text(self, frm=0):
        out = ["S %d" % self.sid]
        for st in self.steps[frm:]:
            # (op, args, expected return token, meta[, expected state token]) - the state token defaults to "-" (pure functions)
            out.append("%s %s = %s %s" % (st[0], " ".join(st[1]), st[2], st[4] if len(st) > 4 else "-"))
        out.append("E\n")
        return "\n".join(out)


def run_cases(ctx, exe, hargs, cases, keyfn, tag, env=None, chunk=20000, max_keys=60, what_fn=None, recorder=None, on_fail=None,
              whole_script=False):
    """Runs the cases through the harness (parallel, crash containment).  A crash/hang inside step k of a
    script hides steps k+1..: the remainder is re-run as a script of its own until every step was executed.
    keyfn(case, stepindex, fail) -> finding key.  on_fail(case, stepindex, fail) -> True when the caller deals with
    that failure itself.  recorder(case, stepindex, ret_token) receives the values of
    steps whose expected value is '?' (record mode).  whole_script: the steps of a script share state (one object with a
    history), so a replay file holds the script up to the failing step, not that step alone.  Returns (nscripts, nsteps, nfailed_steps)."""
    t0 = time.time()
    nscripts = nsteps = nfail = nrerun = 0
    seen_fail = set()
    for lo in range(0, len(cases), chunk):
        part = cases[lo:lo + chunk]
        todo = [(c, 0) for c in part]
        rounds = 0
        while todo:
            rounds += 1
            if rounds > 200:
                raise Broken("run_cases: remainder re-runs do not converge")
            byid = {}
            texts = []
            for k, (c, frm) in enumerate(todo):
                byid[c.sid] = (c, frm)
                texts.append(c.text(frm))
            fails, recs, ns, nt = run_scripts(exe, hargs, texts, ctx.rundir, jobs=JOBS, env=env, tag="%s-%d" % (tag, lo))
            if ns != len(texts):
                raise Broken("harness ran %d of %d scripts" % (ns, len(texts)))
            if rounds == 1:
                nscripts += ns
            else:
                nrerun += ns
            nsteps += nt
            if recorder is not None:
                for sid, step, ret, _state in recs:
                    c, frm = byid[sid]
                    recorder(c, frm + step, ret)
            again = []
            for f in fails:
                if f.sid not in byid:
                    raise Broken("failure for unknown script %r" % (f,))
                c, frm = byid[f.sid]
                at = frm + f.step
                if f.kind == "heap" or at >= len(c.steps):
                    at = len(c.steps) - 1          # end-of-script heap imbalance: charged to the script's last step
                if (c.sid, at, f.kind) in seen_fail:
                    continue
                seen_fail.add((c.sid, at, f.kind))
                nfail += 1
                if on_fail is not None and on_fail(c, at, f):      # handled by the caller (e.g. localised by a finer re-run)
                    if f.kind in ("crash", "hang", "exit", "inv", "state") and at + 1 < len(c.steps):
                        again.append((c, at + 1))
                    continue
                key = keyfn(c, at, f)
                op, args, exp = c.steps[at][:3]
                what = (what_fn(c, at, f) if what_fn else
                        "%s %s: %s exp=%s got=%s %s" % (op, " ".join(args)[:300], f.kind, (f.exp or exp)[:300], f.got[:300], f.sig))
                if len(ctx.violations) < max_keys or key in ctx.violations:
                    ctx.report(key, what, {"harness_args": list(hargs), "env": {k: v for k, v in (env or {}).items() if k.startswith("VH_")},
                                           "script_text": Case(1, c.steps[:at + 1] if whole_script else [c.steps[at]]).text(),
                                           "failure": repr(f)[:2000], "detail": f.detail[:4000], "meta": c.meta})
                if f.kind in ("crash", "hang", "exit", "inv", "state") and at + 1 < len(c.steps):
                    again.append((c, at + 1))
            todo = again
    ctx.add("traces_validated_against_impl", nscripts)
    ctx.add("evaluations", nsteps)
    ctx.cov.setdefault("replay", {})[tag] = {"scripts": nscripts, "steps": nsteps, "failed_steps": nfail, "remainder_reruns": nrerun,
                                             "wall_s": round(time.time() - t0, 1)}
    return nscripts, nsteps, nfail


class CaseStream:
    """Runs cases through the harness in the background while TLC is still producing them.
        cs = CaseStream(ctx, exe, hargs, keyfn, tag);  cs.add(case) ...;  totals = cs.close()"""

    def __init__(self, ctx, exe, hargs, keyfn, tag, chunk=10000, env=None, whole_script=False):
        import threading, queue
        self.ctx, self.exe, self.hargs, self.keyfn, self.tag, self.chunk, self.env = ctx, exe, hargs, keyfn, tag, chunk, env
        self.whole_script = whole_script
        self.q = queue.Queue(maxsize=8)
        self.buf = []
        self.err = []
        self.n = 0
        self.parts = 0
        self.th = threading.Thread(target=self._work, daemon=True)
        self.th.start()

    def _work(self):
        k = 0
        while True:
            part = self.q.get()
            if part is None:
                return
            k += 1
            try:
                if not self.err:
                    run_cases(self.ctx, self.exe, self.hargs, part, self.keyfn, "%s#%d" % (self.tag, k), env=self.env,
                              whole_script=self.whole_script)
            except Exception as e:      # surfaced by close()
                self.err.append(e)

    def add(self, case):
        self.n += 1
        self.buf.append(case)
        if len(self.buf) >= self.chunk:
            self.q.put(self.buf)
            self.buf = []

    def close(self):
        if self.buf:
            self.q.put(self.buf)
            self.buf = []
        self.q.put(None)
        self.th.join()
        if self.err:
            raise self.err[0]
        rp = self.ctx.cov.get("replay", {})
        tot = {"scripts": 0, "steps": 0, "failed_steps": 0, "remainder_reruns": 0, "wall_s": 0.0}
        for k in [k for k in rp if k.startswith(self.tag + "#")]:
            for f in tot:
                tot[f] += rp[k][f]
            del rp[k]
        tot["wall_s"] = round(tot["wall_s"], 1)
        rp[self.tag] = tot
        if tot["scripts"] != self.n:
            raise Broken("%s: %d cases queued but %d scripts replayed" % (self.tag, self.n, tot["scripts"]))
        return tot


def levels_env(lv):
    """DebugLevels of the specification (emitted with every case) -> environment of the harness"""
    return {"VH_LEVELS": ",".join(str(int(x)) for x in lv)}


def fail_class(f):
    """kind (+ ASan class and first library frame for crashes)"""
    if f.kind in ("crash", "hang", "exit"):
        return "%s/%s" % (f.kind, f.sig)
    if f.kind == "inv":
        return "inv/" + re.sub(r"\d+", "N", f.got)
    return f.kind


def validate_trace(ctx, module, cfg, events, tag="t", timeout=1800):
    """Direction (B) for the scanner specs: TLC re-runs the step machine on every logged input and compares with the
    logged output.  Acceptance needs the positive marker TRACE_ACCEPTED <n>; returns (accepted, index_of_rejected_event, path)."""
    path = os.path.join(ctx.rundir, "trace-%s-%d.ndjson" % (tag, os.getpid()))
    with open(path, "w") as f:
        for e in events:
            f.write(json.dumps(e, separators=(",", ":")) + "\n")
    env = dict(TLC_ENV)
    env["TRACE"] = path
    res = run_tlc(module, cfg, ctx.rundir, workers=1, timeout=timeout, env=env, coverage=False)
    txt = "\n".join(res.tail)
    m = re.search(r'"TRACE_REJECTED_AFTER", (\d+), "OF", (\d+)', txt)
    if m:
        return False, int(m.group(1)), path, res
    m = re.search(r'"TRACE_ACCEPTED", (\d+)', txt)
    if m and int(m.group(1)) == len(events) and res.ok:
        return True, len(events), path, res
    raise Broken("trace validation run without a verdict (%s):\n%s" % (module, "\n".join(res.tail[-30:])))


def replay_file(exe, hargs, path, rundir, env=None):
    """--replay <file>: re-run the recorded step."""
    d = json.load(open(path))
    rp = d.get("replay") or {}
    txt = rp.get("script_text")
    if not txt:
        print("replay file has no script_text (a specification-level finding: see the 'tlc' field)")
        print(json.dumps(rp, indent=1)[:3000])
        return 2
    e = dict(env or {})
    e.update(rp.get("env") or {})          # e.g. VH_LEVELS: the run-time debug levels the step was executed at
    fails, recs, ns, nt = run_scripts(exe, rp.get("harness_args", hargs), [txt], rundir, jobs=1, env=e, tag="replay")
    for f in fails:
        print("REPRODUCED", f)
        if f.detail:
            print(f.detail)
    if not fails:
        print("not reproduced: the step passes (%d steps)" % nt)
    return 1 if fails else 0
