SPECIFICATION @SPEC@
CONSTANTS
  Thr = @THR@
  Lk = {1, 2, 9}
  Cnd = {9}
  Impl = "@IMPL@"
  Spurious = @SPUR@
  Pattern = "@PATTERN@"
  NW = @NW@
  K = @K@
  NP = @NP@
  Q = @Q@
  Obs <- @OBS@
INVARIANTS @INV@
@PROPS@
CHECK_DEADLOCK TRUE
