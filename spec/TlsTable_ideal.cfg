SPECIFICATION Spec
CONSTANTS
  MaxAllocs = 4
  Placeholder = TRUE
  Obs <- ObsEmit
INVARIANTS TypeOK HandleStable NoAlias
CHECK_DEADLOCK FALSE
