/* C05/C06 for objpair, tok, url, regexp: replays SmallObj.tla scripts.
 * usage: small_replay <objpair|tok|url|regexp> <scriptfile> [first]
 * State token: {a={live=T|F,p=..,q=..,r=..},b={...}}
 */
#include "common.h"
#include <pcre.h>

static const char *cls;
static spif_obj_t S[2];                 /* slots A, B */
static int ev_src[2], ev_sep[2];        /* tok: (src, sep) ids at the time of the last eval of that slot */
static char invmsg[256], invmsg2[300];

/* per-class text tables; index = id (1-based); id order = text order */
static const char *T_PAIR[] = {NULL, "1", "2", "3"};
static const char *T_TOKSRC[] = {NULL, "  ", "a b 'c d'", "x:y", "y;z:w"};      /* 1: blanks only - evaluates to an EMPTY token list */
static const char *T_TOKSEP[] = {NULL, ":", ";", "|"};
/* url and regexp: text 1 is blanks only (the parent class's trim empties it) */
static const char *T_URL[] = {NULL, "  ", "h2", "http://u:pw@h1:80/p?q"};
static const char *T_URLHOST_PARSED[] = {NULL, "  ", "h2", "h1"};
static const char *T_HOSTSET[] = {NULL, "zz1", "zz2", "zz3"};
static const char *T_RE[] = {NULL, "  ", "a", "b+"};
static const char *T_SUBJ[] = {NULL, "a", "bb", "A", "c"};
static const int TOKCOUNT[5][4] = {{0, 0, 0, 0}, {0, 1, 1, 1}, {3, 1, 1, 1}, {1, 2, 1, 1}, {1, 2, 2, 1}};   /* [src][sep] */

static int id_of(const char *s, const char **tab, int n) {
    int i;
    if (!s) return 0;
    for (i = 1; i <= n; i++) if (!strcmp(s, tab[i])) return i;
    return -7;      /* a text that is not in the table */
}
static const char *strtext(spif_str_t s) { return SPIF_STR_ISNULL(s) ? NULL : (const char *) SPIF_STR_STR(s); }
static spif_str_t mkstr(const char *t) { return spif_str_new_from_ptr((spif_charptr_t) t); }

static int is(const char *c) { return !strcmp(cls, c); }

/* type() identifies the class: it returns the class object (whose first member is the class name text) */
static const char *check_type(spif_obj_t o) {
    spif_class_t want = is("objpair") ? SPIF_CLASS_VAR(objpair) : is("tok") ? SPIF_CLASS_VAR(tok)
                      : is("url") ? SPIF_CLASS_VAR(url) : SPIF_CLASS_VAR(regexp);
    const char *name;
    if (SPIF_OBJ_ISNULL(o)) return "constructor_returned_NULL";
    if (SPIF_OBJ_CLASS(o) != want) return "object_has_wrong_class";
    if ((spif_class_t) SPIF_OBJ_TYPE(o) != want) return "type()_does_not_identify_the_class";
    name = (const char *) SPIF_OBJ_CLASS(o)->classname;
    if (!name || !strstr(name, cls)) { snprintf(invmsg, sizeof(invmsg), "class_name_text:%s", name ? name : "NULL"); return invmsg; }
    return NULL;
}

static const char *project(int k, vh_sb *out) {
    spif_obj_t o = S[k];
    long p = 0, q = 0, r = 0;
    const char *ti;
    if (SPIF_OBJ_ISNULL(o)) { sb_puts(out, "{live=F,p=0,q=0,r=0}"); return NULL; }
    /* whatever was done to it, through whichever entry point: the object is still an object of its class */
    if ((ti = check_type(o))) { snprintf(invmsg2, sizeof(invmsg2), "%s:%s", k ? "b" : "a", ti); return invmsg2; }
    if (is("objpair")) {
        spif_objpair_t x = SPIF_OBJPAIR(o);
        p = id_of(strtext(SPIF_STR(x->key)), T_PAIR, 3);
        q = id_of(strtext(SPIF_STR(x->value)), T_PAIR, 3);
    } else if (is("tok")) {
        spif_tok_t x = (spif_tok_t) o;
        p = id_of(strtext(spif_tok_get_src(x)), T_TOKSRC, 4);
        q = id_of(strtext(spif_tok_get_sep(x)), T_TOKSEP, 3);
        r = !SPIF_LIST_ISNULL(spif_tok_get_tokens(x));
        if (r) {
            long n = SPIF_LIST_COUNT(spif_tok_get_tokens(x)), i;
            if (n != TOKCOUNT[ev_src[k]][ev_sep[k]]) { snprintf(invmsg, sizeof(invmsg), "tok:%s_token_count=%ld_expected=%d", k ? "b" : "a", n, TOKCOUNT[ev_src[k]][ev_sep[k]]); return invmsg; }
            for (i = 0; i < n; i++) {
                spif_obj_t t = SPIF_LIST_GET(spif_tok_get_tokens(x), (spif_listidx_t) i);
                /* a token of blanks only is trimmed to the empty text, which the str class holds without a buffer */
                if (SPIF_OBJ_ISNULL(t) || strlen(strtext(SPIF_STR(t)) ? strtext(SPIF_STR(t)) : "") != (size_t) spif_str_get_len(SPIF_STR(t))) return "tok:token_unreadable";
            }
        }
    } else if (is("url")) {
        spif_url_t x = (spif_url_t) o; const char *h = strtext(spif_url_get_host(x));
        p = (strtext(SPIF_STR(x)) && *strtext(SPIF_STR(x))) ? id_of(strtext(SPIF_STR(x)), T_URL, 3) : 0;   /* absent or empty */
        q = (h && !strncmp(h, "zz", 2)) ? id_of(h, T_HOSTSET, 3) : ((p > 0 && !h) ? 9 : 0);   /* 9: cleared */
        if (p == 3) {   /* the other components of the long text must read back as parsed, in the original and in any copy */
            const char *u = strtext(spif_url_get_user(x)), *pw = strtext(spif_url_get_passwd(x)), *pr = strtext(spif_url_get_proto(x));
            const char *po = strtext(spif_url_get_port(x)), *pa = strtext(spif_url_get_path(x)), *qu = strtext(spif_url_get_query(x));
            if (!u || strcmp(u, "u") || !pw || strcmp(pw, "pw") || !pr || strcmp(pr, "http") || !po || strcmp(po, "80")
                || !pa || strcmp(pa, "/p") || !qu || strcmp(qu, "q")) { snprintf(invmsg, sizeof(invmsg), "url:%s_components_differ_from_parsed_text", k ? "b" : "a"); return invmsg; }
        }
        if (p > 0 && q == 0 && (!h || strcmp(h, T_URLHOST_PARSED[p]))) { snprintf(invmsg, sizeof(invmsg), "url:%s_host=%s", k ? "b" : "a", h ? h : "NULL"); return invmsg; }
    } else {
        spif_regexp_t x = (spif_regexp_t) o; const char *t = strtext(SPIF_STR(x));
        p = (t && *t) ? id_of(t, T_RE, 3) : 0;
        q = (spif_regexp_get_flags(x) & PCRE_CASELESS) ? 1 : 0;
        if (spif_regexp_get_flags(x) & ~PCRE_CASELESS) return "regexp:unexpected_flag_bits";
    }
    sb_printf(out, "{live=T,p=%ld,q=%ld,r=%ld}", p, q, r);
    return NULL;
}

static void del_slot(int k) { if (!SPIF_OBJ_ISNULL(S[k])) { SPIF_OBJ_DEL(S[k]); S[k] = (spif_obj_t) NULL; } }
static void vh_begin(void) { S[0] = S[1] = (spif_obj_t) NULL; ev_src[0] = ev_src[1] = ev_sep[0] = ev_sep[1] = 0; }
static void vh_end(void) { del_slot(1); del_slot(0); }

#define OP(s) (!strcmp(op, s))
static const char *vh_step(const vh_step_t *st, vh_sb *ret, vh_sb *state) {
    const char *op = st->op, *inv;
    int k = 0;
    long a0 = st->nargs > 0 ? vh_int(st->args[0]) : 0, a1 = st->nargs > 1 ? vh_int(st->args[1]) : 0;
    if (op[0] == 'b' && op[1] == '_') { k = 1; op += 2; }

    if (OP("new")) {
        S[0] = is("objpair") ? SPIF_OBJ(spif_objpair_new()) : is("tok") ? SPIF_OBJ(spif_tok_new()) : SPIF_OBJ(spif_regexp_new());
        if ((inv = check_type(S[0]))) return inv;
        sb_bool(ret, 1);
    } else if (OP("new_from_ptr")) {
        S[0] = is("tok") ? SPIF_OBJ(spif_tok_new_from_ptr((spif_charptr_t) T_TOKSRC[a0]))
             : is("url") ? SPIF_OBJ(spif_url_new_from_ptr((spif_charptr_t) T_URL[a0]))
             : SPIF_OBJ(spif_regexp_new_from_ptr((spif_charptr_t) T_RE[a0]));
        if ((inv = check_type(S[0]))) return inv;
        sb_bool(ret, 1);
    } else if (OP("new_from_key") || OP("new_from_value") || OP("new_from_both")) {
        spif_str_t x = mkstr(T_PAIR[a0]), y = OP("new_from_both") ? mkstr(T_PAIR[a1]) : (spif_str_t) NULL;
        S[0] = OP("new_from_key") ? SPIF_OBJ(spif_objpair_new_from_key(SPIF_OBJ(x)))
             : OP("new_from_value") ? SPIF_OBJ(spif_objpair_new_from_value(SPIF_OBJ(x)))
             : SPIF_OBJ(spif_objpair_new_from_both(SPIF_OBJ(x), SPIF_OBJ(y)));
        /* the pair holds copies: the caller's objects are changed and deleted right away */
        spif_str_append_char(x, 'Z'); spif_str_del(x);
        if (y) { spif_str_append_char(y, 'Z'); spif_str_del(y); }
        if ((inv = check_type(S[0]))) return inv;
        sb_bool(ret, 1);
    } else if (OP("set_p")) {
        spif_bool_t r = is("objpair") ? spif_objpair_set_key(SPIF_OBJPAIR(S[k]), SPIF_OBJ(mkstr(T_PAIR[a0])))
                                      : spif_tok_set_src((spif_tok_t) S[k], mkstr(T_TOKSRC[a0]));
        sb_bool(ret, r);
    } else if (OP("set_q")) {
        spif_bool_t r = is("objpair") ? spif_objpair_set_value(SPIF_OBJPAIR(S[k]), SPIF_OBJ(mkstr(T_PAIR[a0])))
                      : is("tok") ? spif_tok_set_sep((spif_tok_t) S[k], mkstr(T_TOKSEP[a0]))
                      : spif_url_set_host((spif_url_t) S[k], mkstr(T_HOSTSET[a0]));
        sb_bool(ret, r);
    } else if (OP("clear_q")) {
        spif_bool_t r = is("objpair") ? spif_objpair_set_value(SPIF_OBJPAIR(S[k]), (spif_obj_t) NULL)
                      : is("tok") ? spif_tok_set_sep((spif_tok_t) S[k], (spif_str_t) NULL)
                      : spif_url_set_host((spif_url_t) S[k], (spif_str_t) NULL);
        sb_bool(ret, r);
    } else if (OP("clear_p")) {
        spif_bool_t r = is("objpair") ? spif_objpair_set_key(SPIF_OBJPAIR(S[k]), (spif_obj_t) NULL)
                                      : spif_tok_set_src((spif_tok_t) S[k], (spif_str_t) NULL);
        sb_bool(ret, r);
    } else if (OP("str_cut")) {
        /* the parent's splice removes every character: the text is present but empty */
        spif_str_t x = SPIF_STR(S[k]);
        sb_bool(ret, spif_str_splice_from_ptr(x, 0, spif_str_get_len(x), (spif_charptr_t) NULL));
    } else if (OP("new_empty")) {
        S[0] = is("url") ? SPIF_OBJ(spif_url_new_from_ptr((spif_charptr_t) "")) : SPIF_OBJ(spif_regexp_new_from_ptr((spif_charptr_t) ""));
        if ((inv = check_type(S[0]))) return inv;
        sb_bool(ret, 1);
    } else if (OP("str_trim")) {
        /* the PARENT class's mutator on a url / regexp */
        sb_bool(ret, spif_str_trim(SPIF_STR(S[k])));
    } else if (OP("str_round")) {
        /* a parent-class mutator and its inverse: the value (and the class) is as before */
        spif_str_t x = SPIF_STR(S[k]); const char *m = st->args[0]; spif_bool_t r1, r2; const char *ti;
        if (!strcmp(m, "case")) { r1 = spif_str_upcase(x); if ((ti = check_type(S[k]))) return ti; r2 = spif_str_downcase(x); }
        else if (!strcmp(m, "reverse")) { r1 = spif_str_reverse(x); if ((ti = check_type(S[k]))) return ti; r2 = spif_str_reverse(x); }
        else if (!strcmp(m, "append")) { r1 = spif_str_append_char(x, 'Z'); if ((ti = check_type(S[k]))) return ti; r2 = spif_str_splice_from_ptr(x, -1, 1, (spif_charptr_t) NULL); }
        else if (!strcmp(m, "prepend")) { r1 = spif_str_prepend_from_ptr(x, (spif_charptr_t) "Q"); if ((ti = check_type(S[k]))) return ti; r2 = spif_str_splice_from_ptr(x, 0, 1, (spif_charptr_t) NULL); }
        else { spif_str_t y = mkstr("QQ"); r1 = spif_str_splice(x, 0, 0, y); spif_str_del(y); if ((ti = check_type(S[k]))) return ti; r2 = spif_str_splice_from_ptr(x, 0, 2, (spif_charptr_t) NULL); }
        sb_bool(ret, r1 && r2);
    } else if (OP("set_flags")) {
        sb_bool(ret, spif_regexp_set_flags((spif_regexp_t) S[k], (spif_charptr_t) (a0 ? "i" : "")));
    } else if (OP("get_p") || OP("get_q")) {
        /* the value is part of the projected state; the return value is the same id */
        vh_sb tmp = {0, 0, 0}; long p = 0, q = 0, r = 0;
        if ((inv = project(k, &tmp))) { free(tmp.p); return inv; }
        sscanf(tmp.p, "{live=T,p=%ld,q=%ld,r=%ld}", &p, &q, &r);
        free(tmp.p);
        sb_int(ret, OP("get_p") ? p : q);
    } else if (OP("eval")) {
        spif_tok_t x = (spif_tok_t) S[k];
        spif_bool_t r = spif_tok_eval(x);
        if (r) {
            ev_src[k] = id_of(strtext(spif_tok_get_src(x)), T_TOKSRC, 4);
            ev_sep[k] = id_of(strtext(spif_tok_get_sep(x)), T_TOKSEP, 3);
        }
        sb_bool(ret, r);
    } else if (OP("matches")) {
        spif_str_t s = mkstr(T_SUBJ[a0]);
        spif_bool_t r1 = spif_regexp_matches_str((spif_regexp_t) S[0], s);
        spif_bool_t r2 = spif_regexp_matches_ptr((spif_regexp_t) S[0], (spif_charptr_t) T_SUBJ[a0]);
        spif_str_del(s);
        if (r1 != r2) return "regexp:matches_str!=matches_ptr";
        sb_bool(ret, r1);
    } else if (OP("dup")) {
        S[1] = SPIF_OBJ_DUP(S[0]);
        if (SPIF_OBJ_ISNULL(S[1])) return "dup=NULL";
        if (S[1] == S[0]) return "dup_returned_same_object";
        if (SPIF_OBJ_CLASS(S[1]) != SPIF_OBJ_CLASS(S[0])) return "dup_class_differs";
        if ((inv = check_type(S[1]))) return inv;
        ev_src[1] = ev_src[0]; ev_sep[1] = ev_sep[0];
        sb_bool(ret, 1);
    } else if (OP("done")) {
        sb_bool(ret, SPIF_OBJ_DONE(S[k]));
    } else if (OP("del")) {
        sb_bool(ret, SPIF_OBJ_DEL(S[k])); S[k] = (spif_obj_t) NULL;
    } else if (OP("adopt")) {
        spif_bool_t r = SPIF_OBJ_DEL(S[0]); S[0] = S[1]; S[1] = (spif_obj_t) NULL;
        ev_src[0] = ev_src[1]; ev_sep[0] = ev_sep[1];
        sb_bool(ret, r);
    } else if (OP("comp")) {
        sb_int(ret, (long) (spif_cmp_t) SPIF_OBJ_COMP(S[0], S[1]));
    } else if (OP("comp_rev")) {
        sb_int(ret, (long) (spif_cmp_t) SPIF_OBJ_COMP(S[1], S[0]));
    } else if (OP("comp_null")) {
        sb_int(ret, (long) (spif_cmp_t) SPIF_OBJ_COMP(S[0], (spif_obj_t) NULL));
    } else {
        snprintf(invmsg, sizeof(invmsg), "unknown_op_%s", op);
        return invmsg;
    }
    sb_puts(state, "{a=");
    if ((inv = project(0, state))) return inv;
    sb_puts(state, ",b=");
    if ((inv = project(1, state))) return inv;
    sb_putc(state, '}');
    return NULL;
}

int main(int argc, char **argv) {
    if (argc < 3) { fprintf(stderr, "usage: %s <class> <scripts> [first]\n", argv[0]); return 2; }
    cls = argv[1];
    libast_set_program_name("small_replay");
    libast_set_silent(1);
    return vh_main(argc, argv, 2);
}
