SPECIFICATION Spec
CONSTANTS
  Lens <- LensAll
  Modes <- ModesAll
  KW = 3
  KR = 3
  WPats <- NoPats
  RPats <- NoPats
  PathLens <- DefaultPath
  SunPathMax = 107
  QueueCap = 250
  Chunk = 4096
  SendMech = "repaired"
  RecvMech = "repaired"
  Obs <- ObsEmit
INVARIANTS TypeOK PairEstablished CursorInsideBuffer SizeNeverShrinksBelowData CursorTracksData EofEndsLoop SendCompleteMeansAll ReceivedEqualsSent CallBudget
CHECK_DEADLOCK TRUE
