#!/bin/sh
# Offline setup: nothing to download.  Warms the content-addressed ASan build of the current tree and checks the tools.
set -e
cd "$(dirname "$0")/.."
command -v clang >/dev/null || { echo "clang missing"; exit 1; }
command -v java >/dev/null || { echo "java missing"; exit 1; }
test -f /opt/veriftools/tla/tla2tools.jar || { echo "tla2tools.jar missing"; exit 1; }
mkdir -p .build evidence
python3 - <<'PY'
import sys
sys.path.insert(0, ".")
from vlib import build
d, _ = build.build_lib()
print("library built:", d)
PY
