SPECIFICATION Spec
CONSTANTS
  U <- UQuick
  Obs <- ObsEmit
CONSTRAINT ConstraintQuick
INVARIANTS TypeOK QueriesInRange SubstrLaw SpliceLaw CmpLaw ShapeLaw EmptyLaw NumLaw
PROPERTY SlotIndependence
CHECK_DEADLOCK FALSE
