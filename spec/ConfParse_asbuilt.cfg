SPECIFICATION Spec
CONSTANTS
  Configs <- ConfigsAsBuilt
  CapMod = 256
  LineMax = 20479
  AlphaOf <- AlphaMC
  Sc <- ScMC
  LineOf <- LineMC
  FixedLen <- FixedLenMC
  FixedLine <- FixedLineMC
  Obs <- ObsEmit
INVARIANTS IndexBelowCapacity
CHECK_DEADLOCK FALSE
