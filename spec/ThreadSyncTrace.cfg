SPECIFICATION TraceSpec
CONSTANTS
  Thr = {0, 1, 2, 3}
  Lk = {1, 2, 9}
  Cnd = {9}
  Impl = "ideal"
  Spurious = TRUE
  Obs <- ObsTrace
POSTCONDITION TraceAccepted
CHECK_DEADLOCK FALSE
