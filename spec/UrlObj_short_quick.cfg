SPECIFICATION Spec
CONSTANTS
  Parts <- NoParts
  Texts <- Short4
  Lookups <- LookupsQuick
  WithBuild = FALSE
  Obs <- ObsEmit
INVARIANTS TypeOK UnparsedIsFixpoint
CHECK_DEADLOCK FALSE
