------------------------------ MODULE HashesTrace ------------------------------
(* Trace validation for C18 (direction B): values RECORDED from the real spifhash_* functions on   *)
(* keys far beyond the bounded model (hundreds to thousands of bytes) are accepted only if they    *)
(* are the value of the reference.  The file named by env TRACE holds one JSON object per line:    *)
(*   {"op": <function>, "args": {"key": [bytes], "seed": [hi,lo]}, "ret": [hi,lo]}                 *)
(* (for jenkins32 "key" is the little-endian memory image of the word array).                      *)
(* Each event is two steps: load the case, then the SAME Op action of Hashes with Obs pinned to     *)
(* the recorded operation and value.                                                               *)
EXTENDS Hashes, IOUtils
VARIABLE l
Tr == ndJsonDeserialize(IOEnv.TRACE)
ev == Tr[l]

ObsTrace(op, args, ret, post) == op = ev.op /\ ret = ev.ret

TraceInit == l = 1 /\ key = <<>> /\ seed = ZERO /\ fresh = FALSE
TraceLoad == /\ l <= Len(Tr) /\ ~fresh
             /\ key' = ev.args.key /\ seed' = ev.args.seed /\ fresh' = TRUE /\ l' = l
TraceEval == /\ l <= Len(Tr) /\ fresh /\ l' = l + 1
             /\ \/ ev.op = "jenkins" /\ OpJenkins
                \/ ev.op = "jenkinsLE" /\ OpJenkinsLE
                \/ ev.op = "jenkins32" /\ OpJenkins32
                \/ ev.op = "rotating" /\ OpRotating
                \/ ev.op = "one_at_a_time" /\ OpOneAtATime
                \/ ev.op = "fnv" /\ OpFnv
TraceSpec == TraceInit /\ [][TraceLoad \/ TraceEval]_<<vars, l>>
\* accepted iff every line was consumed: two states per line after the initial one
TraceAccepted == \/ TLCGet("stats").diameter - 1 = 2 * Len(Tr)
                 \/ PrintT(<<"TRACE_REJECTED_AFTER", (TLCGet("stats").diameter - 1) \div 2, "OF", Len(Tr)>>) /\ FALSE
================================================================================
