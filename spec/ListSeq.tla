-------------------------------- MODULE ListSeq --------------------------------
(* C02 (and the list half of C05/C06): the list interface of libast as ONE abstract      *)
(* sequence.  The array, linked_list and dlinked_list classes must all refine this.      *)
(*                                                                                       *)
(* State:  a  - slot A, the list under test: Seq(Elem \cup {NULLV})  (NULLV = placeholder)*)
(*         b  - slot B: NIL or an independent copy produced by Dup                        *)
(*         it - NIL or the number of elements an iterator over A has already yielded      *)
(* Rule kinds (DESIGN.md 3): S = stated by the property, C = as-built convention.         *)
EXTENDS Integers, Sequences, TLC, Json

CONSTANTS Elems,      \* element values (positive integers; the harness makes str objects "1","2",..)
          MaxLen,     \* bound on the length of either slot (model bound only)
          Idx,        \* index arguments offered to insert_at / get / remove_at
          Obs(_, _, _, _)   \* observation hook (op, args, ret, post-state): MC_ListSeq prints the transition as JSON,
                            \* ListSeqTrace compares it with the recorded event of the implementation

VARIABLES a, b, bl, it     \* bl: slot B is live
vars == <<a, b, bl, it>>

NIL   == -1                  \* it = NIL: no iterator
NULLV == 0
BNIL  == <<>>                \* value of b while bl = FALSE

BView(y, yl) == IF yl THEN [live |-> TRUE, s |-> y] ELSE [live |-> FALSE, s |-> <<>>]
St(x, y, yl, z) == [a |-> x, b |-> BView(y, yl), it |-> z]
Pre == St(a, b, bl, it)

\* one transition: next state, then (primed values are known) the observation
Step(op, args, ret, x, y, yl, z) ==
    /\ a' = x /\ b' = y /\ bl' = yl /\ it' = z /\ Obs(op, args, ret, St(x, y, yl, z))
\* a transition that leaves slot B alone
StepA(op, args, ret, x, z) == Step(op, args, ret, x, b, bl, z)

------------------------------------------------------------------------------------------
(* reference operators on ideal sequences *)
Norm(s, i)      == IF i < 0 THEN i + Len(s) ELSE i                         \* S: negative counts from the end
InsertBefore(s, n, e) == SubSeq(s, 1, n) \o <<e>> \o SubSeq(s, n + 1, Len(s))   \* 0 <= n <= Len(s)
Pad(s, n)       == s \o [k \in 1 .. (n - Len(s)) |-> NULLV]                 \* S: placeholders are NULL
RemoveIdx(s, n) == SubSeq(s, 1, n) \o SubSeq(s, n + 2, Len(s))              \* 0-based n
Rev(s)          == [k \in 1 .. Len(s) |-> s[Len(s) + 1 - k]]
FirstPos(s, e)  == IF \E k \in 1 .. Len(s) : s[k] = e
                   THEN CHOOSE k \in 1 .. Len(s) : s[k] = e /\ \A j \in 1 .. (k - 1) : s[j] # e
                   ELSE 0
InsertAtResult(s, e, i) ==                                                   \* S
    LET n == Norm(s, i) IN
    IF n < 0 THEN [ok |-> FALSE, s |-> s]
    ELSE IF n <= Len(s) THEN [ok |-> TRUE, s |-> InsertBefore(s, n, e)]
    ELSE [ok |-> TRUE, s |-> Append(Pad(s, n), e)]

NoIter == it = NIL          \* program discipline: A is not mutated while an iterator over it is alive

------------------------------------------------------------------------------------------
(* mutators of A *)
OpAppend(e)  == /\ NoIter /\ Len(a) < MaxLen /\ StepA("append", <<e>>, TRUE, Append(a, e), it)
OpPrepend(e) == /\ NoIter /\ Len(a) < MaxLen /\ StepA("prepend", <<e>>, TRUE, <<e>> \o a, it)
OpInsertAt(e, i) ==
    LET r == InsertAtResult(a, e, i) IN
    /\ NoIter /\ Len(r.s) <= MaxLen
    /\ StepA("insert_at", <<e, i>>, r.ok, r.s, it)
OpRemove(e) ==                                              \* C: first equal element; absent -> NULL
    LET k == FirstPos(a, e) IN
    /\ NoIter
    /\ IF k = 0 THEN StepA("remove", <<e>>, NULLV, a, it)
                ELSE StepA("remove", <<e>>, e, RemoveIdx(a, k - 1), it)
OpRemoveAt(i) ==                                            \* S: outside 0..len-1 refused
    LET n == Norm(a, i) IN
    /\ NoIter
    /\ IF n < 0 \/ n >= Len(a) THEN StepA("remove_at", <<i>>, NULLV, a, it)
                               ELSE StepA("remove_at", <<i>>, a[n + 1], RemoveIdx(a, n), it)
OpReverse == /\ NoIter /\ StepA("reverse", <<>>, TRUE, Rev(a), it)
OpDone    == /\ NoIter /\ StepA("done", <<>>, TRUE, <<>>, it)        \* C06: done() leaves it empty and reusable

(* queries on A *)
Anytime == TRUE     \* a conjunct so that TLC lists these actions under their own names in its coverage
OpGet(i) == LET n == Norm(a, i) IN
            Anytime /\ StepA("get", <<i>>, IF n < 0 \/ n >= Len(a) THEN NULLV ELSE a[n + 1], a, it)
OpIndex(e)    == Anytime /\ StepA("index", <<e>>, FirstPos(a, e) - 1, a, it)                \* C: absent -> -1
OpFind(e)     == Anytime /\ StepA("find", <<e>>, IF FirstPos(a, e) = 0 THEN NULLV ELSE e, a, it)
OpContains(e) == Anytime /\ StepA("contains", <<e>>, FirstPos(a, e) # 0, a, it)
OpCount       == Anytime /\ StepA("count", <<>>, Len(a), a, it)
OpToArray     == Anytime /\ StepA("to_array", <<>>, a, a, it)

(* iterator over A *)
OpIterNew     == /\ it = NIL /\ StepA("iter_new", <<>>, TRUE, a, 0)
OpIterHasNext == /\ it # NIL /\ StepA("iter_has_next", <<>>, it < Len(a), a, it)
OpIterNext    == /\ it # NIL                                   \* C: next() after exhaustion -> NULL, any number of times
                 /\ StepA("iter_next", <<>>, IF it < Len(a) THEN a[it + 1] ELSE NULLV, a,
                          IF it < Len(a) THEN it + 1 ELSE Len(a) + 1)
OpIterDel     == /\ it # NIL /\ StepA("iter_del", <<>>, TRUE, a, NIL)
\* S (C05: dup is an equal independent copy): the program copies the iterator, deletes the original and carries on with
\* the copy - the copy stands exactly where the original stood (at every position, including "exhausted")
OpIterDup     == /\ it # NIL /\ StepA("iter_dup", <<>>, TRUE, a, it)

(* the copy *)
OpDup      == /\ ~bl /\ Step("dup", <<>>, TRUE, a, a, TRUE, it)
OpDelB     == /\ bl /\ Step("b_del", <<>>, TRUE, a, BNIL, FALSE, it)
OpBAppend(e)  == /\ bl /\ Len(b) < MaxLen /\ Step("b_append", <<e>>, TRUE, a, Append(b, e), TRUE, it)
OpBRemoveAt(i) == /\ bl
                  /\ LET n == Norm(b, i) IN
                     IF n < 0 \/ n >= Len(b) THEN Step("b_remove_at", <<i>>, NULLV, a, b, TRUE, it)
                                             ELSE Step("b_remove_at", <<i>>, b[n + 1], a, RemoveIdx(b, n), TRUE, it)
OpBReverse == /\ bl /\ Step("b_reverse", <<>>, TRUE, a, Rev(b), TRUE, it)
\* swap roles: delete A, keep the copy as the list under test (the copy must be a full citizen)
OpAdopt    == /\ bl /\ NoIter /\ Step("adopt", <<>>, TRUE, b, BNIL, FALSE, it)

Init == a = <<>> /\ b = BNIL /\ bl = FALSE /\ it = NIL

Next == \/ \E e \in Elems : OpAppend(e) \/ OpPrepend(e) \/ OpRemove(e) \/ OpIndex(e) \/ OpFind(e) \/ OpContains(e)
        \/ \E e \in Elems, i \in Idx : OpInsertAt(e, i)
        \/ \E i \in Idx : OpRemoveAt(i) \/ OpGet(i)
        \/ OpReverse \/ OpDone \/ OpCount \/ OpToArray
        \/ OpIterNew \/ OpIterHasNext \/ OpIterNext \/ OpIterDel \/ OpIterDup
        \/ OpDup \/ OpDelB \/ OpAdopt \/ OpBReverse
        \/ \E e \in Elems : OpBAppend(e)
        \/ \E i \in {0, -1} : OpBRemoveAt(i)

Spec == Init /\ [][Next]_vars

------------------------------------------------------------------------------------------
(* properties of the reference itself *)
Vals == Elems \cup {NULLV}
TypeOK == /\ a \in Seq(Vals) /\ Len(a) <= MaxLen
          /\ b \in Seq(Vals) /\ Len(b) <= MaxLen /\ bl \in BOOLEAN /\ (~bl => b = BNIL)
          /\ it \in {NIL} \cup 0 .. (MaxLen + 1)

\* S: a refused insert_at leaves the value unchanged, an accepted one grows it and puts e at the normalised place
InsertAtLaw == \A e \in Elems, i \in Idx :
    LET r == InsertAtResult(a, e, i) n == Norm(a, i) IN
    /\ (~r.ok) => (r.s = a /\ n < 0)
    /\ r.ok => /\ r.s[n + 1] = e
               /\ Len(r.s) = (IF n <= Len(a) THEN Len(a) + 1 ELSE n + 1)
               /\ \A k \in 1 .. Len(r.s) : (k > Len(a) /\ k # n + 1 /\ n > Len(a)) => r.s[k] = NULLV
               /\ \A k \in 1 .. Len(a) : (k <= n => r.s[k] = a[k]) /\ (k > n => r.s[k + 1] = a[k])
\* S: reverse is an involution, removal shrinks by exactly one
ReverseLaw == Rev(Rev(a)) = a
\* S: the iterator has yielded exactly a prefix of A and reports exhaustion exactly after count elements
IterLaw == it # NIL => (it <= Len(a) + 1)
\* action property: queries and refused operations never change the value (checked on every generated transition)
MutatorsOnly == [][ (a' # a) => (it = NIL) ]_vars
================================================================================
