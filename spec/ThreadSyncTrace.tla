---------------------------- MODULE ThreadSyncTrace ----------------------------
(* Trace validation for X03 (direction B): a recorded interleaving of REAL threads calling the     *)
(* REAL wrappers must be a behaviour of ThreadSync with Impl = "ideal".                            *)
(*                                                                                                  *)
(* The file named by env TRACE holds one JSON object per line, in the global order the harness      *)
(* took under its log mutex:                                                                        *)
(*   {"op":..,"t":thread,"n":per-thread sequence number,"o":object,"r":1|0|-1,"v":scalar|-1}        *)
(* r = -1 / v = -1 mean "not observed by this event".  {"op":"reset",...} starts a new execution.   *)
(* Logging discipline (harness/thread_drive.c): an ACQUIRING call (lock, lock_nowait, the return of *)
(* wait, join) is logged after it returned, a RELEASING call (unlock, the call of wait, run) is     *)
(* logged before it is made - both while the thread still holds what orders it against the others - *)
(* so the logged order is a linearisation of the real one.  The result of unlock arrives in a       *)
(* second, thread-local event "unlock_ret".                                                         *)
(* Instants nobody can log (a time-out firing, a spurious wake-up) are composed silently, only      *)
(* where an event needs them: bounded by the number of sleeping threads.                            *)
EXTENDS ThreadSync, IOUtils
VARIABLES l,      \* next line of the trace
          seq,    \* seq[t] = sequence number of t's last event
          pend,   \* pend[t] = object whose unlock result is still to come, 0 if none
          owe,    \* lockables for which a failed lock_nowait was logged BEFORE the acquisition that explains it
          held    \* held[t] = lockables that were held by somebody at some moment since t's previous event
tvars == <<l, seq, pend, owe, held>>
Tr == ndJsonDeserialize(IOEnv.TRACE)
ev == Tr[l]
HasEv == l <= Len(Tr)

ObsTrace(op, args, ret, post) ==
    IF op \in {"tau_timeout", "tau_spurious"} THEN TRUE
    ELSE /\ op = ev.op
         /\ args = <<ev.t, ev.o>>
         /\ (ev.r = NONE \/ ret = (ev.r = 1)) = TRUE
         /\ (ev.v = NONE \/ post.cnt = ev.v) = TRUE

MaxReg == 7
Seen(k) == TLCSet(MaxReg, IF k > TLCGet(MaxReg) THEN k ELSE TLCGet(MaxReg))

TraceInit == /\ Init /\ l = 1 /\ seq = [t \in Thr |-> 0] /\ pend = [t \in Thr |-> 0] /\ owe = {}
             /\ held = [t \in Thr |-> {}]
             /\ TLCSet(MaxReg, 1)

R == ev.r = 1
Consume == /\ l' = l + 1
           /\ ev.t \in Thr
           /\ ev.n = seq[ev.t] + 1
           /\ seq' = [seq EXCEPT ![ev.t] = ev.n]

\* (evaluated after the event's action: own' is known)
HeldUpd == held' = [u \in Thr |-> (IF u = ev.t THEN {} ELSE held[u]) \cup {o \in Lk : own'[o] # NONE}]
LkOps == {"lock", "try", "unlock", "wait_begin", "twait_begin", "wait_end", "twait_end", "signal", "bcast"}
AcqOps == {"lock", "try", "wait_end", "twait_end"}

EvReset == /\ ev.op = "reset"
           /\ owe = {} /\ UNCHANGED owe /\ held' = [t \in Thr |-> {}]
           /\ l' = l + 1
           /\ seq' = [t \in Thr |-> 0] /\ pend' = [t \in Thr |-> 0]
           /\ own' = [o \in Lk |-> NONE]
           /\ wt' = [c \in Cnd |-> {}] /\ rdy' = [c \in Cnd |-> {}] /\ tmo' = [c \in Cnd |-> {}] /\ tw' = {}
           /\ ts' = [t \in Thr |-> IF t = 0 THEN "run" ELSE "new"]
           /\ det' = {} /\ cnt' = 0 /\ tmp' = [t \in Thr |-> 0] /\ res' = [t \in Thr |-> FALSE]
           /\ Seen(l + 1)

\* thread-local: the result of the unlock whose call was logged before
EvUnlockRet == /\ ev.op = "unlock_ret"
               /\ Consume
               /\ pend[ev.t] = ev.o /\ ev.o # 0
               /\ ev.r = 1                                  \* IDEAL: unlock by the owner answers TRUE
               /\ pend' = [pend EXCEPT ![ev.t] = 0]
               /\ UNCHANGED <<lvars, owe>> /\ HeldUpd
               /\ Seen(l + 1)
\* the controlling thread's final look at the protected scalar, when every worker is gone
EvEnd == /\ ev.op = "end"
         /\ Consume
         /\ ev.v = cnt
         /\ owe = {}
         /\ UNCHANGED <<lvars, pend, owe>> /\ HeldUpd
         /\ Seen(l + 1)

EvCall ==
    /\ Consume
    /\ pend[ev.t] = 0                                        \* no event between an unlock and its result
    \* an owed acquisition comes before anything else happens to that lockable (failed attempts apart)
    /\ (ev.op \in LkOps /\ ev.o \in owe) => (ev.op \in AcqOps)
    /\ owe' = IF ev.op \in AcqOps /\ ev.r = 1 THEN owe \ {ev.o} ELSE owe
    /\ \/ ev.op = "lock" /\ OpLock(ev.t, ev.o, R) /\ UNCHANGED pend
       \/ ev.op = "try" /\ OpTry(ev.t, ev.o, R) /\ UNCHANGED pend
       \/ ev.op = "unlock" /\ OpUnlock(ev.t, ev.o, TRUE) /\ pend' = [pend EXCEPT ![ev.t] = ev.o]
       \/ ev.op = "wait_begin" /\ OpWaitBegin(ev.t, ev.o, FALSE) /\ UNCHANGED pend
       \/ ev.op = "twait_begin" /\ OpWaitBegin(ev.t, ev.o, TRUE) /\ UNCHANGED pend
       \/ ev.op \in {"wait_end", "twait_end"} /\ OpWaitEnd(ev.t, ev.o, R) /\ UNCHANGED pend
       \/ ev.op = "twait_end" /\ OpWaitEndTmo(ev.t, ev.o, R) /\ UNCHANGED pend
       \/ ev.op = "signal" /\ OpSignal(ev.t, ev.o, R) /\ UNCHANGED pend
       \/ ev.op = "bcast" /\ OpBroadcast(ev.t, ev.o, R) /\ UNCHANGED pend
       \/ ev.op = "run" /\ OpRun(ev.t, ev.o, R) /\ UNCHANGED pend
       \/ ev.op = "begin" /\ OpBegin(ev.t) /\ UNCHANGED pend
       \/ ev.op = "exit" /\ OpExit(ev.t) /\ UNCHANGED pend
       \/ ev.op = "join" /\ OpJoin(ev.t, ev.o, R) /\ UNCHANGED pend
       \/ ev.op = "detach" /\ OpDetach(ev.t, ev.o, R) /\ UNCHANGED pend
       \/ ev.op = "kill0" /\ OpKill0(ev.t, ev.o, R) /\ UNCHANGED pend
       \/ ev.op = "rd" /\ OpRd(ev.t) /\ UNCHANGED pend
       \/ ev.op = "wr" /\ OpWr(ev.t) /\ UNCHANGED pend
       \/ ev.op = "put" /\ OpPut(ev.t) /\ UNCHANGED pend
       \/ ev.op = "take" /\ OpTake(ev.t) /\ UNCHANGED pend
       \/ ev.op = "chk" /\ OpChk(ev.t, R) /\ UNCHANGED pend
       \/ ev.op = "setres" /\ OpSetRes(ev.t) /\ UNCHANGED pend
       \/ ev.op = "chkres" /\ OpChkRes(ev.t, ev.o, R) /\ UNCHANGED pend
    /\ HeldUpd
    /\ Seen(l + 1)                                           \* (evaluated only when the event was accepted)

\* lock_nowait answered FALSE although the model sees the mutex free at this line.  A failed attempt acquires nothing, so
\* nothing orders its log line against the holder's: the call itself happened at some moment between the thread's previous
\* event and this line.  Legitimate iff
\*  (a) the lockable was held at some moment in that window (held[t]; covers a release in flight - a releasing call is
\*      logged BEFORE it is made), or
\*  (b) the thread that holds it has not logged its acquisition yet (an acquisition is logged AFTER it returned): accepted
\*      on credit - the very next thing that happens to this lockable must be that acquisition.
\* (What this cannot see: a lock_nowait that fails on a free mutex exactly inside such a window.)
EvTryEarly ==
    /\ ev.op = "try" /\ ev.r = 0
    /\ Consume
    /\ pend[ev.t] = 0
    /\ Ready(ev.t)
    /\ own[ev.o] = NONE
    /\ \/ /\ (ev.o \in held[ev.t] \/ (ev.o \in Cnd /\ wt[ev.o] # {})) = TRUE
          /\ UNCHANGED owe
       \/ owe' = owe \cup {ev.o}
    /\ UNCHANGED <<lvars, pend>>
    /\ HeldUpd
    /\ Seen(l + 1)

\* silent composition, only in front of the event that needs it
EvSilent ==
    /\ UNCHANGED tvars
    /\ \/ /\ ev.op \in {"wait_end", "twait_end"} /\ ev.o \in Cnd /\ ev.r = 1
          /\ OpSpurious(ev.t, ev.o)
       \/ /\ ev.op = "twait_end" /\ ev.o \in Cnd /\ ev.r = 0
          /\ OpTimeout(ev.t, ev.o)
       \/ /\ ev.op \in {"signal", "bcast"} /\ ev.o \in Cnd             \* a sleeper whose time ran out just before the signal
          /\ \E t \in wt[ev.o] \cap tw : OpTimeout(t, ev.o)

TraceStep == HasEv /\ (EvReset \/ EvUnlockRet \/ EvEnd \/ EvCall \/ EvTryEarly \/ EvSilent)
TraceSpec == TraceInit /\ [][TraceStep]_<<lvars, tvars>>
\* accepted iff some interleaving of the silent steps consumes every line
TraceAccepted == \/ TLCGet(MaxReg) - 1 = Len(Tr)
                 \/ PrintT(<<"TRACE_REJECTED_AFTER", TLCGet(MaxReg) - 1, "OF", Len(Tr)>>) /\ FALSE
TraceLen == Len(Tr)
================================================================================
