"""C09: the config parser delivers every line once, in order, to the innermost open context (ConfParse.tla)."""
import os, re, json, random, threading, time
from vlib import x_c09
from vlib.core import tok, untok, Broken, log
from vlib.tlc import run_tlc
from vlib.replay import run_scripts

PROPERTY = "C09"
LEVEL = "model_checking"
LEVEL_TEXT = ("TLC explores ConfParse.tla (mechanism level: file stack, context stack, context table, 8-bit indices and doubled "
              "capacities as the code keeps them) exhaustively over all config files of up to 5-6 lines over a 7-line alphabet with an "
              "included file, a 27-line classifier alphabet for short files, 12 registered-context configurations, and the nesting / "
              "include-chain / registration families around every capacity doubling up to 255, checking IndexBelowCapacity, "
              "DeliveredOnceInOrder, BeginEndPaired, InnermostContext, UnknownFallsToNull, StateThreaded and StacksRestored against a "
              "reference computed from the file tree alone. EVERY behaviour TLC generates is materialised as real files and run through "
              "spifconf_parse() of the current tree (ASan build) with recording handlers; the handler-call sequence with state tokens, the "
              "return value, the open-descriptor census and the hook snapshot of the private indices/capacities must equal the "
              "behaviour. Seeded random larger file trees are recorded and validated by TLC against the same actions (ConfParseTrace).")
LEVEL_NOTE = ("Bounded scope for the exhaustive part (files <= 5/6 lines, include depth <= 2/3, nesting and table sizes up to the 255 "
              "the statement names); beyond it sampled file trees only. %preproc/back-quote lines are outside this check (C11), the "
              "fp == NULL single-line mode is not part of the statement, skip-to-end requested by a handler is modelled as built and "
              "%include while skipping is left out. Value expansion inside delivered lines is C10's subject; the texts used here contain "
              "no expansion characters. Trusted: TLC, the materialisation of abstract files in vlib/x_c09.py, harness/conf_replay.c, ASan.")
TECHNIQUE = "TLA+ mechanism-level spec + TLC exhaustive behaviour enumeration replayed on the implementation + TLC trace validation"
DESIGN_REF = "DESIGN.md section 6 C09"

# Deep stacks for every thread of every TLC this check starts.  JAVA_TOOL_OPTIONS reaches the JVM (worker threads) but NOT the
# launcher, which creates the MAIN thread with the default 8 MB before the JVM reads it - and TLC computes the initial states
# (here: the scan table over all lines of a trace file, recursive operators) on the main thread: a StackOverflowError there is
# caught and re-wrapped by every enclosing evaluation, which took 10-25 minutes or ran into the timeout, non-deterministically.
# JDK_JAVA_OPTIONS is read by the launcher itself (JDK 9+), so the main thread gets the deep stack as well.
JAVA_ENV = {"JAVA_TOOL_OPTIONS": "-Xss512m", "JDK_JAVA_OPTIONS": "-Xss512m"}


def bucket(n):
    for lo, hi in ((0, 9), (10, 19), (20, 39), (40, 79), (80, 159), (160, 255)):
        if lo <= n <= hi:
            return "%d..%d" % (lo, hi)
    return ">255"


def tag_class(cfg):
    t = "fam=%s" % cfg["fam"]
    if cfg["fam"] == "enum":
        t += "/%s" % cfg["alpha"]
    if cfg["fam"] in ("nest", "unbal", "chain"):
        t += " n=%s" % bucket(cfg["n"])
    if cfg["fam"] == "long":
        t += " n=%s" % ("fits" if cfg["n"] < 20479 else "toolong")
    t += " reg=%s" % cfg["regfam"]
    if cfg["regfam"] == "many":
        t += bucket(cfg["nreg"])
    t += " null=%s" % cfg["nullmode"]
    return t


def diff_component(exp, got):
    """Which part of the parse state token differs first (calls / fds / snap and, for calls, how)."""
    try:
        e, g = untok(exp), untok(got)
    except Exception:
        return "unparsable"
    if e.get("calls") != g.get("calls"):
        ec, gc = e.get("calls") or [], g.get("calls") or []
        for i in range(min(len(ec), len(gc))):
            if ec[i] != gc[i]:
                names = ["handler", "kind", "text", "text", "state_in", "state_out"]
                for j in range(6):
                    if ec[i][j] != gc[i][j]:
                        return "calls:%s-differs" % names[j]
        return "calls:%s" % ("missing" if len(gc) < len(ec) else "extra")
    if e.get("fds") != g.get("fds"):
        return "fds"
    es, gs = e.get("snap") or {}, g.get("snap") or {}
    for k in sorted(es):
        if es.get(k) != gs.get(k):
            return "snap:%s" % k
    return "other"


def fail_key(tagc, f):
    if f.kind in ("crash", "hang", "exit"):
        return "%s [%s] %s/%s" % (f.op, tagc, f.kind, f.sig)
    if f.kind == "state":
        return "%s [%s] state/%s" % (f.op, tagc, diff_component(f.exp, f.got))
    if f.kind == "inv":
        return "%s [%s] inv/%s" % (f.op, tagc, re.sub(r"\d+", "N", f.got))
    return "%s [%s] %s" % (f.op, tagc, f.kind)


def spec_actions():
    """Names of all Op actions of ConfParse.tla (from the module text, so that none can be forgotten)."""
    txt = open(os.path.join(os.path.dirname(os.path.dirname(os.path.abspath(__file__))), "spec", "ConfParse.tla")).read()
    return sorted(set(re.findall(r"^(Op\w+)\s*==", txt, flags=re.M)))


class Replayer:
    """Replays behaviours in batches while TLC is still producing them (bounded memory, overlapped work)."""
    BATCH = 40000

    def __init__(self, ctx, exe):
        import queue
        self.ctx, self.exe = ctx, exe
        self.lock = threading.Lock()
        self.cur = []                 # (sid, text, tag)
        self.nsid = 0
        self.q = queue.Queue(maxsize=3)
        self.acts = {}
        self.unjudged = 0
        self.byfam = {}
        self.samples = {}
        self.nscripts = self.nsteps = self.nfailing = 0
        self.seen = {}
        self.error = None
        self.wall = 0.0
        self.th = threading.Thread(target=self._work)
        self.th.start()

    def add(self, b):
        with self.lock:
            for a in b["post"]["acts"]:
                self.acts[a] = self.acts.get(a, 0) + 1
            if b["op"] != "parse":
                self.unjudged += 1
                return
            self.nsid += 1
            sid = self.nsid
            tag = tag_class(b["input"]["cfg"])
            k = tag.split(" ")[0]
            self.byfam[k] = self.byfam.get(k, 0) + 1
        text = x_c09.behaviour_script(sid, b)
        batch = None
        with self.lock:
            if k not in self.samples or (len(text) > len(self.samples[k][1]) and len(text) < 1500):
                self.samples[k] = (tag, text)
            self.cur.append((sid, text, tag))
            if len(self.cur) >= self.BATCH:
                batch, self.cur = self.cur, []
        if batch:
            self.q.put(batch)

    def finish(self):
        with self.lock:
            batch, self.cur = self.cur, []
        if batch:
            self.q.put(batch)
        self.q.put(None)
        self.th.join()
        if self.error:
            raise self.error

    def _work(self):
        n = 0
        while True:
            batch = self.q.get()
            if batch is None:
                return
            if self.error:
                continue
            try:
                t0 = time.time()
                texts = [t for _, t, _ in batch]
                tags = {sid: tg for sid, _, tg in batch}
                bysid = {sid: i for i, (sid, _, _) in enumerate(batch)}
                n += 1
                fails, _, ns, nt = run_scripts(self.exe, [], texts, self.ctx.rundir, jobs=4, tag="beh%d" % n)
                if ns != len(texts):
                    raise Broken("replayed %d scripts of %d behaviours" % (ns, len(texts)))
                self.nscripts += ns
                self.nsteps += nt
                self.nfailing += len(set(f.sid for f in fails))
                for f in fails:
                    key = fail_key(tags[f.sid], f)
                    if key in self.seen:
                        if key in self.ctx.violations:
                            self.ctx.violations[key][2] += 1
                        continue
                    self.seen[key] = f
                    i = bysid[f.sid]
                    self.ctx.report(key, "%s at step %d (%s) exp=%s got=%s %s" % (f.kind, f.step, f.op, f.exp[:300], f.got[:300], f.sig),
                                    {"harness_args": [], "script_text": texts[i], "failure": repr(f), "detail": f.detail,
                                     "context_script_text": (texts[i - 4] if i >= 4 else "") + texts[i]})
                self.wall += time.time() - t0
            except Exception as e:          # noqa
                self.error = e


def tlc_behaviours(ctx, cfgs, workers, rp):
    """Runs the TLC configurations concurrently, feeding every emitted behaviour to the replayer."""
    results = {}
    errors = []

    def one(cfg, w):
        try:
            results[cfg] = run_tlc("MC_ConfParse.tla", cfg, ctx.rundir, on_edge=rp.add, workers=w, env=JAVA_ENV, coverage=False,
                                   timeout=3000 if ctx.tier == "thorough" else 900)
        except Exception as e:          # noqa
            errors.append(e)
    ths = [threading.Thread(target=one, args=(c, w)) for c, w in zip(cfgs, workers)]
    for t in ths:
        t.start()
    for t in ths:
        t.join()
    if errors:
        raise errors[0]
    return results


def asbuilt_demo(ctx):
    """The invariant is not vacuous: on the pinned 8-bit capacity rule TLC finds the wrap by itself."""
    res = run_tlc("MC_ConfParse.tla", "ConfParse_asbuilt.cfg", ctx.rundir, workers=2, env=JAVA_ENV, timeout=600, coverage=False)
    found = bool(res.violation) and "IndexBelowCapacity" in res.violation
    ctx.cov["asbuilt_mechanism"] = {
        "cfg": "ConfParse_asbuilt.cfg", "capacity_modulus": 256, "invariant": "IndexBelowCapacity",
        "counterexample_found_by_tlc": found, "trace_depth": res.depth, "states": res.distinct}
    if not found:
        raise Broken("TLC did not find the capacity wrap on the as-built mechanism (CapMod=256): %s" % (res.violation or res.tail[-5:]))


# ---- direction B: seeded random file trees ---------------------------------------------------------
WORDS = ["alpha", "beta", "gamma", "delta 4", "k = v", "end.", "bend", "x1", "xx y", "Z", "font fixed", "e", "b", "begin", "endx"]
NAMES = ["A", "B", "color", "Toggles", "cc", "menu"]


ENV_NAMES = ("N", "V", "NOSUCH")
ENV0 = {"home": [], "vname": [], "vval": []}          # HOME and one more variable as the parsed text sees them ([] = unset)


def mkenv(home="", vname="", vval=""):
    return {"home": [ord(c) for c in home], "vname": [ord(c) for c in vname], "vval": [ord(c) for c in vval]}


PROGS = ["libast", "tsabil", "LIBAST", "Eterm", "etern", "x", "my-configurator", "my-configuratos"]


def L(s, x=0):
    return {"x": x, "t": [ord(c) for c in s]}


def gen_tree(rnd, big):
    nfiles = rnd.randint(1, 6)
    kinds = ["ok"] + [rnd.choice(["ok", "ok", "ok", "badmagic", "empty", "missing"]) for _ in range(nfiles - 1)]
    reg = rnd.sample(NAMES, rnd.randint(0, len(NAMES)))
    if rnd.random() < 0.2:
        reg = reg + ["c%03d" % i for i in range(rnd.randint(15, 45))]
    nullmode = rnd.choice(["builtin", "first", "last"])
    content = []
    for f in range(1, nfiles + 1):
        lines = []
        depth = 0
        for _ in range(rnd.randint(0, 60 if big else 25)):
            r = rnd.random()
            pad = rnd.choice(["", "", " ", "\t", "  "])
            if r < 0.08:
                lines.append(L(rnd.choice(["# note", "  # indented", "", "   ", "<tag>", "#"])))
            elif r < 0.30 and depth < 40:
                nm = rnd.choice(NAMES + ["nosuch", "null"])
                nm = rnd.choice([nm, nm.lower(), nm.upper()])
                kw = rnd.choice(["begin", "begin", "beGIN", "bEgin"])
                lines.append(L(pad + kw + " " + rnd.choice(["", " "]) + nm + rnd.choice(["", " extra words"]) + pad))
                depth += 1
            elif r < 0.50:
                lines.append(L(pad + rnd.choice(["end", "end", "eND", "end " + rnd.choice(NAMES), "end #c"]) + pad))
                depth = max(0, depth - 1)
            elif r < 0.58 and f < nfiles:
                g = rnd.randint(f + 1, nfiles)
                lines.append(L(pad + "%%include f%03d.cfg" % g + pad))
            elif r < 0.60:
                lines.append(L("%include nothere.cfg"))
            elif r < 0.64:
                lines.append(L(rnd.choice(["%put(k v)", "%put(other 1)", "%", "%include", "% x"])))
            elif r < 0.66 and big:
                lines.append(L("", x=rnd.choice([20470, 20478, 20479, 20480, 30000])))
            elif r < 0.67:
                lines.append(L("skipme"))
            else:
                lines.append(L(pad + rnd.choice(WORDS) + pad, x=rnd.choice([0, 0, 0, 1, 3])))
        content.append(lines)
    # process-wide setting read by the parser: the program name (the magic line must carry the CURRENT one); files mostly carry
    # it, sometimes the name of another (earlier) execution
    prog = rnd.choice(PROGS)
    magic = [prog] + [prog if rnd.random() < 0.8 else rnd.choice(PROGS) for _ in range(nfiles - 1)]
    return {"fam": "list", "n": 0, "regfam": "list", "nreg": 0, "names": [[ord(c) for c in n] for n in reg], "nullmode": nullmode,
            "prog": [ord(c) for c in prog], "magic": [[ord(c) for c in m] for m in magic], "env": ENV0,
            "kinds": kinds, "maxlen": [0] * nfiles, "alpha": "none", "content": content}


# byte values that may open an ordinary line without being given a meaning by the expansion of values (C10: % ` $ \ ~),
# by white space (9..13, 32) or by the handler protocol itself (1 and 2 are the BEGIN / END markers a handler looks for)
EXPANSION_BYTES = {ord(c) for c in "%`$\\~"}
FIRST_BYTES = [v for v in range(3, 256) if v not in EXPANSION_BYTES and v not in (9, 10, 11, 12, 13, 32)]
SIZES = sorted(set(n + d for n in (8, 16, 32, 64, 128, 256, 512, 1024, 2048, 4096, 8192, 20478) for d in (-1, 0, 1)))


def _one(names, nullmode, lines, prog="libast", magic=None, more=(), env=None):
    files = [lines] + list(more)
    return {"fam": "list", "n": 0, "regfam": "list", "nreg": 0, "names": [[ord(c) for c in n] for n in names], "nullmode": nullmode,
            "env": env or ENV0,
            "prog": [ord(c) for c in prog], "magic": [[ord(c) for c in m] for m in (magic or [prog] * len(files))],
            "kinds": ["ok"] * len(files), "maxlen": [0] * len(files), "alpha": "none", "content": files}


LONGBASE = "".join("%s%d." % (w, i) for i, w in enumerate(["color", "menu", "Toggles", "keys", "image", "misc"] * 40))


def name_and_setting_families(tier):
    """Direction-B inputs about NAMES and process-wide settings:
    context names - for every length n (all of 1..140, and n-1, n, n+1 around the powers of two up to 1024) two registered
    names that share their first n-1 characters, the look-alike registered first; begin lines with the second name, with a
    third (unregistered) sibling, with the name extended and shortened by one character, in another case;
    program name - a sequence of parses between which the program is renamed (same length, other length, case change); the
    files carry the magic line of the current name, of the previous one, of a name that only shares a prefix."""
    out = []
    lens = sorted(set(list(range(1, 141)) + [n + d for n in (256, 512, 1024) for d in (-1, 0, 1)]))
    if tier == "quick":
        lens = [n for n in lens if n <= 100 or n in (127, 128, 129, 255, 256, 257)]
    for c0 in range(0, len(lens), 30):
        names, lines = [], []
        for n in lens[c0:c0 + 30]:
            stem = LONGBASE[:n - 1]
            a, b, c = stem + "a", stem + "b", stem + "c"
            names += [a, b]
            for nm in ((b, c, b + "x", b.upper()) if tier == "quick" else (b, a, c, b + "x", b.upper(), (stem[:-1] + "b") if n > 1 else "q")):
                lines += [L("begin " + nm), L("t %d" % n), L("end")]
        out.append(_one(names, "first", lines))
    # renames: every ordered pair of a few names, file 2 carrying the previous / a look-alike / the current name
    prev = PROGS[-1]
    for k, prog in enumerate(PROGS + PROGS[::-1] + [PROGS[0], PROGS[1], PROGS[0], PROGS[1], PROGS[0]]):
        body = [L("begin A"), L("a"), L("%include f002.cfg"), L("%include f003.cfg"), L("b"), L("end")]
        out.append(_one(["A"], "first", body, prog=prog, magic=[prog, prev, prog if k % 2 else prog + "s"], more=[[L("old")], [L("cur")]]))
        out.append(_one(["A"], "first", body, prog=prog, magic=[prev, prog, prog], more=[[L("old")], [L("cur")]]))
        prev = prog
    return out




def value_and_size_families(tier):
    """Deterministic direction-B inputs (validated by TLC like the random trees):
    full-range values - every byte value as the FIRST non-blank character of a line (and as an inner and the last one), at
    column 0, after blanks and after a tab, inside a context and at top level; keywords extended / prefixed by every letter
    and digit; size sweep - lines of n-1, n, n+1 characters for every power of two up to 8192 and the line buffer, and files
    of n-1, n, n+1 lines.  (The cost of validating one execution grows with the square of its calls, so the value families
    are cut into executions of about 300 lines.)"""
    out = []

    def emit(lines, where):
        for c0 in range(0, len(lines), 300):
            part = lines[c0:c0 + 300]
            out.append(_one(["A"], "first", ([L("begin A")] + part + [L("end")]) if where == "ctx" else part))
    for where in ("ctx", "top"):
        lines = []
        for v in FIRST_BYTES:
            body = [v, 107, 32, 114]                                   # <v>k r
            for pad in ([], [32, 32], [9], [32, 9, 32]):
                lines.append({"x": 0, "t": pad + body + pad})
            lines.append({"x": 0, "t": [107, 32, v, 32, 114]})         # inner
            lines.append({"x": 0, "t": [32, 107, 32, 114, v]})         # last
        emit(lines, where)
    lines = []
    for c in "abcdefghijklmnopqrstuvwxyzABCDEFGHIJKLMNOPQRSTUVWXYZ0123456789_-.":
        for w in ("end", "begin", "en", "begi"):
            lines += [L(w + c), L(c + w), L("  " + w + c + " x"), L(w + c + " A")]
    emit(lines, "top")
    # sizes of lines
    lines = [L("begin A")] + [{"x": n, "t": []} for n in SIZES] + [{"x": n - 3, "t": [32, 121, 32]} for n in SIZES] + [L("end"), L("tail")]
    out.append(_one(["A"], "first", lines))
    # sizes of files (number of lines)
    ns = [7, 8, 9, 63, 64, 65, 255, 256, 257, 1024] + ([1023, 1025, 4095, 4096, 4097] if tier == "thorough" else [])
    for n in ns:
        out.append(_one(["A"], "last", [L("begin A")] + [L("l%d" % (i % 10)) for i in range(n - 2)] + [L("end")]))
    return out


def quoting_families(tier):
    """Direction-B inputs about the EMPTY value and about quoting:
    names - a context registered under "" (and one under a name with a blank) opened with begin "" / '' / a lone quote / quoted
    and half-quoted names, with and without that registration;
    %include names - every special character of value expansion ($NAME, ~, backslash pairs, both quote characters) inside each
    quoting level (none, single, double) of the name, with an environment in which the expanded and the literal reading name
    different files; the empty name in both spellings, a lone and an unterminated quote; a variable whose value has blanks."""
    out = []
    begins = ['""', "''", '"', "'", '"A"', "'A'", '"a b"', "'a b'", '"A', 'A"', '"" x', "''''", '"\\""', "a b", 'A""', '" "']
    for names in (["", "A", "a b", '"'], ["A"], ["a b", ""]):
        for nullmode in ("first", "builtin"):
            lines = []
            for b in begins:
                lines += [L("begin " + b), L("t " + b.replace("\\", "")), L("end")]
            out.append(_one(names, nullmode, lines))
    f2, f3 = [L("two")], [L("begin A"), L("three"), L("end")]
    specials = ["$N", "${N}x", "~", "\\3", "\\\\", '\\"', "\\'", "$", "$NOSUCH", "~~"]
    for env in (mkenv(home="f00", vname="N", vval="3"), mkenv(home="", vname="N", vval="2"), mkenv(home="f00", vname="N", vval="2.cfg junk"),
                mkenv(home="f002.cfg", vname="V", vval="'f003.cfg'")):
        lines = [L("begin A")]
        for sp in specials:
            for name in ("f00%s.cfg" % sp, "%s2.cfg" % sp, "f00%s" % sp, sp):
                for q in ('%s', "'%s'", '"%s"', "'%s", '"%s', "%s x", "'%s' x"):
                    t = "%include " + (q % name)
                    if "'" in name and q.startswith('"') or "${" in t:
                        continue                    # X: a single quote inside double quotes, the ${ form
                    lines += [L(t), L("k")]
        for t in ('%include ""', "%include ''", '%include "', "%include '", '%include " "', '%include "f002.cfg', "%include 'f003.cfg", '%include $V', '%include "$V"',
                  "%include '$V'", '%include ~', '%include "~"', "%include '~'", '%include f002.cfg"', "%include ''f002.cfg", '%include "f00"2.cfg'):
            lines += [L(t), L("k")]
        lines.append(L("end"))
        for c0 in range(1, len(lines) - 1, 120):
            out.append(_one(["A"], "first", [lines[0]] + lines[c0:c0 + 120] + [lines[-1]] if c0 + 120 < len(lines) - 1 else [lines[0]] + lines[c0:],
                            more=[f2, f3], env=env))
    return out


def tree_script(sid, cfg):
    env = cfg.get("env") or ENV0
    out = ["S %d" % sid, "prog %s = ? ?" % x_c09.blist(cfg["prog"]),
           "setenv %s %s = ? ?" % (x_c09.blist(b"HOME"), x_c09.blist(env["home"]) if env["home"] else "-")]
    for vn in ENV_NAMES:          # the environment is process-wide: what this execution does not define must be unset
        out.append("setenv %s %s = ? ?" % (x_c09.blist(vn.encode()), x_c09.blist(env["vval"]) if vn.encode() == bytes(env["vname"]) else "-"))
    out.append("init = ? ?")
    for f, (k, lines) in enumerate(zip(cfg["kinds"], cfg["content"]), 1):
        data = x_c09.file_bytes({"kind": k, "lines": lines, "magic": cfg["magic"][f - 1]})
        if data is not None:
            out.append("file %s %s = ? ?" % (x_c09.blist(("f%03d.cfg" % f).encode()), x_c09.blist(data)))
    regl = ([[110, 117, 108, 108]] if cfg["nullmode"] == "first" else []) + cfg["names"] + ([[110, 117, 108, 108]] if cfg["nullmode"] == "last" else [])
    for i, nm in enumerate(regl):
        out.append("reg %s %d = ? ?" % (x_c09.blist(nm), i + 1))
    out.append("parse %s = ? ?" % x_c09.blist(b"f001.cfg"))
    out.append("E")
    return "\n".join(out) + "\n", len(out) - 3


def trace_validation(ctx, exe):
    from vlib import trace
    rnd = random.Random(ctx.seed)
    n = 300 if ctx.tier == "quick" else 3000
    fams = [("value/size", value_and_size_families(ctx.tier)), ("names/settings", name_and_setting_families(ctx.tier)),
            ("quoting/empty", quoting_families(ctx.tier))]
    fam = [c for _, cs in fams for c in cs]
    famname = [nm for nm, cs in fams for _ in cs]
    cfgs = fam + [gen_tree(rnd, big=(k % 4 == 0)) for k in range(n)]
    ctx.cov["value_and_size_family_executions"] = len(fam)
    scripts = [tree_script(k + 1, c) for k, c in enumerate(cfgs)]
    texts = [s for s, _ in scripts]
    fails, recs, ns, nt = run_scripts(exe, [], texts, ctx.rundir, jobs=4, tag="rec")
    # The same executions once more with the allocator reusing freed blocks immediately (ASan's quarantine keeps every freed
    # block out of circulation, which hides anything keyed by an ADDRESS that a free + malloc pair hands out again, e.g. a cache
    # remembering the pointer of a replaced setting).  Results must not depend on it: the two recordings must be identical; the
    # first one is then judged by TLC.
    from vlib.replay import ASAN_OPTS
    fails2, recs2, _, _ = run_scripts(exe, [], texts, ctx.rundir, jobs=4, tag="rec2", env={"ASAN_OPTIONS": ASAN_OPTS + ":quarantine_size_mb=0:thread_local_quarantine_size_kb=0"})
    last = {sid: (ret, state) for sid, step, ret, state in recs if step == scripts[sid - 1][1]}
    last2 = {sid: (ret, state) for sid, step, ret, state in recs2 if step == scripts[sid - 1][1]}
    ndiff = 0
    for sid in sorted(set(last) | set(last2)):
        if last.get(sid) != last2.get(sid):
            ndiff += 1
            a, b = last.get(sid), last2.get(sid)
            ctx.report("trace-run parse [fam=%s] result-depends-on-address-reuse" % (famname[sid - 1] if sid <= len(fam) else "random"),
                       "the same script gives another result when freed blocks are reused at once: %s vs %s" % (str(a)[:300], str(b)[:300]),
                       {"harness_args": [], "script_text": texts[sid - 1], "context_script_text": (texts[sid - 5] if sid > 4 else "") + texts[sid - 1],
                        "asan_options_extra": "quarantine_size_mb=0:thread_local_quarantine_size_kb=0"})
    ctx.cov["executions_repeated_with_immediate_block_reuse"] = len(last2)
    bad = set()
    for f in fails:
        bad.add(f.sid)
        ctx.report("trace-run " + fail_key("fam=random", f), "recorded run on a random file tree failed before validation: %r" % f,
                   {"harness_args": [], "script_text": texts[f.sid - 1], "failure": repr(f), "detail": f.detail})
    events, index = [], []
    for sid, step, ret, state in recs:
        if sid in bad or step != scripts[sid - 1][1]:
            continue
        st = untok(state)
        calls = [{"h": c[0], "k": c[1], "x": c[2], "t": c[3], "si": c[4], "so": c[5]} for c in st["calls"]]
        r = untok(ret)
        events.append((sid, {"cfg": cfgs[sid - 1], "ret": r if r is not None else [], "post": {"calls": calls, "snap": st["snap"], "fds": st["fds"]}}))
    events.sort(key=lambda e: e[0])
    # TLC's time for one run grows faster than linearly with the size of the whole trace value (an execution with many handler
    # calls costs more the bigger the OTHER executions in the same file are): small chunks, validated side by side
    chunk = 40
    total = 0
    ncalls = 0
    from concurrent.futures import ThreadPoolExecutor
    from vlib.core import NCPU
    starts = list(range(0, len(events), chunk))

    def judge(c0):
        evs = [e for _, e in events[c0:c0 + chunk]]
        return trace.validate(ctx, "ConfParseTrace.tla", "ConfParseTrace.cfg", evs, tag="c09-%d" % c0, timeout=1500, heap="3g")
    with ThreadPoolExecutor(max(1, min(NCPU, 8))) as ex:
        verdicts = list(ex.map(judge, starts))
    for c0, (ok, pos, path) in zip(starts, verdicts):
        part = events[c0:c0 + chunk]
        evs = [e for _, e in part]
        total += pos
        ncalls += sum(len(e["post"]["calls"]) for e in evs[:pos])
        if not ok:
            sid, ev = part[pos]
            ctx.report("trace-rejected parse [fam=%s null=%s]" % (famname[sid - 1] if sid <= len(fam) else "random", ev["cfg"]["nullmode"]),
                       "TLC rejects the recorded execution %d (script %d): observed ret=%s calls=%s snap=%s" % (
                           c0 + pos, sid, ev["ret"], json.dumps(ev["post"]["calls"])[:400], ev["post"]["snap"]),
                       {"harness_args": [], "script_text": texts[sid - 1], "event": ev, "event_index": c0 + pos, "trace": path})
    if events:
        e = events[0][1]
        ctx.sample({"trace_execution": {"files": len(e["cfg"]["content"]), "lines": sum(len(c) for c in e["cfg"]["content"]),
                                        "registered": len(e["cfg"]["names"]), "calls_observed": len(e["post"]["calls"]), "snap": e["post"]["snap"]}})
    ctx.add("trace_executions_validated", total)
    ctx.add("trace_handler_calls_validated", ncalls)
    ctx.add("traces_validated_against_impl", total)
    ctx.cov["trace_max_depth_seen"] = max([e["post"]["snap"]["cs_idx"] for _, e in events] + [0])


def run(ctx):
    # the reference operators recurse once per line of a file: every TLC started by this check (also through vlib.trace) gets a deep stack
    os.environ.update(JAVA_ENV)
    exe = x_c09.harness(ctx)
    t = ctx.tier
    rp = Replayer(ctx, exe)
    try:
        results = tlc_behaviours(ctx, ["ConfParse_%s_enum.cfg" % t, "ConfParse_%s_fam.cfg" % t], [3, 2], rp)
    finally:
        rp.finish()
    for cfg, res in sorted(results.items()):
        ctx.add("states", res.distinct)
        ctx.add("transitions", res.generated)
        ctx.add("behaviours_emitted", res.edges)
        ctx.cov.setdefault("tlc_runs", []).append({
            "module": "MC_ConfParse.tla", "cfg": cfg, "distinct_states": res.distinct, "states_generated": res.generated,
            "depth": res.depth, "behaviours_emitted": res.edges, "wall_s": round(res.wall, 1)})
        if not res.ok:
            ctx.report("spec:%s" % cfg, "TLC reports a violated property of the specification itself: %s" % (res.violation or "")[:600],
                       {"tlc": res.violation, "cfg": cfg})
    # vacuity guard: every action of the module is taken in at least one emitted behaviour (ghost variable `acts`)
    ctx.cov["actions_taken_in_behaviours"] = {a: rp.acts.get(a, 0) for a in spec_actions()}
    ctx.cov["behaviours_outside_universe_not_judged"] = rp.unjudged
    log("TLC + replay done: %d behaviours, %d failing, %.0fs" % (rp.nsid, rp.nfailing, time.time() - ctx.t0))
    unt = sorted(a for a in spec_actions() if not rp.acts.get(a))
    if unt:
        raise Broken("vacuity: actions never taken: %s" % unt)
    if not rp.nsid:
        raise Broken("no behaviours emitted")
    if rp.nscripts != rp.nsid:
        raise Broken("replayed %d scripts of %d behaviours" % (rp.nscripts, rp.nsid))
    ctx.cov["replay"] = {"behaviours": rp.nsid, "scripts_run": rp.nscripts, "steps": rp.nsteps, "behaviours_conforming": rp.nsid - rp.nfailing,
                         "behaviours_failing": rp.nfailing, "replay_cpu_wall_s": round(rp.wall, 1)}
    ctx.add("traces_validated_against_impl", rp.nscripts)
    ctx.add("evaluations", rp.nsteps)
    ctx.cov["behaviours_by_family"] = rp.byfam
    for want in ("fam=nest", "fam=chain", "fam=enum/rich", "fam=long", "fam=enum/base"):
        if want in rp.samples:
            tg, txt = rp.samples[want]
            ctx.sample({"family": tg, "script": [ln[:200] for ln in txt.split("\n")[1:-2]][-4:]})
    asbuilt_demo(ctx)
    log("as-built demo done %.0fs" % (time.time() - ctx.t0))
    trace_validation(ctx, exe)
    log("trace validation done %.0fs" % (time.time() - ctx.t0))
    ctx.cov["exhaustive"] = True
    ctx.cov["rule"] = ("every complete behaviour TLC generates for ConfParse in the bounded scope (file tree x registered contexts) is "
                       "materialised and parsed by the implementation once; recorded handler calls (handler, kind, text, state in/out), "
                       "return value, descriptor census and the private index/capacity snapshot are compared with the behaviour")
    ctx.assumptions += ["files are newline-terminated and start with the magic line <libast-0.8.1>",
                        "texts contain no expansion characters (C10) and no %preproc/back-quote (C11)",
                        "ASan build of the current tree (clang -O1), hook spifconf_verif_snapshot"]


def replay(ctx, path):
    exe = x_c09.harness(ctx)
    d = json.load(open(path))
    rp = d.get("replay") or {}
    rc = 0
    for k in ("script_text", "context_script_text"):
        txt = rp.get(k)
        if not txt:
            continue
        fails, recs, ns, nt = run_scripts(exe, [], [txt], ctx.rundir, jobs=1, tag="replay")
        for f in fails:
            print("REPRODUCED", f)
            if f.detail:
                print(f.detail)
        if fails:
            return 1
    if rp.get("tlc"):
        print("design-level violation recorded by TLC:\n" + rp["tlc"])
        return 1
    print("not reproduced: script passes")
    return rc
