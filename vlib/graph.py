"""The specification's transition relation (as emitted by TLC) and script planning over it.

An edge is a dict {pre, op, args, ret, post, ...}.  Nodes are identified by tok(state).
Planning is level by level: every edge is executed exactly once as the *target* of a script whose
prefix consists only of edges already verified on the implementation, so one defective transition
costs one failing script, not a failure of everything behind it.
"""
import random
from collections import defaultdict
from .core import tok


def step_line(e):
    return "%s %s = %s %s" % (e["op"], " ".join(tok(a) for a in e["args"]), tok(e["ret"]), tok(e["post"]))


class _EdgeView:
    """g.edges[i] -> (pre_key, post_key, edge_dict); edge dicts are rebuilt on demand (memory: millions of edges)."""

    def __init__(self, g):
        self.g = g

    def __len__(self):
        return len(self.g._pre)

    def __getitem__(self, i):
        g = self.g
        return (g.keys[g._pre[i]], g.keys[g._post[i]], g.edict(i))


class Graph:
    """Compact storage: node keys are interned tokens; an edge is (pre id, post id, 'op args = ret')."""

    def __init__(self):
        from array import array
        self.out = defaultdict(list)    # node key -> [edge index]
        self.keys = []                  # node id -> token
        self.ids = {}                   # token -> node id
        self._pre = array("l")
        self._post = array("l")
        self._head = []                 # "op args = ret"
        self._seen = set()
        self.edges = _EdgeView(self)

    @property
    def nodes(self):
        return self.ids

    def _nid(self, k):
        i = self.ids.get(k)
        if i is None:
            i = len(self.keys)
            self.ids[k] = i
            self.keys.append(k)
        return i

    def add(self, e):
        pk, qk = tok(e["pre"]), tok(e["post"])
        head = "%s %s = %s" % (e["op"], " ".join(tok(a) for a in e["args"]), tok(e["ret"]))
        p, q = self._nid(pk), self._nid(qk)
        sig = hash((p, head, q))
        if sig in self._seen:
            return
        self._seen.add(sig)
        self.out[self.keys[p]].append(len(self._pre))
        self._pre.append(p)
        self._post.append(q)
        self._head.append(head)

    def n_edges(self):
        return len(self._pre)

    def pre_key(self, i):
        return self.keys[self._pre[i]]

    def post_key(self, i):
        return self.keys[self._post[i]]

    def is_loop(self, i):
        return self._pre[i] == self._post[i]

    def line(self, i):
        return self._head[i] + " " + self.keys[self._post[i]]

    def edict(self, i):
        from .core import untok
        head = self._head[i]
        left, ret = head.rsplit(" = ", 1)
        w = left.split(" ")
        return {"pre": untok(self.keys[self._pre[i]]), "post": untok(self.keys[self._post[i]]), "op": w[0],
                "args": [untok(x) for x in w[1:] if x != ""], "ret": untok(ret)}


class LevelPlanner:
    """Drives the level-by-level transition cover.

    usage:
        lp = LevelPlanner(graph, [init_key])
        while True:
            scripts = lp.next_level()        # list of Script
            if not scripts: break
            results = run(scripts)
            lp.feed(results)                 # {script_id: set(failed step indexes)}
    """

    def __init__(self, g, inits, chain_loops=True, max_chain=400):
        self.g = g
        self.path = {k: [] for k in inits}     # node -> list of edge indexes (verified prefix)
        self.frontier = list(inits)
        self.bad = set()                       # edge indexes that failed as targets
        self.verified = set()
        self.level = 0
        self.pending = {}
        self.chain_loops = chain_loops
        self.max_chain = max_chain
        self.sid = 0
        self.unreached = None

    def next_level(self):
        scripts = []
        self.pending = {}
        for u in self.frontier:
            pre = self.path[u]
            loops = [i for i in self.g.out[u] if self.g.is_loop(i)]
            moves = [i for i in self.g.out[u] if not self.g.is_loop(i)]
            if self.chain_loops:
                for c in range(0, len(loops), self.max_chain):
                    scripts.append(self._mk(pre, loops[c:c + self.max_chain]))
            else:
                moves = loops + moves
            for i in moves:
                scripts.append(self._mk(pre, [i]))
        return scripts

    def _mk(self, pre, targets):
        self.sid += 1
        s = Script(self.sid, list(pre), list(targets))
        self.pending[s.sid] = s
        return s

    def feed(self, failed):
        """failed: {sid: set of failing step indexes}.  Returns list of (script, step, edge_index, in_prefix)."""
        out = []
        nxt = []
        for sid, s in self.pending.items():
            f = failed.get(sid, set())
            npre = len(s.prefix)
            for st in sorted(f):
                ei = (s.prefix + s.targets)[st] if st < npre + len(s.targets) else None
                out.append((s, st, ei, st < npre))
            if any(st < npre for st in f):
                continue      # prefix failed although verified earlier: targets not judged
            for j, ei in enumerate(s.targets):
                if (npre + j) in f:
                    self.bad.add(ei)
                    # a hard failure (crash) stops the script: later targets of a chain are re-queued by the caller
                else:
                    self.verified.add(ei)
        # a target behind a hard failure in a chain was not executed in that script: the caller re-runs the remainder as a
        # new pending script, and a failure there must win over the "no failure recorded" of the original script
        self.verified -= self.bad
        # extend the tree with verified moves
        for u in self.frontier:
            for i in self.g.out[u]:
                qk = self.g.post_key(i)
                if i in self.verified and qk not in self.path:
                    self.path[qk] = self.path[u] + [i]
                    nxt.append(qk)
        self.frontier = nxt
        self.level += 1
        return out

    def unreached_nodes(self):
        return [k for k in self.g.nodes if k not in self.path]

    def walks(self, n, length, seed, inits):
        """Random walks over verified edges only."""
        rnd = random.Random(seed)
        res = []
        good = {u: [i for i in self.g.out[u] if i in self.verified] for u in self.g.out}
        for _ in range(n):
            u = rnd.choice(list(inits))
            steps = []
            for _ in range(length):
                c = good.get(u)
                if not c:
                    break
                # prefer state-changing edges 3:1 so walks travel
                mv = [i for i in c if not self.g.is_loop(i)]
                i = rnd.choice(mv) if (mv and rnd.random() < 0.75) else rnd.choice(c)
                steps.append(i)
                u = self.g.post_key(i)
            self.sid += 1
            res.append(Script(self.sid, [], steps))
        return res


class Script:
    __slots__ = ("sid", "prefix", "targets")

    def __init__(self, sid, prefix, targets):
        self.sid, self.prefix, self.targets = sid, prefix, targets

    def edge_indexes(self):
        return self.prefix + self.targets

    def text(self, g, line=step_line):
        out = ["S %d" % self.sid]
        if line is step_line:
            for i in self.prefix + self.targets:
                out.append(g.line(i))
        else:
            for i in self.prefix + self.targets:
                out.append(line(g.edict(i)))
        out.append("E")
        return "\n".join(out) + "\n"

    def describe(self, g, upto=None):
        ix = self.prefix + self.targets
        if upto is not None:
            ix = ix[:upto + 1]
        return [g.line(i) for i in ix]
