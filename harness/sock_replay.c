/* C19: replays SockXfer.tla schedules and SockLife.tla scripts on real libast socket objects over UNIX-domain
 * sockets on a private path (cwd = the run directory).
 * usage: sock_replay <scriptfile> [first]
 *
 * System calls are interposed at link time (-Wl,--wrap=read,--wrap=write,--wrap=accept,--wrap=socket,--wrap=bind,
 * --wrap=connect,--wrap=listen,--wrap=close,--wrap=dup,--wrap=select,--wrap=getprotobyname,--wrap=getservbyname):
 * the wrappers inject the scheduled outcome on the designated descriptor / call and pass everything else through.
 *
 * Transfer scripts (one step each):
 *     xfer <len> <mode> <wsched> <rsched> <plen> [cyc] = {rc=..,rcalls=..,retries=..,wc=..,wcalls=..} {data=T,len=<len>,name=<n>,open=0,send=T}
 *   plen = length of the socket path (0 = short default path); name = length of the name the listener is bound to (0 for the
 *   default path), -1 if it is not the URL's path cut to what sun_path holds
 *   sched = [[ok,n],[sh,n],[ei,0],[ea,0],[end,0]...]: outcome of the first calls on the client (write) / accepted (read)
 *   descriptor; with a sixth argument "cyc" the schedules are patterns repeated over the whole transfer ([sh,n] = at most n);  mode eof: the client is closed before the peer reads;  nbio: the peer reads non-blocking.
 * Lifecycle scripts: new/open/accept/send/recv/close/dup/del steps; state token {g=<ghost>,o=<observable>} where the ghost
 *   part (the specification's kernel-side bookkeeping, not observable) is copied from the expectation and the
 *   observable part {ex=[..],fd=[..],nopen=n,orph=n,sk=[..]} is measured (object fields, fstat inode identity,
 *   /proc/self/fd census against the census taken before the script).
 */
#include "common.h"
#include <stddef.h>
#include <netdb.h>
#include <dirent.h>
#include <fcntl.h>
#include <sys/stat.h>
#include <sys/socket.h>
#include <sys/select.h>
#include <sys/un.h>

/* ---- interposition -------------------------------------------------------------------------------------------- */
extern ssize_t __real_read(int, void *, size_t);
extern ssize_t __real_write(int, const void *, size_t);
extern int __real_accept(int, struct sockaddr *, socklen_t *);
extern int __real_socket(int, int, int);
extern int __real_bind(int, const struct sockaddr *, socklen_t);
extern int __real_connect(int, const struct sockaddr *, socklen_t);
extern int __real_listen(int, int);
extern int __real_close(int);
extern int __real_dup(int);
extern int __real_select(int, fd_set *, fd_set *, fd_set *, struct timeval *);

#define MAXSCHED 16
typedef struct { char kind; long n; } sched_ent;          /* kind: o(k) s(hort) i(EINTR) a(EAGAIN) e(nd) */
static sched_ent wsched[MAXSCHED], rsched[MAXSCHED];
static int wlen, rlen_; static long wpos, rpos;
static int cyclic;                                          /* the schedules are patterns repeated over the whole transfer */
static int sched_wfd = -1, sched_rfd = -1;
static long wcalls, rcalls, nsleep, rguard;
static int spin_detected;
static int inj_socket, inj_bind, inj_connect, inj_listen, inj_accept, inj_accept_errno, inj_dup;
static int inj_close_fd = -1, inj_write_fd = -1, inj_write_errno;

ssize_t __wrap_write(int fd, const void *buf, size_t n) {
    if (fd >= 0 && fd == inj_write_fd) { inj_write_fd = -1; errno = inj_write_errno; return -1; }
    if (fd >= 0 && fd == sched_wfd) {
        wcalls++;
        if (wlen && (cyclic || wpos < wlen)) {
            sched_ent e = wsched[wpos++ % wlen];
            if (e.kind == 'i') { errno = EINTR; return -1; }
            if (e.kind == 'a') { errno = EAGAIN; return -1; }
            if (e.kind == 's' && (size_t) e.n < n) return __real_write(fd, buf, (size_t) e.n);
        }
    }
    return __real_write(fd, buf, n);
}
ssize_t __wrap_read(int fd, void *buf, size_t n) {
    if (fd >= 0 && fd == sched_rfd) {
        rcalls++;
        if (rguard && rcalls > rguard) { spin_detected = 1; errno = EIO; return -1; }   /* break a loop that does not end */
        if (rlen_ && (cyclic || rpos < rlen_)) {
            sched_ent e = rsched[rpos++ % rlen_];
            if (e.kind == 'i') { errno = EINTR; return -1; }
            if (e.kind == 's' && (size_t) e.n < n) return __real_read(fd, buf, (size_t) e.n);
        }
    }
    return __real_read(fd, buf, n);
}
int __wrap_select(int nfds, fd_set *r, fd_set *w, fd_set *x, struct timeval *tv) {
    if (nfds == 0) { nsleep++; return 0; }                 /* the send loop's back-off sleep: do not wait */
    return __real_select(nfds, r, w, x, tv);
}
int __wrap_socket(int a, int b, int c) { if (inj_socket) { inj_socket = 0; errno = EMFILE; return -1; } return __real_socket(a, b, c); }
int __wrap_bind(int fd, const struct sockaddr *a, socklen_t l) { if (inj_bind) { inj_bind = 0; errno = EADDRINUSE; return -1; } return __real_bind(fd, a, l); }
int __wrap_connect(int fd, const struct sockaddr *a, socklen_t l) { if (inj_connect) { inj_connect = 0; errno = ECONNREFUSED; return -1; } return __real_connect(fd, a, l); }
int __wrap_listen(int fd, int n) { if (inj_listen) { inj_listen = 0; errno = EADDRINUSE; return -1; } return __real_listen(fd, n); }
int __wrap_accept(int fd, struct sockaddr *a, socklen_t *l) { if (inj_accept) { inj_accept = 0; errno = inj_accept_errno ? inj_accept_errno : EINTR; return -1; } return __real_accept(fd, a, l); }
int __wrap_close(int fd) { if (fd >= 0 && fd == inj_close_fd) { inj_close_fd = -1; errno = EINTR; return -1; } return __real_close(fd); }
int __wrap_dup(int fd) { if (inj_dup) { inj_dup = 0; errno = EMFILE; return -1; } return __real_dup(fd); }
struct protoent *__wrap_getprotobyname(const char *name) { (void) name; return NULL; }
struct servent *__wrap_getservbyname(const char *name, const char *proto) { (void) name; (void) proto; return NULL; }

/* ---- descriptor census ---------------------------------------------------------------------------------------- */
#define MAXFD 8192
static unsigned char base_fd[MAXFD], cur_fd[MAXFD];
static void census(unsigned char *set) {
    DIR *d = opendir("/proc/self/fd"); struct dirent *de; int self;
    memset(set, 0, MAXFD);
    if (!d) return;
    self = dirfd(d);
    while ((de = readdir(d))) {
        int fd;
        if (de->d_name[0] < '0' || de->d_name[0] > '9') continue;
        fd = atoi(de->d_name);
        if (fd != self && fd >= 0 && fd < MAXFD) set[fd] = 1;
    }
    closedir(d);
}

/* ---- objects --------------------------------------------------------------------------------------------------- */
static spif_socket_t S[4];                      /* lis cli acc cp */
static const char *slotname[4] = { "lis", "cli", "acc", "cp" };
static char sockpath[400], sockurl[420];      /* sockpath = the name the kernel is expected to see (the URL's path cut to sun_path) */
static char defpath[200], cwdbuf[128];
static unsigned dirt = 1;

/* The environment as input: socket paths of a given length (crossing what sun_path holds) ... */
static void set_path(long plen) {
    if (plen <= 0) {
        snprintf(sockpath, sizeof(sockpath), "%s", defpath);
        snprintf(sockurl, sizeof(sockurl), "unix:%s", defpath);
    } else {
        char full[400]; size_t n;
        snprintf(full, sizeof(full), "%s/p%ld_", cwdbuf, (long) getpid());
        n = strlen(full);
        while (n < (size_t) plen && n < sizeof(full) - 1) { full[n] = (char) ('a' + n % 26); n++; }
        full[n] = 0;
        snprintf(sockurl, sizeof(sockurl), "unix:%s", full);
        snprintf(sockpath, sizeof(sockpath), "%.*s", (int) (sizeof(((struct sockaddr_un *) 0)->sun_path) - 1), full);
    }
}
/* ... with a dirty heap behind them: blocks of about sizeof(struct sockaddr_un) are scribbled with a byte that changes from
 * call to call and released, so that whatever the library allocates next for an address does not start out clean or equal. */
static void dirty_heap(void) {
    void *b[24]; int i; unsigned char fill = (unsigned char) (1 + (dirt++ * 37) % 255);
    for (i = 0; i < 24; i++) { size_t sz = sizeof(struct sockaddr_un) - 8 + (size_t) (i % 17); b[i] = malloc(sz); if (b[i]) memset(b[i], fill, sz); }
    for (i = 0; i < 24; i++) free(b[i]);
}
/* the name the listener is really bound to: its length if it is the expected name, else -1 */
static long bound_name(spif_socket_t l) {
    union { struct sockaddr_un un; char room[sizeof(struct sockaddr_un) + 32]; } sa; socklen_t sl = sizeof(sa); size_t n;
    memset(&sa, 0, sizeof(sa));
    if (SPIF_SOCKET_ISNULL(l) || l->fd < 0 || getsockname(l->fd, (struct sockaddr *) &sa, &sl)) return -1;
    if (sl > sizeof(sa)) sl = sizeof(sa);
    n = sl > offsetof(struct sockaddr_un, sun_path) ? sl - offsetof(struct sockaddr_un, sun_path) : 0;
    while (n && sa.room[offsetof(struct sockaddr_un, sun_path) + n - 1] == 0) n--;
    if (n != strlen(sockpath) || memcmp(sa.room + offsetof(struct sockaddr_un, sun_path), sockpath, n)) return -1;
    return (long) n;
}
static char invmsg[512];
static long msgno;
static int slot_of(const char *t) { int i; for (i = 0; i < 4; i++) if (!strcmp(t, slotname[i])) return i; return -1; }

static spif_socket_t mk_socket(int listener) {
    spif_url_t u = spif_url_new_from_ptr((spif_charptr_t) sockurl); spif_socket_t s;
    s = listener ? spif_socket_new_from_urls(u, (spif_url_t) NULL) : spif_socket_new_from_urls((spif_url_t) NULL, u);
    spif_url_del(u);
    return s;
}
static void clear_inj(void) {
    inj_socket = inj_bind = inj_connect = inj_listen = inj_accept = inj_accept_errno = inj_dup = 0; inj_close_fd = inj_write_fd = -1;
    sched_wfd = sched_rfd = -1; wlen = rlen_ = 0; wpos = rpos = 0; cyclic = 0; wcalls = rcalls = nsleep = 0; rguard = 0; spin_detected = 0;
}

static void vh_begin(void) {
    int i;
    for (i = 0; i < 4; i++) S[i] = (spif_socket_t) NULL;
    clear_inj(); msgno = 0;
    set_path(0);
    unlink(sockpath);
    census(base_fd);
}
static void vh_end(void) {
    int i, leaked = 0;
    for (i = 3; i >= 0; i--) if (!SPIF_SOCKET_ISNULL(S[i])) { spif_socket_del(S[i]); S[i] = (spif_socket_t) NULL; }
    clear_inj();
    unlink(sockpath);
    census(cur_fd);
    for (i = 0; i < MAXFD; i++) if (cur_fd[i] && !base_fd[i]) { leaked++; __real_close(i); }
    if (leaked) printf("X %ld %d inv end exp=- got=descriptors_left_open_after_all_objects_deleted:%d\n", vh_cur_sid, vh_cur_step > 0 ? vh_cur_step - 1 : 0, leaked);
}

/* "[[ok,5],[ei,0]]" */
static int parse_sched(const char *t, sched_ent *out) {
    int n = 0; const char *p = t;
    while ((p = strchr(p, '[')) && n < MAXSCHED) {
        p++;
        if (*p == '[' || *p == ']') continue;
        out[n].kind = (p[0] == 'e' && p[1] == 'i') ? 'i' : (p[0] == 'e' && p[1] == 'a') ? 'a' : p[0];   /* ok sh ei ea end */
        p = strchr(p, ',');
        if (!p) break;
        out[n].n = atol(p + 1);
        n++;
    }
    return n;
}

/* ---- transfer scripts ------------------------------------------------------------------------------------------ */
static const char *do_xfer(const vh_step_t *st, vh_sb *ret, vh_sb *state) {
    long L = vh_int(st->args[0]), i; int eof = !strcmp(st->args[1], "eof");
    unsigned char *pay; spif_str_t data, got; spif_bool_t sr; int same = 0; long glen = -1;
    long wc, rc, wcl, rcl, sl; int nopen = 0;

    long plen = st->nargs > 4 ? vh_int(st->args[4]) : 0, name;
    set_path(plen);
    unlink(sockpath);
    S[0] = mk_socket(1); S[1] = mk_socket(0);
    dirty_heap();
    if (!spif_socket_open(S[0])) return "xfer:listener_open_failed";
    name = bound_name(S[0]);
    dirty_heap();
    if (!spif_socket_open(S[1])) return name < 0 ? "xfer:client_open_failed(listener_bound_to_a_wrong_name)" : "xfer:client_open_failed";
    if (vh_cur_sid & 1) { inj_accept = 1; inj_accept_errno = EAGAIN; }     /* every other transfer: accept() says EAGAIN once */
    S[2] = spif_socket_accept(S[0]);
    inj_accept = 0;
    if (SPIF_SOCKET_ISNULL(S[2])) return "xfer:accept_failed";

    pay = (unsigned char *) malloc((size_t) L + 1);
    for (i = 0; i < L; i++) pay[i] = (unsigned char) (1 + (i % 255));
    pay[L] = 0;
    data = spif_str_new_from_ptr((spif_charptr_t) pay);

    wlen = parse_sched(st->args[2], wsched); rlen_ = parse_sched(st->args[3], rsched);
    wpos = rpos = 0; wcalls = rcalls = nsleep = 0; spin_detected = 0;
    cyclic = st->nargs > 5 && !strcmp(st->args[5], "cyc");
    sched_wfd = S[1]->fd;
    errno = EAGAIN;                           /* adversarial prelude: a stale errno must not matter */
    sr = spif_socket_send(S[1], data);
    sched_wfd = -1;
    if (eof) {
        if (S[1]->fd >= 0) spif_socket_close(S[1]);
    } else {
        spif_socket_set_nbio(S[2]);
    }
    rguard = cyclic ? (L + 2) * (rlen_ + 1) + 64 : rlen_ + L / 4096 + 64;
    sched_rfd = S[2]->fd;
    errno = EINTR;
    got = spif_socket_recv(S[2]);
    sched_rfd = -1; rguard = 0;
    wc = wpos; rc = rpos; wcl = wcalls; rcl = rcalls; sl = nsleep;
    if (!SPIF_STR_ISNULL(got)) {
        glen = (long) got->len;
        same = (glen == L) && got->s && !memcmp(got->s, pay, (size_t) L) && got->s[L] == 0 && got->size >= got->len + 1;
        spif_str_del(got);
    }
    spif_str_del(data);
    free(pay);
    for (i = 2; i >= 0; i--) { spif_socket_del(S[i]); S[i] = (spif_socket_t) NULL; }
    census(cur_fd);
    for (i = 0; i < MAXFD; i++) if (cur_fd[i] && !base_fd[i]) nopen++;
    if (spin_detected) return "recv:read_loop_did_not_end";
    /* state = what the property is about (bytes intact, send's verdict, no descriptor left); ret = calls consumed */
    sb_printf(state, "{data=%c,len=%ld,name=%ld,open=%d,send=%c}", same ? 'T' : 'F', glen, plen > 0 ? name : (name < 0 ? -1 : 0), nopen, sr ? 'T' : 'F');
    sb_printf(ret, "{rc=%ld,rcalls=%ld,retries=%ld,wc=%ld,wcalls=%ld}", rc, rcl, sl, wc, wcl);
    return NULL;
}

/* ---- lifecycle scripts ----------------------------------------------------------------------------------------- */
static const char *observe(const vh_step_t *st, vh_sb *state) {
    int i, j, nopen = 0, orph = 0; struct stat sb[4]; int has[4];
    const char *e = st->exp_state;
    census(cur_fd);
    for (i = 0; i < 4; i++) {
        has[i] = 0;
        if (SPIF_SOCKET_ISNULL(S[i]) || S[i]->fd < 0) continue;
        if (S[i]->fd >= MAXFD || !cur_fd[S[i]->fd] || fstat(S[i]->fd, &sb[i])) {
            snprintf(invmsg, sizeof(invmsg), "%s:fd_field_refers_to_a_closed_descriptor", slotname[i]); return invmsg;
        }
        if (base_fd[S[i]->fd]) { snprintf(invmsg, sizeof(invmsg), "%s:fd_field_refers_to_a_foreign_descriptor", slotname[i]); return invmsg; }
        has[i] = 1;
        for (j = 0; j < i; j++) if (has[j] && S[j]->fd == S[i]->fd) {
            snprintf(invmsg, sizeof(invmsg), "%s+%s:two_objects_own_the_same_descriptor", slotname[j], slotname[i]); return invmsg;
        }
    }
    for (i = 0; i < MAXFD; i++) if (cur_fd[i] && !base_fd[i]) {
        nopen++;
        for (j = 0; j < 4; j++) if (has[j] && S[j]->fd == i) break;
        if (j == 4) orph++;
    }
    /* ghost part: copied from the expectation */
    sb_puts(state, "{g=");
    if (e[0] == '{' && e[1] == 'g' && e[2] == '=') {
        int depth = 0; const char *p = e + 3;
        for (; *p; p++) {
            if (*p == '[' || *p == '{') depth++;
            else if (*p == ']' || *p == '}') { if (depth == 0) break; depth--; }
            else if (*p == ',' && depth == 0) break;
            sb_putc(state, *p);
        }
    } else sb_putc(state, '-');
    sb_puts(state, ",o={ex=[");
    for (i = 0; i < 4; i++) { if (i) sb_putc(state, ','); sb_bool(state, !SPIF_SOCKET_ISNULL(S[i])); }
    sb_puts(state, "],fd=[");
    for (i = 0; i < 4; i++) { if (i) sb_putc(state, ','); sb_bool(state, has[i]); }
    sb_puts(state, "],nb=[");                 /* the objects' NBIO flags (the library's cache of the mode) */
    for (i = 0; i < 4; i++) { if (i) sb_putc(state, ','); sb_bool(state, !SPIF_SOCKET_ISNULL(S[i]) && SPIF_SOCKET_FLAGS_IS_SET(S[i], SPIF_SOCKET_FLAGS_NBIO)); }
    sb_printf(state, "],nopen=%d,orph=%d,rm=[", nopen, orph);      /* the real mode of each object's descriptor */
    for (i = 0; i < 4; i++) {
        int fl = has[i] ? fcntl(S[i]->fd, F_GETFL, 0) : 0;
        if (i) sb_putc(state, ',');
        sb_bool(state, has[i] && fl >= 0 && (fl & O_NONBLOCK));
    }
    sb_puts(state, "],sk=[");
    for (i = 0; i < 4; i++) {
        int rep = 0;
        if (has[i]) for (j = 0; j <= i; j++) if (has[j] && sb[j].st_ino == sb[i].st_ino && sb[j].st_dev == sb[i].st_dev) { rep = j + 1; break; }
        if (i) sb_putc(state, ',');
        sb_int(state, rep);
    }
    sb_puts(state, "]}}");
    return NULL;
}

#define OP(s) (!strcmp(op, s))
static const char *vh_step(const vh_step_t *st, vh_sb *ret, vh_sb *state) {
    const char *op = st->op, *out; int x;

    if (OP("xfer")) return do_xfer(st, ret, state);
    clear_inj();
    if (OP("new")) {
        x = slot_of(st->args[0]);
        S[x] = mk_socket(x == 0);
        sb_bool(ret, !SPIF_SOCKET_ISNULL(S[x]));
        if (SPIF_SOCKET_ISNULL(S[x])) return "new_from_urls=NULL";
    } else if (OP("open")) {
        x = slot_of(st->args[0]); out = st->args[1];
        /* a listener that holds no descriptor will bind a new socket: clear the path.  One that still holds the descriptor
         * of an earlier open (failed in bind/listen, or successful) must go on with that descriptor: the path stays. */
        if (x == 0 && S[0]->fd < 0) unlink(sockpath);
        if (!strcmp(out, "socket")) inj_socket = 1;
        else if (!strcmp(out, "bind")) inj_bind = 1;
        else if (!strcmp(out, "listen")) inj_listen = 1;
        else if (!strcmp(out, "connect")) inj_connect = 1;
        sb_bool(ret, spif_socket_open(S[x]));
    } else if (OP("accept")) {
        out = st->args[0];
        if (!strcmp(out, "eintr")) inj_accept = 1;
        else if (!strcmp(out, "eagain")) { inj_accept = 1; inj_accept_errno = EAGAIN; }
        else if (!strcmp(out, "dupfail")) inj_dup = 1;
        S[2] = spif_socket_accept(S[0]);
        sb_bool(ret, !SPIF_SOCKET_ISNULL(S[2]));
    } else if (OP("send")) {
        unsigned char m[4]; spif_str_t d; spif_bool_t r;
        x = slot_of(st->args[0]); out = st->args[1];
        msgno++;
        m[0] = (unsigned char) (x == 1 ? 'c' : 's'); m[1] = (unsigned char) (1 + msgno / 200); m[2] = (unsigned char) (1 + msgno % 200); m[3] = 0;
        d = spif_str_new_from_ptr((spif_charptr_t) m);
        if (!strcmp(out, "epipe")) { inj_write_fd = S[x]->fd; inj_write_errno = EPIPE; }
        else if (!strcmp(out, "reset")) { inj_write_fd = S[x]->fd; inj_write_errno = ECONNRESET; }
        r = spif_socket_send(S[x], d);
        spif_str_del(d);
        sb_bool(ret, r);
    } else if (OP("set_nbio") || OP("clear_nbio")) {
        x = slot_of(st->args[0]);
        sb_bool(ret, OP("set_nbio") ? spif_socket_set_nbio(S[x]) : spif_socket_clear_nbio(S[x]));
    } else if (OP("recv") || OP("recvt")) {
        spif_str_t g; long k = -1; int toggle = OP("recvt");        /* recvt: set_nbio ; recv ; clear_nbio */
        x = slot_of(st->args[0]);
        if (toggle && S[x]->fd >= 0) spif_socket_set_nbio(S[x]);
        if (S[x]->fd >= 0) {
            int fl = fcntl(S[x]->fd, F_GETFL, 0);
            if (fl >= 0 && !(fl & O_NONBLOCK)) return "recv:descriptor_is_in_blocking_mode_although_non-blocking_was_set";   /* would block for ever */
        }
        errno = EINTR;
        g = spif_socket_recv(S[x]);
        if (toggle && S[x]->fd >= 0) spif_socket_clear_nbio(S[x]);
        if (!SPIF_STR_ISNULL(g)) {
            long n = (long) g->len, i, last = 0; const unsigned char *p = (const unsigned char *) SPIF_STR_STR(g);
            const char *bad = NULL;
            if (n % 3) bad = "recv:length_is_not_a_whole_number_of_messages";
            for (i = 0; !bad && i + 2 < n; i += 3) {
                long no = (p[i + 1] - 1) * 200 + (p[i + 2] - 1);
                if (p[i] != (x == 1 ? 's' : 'c')) bad = "recv:message_from_the_wrong_sender";
                else if (no <= last) bad = "recv:messages_out_of_order_or_repeated";
                last = no;
            }
            k = n / 3;
            spif_str_del(g);
            if (bad) return bad;
        }
        sb_int(ret, k);
    } else if (OP("close")) {
        x = slot_of(st->args[0]); out = st->args[1];
        if (!strcmp(out, "eintr")) inj_close_fd = S[x]->fd;
        sb_bool(ret, spif_socket_close(S[x]));
    } else if (OP("dup")) {
        x = slot_of(st->args[0]);
        if (st->nargs > 1 && !strcmp(st->args[1], "fail")) inj_dup = 1;
        S[3] = spif_socket_dup(S[x]);
        if (SPIF_SOCKET_ISNULL(S[3])) return "dup=NULL";
        if (S[3] == S[x]) return "dup_returned_same_object";
        sb_bool(ret, 1);
    } else if (OP("del")) {
        x = slot_of(st->args[0]);
        sb_bool(ret, spif_socket_del(S[x])); S[x] = (spif_socket_t) NULL;
    } else {
        snprintf(invmsg, sizeof(invmsg), "unknown_op_%s", op);
        return invmsg;
    }
    clear_inj();
    return observe(st, state);
}

/* Resource-threshold prelude (env VH_HIFD=<k>): occupy descriptors so that only k slots below FD_SETSIZE (1024) are free and
 * everything else the library opens lands at 1024 or above.  The fillers belong to the census taken before each script. */
#include <sys/resource.h>
static int hifd_prelude(int nfree) {
    struct rlimit rl; int fd, n = 0, first = -1, i;
    if (getrlimit(RLIMIT_NOFILE, &rl)) return -1;
    if (rl.rlim_cur < 2048) { rl.rlim_cur = rl.rlim_max < 4096 ? rl.rlim_max : 4096; if (setrlimit(RLIMIT_NOFILE, &rl)) return -1; }
    if (rl.rlim_cur < 1200) return -1;
    for (;;) {
        fd = open("/dev/null", O_RDONLY);
        if (fd < 0) return -1;
        if (first < 0) first = fd;
        n++;
        if (fd >= 1024 + 8) break;
    }
    for (i = 0; i < nfree; i++) __real_close(first + i);
    return n;
}

int main(int argc, char **argv) {
    char cwd[128];
    if (argc < 2) { fprintf(stderr, "usage: %s <scripts> [first]\n", argv[0]); return 2; }
    if (!getcwd(cwd, sizeof(cwd))) { perror("getcwd"); return 2; }
    snprintf(cwdbuf, sizeof(cwdbuf), "%s", cwd);
    snprintf(defpath, sizeof(defpath), "%s/sk%ld", cwd, (long) getpid());
    if (strlen(defpath) > 58) { fprintf(stderr, "socket path too long: %s\n", defpath); return 2; }
    set_path(0);
    signal(SIGPIPE, SIG_IGN);
    if (getenv("VH_HIFD") && hifd_prelude(atoi(getenv("VH_HIFD"))) < 0) { fprintf(stderr, "HIFD-UNAVAILABLE\n"); return 7; }
    libast_set_program_name("sock_replay");
    DEBUG_LEVEL = 0;
    return vh_main(argc, argv, 1);
}
