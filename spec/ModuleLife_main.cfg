SPECIFICATION Spec
CONSTANTS
  Variants = {1}
  Paths = {1}
  Names = {}
  Slots = {1, 2}
  LoadFaults = {"none"}
  UnloadFaults = {"none"}
  RunFaults = {}
  SymFaults = {}
  Levels = {}
  Indents = {}
  Cap = 1
  AsBuilt = FALSE
  Bounded = TRUE
  TrackMain = TRUE
  Obs <- ObsEmit
INVARIANTS TypeOK RefsMatchHolders QuiescenceClosed MainMatches NoStaleUse LoaderSane
PROPERTIES OwnHooksOnly HookPairsWithRefs RefusedChangesNothing
VIEW View
CHECK_DEADLOCK FALSE
