SPECIFICATION Spec
CONSTANTS
  H = {1, 2, 3, 4}
  Val <- Val4
  Kind = "seq"
  Sorted = FALSE
  Obs <- ObsEmit
INVARIANTS TypeOK DeletedOwnsNothing
PROPERTIES FreedIsFinal ContFreesOnlyItsOwn
CHECK_DEADLOCK FALSE
