/* C02 (+C05/C06 for lists): replays ListSeq.tla scripts on one of the three list classes.
 * usage: list_replay <array|linked_list|dlinked_list>[:url-elems|:url-keys] <scriptfile> [first]
 *   :url-elems  the stored elements are spif_url objects, the probes handed to remove/index/find/contains plain spif_str
 *   :url-keys   the other way round.  A url IS a str and compares by its text, so the abstract sequence is the same.
 *   :level=N    the run-time debug level (DEBUG_LEVEL) during the scripts; the abstract sequence does not know it.
 * State token: {a=[..],b={live=T|F,s=[..]},it=n}
 */
#include "common.h"

static const char *cls_name;
static int url_elems, url_keys, run_level;
static spif_list_t A, B;
static spif_iterator_t IT;
static int it_count;          /* mirror: number of next() calls that yielded, capped like the spec */
static char invmsg[512];

static spif_list_t new_list(void) {
    if (!strcmp(cls_name, "array")) return SPIF_LIST_NEW(array);
    if (!strcmp(cls_name, "linked_list")) return SPIF_LIST_NEW(linked_list);
    return SPIF_LIST_NEW(dlinked_list);
}
static spif_obj_t mk_any(const char *t, int url) {
    return url ? SPIF_OBJ(spif_url_new_from_ptr((spif_charptr_t) t)) : SPIF_OBJ(spif_str_new_from_ptr((spif_charptr_t) t));
}
static spif_obj_t mk_elem(const char *t) { return mk_any(t, url_elems); }   /* an object that goes INTO the list */
static spif_obj_t mk_key(const char *t) { return mk_any(t, url_keys); }     /* a probe the list is searched with */
static long elem_val(spif_obj_t o) {
    if (SPIF_OBJ_ISNULL(o)) return 0;
    return atol((const char *) SPIF_STR_STR(SPIF_STR(o)));
}

/* full read-back of a list through the public interface + representation invariants */
static const char *readback(spif_list_t L, const char *which, vh_sb *out) {
    long n = SPIF_LIST_COUNT(L), i;
    static long vals[8192];
    spif_iterator_t it;
    spif_obj_t *arr;

    if (n < 0 || n > 8000) { snprintf(invmsg, sizeof(invmsg), "%s:count=%ld", which, n); return invmsg; }
    sb_putc(out, '[');
    for (i = 0; i < n; i++) {
        spif_obj_t e = SPIF_LIST_GET(L, (spif_listidx_t) i);
        vals[i] = elem_val(e);
        /* every element is still an object of the class it was given as (in the list and in any copy of it) */
        if (!SPIF_OBJ_ISNULL(e) && SPIF_OBJ_CLASS(e) != (url_elems ? SPIF_CLASS_VAR(url) : SPIF_CLASS_VAR(str))) { snprintf(invmsg, sizeof(invmsg), "%s:element_class_changed_at_%ld", which, i); return invmsg; }
        if (i) sb_putc(out, ',');
        sb_int(out, vals[i]);
    }
    sb_putc(out, ']');
    /* get(): out of range and negative indexes */
    if (!SPIF_OBJ_ISNULL(SPIF_LIST_GET(L, (spif_listidx_t) n))) { snprintf(invmsg, sizeof(invmsg), "%s:get(len)!=NULL", which); return invmsg; }
    if (!SPIF_OBJ_ISNULL(SPIF_LIST_GET(L, (spif_listidx_t) (n + 1)))) { snprintf(invmsg, sizeof(invmsg), "%s:get(len+1)!=NULL", which); return invmsg; }
    if (!SPIF_OBJ_ISNULL(SPIF_LIST_GET(L, (spif_listidx_t) (-n - 1)))) { snprintf(invmsg, sizeof(invmsg), "%s:get(-len-1)!=NULL", which); return invmsg; }
    for (i = 1; i <= n; i++) {
        if (elem_val(SPIF_LIST_GET(L, (spif_listidx_t) (-i))) != vals[n - i]) { snprintf(invmsg, sizeof(invmsg), "%s:get(-%ld)_mismatch", which, i); return invmsg; }
    }
    /* a fresh iterator yields every element once, in order, and reports exhaustion exactly then */
    it = SPIF_LIST_ITERATOR(L);
    if (SPIF_ITERATOR_ISNULL(it)) { snprintf(invmsg, sizeof(invmsg), "%s:iterator()=NULL", which); return invmsg; }
    for (i = 0; i < n; i++) {
        if (!SPIF_ITERATOR_HAS_NEXT(it)) { SPIF_ITERATOR_DEL(it); snprintf(invmsg, sizeof(invmsg), "%s:iter_has_next_false_at_%ld_of_%ld", which, i, n); return invmsg; }
        if (elem_val(SPIF_ITERATOR_NEXT(it)) != vals[i]) { SPIF_ITERATOR_DEL(it); snprintf(invmsg, sizeof(invmsg), "%s:iter_next_mismatch_at_%ld", which, i); return invmsg; }
    }
    if (SPIF_ITERATOR_HAS_NEXT(it)) { SPIF_ITERATOR_DEL(it); snprintf(invmsg, sizeof(invmsg), "%s:iter_has_next_true_after_%ld", which, n); return invmsg; }
    if (!SPIF_OBJ_ISNULL(SPIF_ITERATOR_NEXT(it))) { SPIF_ITERATOR_DEL(it); snprintf(invmsg, sizeof(invmsg), "%s:iter_next_after_end!=NULL", which); return invmsg; }
    SPIF_ITERATOR_DEL(it);
    /* to_array */
    arr = SPIF_LIST_TO_ARRAY(L);
    if (n > 0 && !arr) { snprintf(invmsg, sizeof(invmsg), "%s:to_array=NULL", which); return invmsg; }
    for (i = 0; i < n; i++) {
        if (elem_val(arr[i]) != vals[i]) { FREE(arr); snprintf(invmsg, sizeof(invmsg), "%s:to_array_mismatch_at_%ld", which, i); return invmsg; }
    }
    if (arr) FREE(arr);
    /* representation */
    if (!strcmp(cls_name, "array")) {
        spif_array_t a = SPIF_ARRAY(L);
        if (a->len != n) { snprintf(invmsg, sizeof(invmsg), "%s:array.len", which); return invmsg; }
#ifdef VH_ASAN
        if (n > 0 && (!a->items || __sanitizer_get_allocated_size(a->items) < (size_t) n * sizeof(spif_obj_t))) {
            snprintf(invmsg, sizeof(invmsg), "%s:array.items_allocation_smaller_than_len", which); return invmsg;
        }
#endif
    } else if (!strcmp(cls_name, "linked_list")) {
        spif_linked_list_t l = SPIF_LINKED_LIST(L); spif_linked_list_item_t c; long k = 0;
        for (c = l->head; c && k <= n + 1; c = c->next) k++;
        if (k != n || l->len != n) { snprintf(invmsg, sizeof(invmsg), "%s:linked.chain=%ld_len=%ld", which, k, (long) l->len); return invmsg; }
    } else {
        spif_dlinked_list_t l = SPIF_DLINKED_LIST(L); spif_dlinked_list_item_t c, last = NULL; long k = 0;
        if (l->len != n) { snprintf(invmsg, sizeof(invmsg), "%s:dlinked.len", which); return invmsg; }
        for (c = l->head; c && k <= n + 1; c = c->next) {
            if (c->prev != last) { snprintf(invmsg, sizeof(invmsg), "%s:dlinked.prev_link_wrong_at_%ld", which, k); return invmsg; }
            last = c; k++;
        }
        if (k != n) { snprintf(invmsg, sizeof(invmsg), "%s:dlinked.next_chain=%ld_len=%ld", which, k, n); return invmsg; }
        if (l->tail != last) { snprintf(invmsg, sizeof(invmsg), "%s:dlinked.tail_is_not_last_node", which); return invmsg; }
        if (n == 0 && (l->head || l->tail)) { snprintf(invmsg, sizeof(invmsg), "%s:dlinked.empty_but_head_or_tail_set", which); return invmsg; }
        k = 0; last = NULL;
        for (c = l->tail; c && k <= n + 1; c = c->prev) {
            if (c->next != last) { snprintf(invmsg, sizeof(invmsg), "%s:dlinked.next_link_wrong_from_tail_at_%ld", which, k); return invmsg; }
            last = c; k++;
        }
        if (k != n) { snprintf(invmsg, sizeof(invmsg), "%s:dlinked.prev_chain=%ld_len=%ld", which, k, n); return invmsg; }
    }
    return NULL;
}

static void vh_begin(void) { A = new_list(); B = (spif_list_t) NULL; IT = (spif_iterator_t) NULL; it_count = -1; }
static void vh_end(void) {
    if (!SPIF_ITERATOR_ISNULL(IT)) { SPIF_ITERATOR_DEL(IT); IT = (spif_iterator_t) NULL; }
    if (!SPIF_LIST_ISNULL(B)) { SPIF_LIST_DEL(B); B = (spif_list_t) NULL; }
    if (!SPIF_LIST_ISNULL(A)) { SPIF_LIST_DEL(A); A = (spif_list_t) NULL; }
}

#define OP(s) (!strcmp(op, s))
static const char *vh_step(const vh_step_t *st, vh_sb *ret, vh_sb *state) {
    const char *op = st->op, *inv;
    spif_list_t L = A;
    if (op[0] == 'b' && op[1] == '_') { L = B; op += 2; if (OP("del")) op = "b_del"; }

    if (OP("append") || OP("prepend")) {
        spif_obj_t e = mk_elem(st->args[0]);
        spif_bool_t r = OP("append") ? SPIF_LIST_APPEND(L, e) : SPIF_LIST_PREPEND(L, e);
        if (!r) SPIF_OBJ_DEL(e);
        sb_bool(ret, r);
    } else if (OP("insert_at")) {
        spif_obj_t e = mk_elem(st->args[0]);
        spif_bool_t r = SPIF_LIST_INSERT_AT(L, e, (spif_listidx_t) vh_int(st->args[1]));
        if (!r) SPIF_OBJ_DEL(e);          /* refused: the element is still the caller's */
        sb_bool(ret, r);
    } else if (OP("remove")) {
        spif_obj_t p = mk_key(st->args[0]), r = SPIF_LIST_REMOVE(L, p);
        sb_int(ret, elem_val(r));
        if (!SPIF_OBJ_ISNULL(r)) SPIF_OBJ_DEL(r);   /* handed back: the caller's to delete */
        SPIF_OBJ_DEL(p);
    } else if (OP("remove_at")) {
        spif_obj_t r = SPIF_LIST_REMOVE_AT(L, (spif_listidx_t) vh_int(st->args[0]));
        sb_int(ret, elem_val(r));
        if (!SPIF_OBJ_ISNULL(r)) SPIF_OBJ_DEL(r);
    } else if (OP("reverse")) {
        sb_bool(ret, SPIF_LIST_REVERSE(L));
    } else if (OP("done")) {
        sb_bool(ret, SPIF_LIST_DONE(L));
    } else if (OP("get")) {
        sb_int(ret, elem_val(SPIF_LIST_GET(L, (spif_listidx_t) vh_int(st->args[0]))));
    } else if (OP("index")) {
        spif_obj_t p = mk_key(st->args[0]);
        sb_int(ret, (long) SPIF_LIST_INDEX(L, p));
        SPIF_OBJ_DEL(p);
    } else if (OP("find")) {
        spif_obj_t p = mk_key(st->args[0]);
        sb_int(ret, elem_val(SPIF_LIST_FIND(L, p)));
        SPIF_OBJ_DEL(p);
    } else if (OP("contains")) {
        spif_obj_t p = mk_key(st->args[0]);
        sb_bool(ret, SPIF_LIST_CONTAINS(L, p));
        SPIF_OBJ_DEL(p);
    } else if (OP("count")) {
        sb_int(ret, (long) SPIF_LIST_COUNT(L));
    } else if (OP("to_array")) {
        long n = SPIF_LIST_COUNT(L), i; spif_obj_t *arr = SPIF_LIST_TO_ARRAY(L);
        sb_putc(ret, '[');
        for (i = 0; i < n && arr; i++) { if (i) sb_putc(ret, ','); sb_int(ret, elem_val(arr[i])); }
        sb_putc(ret, ']');
        if (arr) FREE(arr);
    } else if (OP("iter_new")) {
        IT = SPIF_LIST_ITERATOR(A); it_count = 0;
        sb_bool(ret, !SPIF_ITERATOR_ISNULL(IT));
    } else if (OP("iter_has_next")) {
        sb_bool(ret, SPIF_ITERATOR_HAS_NEXT(IT));
    } else if (OP("iter_next")) {
        long n = SPIF_LIST_COUNT(A);
        sb_int(ret, elem_val(SPIF_ITERATOR_NEXT(IT)));
        if (it_count <= n) it_count++;
    } else if (OP("iter_del")) {
        sb_bool(ret, SPIF_ITERATOR_DEL(IT)); IT = (spif_iterator_t) NULL; it_count = -1;
    } else if (OP("iter_dup")) {
        /* copy the iterator, delete the original, carry on with the copy */
        spif_iterator_t c = SPIF_ITERATOR_DUP(IT);
        if (SPIF_ITERATOR_ISNULL(c)) return "iter_dup=NULL";
        if (c == IT) return "iter_dup_returned_same_object";
        if (SPIF_OBJ_CLASS(c) != SPIF_OBJ_CLASS(IT)) return "iter_dup_class_differs";
        SPIF_ITERATOR_DEL(IT); IT = c;
        sb_bool(ret, 1);
    } else if (OP("dup")) {
        B = SPIF_LIST(SPIF_LIST_DUP(A));
        if (SPIF_LIST_ISNULL(B)) return "dup=NULL";
        if (B == A) return "dup_returned_same_object";
        if (SPIF_OBJ_CLASS(B) != SPIF_OBJ_CLASS(A)) return "dup_class_differs";
        if ((void *) SPIF_LIST_TYPE(B) != (void *) SPIF_OBJ_CLASS(A)) return "dup_type()_does_not_identify_the_class";
        sb_bool(ret, 1);
    } else if (OP("b_del")) {
        sb_bool(ret, SPIF_LIST_DEL(B)); B = (spif_list_t) NULL;
    } else if (OP("adopt")) {
        spif_bool_t r = SPIF_LIST_DEL(A); A = B; B = (spif_list_t) NULL;
        sb_bool(ret, r);
    } else {
        snprintf(invmsg, sizeof(invmsg), "unknown_op_%s", op);
        return invmsg;
    }

    sb_puts(state, "{a=");
    if ((inv = readback(A, "a", state))) return inv;
    sb_puts(state, ",b={live=");
    if (SPIF_LIST_ISNULL(B)) sb_puts(state, "F,s=[]}");
    else {
        sb_puts(state, "T,s=");
        if ((inv = readback(B, "b", state))) return inv;
        sb_putc(state, '}');
    }
    sb_printf(state, ",it=%d}", it_count);
    if (!SPIF_ITERATOR_ISNULL(IT)) {
        /* the iterator's position is OBSERVED, not only mirrored: a throw-away copy of it is drained and must yield exactly
         * the elements the iterator has not yielded yet (count - yielded of them, the right ones), then report exhaustion */
        long n = SPIF_LIST_COUNT(A), done = it_count < n ? it_count : n, k;
        spif_iterator_t c = SPIF_ITERATOR_DUP(IT);
        if (SPIF_ITERATOR_ISNULL(c)) return "iterator_copy=NULL";
        for (k = done; k < n; k++) {
            if (!SPIF_ITERATOR_HAS_NEXT(c)) { SPIF_ITERATOR_DEL(c); snprintf(invmsg, sizeof(invmsg), "iterator_copy_exhausted_after_%ld_of_%ld_remaining", k - done, n - done); return invmsg; }
            if (elem_val(SPIF_ITERATOR_NEXT(c)) != elem_val(SPIF_LIST_GET(A, (spif_listidx_t) k))) { SPIF_ITERATOR_DEL(c); snprintf(invmsg, sizeof(invmsg), "iterator_copy_yields_wrong_element_at_%ld", k); return invmsg; }
        }
        if (SPIF_ITERATOR_HAS_NEXT(c)) { SPIF_ITERATOR_DEL(c); snprintf(invmsg, sizeof(invmsg), "iterator_copy_not_exhausted_after_the_%ld_remaining", n - done); return invmsg; }
        SPIF_ITERATOR_DEL(c);
    }
    return NULL;
}

int main(int argc, char **argv) {
    if (argc < 3) { fprintf(stderr, "usage: %s <class> <scripts> [first]\n", argv[0]); return 2; }
    cls_name = argv[1];
    {   /* options behind the class name, comma separated: url-elems | url-keys | level=N (run-time debug level) */
        char *c = strchr(argv[1], ':'), *o;
        if (c) {
            *c = 0;
            for (o = strtok(c + 1, ","); o; o = strtok(NULL, ",")) {
                if (!strcmp(o, "url-elems")) url_elems = 1;
                else if (!strcmp(o, "url-keys")) url_keys = 1;
                else if (!strncmp(o, "level=", 6)) run_level = atoi(o + 6);
            }
        }
    }
    libast_set_program_name("list_replay");
    DEBUG_LEVEL = (unsigned int) run_level;      /* the library's trace statements (stderr) must not change what a list does */
    return vh_main(argc, argv, 2);
}
