------------------------------ MODULE VecBagTrace ------------------------------
(* Trace validation for C04: every recorded call of a real vector object (op, args, returned value, *)
(* full projected state) must be a step of VecBag.  The file named by env TRACE holds one JSON      *)
(* object per line; {"op":"reset"} starts a new execution.  An event without a "post" field was     *)
(* recorded with a projected state identical to the one of the previous event of that execution:    *)
(* the specification must then not move either.                                                      *)
EXTENDS VecBag, IOUtils
VARIABLE l
Tr == ndJsonDeserialize(IOEnv.TRACE)

ObsTrace(op, args, ret, post) ==
    /\ op = Tr[l].op /\ args = Tr[l].args /\ ret = Tr[l].ret
    /\ IF "post" \in DOMAIN Tr[l] THEN post = Tr[l].post ELSE post = Pre

TraceInit == Init /\ l = 1
ev == Tr[l]
TraceStep ==
    /\ l <= Len(Tr)
    /\ l' = l + 1
    /\ \/ ev.op = "reset" /\ a' = <<>> /\ b' = <<>> /\ bl' = FALSE /\ it' = NIL
       \/ ev.op = "insert" /\ OpInsert(ev.args[1], ev.args[2])
       \/ ev.op = "remove" /\ OpRemove(ev.args[1], ev.args[2])
       \/ ev.op = "remove_own" /\ OpRemoveOwn(ev.args[1])
       \/ ev.op = "fill" /\ OpFill(ev.args[1], ev.args[2], ev.args[3], ev.args[4])
       \/ ev.op = "done" /\ OpDone
       \/ ev.op = "find" /\ OpFind(ev.args[1], ev.args[2])
       \/ ev.op = "contains" /\ OpContains(ev.args[1], ev.args[2])
       \/ ev.op = "count" /\ OpCount
       \/ ev.op = "to_array" /\ OpToArray
       \/ ev.op = "iter_new" /\ OpIterNew
       \/ ev.op = "iter_has_next" /\ OpIterHasNext
       \/ ev.op = "iter_next" /\ OpIterNext
       \/ ev.op = "iter_del" /\ OpIterDel
       \/ ev.op = "dup" /\ OpDup
       \/ ev.op = "b_del" /\ OpDelB
       \/ ev.op = "b_insert" /\ OpBInsert(ev.args[1])
       \/ ev.op = "b_remove" /\ OpBRemove(ev.args[1])
       \/ ev.op = "b_find" /\ OpBFind(ev.args[1])
       \/ ev.op = "adopt" /\ OpAdopt
TraceSpec == TraceInit /\ [][TraceStep]_<<vars, l>>
\* accepted iff every line was consumed: diameter counts the initial state plus one state per line
TraceAccepted == \/ TLCGet("stats").diameter - 1 = Len(Tr)
                 \/ PrintT(<<"TRACE_REJECTED_AFTER", TLCGet("stats").diameter - 1, "OF", Len(Tr)>>) /\ FALSE
TraceLen == Len(Tr)
================================================================================
