/* Helpers shared by the C12 / C13 / C17 replay harnesses (pure-function cases emitted by TLC).
 * Texts travel as lists of character codes; every input handed to the library is an exact-size heap block
 * (bytes + NUL, nothing else) so that AddressSanitizer's redzones sit directly before byte 0 and behind the NUL. */
#ifndef VERIF_C12_UTIL_H
#define VERIF_C12_UTIL_H
#include "common.h"

/* "-" -> NULL, "[..]" -> exact-size NUL-terminated heap copy */
static unsigned char *cu_text(const char *t, size_t *len) {
    if (t[0] == '-' && t[1] == 0) { if (len) *len = 0; return NULL; }
    return vh_bytes(t, len, 1);
}

/* "[[97],[98,99],[]]" -> array of exact-size NUL-terminated heap strings, NULL-terminated array (exact size too) */
static unsigned char **cu_textlist(const char *t, int *count) {
    int n = 0, depth = 0, i; const char *p; unsigned char **out;
    for (p = t; *p; p++) {
        if (*p == '[') { depth++; if (depth == 2) n++; }
        else if (*p == ']') depth--;
    }
    out = (unsigned char **) malloc(sizeof(unsigned char *) * (size_t) (n + 1));
    i = 0;
    p = t;
    if (*p == '[') p++;
    while (*p && i < n) {
        if (*p == '[') {
            const char *e = strchr(p, ']'); size_t k = (size_t) (e - p) + 1; char *tmp = (char *) malloc(k + 1);
            memcpy(tmp, p, k); tmp[k] = 0;
            out[i++] = vh_bytes(tmp, NULL, 1);
            free(tmp);
            p = e + 1;
        } else p++;
    }
    out[n] = NULL;
    if (count) *count = n;
    return out;
}
static void cu_free_textlist(unsigned char **l) {
    int i;
    if (!l) return;
    for (i = 0; l[i]; i++) free(l[i]);
    free(l);
}

/* Reference-free alternative contents of the same length (never a NUL) for the adversarial prelude ("the same call made
 * just before on a buffer at the SAME address and of the same length but with different content"):
 *   0: the text reversed, every byte that would stay in place changed   1: blanks <-> non-blanks
 *   2: rotated left by one                                               3: a blank at every second place, 'a' elsewhere */
#define CU_ALTS 4
static void cu_alt_content(int variant, unsigned char *dst, const unsigned char *s, size_t len) {
    size_t i;
    for (i = 0; i < len; i++) {
        unsigned char c;
        switch (variant) {
          case 0: c = s[len - 1 - i]; if (c == s[i]) c = (unsigned char) ((c == 'x') ? ' ' : 'x'); break;
          case 1: c = (unsigned char) (isspace(s[i]) ? 'x' : ' '); break;
          case 2: c = s[(i + 1) % len]; break;
          default: c = (unsigned char) ((i & 1) ? ' ' : 'a'); break;
        }
        dst[i] = c;
    }
    dst[len] = 0;
}

/* ---- the run-time debug level as a dimension of every case -------------------------------------------------------
 * libast_debug_level is a process-wide switch (>= 1: a failed ASSERT exits; >= 3, >= 5: trace statements).  The functions
 * of C12 / C13 / C17 are pure: every step is executed at level 0 (this result is the one compared with the reference) and
 * again at every other level of VH_LEVELS (the specification's DebugLevels, e.g. "0,1,3,5"); the rendered result must be
 * identical.  The library's trace / warning text goes to `stderr`, which points at /dev/null while a level > 0 is active
 * (the sanitizer writes to descriptor 2 directly and is not affected).  An exit() inside a step is reported by common.h. */
static int cu_levels[8]; static int cu_nlevels = 0;
static FILE *cu_devnull = NULL;
static vh_sb cu_r2 = {0, 0, 0}, cu_s2 = {0, 0, 0};
static void cu_levels_init(void) {
    const char *e = getenv("VH_LEVELS");
    cu_nlevels = 0;
    while (e && *e && cu_nlevels < 8) {
        char *end; long v = strtol(e, &end, 10);
        if (end == e) break;
        cu_levels[cu_nlevels++] = (int) v;
        e = (*end == ',') ? end + 1 : end;
    }
    if (!cu_nlevels) cu_levels[cu_nlevels++] = 0;
    cu_devnull = fopen("/dev/null", "w");
    { static char iobuf[4096]; if (cu_devnull) setvbuf(cu_devnull, iobuf, _IOFBF, sizeof(iobuf)); }   /* no allocation inside a script */
    sb_need(&cu_r2, 1 << 16); sb_need(&cu_s2, 64);
}
static FILE *cu_real_stderr = NULL;
static void cu_set_level(int level) {
    if (level > 0 && cu_devnull) { if (!cu_real_stderr) cu_real_stderr = stderr; stderr = cu_devnull; }
    else if (cu_real_stderr) { stderr = cu_real_stderr; cu_real_stderr = NULL; }
    DEBUG_LEVEL = (unsigned int) level;
}
typedef const char *(*cu_step_fn)(const vh_step_t *, vh_sb *, vh_sb *);
static const char *cu_step_at_levels(cu_step_fn f, const vh_step_t *st, vh_sb *ret, vh_sb *state) {
    static char msg[200]; const char *bad; int k;
    cu_set_level(0);
    if ((bad = f(st, ret, state))) return bad;
    for (k = 0; k < cu_nlevels; k++) {
        if (cu_levels[k] == 0) continue;
        sb_reset(&cu_r2); sb_reset(&cu_s2);
        cu_set_level(cu_levels[k]);
        bad = f(st, &cu_r2, &cu_s2);
        cu_set_level(0);
        if (bad) { snprintf(msg, sizeof(msg), "at_debug_level_%d:%s", cu_levels[k], bad); return msg; }
        if (strcmp(cu_r2.p, ret->p)) { snprintf(msg, sizeof(msg), "result_depends_on_the_debug_level:differs_at_level_%d", cu_levels[k]); return msg; }
    }
    return NULL;
}

/* NUL-terminated C string as [codes] */
static void sb_cstr(vh_sb *b, const unsigned char *s) {
    if (!s) { sb_putc(b, '-'); return; }
    sb_bytes(b, s, strlen((const char *) s));
}

#endif
