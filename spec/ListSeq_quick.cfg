SPECIFICATION Spec
CONSTANTS
  Elems = {1, 2}
  MaxLen = 3
  Idx <- IdxQuick
  Obs <- ObsEmit
INVARIANTS TypeOK InsertAtLaw ReverseLaw IterLaw
PROPERTY MutatorsOnly
CHECK_DEADLOCK FALSE
